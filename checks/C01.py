"""C01 -- every front-end delivers the request the peer sent, however it is segmented."""
import os, re, json, struct
import vlib
from fe_common import *

META = dict(
    property_id='C01',
    design_ref='DESIGN.md section 4, C01',
    technique='Coq proof (chunk-level HTTP / SCGI / FastCGI readers refine byte- and stream-level machines: segmentation independence by induction; decode-encode round trips for every FastCGI record layout and for header values of every lexical shape; keep-alive: every request as if alone; agreement of the three front-ends incl. forms and cookies; string_map refines the association list for every hash function; string_pool in-bounds invariant) + extracted-model correspondence over a real in-process service and the real header-only classes + implementation-only oracle',
    level_text=('58 theorems in coq/C01/Props.v about the executable model of the HTTP header reader (device getc/ungetc + parser state machine + '
                'header glue + process_request), the SCGI netstring reader, the FastCGI record/params/stdin reader over the read-ahead cache, whole '
                'kept-alive connections, request::prepare (GET/POST urlencoded forms, cookies), the string_map hash map behind connection::env_ and the '
                'string_pool arena: for every segmentation of the byte stream into reads (unbounded), every FastCGI record layout and padding, and k '
                'requests on one connection the application observes exactly the encoded requests, each as if it were alone on a fresh connection; '
                'header values of every lexical shape (LWS-folded, quoted, commented) are delivered as the folded text; HTTP, SCGI and FastCGI deliver '
                'the same environment, view, body, GET/POST form maps and cookies; parse(encode fields) = fields; the environment of a well-formed HTTP '
                'request is transportable (derived, not assumed); for every hash function and any number of variables with distinct names string_map '
                'add/get (linear probing, growth at load factor 1/2, clear) equals the association list, all probe loops terminate; pool and map do not '
                'leak between kept-alive requests; every string_pool allocation stays inside its page. The extracted models (http_conn, scgi_decode_c, '
                'fcgi_conn_c, observe, smap_run, pool_run) and a real cppcms::service (HTTP over loopback TCP, SCGI and FastCGI over unix sockets, sync '
                'and async applications) / the real string_map and string_pool classes run on the same inputs and everything observed is compared; an '
                'independent oracle compares the observation with what the generator encoded.'),
    level_note=('Trusted: Coq kernel; hand transcription of the parsers and of string_map / string_hash (tied by correspondence incl. slot positions; leaf '
                'predicates separator/tocken condition/xdigit/ascii_to_lower by cxx2v + Link.v); ExtrOcamlBasic extraction; harness/fe_service.cpp + accept() '
                'interposition to make segment boundaries real read boundaries; kernel socket behaviour; multipart is checked by the oracle only; duplicate '
                'header / variable names (string_map returns the first or the second value depending on the number of growths, see docs/C01.md) and header '
                'blocks above 16384 bytes (where the real reader does depend on the segmentation) are outside the well-formed domain; the SCGI decimal '
                'length is a parameter of the SCGI round-trip theorem; the Content-Length decimal is a premise (v_clen = |body|).'),
)

GEN = {
    'Gen_C01': dict(src='private/http_protocol.h', functions=[('separator', 'g_separator'), ('xdigit', 'g_xdigit1'),
                                                              ('ascii_to_lower', 'g_ascii_to_lower')]),
}

SKIP_ENV = (b'SERVER_', b'REMOTE_', b'GATEWAY_INTERFACE', b'SCGI', b'CONTENT_LENGTH')


def want_env(k):
    return not any(k.startswith(p) for p in SKIP_ENV)


def canon_item(M, S, P, Q, CT, CL, E, G, O, B, K):
    env = sorted((k, v) for k, v in E.items() if want_env(k))
    return 'M=%s;S=%s;P=%s;Q=%s;CT=%s;CL=%s;E=%s;G=%s;O=%s;B=%s;K=%s' % (
        hx(M), hx(S), hx(P), hx(Q), hx(CT), CL, ','.join(hx(k) + ':' + hx(v) for k, v in env) or '-',
        ','.join(sorted(hx(k) + ':' + hx(v) for k, v in G)) or '-',
        ','.join(sorted(hx(k) + ':' + hx(v) for k, v in O)) or '-', hx(B),
        ','.join(hx(k) + ':' + hx(v) for k, v in sorted(K.items())) or '-')


def echo_bodies(proto, tok):
    """response token -> echo body or a marker"""
    t = tok.endswith('!T')
    b = unhx(tok[:-2] if t else tok)
    if t:
        return None, 'TIMEOUT'
    if proto == 'http':
        r = split_http_response(b)
        if r is None:
            return None, 'NOREPLY' if not b else 'BADREPLY'
        st, h, body, fr, rest = r
        code = st.split(b' ')[1:2]
        if code != [b'200']:
            return None, 'STATUS' + (code[0].decode() if code else '?')
        return body, 'OK'
    if proto == 'scgi':
        r = split_cgi_response(b)
        if r is None:
            return None, 'NOREPLY' if not b else 'BADREPLY'
        h, body = r
        st = dict((n.lower(), v) for n, v in h).get(b'status')
        if st is not None and not st.startswith(b'200'):
            return None, 'STATUS' + st[:3].decode()
        return body, 'OK'
    o, recs, end, rest, ok = unrecord_fcgi(b)
    if not ok:
        return None, 'NOREPLY' if not b else 'BADREPLY'
    r = split_cgi_response(o)
    if r is None:
        return None, 'NOREPLY' if not o else 'BADREPLY'
    h, body = r
    st = dict((n.lower(), v) for n, v in h).get(b'status')
    if st is not None and not st.startswith(b'200'):
        return None, 'STATUS' + st[:3].decode()
    return body, 'OK'


def impl_items(case, out):
    """harness output -> list of (canonical item, cookies dict or None)"""
    proto = case.split()[0]
    toks = out.split()
    items = []
    for t in toks:
        if t.startswith('calls=') or t.startswith('log='):
            continue
        if t in ('CONNECT-FAILED', 'BAD-STEP'):
            items.append((t, None))
            continue
        body, tag = echo_bodies(proto, t)
        if body is None:
            items.append((tag, None))
            continue
        d = parse_echo(body)
        items.append(('OK ' + canon_item(d.get('M', b''), d.get('S', b''), d.get('P', b''), d.get('Q', b''), d.get('CT', b''),
                                         d.get('CL', '?'), d['E'], d['G'], d['O'], d.get('B', b''), d['C']), d['C']))
    return items


def canon_impl_line(case, out):
    """harness output -> canonical ' | '-joined items"""
    if out.startswith('<missing'):
        return out
    return ' | '.join(i for i, _ in impl_items(case, out))


# what the client sees for the model's non-request outcomes: protocol violation = connection dropped without a reply
# (incomplete streams are always sent with a final shutdown of the sending side: the server sees EOF and drops the connection)
MODEL_TAGS = {'ERR': 'NOREPLY', 'BAD400': 'STATUS400', 'NEG400': 'STATUS400', 'BIG413': 'STATUS413', 'NEEDMORE': 'NOREPLY', 'NEEDBODY': 'NOREPLY'}
MOUNTED = (b'/sync', b'/async')


def canon_model_line(out):
    items = []
    for it in out.split(' | '):
        if not it.startswith('OK '):
            if it != 'END':
                items.append(MODEL_TAGS.get(it, it))
            continue
        f = dict(x.split('=', 1) for x in it[3:].split(';'))
        if unhx(f['S']) not in MOUNTED:
            items.append('STATUS404')       # no application is mounted for this script name
            continue

        def pl(s):
            return [] if s == '-' else [tuple(unhx(y) for y in x.split(':')) for x in s.split(',')]
        E = {}
        for k, v in pl(f['E']):
            E.setdefault(k, v)
        K = {}
        for k, v in pl(f['K']):
            K.setdefault(k, v)
        items.append('OK ' + canon_item(unhx(f['M']), unhx(f['S']), unhx(f['P']), unhx(f['Q']), unhx(f['CT']), f['CL'], E,
                                        pl(f['G']), pl(f['O']), unhx(f['B']), K))
    return ' | '.join(items)


# ---------------------------------------------------------------------------- generators
TOK = b'abcdefghijklmnopqrstuvwxyzABCDEFGHIJKLMNOPQRSTUVWXYZ0123456789-_.!~*'
HDR_NAMES = [b'Host', b'User-Agent', b'Accept', b'Accept-Language', b'X-Forwarded-For', b'X-a', b'X-B-c', b'Referer', b'If-None-Match',
             b'x-lower', b'X_under', b'Authorization', b'Cache-Control', b'Pragma', b'Via', b'Range']


def rnd_token(rng, lo=1, hi=8):
    return bytes(rng.choice(TOK) for _ in range(rng.randint(lo, hi)))


def rnd_path(rng):
    segs = []
    for _ in range(rng.randint(0, 4)):
        s = b''
        for _ in range(rng.randint(0, 6)):
            k = rng.random()
            if k < 0.6:
                s += bytes([rng.choice(TOK)])
            elif k < 0.85:
                v = rng.choice([0x20, 0x2f, 0x25, 0x3f, 0x41, 0x7e, 0x80, 0xff, 0x0a, 0x2b, 0x26, 0x3d, 0x01])
                s += (b'%%%02x' if rng.random() < 0.5 else b'%%%02X') % v
            elif k < 0.92:
                s += b'+'
            else:
                s += rng.choice([b'%', b'%4', b'%zz', b'%%41'])   # malformed escapes are dropped by urldecode
        segs.append(s)
    return b''.join(b'/' + s for s in segs)


def rnd_form(rng, n=None):
    items = []
    for _ in range(rng.randint(0, 5) if n is None else n):
        k = bytes(rng.choice(b'abcxyz0189_') for _ in range(rng.randint(1, 5)))
        v = bytes(rng.choice(list(b'abc012 +&=%/?\xc3\xa9~.-_\x00\xff')) for _ in range(rng.randint(0, 8)))
        items.append((k, v))
    import urllib.parse
    enc = b'&'.join(urllib.parse.quote_from_bytes(k, safe='').encode() + b'=' +
                    (urllib.parse.quote_plus(v.decode('latin-1'), encoding='latin-1').encode() if rng.random() < 0.5
                     else urllib.parse.quote_from_bytes(v, safe='').encode()) for k, v in items)
    return items, enc


def rnd_value(rng):
    parts = []
    for _ in range(rng.randint(1, 4)):
        k = rng.random()
        if k < 0.5:
            parts.append(rnd_token(rng))
        elif k < 0.65:
            parts.append(b'"' + bytes(rng.choice(b'abc ,;=()\\x') for _ in range(rng.randint(0, 6))).replace(b'\\', b'\\\\') + b'"')
        elif k < 0.75:
            parts.append(b'(' + bytes(rng.choice(b'abc ,;=') for _ in range(rng.randint(0, 5))) + b')')
        elif k < 0.9:
            parts.append(rng.choice([b'text/html', b'q=0.8', b'*/*', b'a=b', b'en-US,en;q=0.5', b'1.2.3.4']))
        else:
            parts.append(b'\r\n' + rng.choice([b' ', b'\t']) + rnd_token(rng))      # folded continuation
    v = rng.choice([b' ', b', ', b'; ', b'']).join(parts)
    if v.startswith(b'\r\n'):
        v = b'x' + v
    return v


def rnd_req(rng, big=False):
    method = rng.choice([b'GET', b'GET', b'POST', b'POST', b'PUT', b'DELETE', b'OPTIONS', b'M-SEARCH', b'PATCH'])
    script = rng.choice([b'/sync', b'/async'])
    path = rnd_path(rng)
    q = None
    qitems = []
    if rng.random() < 0.6:
        qitems, q = rnd_form(rng)
    names = rng.sample(HDR_NAMES, rng.randint(0, 6))
    headers = [(n, rnd_value(rng)) for n in names]
    cookies = {}
    if rng.random() < 0.4:
        for _ in range(rng.randint(1, 3)):
            cookies.setdefault(rnd_token(rng, 1, 4), rng.choice([rnd_token(rng, 0, 6), b'"q ' + rnd_token(rng, 0, 3) + b';,"']))
        headers.append((b'Cookie', rng.choice([b'; ', b';', b', ']).join(k + b'=' + v for k, v in cookies.items())))
    body = b''
    ct = None
    if method in (b'POST', b'PUT', b'PATCH'):
        k = rng.random()
        if k < 0.5:
            _, body = rnd_form(rng)
            ct = rng.choice([b'application/x-www-form-urlencoded', b'application/x-www-form-urlencoded; charset=UTF-8',
                             b'Application/X-WWW-Form-Urlencoded'])
        else:
            n = rng.choice([0, 1, 2, 7, 100, 1000]) if not big else rng.choice([16383, 16384, 16385, 65535, 65536, 70000, 131071])
            body = bytes(rng.getrandbits(8) for _ in range(n))
            ct = rng.choice([b'application/octet-stream', b'text/plain', None])
    r = Req(method, script, path, q, headers, body, rng.random() < 0.7, ct, False)
    r.cookies = cookies
    return r


def expect_of(r):
    """what the application must observe, as canonical item (independent of the model)"""
    env = cgi_env(r, '')
    qs = r.query if r.query is not None else b''

    def pairs(s):
        out = []
        for it in s.split(b'&'):
            if not it:
                continue
            k, _, v = it.partition(b'=')
            out.append((urldecode(k), urldecode(v)))
        return out
    post = pairs(r.body) if (r.content_type or b'').lower().startswith(b'application/x-www-form-urlencoded') else []
    cl = str(len(r.body)) if (r.body or r.method == b'POST') else '0'
    # cookies (oracle only, not in the Coq model): a quoted value is delivered without its quotes
    has_cookie = any(n.lower() == b'cookie' for n, _ in r.headers)      # generators may have dropped the header again
    ck = dict((k, v[1:-1] if v.startswith(b'"') else v) for k, v in (getattr(r, 'cookies', {}) if has_cookie else {}).items())
    return canon_item(r.method, r.script, urldecode(r.path), qs, r.content_type or b'', cl,
                      {k: v for k, v in env.items()}, pairs(qs), post, r.body, ck)


def segment(rng, data, mode):
    n = len(data)
    if mode == 'whole' or n < 2:
        return [data]
    if mode == 'bytes':
        return [data[i:i + 1] for i in range(n)]
    cuts = set()
    if mode == 'special':
        for m in re.finditer(rb'\r\n|\r|\n|: |\?| ', data[:4000]):
            if rng.random() < 0.5:
                cuts.add(m.start() + rng.choice([0, 1, 2]))
        he = data.find(b'\r\n\r\n')
        if he >= 0:
            cuts |= {he + rng.choice([1, 2, 3, 4, 5])}
    else:
        for _ in range(rng.randint(1, 8)):
            cuts.add(rng.randrange(1, n))
    pts = [0] + sorted(c for c in cuts if 0 < c < n) + [n]
    return [data[a:b] for a, b in zip(pts, pts[1:])]


def case_line(proto, reqs_segs, expects, reads):
    steps = []
    for segs, rd in zip(reqs_segs, reads):
        steps += ['S:' + hx(s) for s in segs] + [rd]
    return proto + ' ' + ' '.join(steps) + ' X:' + hx(json.dumps(expects).encode())


def encode(rng, r, proto, keep):
    if proto == 'http':
        r.keep_alive = keep
        return enc_http(r), 'R'
    if proto == 'scgi':
        return enc_scgi(r), 'E'
    plen = 400
    pc = sorted(rng.sample(range(1, plen), rng.randint(0, 3)))
    sc = sorted(rng.sample(range(1, max(2, len(r.body))), min(rng.randint(0, 3), max(0, len(r.body) - 1)))) if len(r.body) > 1 else []
    padk = rng.choice([0, 0, 1, 7, 8, 255, None])
    return enc_fcgi(r, rid=rng.choice([1, 1, 2, 255, 65535]), keep_conn=keep, params_cuts=pc, stdin_cuts=sc,
                    pads=(lambda: rng.randrange(0, 256)) if padk is None else (lambda: padk)), 'R'


def gen_cases(ctx):
    rng = ctx.rng
    cases = []
    # 1. every single split point of short requests, all three protocols
    for _ in range(ctx.scale(6, 30)):
        r = rnd_req(rng)
        r.headers = r.headers[:2]
        for proto in ('http', 'scgi', 'fcgi'):
            data, rd = encode(rng, r, proto, False)
            exp = [expect_of(r)]
            if len(data) > 260:
                continue
            for i in range(1, len(data)):
                cases.append(case_line(proto, [[data[:i], data[i:]]], exp, [rd]))
    # 2. random / special / byte-wise segmentations of random requests, and pairs of split points
    for _ in range(ctx.scale(200, 2000)):
        r = rnd_req(rng, big=rng.random() < 0.04)
        for proto in ('http', 'scgi', 'fcgi'):
            data, rd = encode(rng, r, proto, False)
            exp = [expect_of(r)]
            modes = ['whole', rng.choice(['random', 'special']), rng.choice(['random', 'special', 'bytes' if len(data) < 600 else 'random'])]
            for m in modes:
                cases.append(case_line(proto, [segment(rng, data, m)], exp, [rd]))
    # 3. keep-alive sequences (http keep-alive, fastcgi keep_conn), incl. pipelined requests in one segment
    for _ in range(ctx.scale(120, 800)):
        k = rng.randint(2, 4)
        reqs = [rnd_req(rng) for _ in range(k)]
        for proto in ('http', 'fcgi'):
            encs = [encode(rng, r, proto, True) for r in reqs]
            exp = [expect_of(r) for r in reqs]
            segs = [segment(rng, d, rng.choice(['whole', 'random', 'special'])) for d, _ in encs]
            cases.append(case_line(proto, segs, exp, [rd for _, rd in encs]))
            if rng.random() < 0.5:
                # pipelined: everything sent before the first response is read
                alld = b''.join(d for d, _ in encs)
                sg = segment(rng, alld, rng.choice(['whole', 'random']))
                steps = ['S:' + hx(s) for s in sg] + [rd for _, rd in encs]
                cases.append(proto + ' ' + ' '.join(steps) + ' X:' + hx(json.dumps(exp).encode()))
    # 4. requests with a long header value after a short one on a kept-alive connection (string pool pages)
    for _ in range(ctx.scale(30, 150)):
        r1 = rnd_req(rng)
        r1.headers = [(b'X-Long', bytes(rng.choice(TOK) for _ in range(rng.choice([1024, 1025, 1500, 2047, 2048, 3000]))))]
        r2 = rnd_req(rng)
        r2.headers = [(n, bytes(rng.choice(TOK) for _ in range(rng.randint(50, 200)))) for n in HDR_NAMES[:rng.randint(5, 12)]]
        for proto in ('http', 'fcgi'):
            encs = [encode(rng, r, proto, True) for r in (r1, r2, r1)]
            exp = [expect_of(r) for r in (r1, r2, r1)]
            cases.append(case_line(proto, [[d] for d, _ in encs], exp, [rd for _, rd in encs]))
    cases += gen_manyvars(ctx)
    cases += gen_lexical(ctx)
    cases += gen_forms_cookies(ctx)
    cases += gen_keepalive_long(ctx)
    cases += gen_boundary(ctx)
    cases += gen_malformed(ctx)
    cases += gen_cookies(ctx)
    return cases


def pad_to(build, target, lo=0, hi=40000):
    """smallest k such that len(build(k)) == target (build is monotone in k); None if unreachable"""
    for k in range(lo, hi):
        n = len(build(k))
        if n == target:
            return k
        if n > target:
            return None
    return None


def cap_split(segs):
    """the HTTP header reader takes at most 16384 bytes per read: keep every segment within one read"""
    out = []
    for x in segs:
        out += [x[i:i + 16384] for i in range(0, len(x), 16384)] or [x]
    return out


def rnd_lex_value(rng):
    """header value text aimed at the lexical states of parser::step: quoted strings with escapes, parentheses inside quotes, nested
    comments with escapes and quotes inside, LWS continuation lines (CRLF SP / CRLF HT, several in a row, followed by more white space)
    between the pieces"""
    def quoted():
        body = b''
        for _ in range(rng.randint(0, 6)):
            body += rng.choice([b'a', b' ', b'(', b')', b'((', b'\\"', b'\\\\', b'\\(', b',', b';', b'=', b'\t', b'\\a'])
        return b'"' + body + b'"'

    def comment():
        # parser::step does not nest comments: the first unescaped ")" closes; "(" and the double quote are plain bytes inside
        body = b''
        for _ in range(rng.randint(0, 5)):
            body += rng.choice([b'c', b' ', b'"', b'(', b'\\)', b'\\(', b'\\\\', b'x=y', b';', b'\t'])
        return b'(' + body + b')'
    parts = [rnd_token(rng)]
    for _ in range(rng.randint(1, 5)):
        k = rng.random()
        if k < 0.3:
            parts.append(quoted())
        elif k < 0.55:
            parts.append(comment())
        elif k < 0.8:
            parts.append(b''.join(b'\r\n' + rng.choice([b' ', b'\t', b'  ', b' \t']) for _ in range(rng.randint(1, 2))) + rnd_token(rng))
        else:
            parts.append(rng.choice([b' ', b'\t', b', ', b';q=0.5', b'=']) + rnd_token(rng, 0, 3))
    return b''.join(parts)


def gen_lexical(ctx):
    """folded / quoted / commented header values on all three front ends (the HTTP reader folds; SCGI and FastCGI peers send the folded text)"""
    rng = ctx.rng
    cases = []
    for _ in range(ctx.scale(40, 400)):
        r = rnd_req(rng)
        names = rng.sample(HDR_NAMES, rng.randint(1, 4))
        r.headers = [(n, rnd_lex_value(rng)) for n in names]
        for proto in ('http', 'scgi', 'fcgi'):
            data, rd = encode(rng, r, proto, False)
            for m in (['special', 'bytes' if len(data) < 500 else 'random'] if proto == 'http' else ['whole']):
                cases.append(case_line(proto, [segment(rng, data, m)], [expect_of(r)], [rd]))
    return cases


def form_req(rng, full=False):
    """request with GET fields, POST fields (urlencoded body) and cookies; field names and values over all 256 byte values"""
    import urllib.parse

    def field_bytes(lo, hi):
        return bytes(rng.randrange(256) if rng.random() < 0.5 else rng.choice(b'ab =&+%;/?') for _ in range(rng.randint(lo, hi)))

    def enc(items):
        out = []
        for k, v in items:
            ek = urllib.parse.quote_from_bytes(k, safe='').encode()
            ev = urllib.parse.quote_from_bytes(v, safe='').encode()
            if rng.random() < 0.3:
                ev = ev.replace(b'%20', b'+')
            if rng.random() < 0.3:
                ev = ev.lower()             # %3d as well as %3D
            out.append(ek + b'=' + ev)
        return b'&'.join(out)
    n = rng.choice([1, 2, 5, 50]) if full else rng.randint(0, 4)
    gets = [(field_bytes(1, 4), field_bytes(0, 6)) for _ in range(n)]
    posts = [(field_bytes(1, 4), field_bytes(0, 6)) for _ in range(rng.choice([1, 3, 40]) if full else rng.randint(0, 4))]
    r = Req(b'POST', rng.choice([b'/sync', b'/async']), rnd_path(rng), enc(gets) if gets else None, [], enc(posts), True,
            rng.choice([b'application/x-www-form-urlencoded', b'application/X-WWW-form-urlencoded;charset=x']), False)
    cookies = {}
    for _ in range(rng.choice([0, 1, 3, 20]) if full else rng.randint(0, 3)):
        cookies.setdefault(rnd_token(rng, 1, 5), rnd_token(rng, 0, 8))
    r.cookies = cookies
    if cookies:
        r.headers.append((rng.choice([b'Cookie', b'cookie', b'COOKIE', b'cOOkie']), rng.choice([b'; ', b';', b' ; ']).join(k + b'=' + v for k, v in cookies.items())))
    return r


def gen_forms_cookies(ctx):
    """GET / POST urlencoded fields over all byte values, '+' and %20, upper and lower case escapes, many fields; cookie lists of
    1..20 cookies under every spelling of the header name; on all three front ends"""
    rng = ctx.rng
    cases = []
    for _ in range(ctx.scale(30, 300)):
        r = form_req(rng, full=rng.random() < 0.4)
        for proto in ('http', 'scgi', 'fcgi'):
            data, rd = encode(rng, r, proto, False)
            cases.append(case_line(proto, [segment(rng, data, rng.choice(['whole', 'random', 'special']))], [expect_of(r)], [rd]))
    return cases


def gen_keepalive_long(ctx):
    """kept-alive connections with 5..8 requests of every kind (forms, cookies, folded / quoted header values, many variables,
    bodies), sent request by request, pipelined in one write, or pipelined and cut anywhere (also byte by byte)"""
    rng = ctx.rng
    cases = []
    for _ in range(ctx.scale(14, 120)):
        k = rng.randint(5, 8)
        reqs = []
        for _ in range(k):
            c = rng.random()
            if c < 0.3:
                r = form_req(rng)
            elif c < 0.6:
                r = rnd_req(rng)
                r.headers = [(n, rnd_lex_value(rng)) for n in rng.sample(HDR_NAMES, rng.randint(1, 3))]
                r.cookies = {}
            elif c < 0.75:
                r = rnd_req(rng)
                r.headers = [(b'X-V-%d' % i, rnd_token(rng, 1, 5)) for i in range(rng.choice([30, 40, 70]))]
                r.cookies = {}
            else:
                r = rnd_req(rng)
            reqs.append(r)
        for proto in ('http', 'fcgi'):
            encs = [encode(rng, r, proto, True) for r in reqs]
            exp = [expect_of(r) for r in reqs]
            mode = rng.choice(['each', 'pipe', 'pipecut', 'pipebytes'])
            if mode == 'each':
                cases.append(case_line(proto, [segment(rng, d, rng.choice(['whole', 'random', 'special'])) for d, _ in encs], exp, [rd for _, rd in encs]))
                continue
            alld = b''.join(d for d, _ in encs)
            sg = segment(rng, alld, {'pipe': 'whole', 'pipecut': 'random', 'pipebytes': 'bytes' if len(alld) < 1500 else 'special'}[mode])
            cases.append(proto + ' ' + ' '.join(['S:' + hx(x) for x in cap_split(sg)] + [rd for _, rd in encs]) + ' X:' + hx(json.dumps(exp).encode()))
    return cases


def gen_manyvars(ctx):
    """requests carrying 1..140 additional variables on every front end: connection::env_ (string_map) grows at the 33rd, 65th and
    129th variable; every accessor of the echo application is a get() on the grown table (also for absent names: HTTP_COOKIE,
    CONTENT_TYPE), getenv() is its iteration; a small request afterwards on the kept connection sees the cleared map"""
    rng = ctx.rng
    cases = []
    ns = set([1, 2, 140] + list(range(18, 34, 3)) + list(range(50, 66, 3)) + list(range(114, 130, 3))) if ctx.tier == 'quick' else set(range(1, 141))
    ns |= set(rng.sample(range(1, 141), ctx.scale(8, 20)))
    for n in sorted(ns):
        r = rnd_req(rng)
        names = smap_names(rng, n, None)
        r.headers = [(b'X-' + k.replace(b'_', b'-') + b'-%d' % i, rnd_token(rng, 1, 6)) for i, k in enumerate(names)]
        small = rnd_req(rng)
        small.headers = small.headers[:2]
        for proto in ('http', 'scgi', 'fcgi'):
            data, rd = encode(rng, r, proto, False)
            cases.append(case_line(proto, [segment(rng, data, rng.choice(['whole', 'random']))], [expect_of(r)], [rd]))
        if rng.random() < (0.4 if ctx.tier == 'quick' else 1.0):
            for proto in ('http', 'fcgi'):
                encs = [encode(rng, x, proto, True) for x in (r, small, r)]
                cases.append(case_line(proto, [[d] for d, _ in encs], [expect_of(x) for x in (r, small, r)], [rd for _, rd in encs]))
    return cases


def gen_boundary(ctx):
    """size limits and case splits of the readers: SCGI header block 16384/16385, FastCGI PARAMS 16383/16384, HTTP 16384 byte
    header cap (tested only when a read ends inside the headers), script name matched on a path component boundary only"""
    rng = ctx.rng
    cases = []
    for _ in range(ctx.scale(2, 10)):
        # --- script name prefix that does not end on a component boundary: no application
        r = rnd_req(rng)
        r.headers = r.headers[:2]
        suffix = rng.choice([b'x', b'.', b'%2f', b'-', b'0/a', b'x/sync'])
        good = rng.random() < 0.3
        data = enc_http(Req(r.method, r.script + (b'' if good else suffix), r.path, r.query, r.headers, r.body, True, r.content_type, False))
        exp = [expect_of(r)] if good else ['!STATUS404']
        for m in ('whole', 'special'):
            cases.append(case_line('http', [segment(rng, data, m)], exp, ['R']))
        # --- SCGI: header block of exactly 16384 bytes is accepted, 16385 is a protocol violation
        for target, ok in ((16384, True), (16385, False), (16383, True)):
            r = rnd_req(rng)
            r.headers = r.headers[:1]
            base = list(r.headers)

            def blob(k):
                r.headers = base + [(b'X-Pad', b'p' * k)]
                d = enc_scgi(r)
                return d[d.index(b':') + 1: len(d) - len(r.body) - 1]
            k = pad_to(blob, target, 15000)
            if k is None:
                continue
            blob(k)
            data = enc_scgi(r)
            segs = segment(rng, data, rng.choice(['whole', 'random']))
            cases.append('scgi ' + ' '.join('S:' + hx(x) for x in segs) + ' E' + (' X:' + hx(json.dumps([expect_of(r)]).encode()) if ok else ''))
        # --- FastCGI: PARAMS stream of 16383 bytes is accepted in any layout, 16384 is a protocol violation
        for target, ok in ((16383, True), (16384, False)):
            r = rnd_req(rng)
            r.headers = r.headers[:1]
            base = list(r.headers)

            def blob(k):
                r.headers = base + [(b'X-Pad', b'p' * k)]
                env = cgi_env(r, 'fcgi')
                env.setdefault(b'CONTENT_LENGTH', b'0')
                return fcgi_pairs(sorted(env.items()))
            k = pad_to(blob, target, 15000)
            if k is None:
                continue
            blob(k)
            pc = sorted(rng.sample(range(1, target), rng.randint(0, 4)))
            data = enc_fcgi(r, rid=1, keep_conn=False, params_cuts=pc, stdin_cuts=[], pads=lambda: rng.choice([0, 3, 255]))
            segs = segment(rng, data, rng.choice(['whole', 'random']))
            cases.append('fcgi ' + ' '.join('S:' + hx(x) for x in segs) + ' R' + (' X:' + hx(json.dumps([expect_of(r)]).encode()) if ok else ''))
        # --- HTTP: the 16384 byte cap is tested when a read ends inside the headers: total 16384 passes, 16385 fails
        for total2, ok in ((16384, True), (16385, False), (16383, True)):
            r = rnd_req(rng)
            r.headers = [(b'X-Pad', b'p' * 16500)] + r.headers[:1]
            data = enc_http(r)
            a = rng.randint(1, 16000)
            segs = cap_split([data[:a], data[a:total2], data[total2:]])
            cases.append('http ' + ' '.join('S:' + hx(x) for x in segs) + ' R')
        # --- HTTP: header block of exactly 16384 / 16385 / 20000 bytes delivered in reads that never stop inside it above the cap
        for hb in (16384, 16385, 20000):
            r = rnd_req(rng)
            r.headers = r.headers[:1]
            base = list(r.headers)

            def hdr(k):
                r.headers = [(b'X-Pad', b'p' * k)] + base
                d = enc_http(r)
                return d[:len(d) - len(r.body)]
            k = pad_to(hdr, hb, 15000)
            if k is None:
                continue
            hdr(k)
            data = enc_http(r)
            a = rng.randint(1, 16000)
            cases.append('http ' + ' '.join('S:' + hx(x) for x in cap_split([data[:a], data[a:]])) + ' R' + (' X:' + hx(json.dumps([expect_of(r)]).encode()) if hb <= 16384 else ''))
    return cases


def gen_cookies(ctx):
    """Cookie headers of every shape (attributes with $, missing =, quoted strings with escapes, stray separators) handed over
    verbatim by SCGI / FastCGI: model = implementation on request::parse_cookies (no expectation)"""
    rng = ctx.rng
    pieces = [b'a', b'b1', b'k', b'=', b'=', b';', b'; ', b',', b' ', b'\t', b'"', b'"q"', b'"a b;,"', b'"x\\"y"', b'\\', b'$Path', b'$path=/p', b'$PATH="/q"',
              b'$Domain=d', b'$Version=1', b'v', b'val-1.2', b'a=b', b'k=', b'=v', b'a b', b'(c)', b'@', b'/', b'k=v', b'\r\n x', b'\x80', b'k=v;k=w']
    cases = []
    for _ in range(ctx.scale(150, 1500)):
        ck = b''.join(rng.choice(pieces) for _ in range(rng.randint(1, 9)))
        r = Req(b'GET', rng.choice([b'/sync', b'/async']), b'/c', None, [], b'', True, None, False)
        env = cgi_env(r, '')
        env[b'HTTP_COOKIE'] = ck
        proto = rng.choice(['scgi', 'fcgi'])
        if proto == 'scgi':
            blob = b''.join(k + b'\0' + v + b'\0' for k, v in [(b'CONTENT_LENGTH', b'0'), (b'SCGI', b'1')] + sorted(env.items()))
            data = str(len(blob)).encode() + b':' + blob + b','
            cases.append('scgi S:' + hx(data) + ' E')
        else:
            env[b'CONTENT_LENGTH'] = b'0'
            data = fcgi_rec(1, 1, struct.pack('>HB5x', 1, 0)) + fcgi_rec(4, 1, fcgi_pairs(sorted(env.items()))) + fcgi_rec(4, 1, b'') + fcgi_rec(5, 1, b'')
            cases.append('fcgi S:' + hx(data) + ' R')
    return cases


def gen_malformed(ctx):
    """a small malformed stream aimed at the error branches of the three readers (no expectation: model = implementation only);
    robustness against arbitrary malformed input is property C02"""
    rng = ctx.rng
    cases = []
    H = [b'GET /sync/a HTTP/1.1\r\nBad header\r\n\r\n', b'GET /sync/a HTTP/1.1\r\n: v\r\n\r\n', b'GET /sync/a HTTP/1.1\r\nA: b\rX\r\n\r\n',
         b'GET /sync/a HTTP/1.1\r\nA: "\\\xff"\r\n\r\n', b'GET /sync/a HTTP/1.1\r\nA: (c\\\x7f)\r\n\r\n', b'GET /sync/a\r\n\r\n', b'GET\r\n\r\n',
         b'G@T /sync/a HTTP/1.1\r\n\r\n', b' /sync/a HTTP/1.1\r\n\r\n', b'GET sync/a HTTP/1.1\r\n\r\n', b'\r\n', b'\rX', b'GET /sync/a HTTP/1.1\r\nA : b\r\n\r\n',
         b'GET /sync/a HTTP/1.1\r\nA: "q\r\n x" (c\r\n y)\r\n\r\n', b'GET /sync/a HTTP/1.1\r\nContent-Length: -5\r\n\r\n',
         b'GET /sync/a?x=1&&y=2&z HTTP/1.1\r\n\r\n', b'GET /sync/a?=1 HTTP/1.1\r\n\r\n', b'POST /sync/a HTTP/1.1\r\nContent-Length: 2000000\r\n\r\n']
    for d in H:
        for m in ('whole', 'bytes', 'random'):
            cases.append('http ' + ' '.join('S:' + hx(x) for x in segment(rng, d, m)) + ' R')
    # incomplete streams, ended by a shutdown of the sending side
    for d in (b'GET /sync/a HTTP/1.1\r\nHost: x\r\n', b'GET /sync/a HTTP/1.1\r\nHost: x\r\n\r', b'POST /sync/a HTTP/1.1\r\nContent-Length: 5\r\n\r\nabc', b'GET /sy'):
        for m in ('whole', 'random'):
            cases.append('http ' + ' '.join('S:' + hx(x) for x in segment(rng, d, m)) + ' H R')
    blob = b'CONTENT_LENGTH\x000\x00SCGI\x001\x00REQUEST_METHOD\x00GET\x00SCRIPT_NAME\x00/sync\x00PATH_INFO\x00/a\x00'
    S = [b'%d:' % len(blob) + blob + b';', b'%d;' % len(blob) + blob + b',', b'00000000000000070:' + blob + b',', b'-1:' + blob + b',',
         b'16385:' + blob + b',', b'1:,' + blob, b'%d:' % (len(blob) - 1) + blob + b',', b' %d:' % len(blob) + blob + b',',
         b'+%d:' % len(blob) + blob + b',', b'%d:' % (len(blob) + 7) + blob + b'ODDKEY\x00,']
    for d in S:
        for m in ('whole', 'random'):
            cases.append('scgi ' + ' '.join('S:' + hx(x) for x in segment(rng, d, m)) + ' E')
    r = Req(b'POST', b'/sync', b'/a', None, [], b'abc', True, b'text/plain', False)
    good = enc_fcgi(r)
    F = [bytes([2]) + good[1:],                                              # wrong version
         good[:8 + 8] + fcgi_rec(5, 1, b'') + good[16:],                     # STDIN where PARAMS are expected
         good[:16] + fcgi_rec(4, 2, b'\x01\x01ab') + good[16:],              # PARAMS of another request id
         enc_fcgi(Req(b'POST', b'/sync', b'/a', None, [], b'abc', True, None, False)).replace(b'\x0e\x01CONTENT_LENGTH3', b'\x0e\x01CONTENT_LENGTH2'),
         good[:len(good) - 8],                                               # no STDIN end record: completed by EOF
         fcgi_rec(1, 1, struct.pack('>HB4x', 1, 0)) + good[16:],             # BEGIN_REQUEST body of 7 bytes
         good[:16] + fcgi_rec(4, 1, b'\x05\x01ab') + fcgi_rec(4, 1, b'') + fcgi_rec(5, 1, b'')]   # truncated name-value pair
    for d in F:
        for m in ('whole', 'random'):
            cases.append('fcgi ' + ' '.join('S:' + hx(x) for x in segment(rng, d, m)) + ' H R')
    return cases


# ---------------------------------------------------------------------------- string_pool (private/string_map.h)
def gen_pool(ctx):
    rng = ctx.rng
    sizes = [0, 1, 2, 9, 10, 100, 511, 1000, 1023, 1024, 1025, 1500, 2046, 2047, 2048, 2049, 3000, 5000]
    cases = ['pool c s9 a10 s1500 c ' + ' '.join(['a100'] * 24),        # the witness of the repaired clear() defect
             'pool a1024 a1024 a1 a1025 c a2048 a1', 'pool ' + ' '.join(['s1023'] * 5) + ' c ' + ' '.join(['s1023'] * 5)]
    for _ in range(ctx.scale(300, 3000)):
        ops = []
        for _ in range(rng.randint(1, 40)):
            k = rng.random()
            if k < 0.12:
                ops.append('c')
            else:
                n = rng.choice(sizes) if rng.random() < 0.6 else rng.randint(0, 2200)
                ops.append(('a' if rng.random() < 0.5 else 's') + str(n))
        cases.append('pool ' + ' '.join(ops))
    return cases


def pool_canon(out):
    return ' '.join(':'.join(t.split(':')[:3]) for t in out.split())


def pool_oracle(case, out):
    """every allocation lies inside the malloc block of the page it was carved from (and ASan saw no overrun)"""
    if out.startswith('<crash'):
        return ('pool-overrun', 'string_pool harness died (ASan): ' + out[:300])
    for t in out.split():
        if t == '-':
            continue
        f = t.split(':')
        if len(f) != 4:
            return ('pool-outside', 'allocation outside every page: ' + t)
        if int(f[1]) + int(f[2]) > int(f[3]):
            return ('pool-overrun', 'allocation %s exceeds its page' % t)
    return None



# ---------------------------------------------------------------------------- string_map (private/string_map.h)
def elf_hash(k):
    st = 0
    for c in k:
        st = ((st << 4) + c) & 0xffffffff
        high = st & 0xF0000000
        if high:
            st = (st ^ (high >> 24)) ^ high
    return st


SMAP_NS = [0, 1, 2, 3, 16, 31, 32, 33, 34, 63, 64, 65, 66, 127, 128, 129, 130, 140, 200, 257]
CGI_NAMES = [b'SERVER_PROTOCOL', b'REQUEST_METHOD', b'QUERY_STRING', b'SCRIPT_NAME', b'PATH_INFO', b'CONTENT_LENGTH', b'CONTENT_TYPE',
             b'HTTP_HOST', b'HTTP_COOKIE', b'HTTP_ACCEPT', b'REMOTE_ADDR', b'REMOTE_HOST', b'SERVER_NAME', b'SERVER_PORT', b'HTTPS', b'GATEWAY_INTERFACE']


def smap_names(rng, n, collide=None):
    """n distinct CGI-like names; collide = (modulus, residue): every name hashes to that residue (linear probing, wrap-around)"""
    out, seen = [], set()
    base = list(CGI_NAMES)
    rng.shuffle(base)
    i = 0
    while len(out) < n:
        if collide is None and base and rng.random() < 0.5:
            k = base.pop()
        else:
            i += 1
            k = rng.choice([b'HTTP_X_V%d', b'HTTP_X%d', b'X%d', b'HTTP_ACCEPT_%d', b'k%d']) % rng.randrange(0, 1000000)
            if collide is not None or rng.random() < 0.3:
                k += bytes(rng.choice(b'ABCDEFGHIJKLMNOPQRSTUVWXYZ_abcdefghijklmnopqrstuvwxyz') for _ in range(2))
        if k in seen or (collide is not None and elf_hash(k) % collide[0] != collide[1]):
            continue
        seen.add(k)
        out.append(k)
    return out


def gen_smap(ctx):
    rng = ctx.rng
    cases = []

    def val():
        return rng.choice([b'', b'1', b'text/html', rnd_token(rng, 1, 12), b'a b;c=d', b'\xff\x80'])

    def line(names, dup=0, extra_ops=()):
        adds = [(k, val()) for k in names]
        for _ in range(dup):
            if adds:
                adds.insert(rng.randrange(0, len(adds) + 1), (rng.choice(adds)[0], val()))
        ops = ['a%s=%s' % (hx(k), hx(v)) for k, v in adds]
        probes = list(names) if len(names) <= 40 else rng.sample(names, 40)
        absent = [b'HTTP_ABSENT', b'', b'CONTENT_TYPE_', b'Z'] + [k + b'x' for k in probes[:3]] + [k[:-1] for k in probes[:3]]
        gets = ['g' + hx(k) for k in probes + [a for a in absent if a not in names]]
        rng.shuffle(gets)
        # lookups interleaved with the adds (request::prepare reads while nothing is added any more; the HTTP front end reads
        # CONTENT_LENGTH etc. after the last add) and a dump at the end
        cut = rng.randrange(0, len(ops) + 1)
        return 'smap ' + ' '.join(ops[:cut] + gets[:5] + ops[cut:] + ['d'] + gets + list(extra_ops))
    for n in SMAP_NS:
        cases.append(line(smap_names(rng, n)))
    for _ in range(ctx.scale(60, 600)):
        n = rng.choice(SMAP_NS) if rng.random() < 0.5 else rng.randint(0, 140)
        k = rng.random()
        if k < 0.35:
            cases.append(line(smap_names(rng, n)))
        elif k < 0.6:
            mod = rng.choice([64, 128, 256])
            cases.append(line(smap_names(rng, min(n, 70), (mod, rng.choice([0, 1, mod - 1, mod - 2, 63, rng.randrange(mod)]) % mod))))
        elif k < 0.8:
            cases.append(line(smap_names(rng, n), dup=rng.randint(1, 3)))
        else:
            # clear() between two requests on one connection: the second request is served from the initial map
            a = line(smap_names(rng, n))
            b = line(smap_names(rng, rng.choice(SMAP_NS[:14])))
            cases.append(a + ' c d ' + b[5:])
    return cases


def smap_oracle(case, out):
    """string_map alone: every name added exactly once is retrievable with its value, a name added several times yields one of its values,
    an absent name yields the null pointer, no probe loop runs away, total_*2 <= size after every add, the iteration visits exactly the added names"""
    if out.startswith('<crash') or 'LOOP' in out.split():
        return ('smap-loop', 'string_map probe loop does not stop / harness died: ' + out[:200])
    toks = out.split()
    if toks == ['=']:
        toks = []
    cur = {}
    order = []
    ti = 0
    for op in case.split()[1:]:
        if op[0] == 'a':
            k, v = op[1:].split('=')
            cur.setdefault(unhx(k), []).append(unhx(v))
            order.append(unhx(k))
        elif op[0] == 'c':
            cur, order = {}, []
        elif op[0] == 'g':
            if ti >= len(toks):
                return ('smap-short', 'missing results')
            t = toks[ti]
            ti += 1
            k = unhx(op[1:])
            if k not in cur:
                if t != '0':
                    return ('smap-get', 'lookup of the absent name %r returned %s' % (k, t))
            elif t == '0' or unhx(t) not in cur[k]:
                return ('smap-get', 'name %r was added with %r, get returned %s' % (k, cur[k], t))
        elif op[0] == 'd':
            if ti >= len(toks):
                return ('smap-short', 'missing results')
            t = toks[ti]
            ti += 1
            m = re.match(r'D(\d+)/(\d+)\[(.*)\]$', t)
            if not m:
                return ('smap-dump', 'bad dump ' + t[:80])
            size, total = int(m.group(1)), int(m.group(2))
            items = [x.split(':') for x in m.group(3).split(',')] if m.group(3) else []
            if total != len(order) or total * 2 > size or sorted(unhx(k) for _, k in items) != sorted(order) \
                    or len(set(p for p, _ in items)) != len(items) or any(not 0 <= int(p) < size for p, _ in items):
                return ('smap-dump', 'iteration / load factor wrong: %d adds, dump %s' % (len(order), t[:120]))
    return None


_HANG = {'seen': False}


def oracle(case, out):
    if out.startswith('<crash'):
        return ('frontend-crash', 'harness/service died: ' + out)
    if out.startswith('<missing'):
        # only the first unanswered case of a run is reported: the cases after it in the same harness process are unanswered as well
        if _HANG['seen']:
            return None
        _HANG['seen'] = True
        return ('frontend-hang', 'the service stopped answering (hung or died) at this case')
    toks = case.split()
    proto = toks[0]
    x = [t for t in toks if t.startswith('X:')]
    if not x:
        return None
    exp = json.loads(unhx(x[0][2:]).decode())
    items = impl_items(case, out)
    got = [i for i, _ in items]
    if len(got) != len(exp):
        return ('request-count', 'connection delivered %d answers for %d requests: %s' % (len(got), len(exp), ' | '.join(g[:60] for g in got)))
    for i, (g, e) in enumerate(zip(got, exp)):
        if e.startswith('!'):
            if g != e[1:]:
                return ('request-not-faithful-' + proto, 'request %d: expected %s, the client observed %s' % (i + 1, e[1:], g[:60]))
            continue
        if g != 'OK ' + e:
            gf = dict(p.split('=', 1) for p in g[3:].split(';')) if g.startswith('OK ') else {}
            ef = dict(p.split('=', 1) for p in e.split(';'))
            bad = [k for k in ef if gf.get(k) != ef[k]] if gf else ['no echo: ' + g[:40]]
            if bad == ['K']:
                return ('cookies-not-faithful-' + proto, 'request %d: cookies observed %s, sent %s' % (i + 1, gf.get('K'), ef['K']))
            return ('request-not-faithful-' + proto, 'request %d of the connection was not delivered as encoded; differing fields: %s' % (i + 1, bad))
    # handler ran exactly once per request
    m = re.search(r'calls=(\d+),(\d+),(\d+)', out)
    if m and int(m.group(1)) + int(m.group(2)) != sum(1 for e in exp if not e.startswith('!')):
        return ('handler-count', 'handlers ran %s times for %d requests' % (m.group(0), len(exp)))
    return None


def nontrivial(case, out):
    return case.count('S:') >= 2


def classify(case, out):
    t = case.split()
    return '%s:%s:%s' % (t[0], 'multi' if sum(1 for x in t if x in ('R', 'E')) > 1 else 'single',
                         'seg1' if case.count('S:') == 1 else 'seg2' if case.count('S:') == 2 else 'seg3+')


def run(ctx):
    errs = vlib.gen_coq(GEN)
    for n, e in errs:
        ctx.broke('translator cxx2v failed on %s (tie to source broken)' % n, e)
    res = vlib.coq_props('C01')
    ctx.proof(res)
    ctx.coverage['trusted_base'] = [
        'Coq 8.16.1 kernel, vm_compute (sweeps)',
        'tools/cxx2v.py + clang 14 JSON AST (separator, xdigit from private/http_protocol.h)',
        'extraction: ExtrOcamlBasic only, OCaml 4.13.1',
        'harness/fe_service.cpp (in-process cppcms::service, accept() interposition, echo applications), checks/fe_common.py encoders',
        'hand model coq/C01/Defs.v, Chunked.v, Conn.v, Cookies.v, Observe.v, SMap.v, Pool.v of http_parser.h / http_api.cpp / scgi_api.cpp / fastcgi_api.cpp reading paths, http_request.cpp prepare and string_map.h (string_map, string_pool), hash_map.h string_hash',
        'harness/C01_pool.cpp (string_pool internals read through #define private public; AddressSanitizer), harness/C01_smap.cpp (string_map driven directly, bounded re-run of the probe loops)']
    ctx.assumptions = ['kernel delivers socket bytes in order', 'header names are unique within a request (well-formed domain; premise NoDup of frontends_agree)',
                       'theorem premises: within_cap / no IOverCap (header block of at most 16385 bytes), layout_ok (records of 1..65535 bytes, padding < 256), '
                       'env_ok (no NUL, lengths < 2^31) for environments chosen by an SCGI / FastCGI peer (derived for the environment of a well-formed HTTP request), '
                       'PARAMS below 16384 bytes, Content-Length = body length, token method and header names, header value texts in the lexical classes of the '
                       'parser (gvalue_ok: quoted strings and comments closed, CR only in CRLF SP/HT), distinct variable names for the string_map theorems',
                       'the server thread reads a segment before the next one is sent (observed through FIONREAD on the accepted fd); '
                       'if it does not, segments coalesce, which by the segmentation theorem cannot change the result']
    exe, err = vlib.build_harness('fe_service', ['fe_service.cpp'], extra=['-ldl'])
    if not exe:
        ctx.broke('harness build failed', err)
        return
    mexe, err = vlib.build_model('C01', 'C01_driver.ml', 'c01m')
    if not mexe:
        ctx.broke('model extraction/build failed', err)
    cases = ctx.replay_cases if ctx.replay_cases is not None else vlib.corpus_cases('C01') + gen_cases(ctx)
    ctx.coverage['rule'] = ('case = protocol + byte segments of 1..4 well-formed requests on one connection (+ expected observation). Generated: '
                            'every single split point of short requests x {http,scgi,fcgi}; random / boundary-aimed / byte-wise segmentations; '
                            'FastCGI record layouts (PARAMS/STDIN cuts, paddings 0..255, request ids); keep-alive and pipelined sequences; long header '
                            'values across kept-alive requests. Non-trivial = the request bytes are sent in at least two segments; distinct = distinct case lines.')
    os.makedirs(ctx.workdir, exist_ok=True)
    pool_cases = [c for c in cases if c.startswith('pool ')]
    smap_cases = [c for c in cases if c.startswith('smap ')]
    cases = [c for c in cases if not c.startswith(('pool ', 'smap '))]
    if ctx.replay_cases is None:
        pool_cases += gen_pool(ctx)
        smap_cases += gen_smap(ctx)
    # the arena of the environment strings: header-only class, own small harness built with ASan
    pexe, err = vlib.build_harness('C01_pool', ['C01_pool.cpp'], link=False, extra=['-fsanitize=address'])
    if not pexe:
        ctx.broke('string_pool harness build failed', err)
        return
    sexe, err = vlib.build_harness('C01_smap', ['C01_smap.cpp'], link=False, extra=['-fsanitize=address'])
    if not sexe:
        ctx.broke('string_map harness build failed', err)
        return
    if smap_cases:
        vlib.differential(ctx, smap_cases, sexe, mexe, smap_oracle, lambda c, o: c.count(' a') > 32,
                          lambda c, o: 'smap:' + ('grown' if c.count(' a') > 32 else 'small') + (':clear' if ' c ' in c else ''),
                          what='correspondence string_map model vs implementation', jobs=4)
    if pool_cases:
        vlib.differential(ctx, pool_cases, pexe, mexe, pool_oracle, lambda c, o: 'c ' in c, lambda c, o: 'pool:' + ('clear' if ' c' in c else 'noclear'),
                          what='correspondence string_pool model vs implementation', canon=pool_canon, jobs=4)
    # the service itself (last: a string_map whose probe loops do not stop would hang the worker threads of the in-process service for good;
    # in that case the violation has already been reported above with a concrete string_map replay)
    if any(k == 'smap-loop' for k, _, _ in ctx.failures):
        ctx.notes.append('service differential skipped: string_map probe loop does not terminate (reported with a string_map replay)')
        return
    if not cases:
        return          # a replay file with string_map / string_pool cases only
    # a service that hangs for good (a worker thread spinning or dead-locked after a memory error) is killed after a bound, so that the
    # missing answers are reported against the case at which the harness stopped instead of waiting for the 20 min limit of the runner
    vlib.differential(ctx, cases, ['timeout', '-k', '5', str(ctx.scale(600, 1500)), exe], mexe, oracle, nontrivial, classify,
                      impl_env={'FE_WORKDIR': ctx.workdir},
                      canon_case=canon_impl_line, canon_model=canon_model_line, jobs=12)
