"""which pieces of /repo are regenerated into coq/gen/*.v on every run (see DESIGN.md 2.6)"""
import os
REPO = os.environ.get('VERIF_REPO', '/repo')
BUILD = os.path.join(os.path.dirname(os.path.dirname(os.path.abspath(__file__))), '.work', 'build')
INCS = [REPO, REPO + '/booster', BUILD, BUILD + '/booster', REPO + '/private']

SPECS = {
    'Gen_b64': dict(src=REPO + '/src/base64.cpp', incs=INCS,
                    arrays=[('encode_6_to_8', 'g_b64_alphabet')],
                    functions=[('encode_8_to_6', 'g_b64_dec6'), ('encoded_size', 'g_b64_encoded_size'),
                               ('decoded_size', 'g_b64_decoded_size')]),
    'Gen_util': dict(src=REPO + '/src/util.cpp', incs=INCS,
                     functions=[('xdigit', 'g_xdigit')],
                     transducers=[('escape', 'g_escape_step'), ('urlencode_impl', 'g_urlencode_step')]),
}
