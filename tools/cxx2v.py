#!/usr/bin/env python3
"""cxx2v: translate small loop-free integer C++ functions (and constant tables)
from /repo's *current* source into Gallina over Z.

Front end: clang++ -fsyntax-only -Xclang -ast-dump=json -Xclang -ast-dump-filter=<name>.
Supported subset (anything else raises Unsupported and the caller reports a broken tie):
  statements : compound, if/else, return, switch/case/default (with fall-through and break),
               declarations of integer locals with initialiser, assignments / compound
               assignments to integer locals, null statement
  expressions: integer/char/bool literals, parameters and locals, unary - ~ ! +, binary
               + - * / % << >> & | ^ && || == != < <= > >=, ?:, casts between integer types,
               parenthesis, calls to other translated functions, subscripts of constant
               global arrays (string literal or initialiser list)
Semantics: every value is a Z.  A value of unsigned type of width w is reduced mod 2^w after
every arithmetic operation and cast; signed arithmetic is assumed not to overflow (UB in C++)
but conversions *to* a signed type wrap two's-complement.  bool expressions become Coq bool.
"""
import json, subprocess, sys, os, re, hashlib

class Unsupported(Exception):
    pass

WIDTH = {
    'bool': ('b', 1),
    'char': ('s', 8), 'signed char': ('s', 8), 'unsigned char': ('u', 8),
    'short': ('s', 16), 'unsigned short': ('u', 16),
    'int': ('s', 32), 'unsigned int': ('u', 32), 'unsigned': ('u', 32),
    'long': ('s', 64), 'unsigned long': ('u', 64),
    'long long': ('s', 64), 'unsigned long long': ('u', 64),
    'uint8_t': ('u', 8), 'uint16_t': ('u', 16), 'uint32_t': ('u', 32), 'uint64_t': ('u', 64),
    'int8_t': ('s', 8), 'int16_t': ('s', 16), 'int32_t': ('s', 32), 'int64_t': ('s', 64),
    'size_t': ('u', 64), 'std::size_t': ('u', 64), 'ptrdiff_t': ('s', 64),
    'cppcms::uint32_t': ('u', 32), 'cppcms::uint16_t': ('u', 16),
    'code_point': ('u', 32), 'booster::locale::utf::code_point': ('u', 32),
    'char16_t': ('u', 16), 'char32_t': ('u', 32), 'wchar_t': ('s', 32),
}

def tyinfo(t):
    q = t.get('desugaredQualType', t.get('qualType'))
    q = q.replace('const ', '').replace(' const', '').replace('volatile ', '').strip()
    if q in WIDTH:
        return WIDTH[q]
    q2 = t.get('qualType').replace('const ', '').replace(' const', '').strip()
    if q2 in WIDTH:
        return WIDTH[q2]
    raise Unsupported('type ' + repr(t))

def run_clang(src, filt, incs, std='c++11', extra=()):
    cmd = ['clang++', '-std=' + std, '-fsyntax-only', '-w'] + list(extra)
    for i in incs:
        cmd += ['-I', i]
    cmd += ['-Xclang', '-ast-dump=json', '-Xclang', '-ast-dump-filter=' + filt, src]
    p = subprocess.run(cmd, capture_output=True, text=True)
    if p.returncode != 0:
        raise Unsupported('clang failed on %s: %s' % (src, p.stderr[-2000:]))
    txt = p.stdout
    dec = json.JSONDecoder()
    i = 0
    objs = []
    n = len(txt)
    while i < n:
        while i < n and txt[i] in ' \n\r\t':
            i += 1
        if i >= n:
            break
        o, j = dec.raw_decode(txt, i)
        objs.append(o)
        i = j
    return objs

def find_decl(objs, kind, name, pred=None):
    """first declaration of given kind and exact name that has a body/init"""
    found = []
    def walk(n):
        if not isinstance(n, dict):
            return
        if n.get('kind') == kind and n.get('name') == name:
            if pred is None or pred(n):
                found.append(n)
        for c in n.get('inner', []) or []:
            walk(c)
    for o in objs:
        walk(o)
    return found

class Tr:
    def __init__(self, prefix, known_funcs, arrays):
        self.prefix = prefix
        self.known = known_funcs      # C++ name -> Coq name
        self.arrays = arrays          # C++ name -> Coq name
        self.ids = {}                 # decl id -> coq var name

    # ---------- expressions ----------
    def wrap(self, t, e):
        k, w = tyinfo(t)
        if k == 'u':
            return '(wrapu %d %s)' % (w, e)
        if k == 's':
            return e          # signed arithmetic: no overflow assumed
        raise Unsupported('wrap bool')

    def cast_to(self, t, e, from_t):
        k, w = tyinfo(t)
        fk, fw = tyinfo(from_t)
        m = re.fullmatch(r'\((\d+)\)', e)
        if m and k != 'b' and fk != 'b':
            v = int(m.group(1))
            if (k == 'u' and v < 2 ** w) or (k == 's' and v < 2 ** (w - 1)):
                return e
        if k == 'b':
            if fk == 'b':
                return e
            return '(negb (Z.eqb %s 0))' % e
        if fk == 'b':
            e = '(Z.b2z %s)' % e
            fk, fw = 'u', 1
        if k == 'u':
            if fk == 'u' and fw <= w:
                return e
            return '(wrapu %d %s)' % (w, e)
        # signed target
        if fw < w or (fk == 's' and fw == w):
            return e
        return '(wraps %d %s)' % (w, e)

    def is_bool(self, n):
        return tyinfo(n['type'])[0] == 'b'

    def expr(self, n):
        k = n['kind']
        if k in ('ParenExpr', 'ExprWithCleanups', 'ConstantExpr', 'MaterializeTemporaryExpr'):
            return self.expr(n['inner'][0])
        if k == 'IntegerLiteral':
            return '(%s)' % n['value']
        if k == 'CharacterLiteral':
            return '(%d)' % n['value']
        if k == 'CXXBoolLiteralExpr':
            return 'true' if n['value'] else 'false'
        if k == 'DeclRefExpr':
            rid = n['referencedDecl']['id']
            if rid in self.ids:
                return self.ids[rid]
            nm = n['referencedDecl'].get('name')
            if nm in self.consts:
                return self.consts[nm]
            raise Unsupported('reference to ' + str(nm))
        if k in ('ImplicitCastExpr', 'CStyleCastExpr', 'CXXFunctionalCastExpr', 'CXXStaticCastExpr'):
            ck = n.get('castKind')
            sub = n['inner'][0]
            if ck in ('LValueToRValue', 'NoOp', 'FunctionToPointerDecay', 'ArrayToPointerDecay'):
                return self.expr(sub)
            if ck in ('IntegralCast', 'IntegralToBoolean'):
                return self.cast_to(n['type'], self.expr(sub), sub['type'])
            raise Unsupported('cast ' + str(ck))
        if k == 'UnaryOperator':
            op = n['opcode']
            sub = n['inner'][0]
            e = self.expr(sub)
            if op == '-':
                return self.wrap(n['type'], '(- %s)' % e)
            if op == '+':
                return e
            if op == '~':
                kk, w = tyinfo(n['type'])
                if kk == 'u':
                    return '(wrapu %d (Z.lnot %s))' % (w, e)
                return '(Z.lnot %s)' % e
            if op == '!':
                return '(negb %s)' % e
            raise Unsupported('unary ' + op)
        if k == 'BinaryOperator':
            op = n['opcode']
            a, b = n['inner']
            if op == ',':
                raise Unsupported('comma')
            if op in ('&&', '||'):
                return '(%s %s %s)' % ('andb' if op == '&&' else 'orb', self.expr(a), self.expr(b))
            ea, eb = self.expr(a), self.expr(b)
            if op in ('==', '!=', '<', '<=', '>', '>='):
                if self.is_bool(a):
                    ea = '(Z.b2z %s)' % ea
                if self.is_bool(b):
                    eb = '(Z.b2z %s)' % eb
                m = {'==': 'Z.eqb %s %s', '!=': 'negb (Z.eqb %s %s)', '<': 'Z.ltb %s %s',
                     '<=': 'Z.leb %s %s', '>': 'Z.gtb %s %s', '>=': 'Z.geb %s %s'}[op]
                return '(' + m % (ea, eb) + ')'
            m = {'+': 'Z.add', '-': 'Z.sub', '*': 'Z.mul', '/': 'Z.quot', '%': 'Z.rem',
                 '<<': 'Z.shiftl', '>>': 'Z.shiftr', '&': 'Z.land', '|': 'Z.lor', '^': 'Z.lxor'}.get(op)
            if m is None:
                raise Unsupported('binary ' + op)
            return self.wrap(n['type'], '(%s %s %s)' % (m, ea, eb))
        if k == 'ConditionalOperator':
            c, a, b = n['inner']
            return '(if %s then %s else %s)' % (self.expr(c), self.expr(a), self.expr(b))
        if k == 'CallExpr':
            callee = n['inner'][0]
            while callee['kind'] in ('ImplicitCastExpr', 'ParenExpr'):
                callee = callee['inner'][0]
            if callee['kind'] != 'DeclRefExpr':
                raise Unsupported('call of ' + callee['kind'])
            nm = callee['referencedDecl']['name']
            if nm not in self.known:
                raise Unsupported('call to untranslated ' + nm)
            args = ' '.join(self.expr(a) for a in n['inner'][1:])
            return '(%s %s)' % (self.known[nm], args)
        if k == 'ArraySubscriptExpr':
            base, idx = n['inner']
            while base['kind'] in ('ImplicitCastExpr', 'ParenExpr'):
                base = base['inner'][0]
            if base['kind'] != 'DeclRefExpr':
                raise Unsupported('subscript base ' + base['kind'])
            nm = base['referencedDecl']['name']
            if nm not in self.arrays:
                raise Unsupported('array ' + nm)
            return '(znth %s %s)' % (self.arrays[nm], self.expr(idx))
        raise Unsupported('expr ' + k)

    # ---------- statements ----------
    def flatten(self, s):
        if s is None:
            return []
        if s['kind'] == 'CompoundStmt':
            out = []
            for c in s.get('inner', []) or []:
                out += self.flatten(c)
            return out
        if s['kind'] == 'NullStmt':
            return []
        return [s]

    def stmts(self, ss, brk=None, void=False):
        """translate a statement list in continuation style. brk: list of statements that
        follow the enclosing switch (used on `break`)."""
        if not ss:
            if brk is not None:
                # fell off the end of a switch body
                return self.stmts(brk[0], brk[1], void)
            if void == 'emit':
                return '[]'
            if void:
                return 'tt'
            raise Unsupported('control reaches end of non-void function')
        s, rest = ss[0], ss[1:]
        k = s['kind']
        if k == 'CompoundStmt':
            return self.stmts(self.flatten(s) + rest, brk, void)
        if k == 'NullStmt':
            return self.stmts(rest, brk, void)
        if k == 'ReturnStmt':
            inner = s.get('inner')
            if not inner:
                return 'tt'
            return self.expr(inner[0])
        if k == 'BreakStmt':
            if brk is None:
                raise Unsupported('break outside switch')
            return self.stmts(brk[0], brk[1], void)
        if k == 'IfStmt':
            inner = s['inner']
            if s.get('hasVar') or s.get('hasInit'):
                raise Unsupported('if with init')
            c = self.expr(inner[0])
            a = self.flatten(inner[1])
            b = self.flatten(inner[2]) if len(inner) > 2 else []
            saved = dict(self.ids)
            ta = self.stmts(a + rest, brk, void)
            self.ids = dict(saved)
            tb = self.stmts(b + rest, brk, void)
            self.ids = saved
            return '(if %s then %s else %s)' % (c, ta, tb)
        if void == 'emit':
            em = self.emission(s)
            if em is not None:
                return '(%s ++ %s)' % (em, self.stmts(rest, brk, void))
        if k == 'DeclStmt' and len(s['inner']) == 1 and s['inner'][0]['kind'] == 'VarDecl' \
                and s['inner'][0]['type']['qualType'].endswith(']'):
            d = s['inner'][0]
            vals = const_array(d)
            nm = self.fresh(d['name'])
            self.arrays[d['name']] = nm
            return '(let %s := [%s] in %s)' % (nm, '; '.join(str(v) for v in vals), self.stmts(rest, brk, void))
        if k == 'DeclStmt':
            out_pre = []
            for d in s['inner']:
                if d['kind'] != 'VarDecl':
                    raise Unsupported('decl ' + d['kind'])
                tyinfo(d['type'])
                nm = self.fresh(d['name'])
                if 'inner' in d and d['inner']:
                    init = self.expr(d['inner'][0])
                else:
                    init = '(0)'   # uninitialised local: modelled as 0; must be assigned before use
                out_pre.append((nm, init, d['id']))
            txt = ''
            for nm, init, did in out_pre:
                self.ids[did] = nm
                txt += '(let %s := %s in ' % (nm, init)
            body = self.stmts(rest, brk, void)
            return txt + body + ')' * len(out_pre)
        if k in ('BinaryOperator', 'CompoundAssignOperator'):
            op = s['opcode']
            lhs, rhs = s['inner']
            if lhs['kind'] != 'DeclRefExpr':
                raise Unsupported('assignment to ' + lhs['kind'])
            did = lhs['referencedDecl']['id']
            if did not in self.ids:
                raise Unsupported('assignment to non-local')
            if op == '=':
                val = self.expr(rhs)
            elif op.endswith('=') and op[:-1] in ('+', '-', '*', '/', '%', '<<', '>>', '&', '|', '^'):
                m = {'+': 'Z.add', '-': 'Z.sub', '*': 'Z.mul', '/': 'Z.quot', '%': 'Z.rem',
                     '<<': 'Z.shiftl', '>>': 'Z.shiftr', '&': 'Z.land', '|': 'Z.lor', '^': 'Z.lxor'}[op[:-1]]
                ct = s.get('computeResultType', s['type'])
                l = self.cast_to(ct, self.ids[did], lhs['type'])
                val = self.wrap(ct, '(%s %s %s)' % (m, l, self.expr(rhs)))
                val = self.cast_to(lhs['type'], val, ct)
            else:
                raise Unsupported('statement operator ' + op)
            nm = self.fresh(lhs['referencedDecl']['name'])
            self.ids[did] = nm
            return '(let %s := %s in %s)' % (nm, val, self.stmts(rest, brk, void))
        if k == 'SwitchStmt':
            inner = s['inner']
            scrut = self.expr(inner[0])
            body = self.flatten(inner[1])
            # split into labelled segments
            segs = []   # (labels, stmts)
            def peel(st):
                labels = []
                while st['kind'] in ('CaseStmt', 'DefaultStmt'):
                    if st['kind'] == 'CaseStmt':
                        ce = st['inner'][0]
                        labels.append(self.expr(ce))
                        st = st['inner'][-1]
                    else:
                        labels.append(None)
                        st = st['inner'][0]
                return labels, st
            for st in body:
                if st['kind'] in ('CaseStmt', 'DefaultStmt'):
                    labels, first = peel(st)
                    segs.append((labels, self.flatten(first)))
                else:
                    if not segs:
                        raise Unsupported('statement before first case')
                    segs[-1][1].extend(self.flatten(st))
            v = self.fresh('sw')
            saved = dict(self.ids)
            default_idx = None
            arms = []
            for i, (labels, _) in enumerate(segs):
                if None in labels:
                    default_idx = i
            def seg_code(i):
                self.ids = dict(saved)
                tail = []
                for (_, st) in segs[i:]:
                    tail += st
                return self.stmts(tail, (rest, brk), void)
            if default_idx is not None:
                code = seg_code(default_idx)
            else:
                self.ids = dict(saved)
                code = self.stmts(rest, brk, void)
            for i in reversed(range(len(segs))):
                labels = [l for l in segs[i][0] if l is not None]
                if not labels:
                    continue
                cond = ' || '.join('(Z.eqb %s %s)' % (v, l) for l in labels)
                code = '(if (%s)%%bool then %s else %s)' % (cond, seg_code(i), code)
            self.ids = saved
            return '(let %s := %s in %s)' % (v, scrut, code)
        raise Unsupported('statement ' + k)

    def emission(self, s):
        """statement that appends to the output of a per-byte transducer -> Coq list expression, or None"""
        def strip(n):
            while n['kind'] in ('ImplicitCastExpr', 'ParenExpr', 'ExprWithCleanups', 'MaterializeTemporaryExpr'):
                n = n['inner'][0]
            return n
        def val(n):
            n0 = strip(n)
            if n0['kind'] == 'StringLiteral':
                st = json.loads(n0['value'])
                return '[%s]' % '; '.join(str(ord(ch)) for ch in st)
            e = self.expr(n)
            try:
                kk, w = tyinfo(n['type'])
            except Unsupported:
                kk, w = 's', 8
            return '[wrapu 8 %s]' % e
        k = s['kind']
        if k == 'BinaryOperator' and s.get('opcode') == '=':
            lhs, rhs = s['inner']
            l = strip(lhs)
            if l['kind'] == 'UnaryOperator' and l['opcode'] == '*':
                l2 = strip(l['inner'][0])
                if l2['kind'] == 'UnaryOperator' and l2['opcode'] == '++' and l2.get('isPostfix'):
                    tgt = strip(l2['inner'][0])
                    if tgt['kind'] == 'DeclRefExpr' and tgt['referencedDecl']['id'] not in self.ids:
                        return val(rhs)
        if k == 'CXXOperatorCallExpr':
            inner = s['inner']
            callee = strip(inner[0])
            if callee['kind'] == 'DeclRefExpr' and callee['referencedDecl']['name'] == 'operator+=':
                tgt = strip(inner[1])
                if tgt['kind'] == 'DeclRefExpr' and tgt['referencedDecl']['id'] not in self.ids:
                    return val(inner[2])
        if k == 'CompoundAssignOperator' and s.get('opcode') == '+=':
            lhs, rhs = s['inner']
            l = strip(lhs)
            if l['kind'] == 'DeclRefExpr' and l['referencedDecl']['id'] not in self.ids \
                    and 'string' in l['type']['qualType']:
                return val(rhs)
        return None

    def fresh(self, base):
        self.counter = getattr(self, 'counter', 0) + 1
        return '%s_%d' % (re.sub(r'\W', '_', base), self.counter)

    consts = {}

def translate_function(fd, coqname, known, arrays, consts):
    tr = Tr('', known, arrays)
    tr.consts = consts
    params = []
    body = None
    for c in fd.get('inner', []):
        if c['kind'] == 'ParmVarDecl':
            tyinfo(c['type'])
            nm = tr.fresh(c.get('name', 'arg'))
            tr.ids[c['id']] = nm
            kind = tyinfo(c['type'])[0]
            params.append((nm, 'bool' if kind == 'b' else 'Z'))
        elif c['kind'] == 'CompoundStmt':
            body = c
    if body is None:
        raise Unsupported('no body')
    rett = fd['type']['qualType'].split('(')[0].strip()
    rk = tyinfo({'qualType': rett})[0]
    code = tr.stmts(tr.flatten(body))
    ps = ' '.join('(%s : %s)' % p for p in params)
    return 'Definition %s %s : %s :=\n  %s.\n' % (coqname, ps, 'bool' if rk == 'b' else 'Z', code)

def find_loops(n, out):
    if not isinstance(n, dict):
        return
    if n.get('kind') in ('WhileStmt', 'ForStmt'):
        out.append(n)
    for c in n.get('inner', []) or []:
        find_loops(c, out)

def translate_transducer(fd, coqname, known, arrays, consts, loop_index=0):
    """first loop of the function; its body must start with `char c = <next input byte>`; the rest of
    the body is translated to  byte -> list of output bytes."""
    loops = []
    find_loops(fd, loops)
    if len(loops) <= loop_index:
        raise Unsupported('no loop in ' + coqname)
    body = loops[loop_index]['inner'][-1]
    tr = Tr('', known, dict(arrays))
    tr.consts = consts
    ss = tr.flatten(body)
    if not ss or ss[0]['kind'] != 'DeclStmt' or ss[0]['inner'][0]['kind'] != 'VarDecl':
        raise Unsupported('loop body does not start with the per-byte variable')
    vd = ss[0]['inner'][0]
    kk, w = tyinfo(vd['type'])
    if w != 8:
        raise Unsupported('per-byte variable is not a char')
    nm = tr.fresh(vd['name'])
    tr.ids[vd['id']] = nm
    code = tr.stmts(ss[1:], None, 'emit')
    conv = 'wraps 8 byte' if kk == 's' else 'wrapu 8 byte'
    return 'Definition %s (byte : Z) : list Z :=\n  let %s := %s in %s.\n' % (coqname, nm, conv, code)

def const_array(vd):
    """VarDecl of a constant array -> python list of ints"""
    init = vd.get('inner', [])
    for n in init:
        k = n['kind']
        if k == 'StringLiteral':
            s = json.loads(n['value']) if n['value'].startswith('"') else n['value']
            return [ord(ch) for ch in s] + [0]
        if k == 'InitListExpr':
            out = []
            for e in n.get('inner', []):
                out.append(const_int(e))
            return out
    raise Unsupported('array init')

def const_int(e):
    k = e['kind']
    if k in ('ImplicitCastExpr', 'ParenExpr', 'ConstantExpr', 'CStyleCastExpr'):
        return const_int(e['inner'][0])
    if k == 'IntegerLiteral':
        return int(e['value'])
    if k == 'CharacterLiteral':
        return int(e['value'])
    if k == 'UnaryOperator' and e['opcode'] == '-':
        return -const_int(e['inner'][0])
    raise Unsupported('const ' + k)

def generate(spec, out_path):
    """spec: dict(module, src, incs, std, functions=[(cxxname, coqname, filter?)], arrays=[(cxxname,coqname)],
    consts=[(cxxname, coqname)])"""
    lines = ['(* GENERATED by tools/cxx2v.py from %s -- do not edit *)' % spec['src'],
             'From Coq Require Import ZArith List Bool.', 'From CppcmsV Require Import Base.CSem.',
             'Local Open Scope Z_scope.', 'Import ListNotations.', '']
    known, arrays, consts = {}, {}, {}
    incs = spec.get('incs', [])
    std = spec.get('std', 'c++11')
    for cxx, coq in spec.get('arrays', []):
        objs = run_clang(spec['src'], cxx, incs, std)
        vds = find_decl(objs, 'VarDecl', cxx, lambda n: 'inner' in n)
        if not vds:
            raise Unsupported('array %s not found' % cxx)
        vals = const_array(vds[0])
        lines.append('Definition %s : list Z := [%s].' % (coq, '; '.join(str(v) for v in vals)))
        arrays[cxx] = coq
    for cxx, coq in spec.get('consts', []):
        objs = run_clang(spec['src'], cxx, incs, std)
        vds = find_decl(objs, 'VarDecl', cxx, lambda n: 'inner' in n)
        if not vds:
            raise Unsupported('const %s not found' % cxx)
        v = const_int(vds[0]['inner'][0])
        lines.append('Definition %s : Z := (%d).' % (coq, v))
        consts[cxx] = coq
    for item in spec.get('functions', []):
        cxx, coq = item[0], item[1]
        filt = item[2] if len(item) > 2 else cxx
        objs = run_clang(spec['src'], filt, incs, std)
        fds = find_decl(objs, 'FunctionDecl', cxx, lambda n: any(c.get('kind') == 'CompoundStmt' for c in n.get('inner', [])))
        if not fds:
            fds = find_decl(objs, 'CXXMethodDecl', cxx, lambda n: any(c.get('kind') == 'CompoundStmt' for c in n.get('inner', [])))
        if not fds:
            raise Unsupported('function %s not found in %s' % (cxx, spec['src']))
        idx = item[3] if len(item) > 3 else 0
        lines.append(translate_function(fds[idx], coq, known, arrays, consts))
        known[cxx] = coq
    for item in spec.get('transducers', []):
        cxx, coq = item[0], item[1]
        filt = item[2] if len(item) > 2 else cxx
        objs = run_clang(spec['src'], filt, incs, std)
        hasbody = lambda n: any(c.get('kind') == 'CompoundStmt' for c in n.get('inner', []))
        fds = find_decl(objs, 'FunctionDecl', cxx, hasbody) or find_decl(objs, 'CXXMethodDecl', cxx, hasbody)
        if not fds:
            raise Unsupported('function %s not found in %s' % (cxx, spec['src']))
        idx = item[3] if len(item) > 3 else 0
        lines.append(translate_transducer(fds[idx], coq, known, arrays, consts))
    txt = '\n'.join(lines) + '\n'
    old = None
    if os.path.exists(out_path):
        old = open(out_path).read()
    if old != txt:
        os.makedirs(os.path.dirname(out_path), exist_ok=True)
        with open(out_path, 'w') as f:
            f.write(txt)
    return txt

if __name__ == '__main__':
    spec = json.load(open(sys.argv[1]))
    print(generate(spec, sys.argv[2]))
