#!/bin/bash
# tools/coqchk_all.sh -- re-check every compiled Cnn/Props.vo (and everything it depends on) with coqchk and print the axioms
# it reports.  Needs a built project (bin/setup or the checks).  Usage: tools/coqchk_all.sh [Cnn ...]   (several GB of memory, minutes per property)
cd "$(dirname "$0")/../coq" || exit 2
props=${@:-C01 C02 C03 C04 C05 C06 C07 C08 C09 C10 C11 C12 C13 C14 C15 C16 C17 C18 C19 C20}
rc=0
for p in $props; do
  [ -f $p/Props.vo ] || { echo "$p: Props.vo missing (not built)"; rc=1; continue; }
  s=$(date +%s)
  out=$(timeout 3000 coqchk -o -silent -Q . CppcmsV CppcmsV.$p.Props 2>&1); r=$?
  ax=$(echo "$out" | awk '/^\* Axioms:/{f=1; sub(/^\* Axioms: */,""); print; next} /^\* /{f=0} f' | sed 's/^ *//' | grep -v '^$' | tr '\n' ';')
  echo "$p: coqchk rc=$r axioms=[${ax:-<none>}] $(( $(date +%s)-s ))s"
  [ $r -eq 0 ] || { rc=1; echo "$out" | tail -5; }
done
exit $rc
