#!/usr/bin/env python3
"""locktab: regenerate the lock-scope / field-access table of cppcms::impl::mem_cache<thread_settings>
from /repo's *current* src/cache_storage.cpp (property C09).

Primary extractor: clang JSON AST of the instantiated class (all ids come from ONE clang run with
-ast-dump-filter=cppcms::impl:: so that member references resolve to the instantiated bodies).
For every *entry* method (the virtual methods, i.e. the base_cache interface - the class is local to the
TU and only handed out as base_cache by the factory functions, which is checked) it builds

    scope ::= Scope (lock, mode)? [ (field, R|W) ... ] [ child scope ... ]

* a scope starts at the declaration of an RAII guard object (a local of type ...unique_lock<M>, ...shared_lock<M>,
  lock_guard<M>) directly inside a compound statement and extends to the end of that compound statement
  (that is when the destructor releases: also on early return and on exceptions);
  mode: shared_lock -> Shared, unique_lock/lock_guard -> Excl, *verified* down to the pthread call through
  booster/booster/thread.h and booster/lib/thread/src/pthread.cpp (see lock_primitives()).
* accesses: every MemberExpr on `this` (top-level fields), every member of the per-entry struct `container`
  (fields c.data, c.lru, ...: all entries collectively), every dereference of an iterator into one of the
  containers (region = the container(s) whose begin/end/find/insert produce that iterator type).
  W if assigned / incremented / object of a mutating member call / bound to a non-const reference /
  address taken; R otherwise.  Mutating calls on `primary` also write every c.* region (entries are
  constructed/destroyed).  Whether a member call mutates: methods whose body is in /repo (hash_map, ...)
  are analysed (pure = no store through anything but by-value locals, transitively); std:: methods go by name
  (MUT/READ lists); an unknown name is an error.
* helper methods of mem_cache are inlined at their call sites (with their own guards, if any).
* a call of a mem_cache method that takes a lock itself (a *locking* method, e.g. store's `remove(key)`):
  - made while a lock is held: inlined like any helper, i.e. the callee's guard scope becomes a NESTED scope; if it
    re-takes a lock that is already held (non-recursive pthread rwlock/mutex: the thread blocks on itself) the
    translator records a `deadlock` diagnostic (the check reports it) and the emitted table fails `ordered`;
  - made while NO lock is held, directly in the entry method, outside every loop and every try block, as a complete
    statement in TAIL position - the rest of its block consists of simple statements (no nested block, no control
    flow) that declare no guard and call no locking method, the last of them `return`; or `return callee(..)`; or the
    last statement of the method: the method gets an ALTERNATIVE PATH - a second table entry under the same method name whose scope tree is: the guard scopes that
    textually precede the call (control flow is forward only: no loop, no goto) followed by the callee's scope tree.
    The main path is the method without the call.  Every table theorem quantifies over all entries, hence over all
    paths; the interleaving semantics picks any entry at a call.  (`alt_paths` in the generated file names caller,
    callee and path; Props.v proves that each path has exactly the critical sections of its callee.)
  - made while no lock is held but NOT in such a tail position: inlined sequentially (the callee's critical section
    and the caller's later ones are siblings) - the table then fails `two_phase`, as it must: the call as a whole is
    not atomic.
  The dynamic callee of the virtual call is the method of this class: checked that no class derives from mem_cache.
* anything not understood (guard in a loop or not directly in a block, any other use of a guard object or of
  the mutex members, goto, lambda, unknown expression/statement kind, unknown method name) raises Unsupported:
  the check fails closed.

Cross-check: an independent *lexical* extractor (brace matching + regexes over the method text) recomputes
for every entry method the set of (lock path, top-level field / container member) pairs; the two must agree.

Output: coq/gen/Gen_locktab.v  (Definition table : list (string * scope), field/lock names).
"""
import os, re, sys, json
sys.path.insert(0, os.path.dirname(os.path.abspath(__file__)))
from cxx2v import run_clang, Unsupported

MUT = {'erase', 'push_front', 'push_back', 'pop_front', 'pop_back', 'insert', 'clear', 'swap', 'rehash', 'resize',
       'assign', 'append', 'emplace', 'emplace_back', 'emplace_front', 'splice', 'remove', 'remove_if', 'sort',
       'reverse', 'merge', 'unique', 'reserve', 'shrink_to_fit', 'reset', 'release', 'operator=', 'operator+=',
       'operator++', 'operator--', 'operator-=', 'push', 'pop'}
READ = {'find', 'begin', 'end', 'rbegin', 'rend', 'cbegin', 'cend', 'empty', 'size', 'c_str', 'length', 'count',
        'lower_bound', 'upper_bound', 'max_size', 'get', 'operator*', 'operator->', 'operator==', 'operator!=',
        'operator<', 'operator>', 'operator<=', 'operator>=', 'operator bool', 'operator[]', 'operator()',
        'compare', 'capacity', 'equal', 'dereference', 'base', 'key_comp', 'get_allocator', 'data', 'what'}
ITER_SOURCES = {'find', 'begin', 'end', 'rbegin', 'rend', 'insert', 'erase', 'lower_bound', 'upper_bound'}
PASS_KINDS = {'ParenExpr', 'ExprWithCleanups', 'ConstantExpr', 'MaterializeTemporaryExpr', 'CXXBindTemporaryExpr',
              'CXXFunctionalCastExpr', 'CXXStaticCastExpr', 'CStyleCastExpr', 'CXXConstCastExpr',
              'CXXReinterpretCastExpr', 'SubstNonTypeTemplateParmExpr'}
LEAF_KINDS = {'IntegerLiteral', 'CharacterLiteral', 'CXXBoolLiteralExpr', 'StringLiteral', 'FloatingLiteral',
              'CXXNullPtrLiteralExpr', 'GNUNullExpr', 'CXXThisExpr', 'CXXDefaultArgExpr', 'CXXScalarValueInitExpr',
              'ImplicitValueInitExpr', 'UnaryExprOrTypeTraitExpr', 'TypeTraitExpr', 'CXXNoexceptExpr'}
GUARD_RE = re.compile(r'\b(unique_lock|shared_lock|lock_guard|scoped_lock|unique_guard|shared_guard|guard)\s*<')


def qt(n):
    t = n.get('type', {})
    return t.get('desugaredQualType', t.get('qualType', ''))


def kids(n):
    return [c for c in (n.get('inner') or []) if isinstance(c, dict) and c]


class Ast:
    def __init__(self, objs):
        self.by_id = {}
        self.parent = {}
        self.objs = objs
        for o in objs:
            self._index(o, None)

    def _index(self, n, par):
        i = n.get('id')
        if i and n.get('kind', '').endswith('Decl'):
            # keep the definition (with body) if a declaration was seen first
            old = self.by_id.get(i)
            if old is None or (not has_body(old) and has_body(n)):
                self.by_id[i] = n
                self.parent[i] = par
        for c in kids(n):
            self._index(c, n if n.get('kind', '').endswith('Decl') else par)

    def record_of(self, decl_id):
        p = self.parent.get(decl_id)
        while p is not None and p.get('kind') not in ('CXXRecordDecl', 'ClassTemplateSpecializationDecl'):
            p = self.parent.get(p.get('id'))
        return p


def has_body(n):
    return any(c.get('kind') == 'CompoundStmt' for c in kids(n))


def body_of(n):
    for c in kids(n):
        if c.get('kind') == 'CompoundStmt':
            return c
    return None


def strip_casts(n):
    while n.get('kind') in PASS_KINDS or n.get('kind') == 'ImplicitCastExpr':
        n = kids(n)[0]
    return n


class Scope:
    def __init__(self, lock=None, mode=None):
        self.lock, self.mode = lock, mode
        self.acc = set()
        self.children = []

    def to_obj(self):
        return {'lock': self.lock, 'mode': self.mode, 'acc': sorted(self.acc), 'children': [c.to_obj() for c in self.children]}


class Extractor:
    def __init__(self, ast, spec):
        self.ast = ast
        self.spec = spec
        self.spec_id = spec['id']
        self.fields = {}          # FieldDecl id -> name (mem_cache members)
        self.cfields = {}         # FieldDecl id -> 'c.<name>' (struct container members)
        self.methods = {}         # method decl id -> node (mem_cache methods with body)
        self.entry = []           # names of entry methods, declaration order
        self.field_order = []
        for c in kids(spec):
            k = c.get('kind')
            if k == 'FieldDecl':
                self.fields[c['id']] = c['name']
                self.field_order.append(c['name'])
            elif k == 'CXXMethodDecl' and has_body(c):
                self.methods[c['id']] = c
                if c.get('virtual'):
                    self.entry.append(c['name'])
            elif k == 'CXXRecordDecl' and c.get('name') == 'container' and c.get('completeDefinition'):
                for f in kids(c):
                    if f.get('kind') == 'FieldDecl':
                        self.cfields[f['id']] = 'c.' + f['name']
                        self.field_order.append('c.' + f['name'])
        if not self.cfields:
            raise Unsupported('struct container not found in mem_cache')
        self.locks = []           # lock field names in order of first use
        self.itmap = {}           # iterator type string -> set(regions)
        self.pure_cache = {}
        self.locking_cache = {}
        self.diagnostics = []     # (kind, text): kind 'deadlock' = a lock re-taken while held
        self.alt_info = []        # (caller, callee, path index) of the alternative paths
        self.build_itmap()

    # ---------------------------------------------------------------- regions of iterator types
    def obj_region(self, e):
        """region of a container-valued lvalue expression (for begin()/find()/... provenance): set of names"""
        e = strip_casts(e)
        k = e.get('kind')
        if k == 'MemberExpr':
            rid = e.get('referencedMemberDecl')
            if rid in self.fields and strip_casts(kids(e)[0]).get('kind') == 'CXXThisExpr':
                return {self.fields[rid]}
            if rid in self.cfields:
                return {self.cfields[rid]}
            if e.get('name') in ('first', 'second'):
                return self.obj_region(kids(e)[0])
            return set()
        if k == 'CXXOperatorCallExpr':
            nm = self.callee_name(e)
            if nm in ('operator->', 'operator*'):
                return set(self.itmap.get(qt(strip_casts(kids(e)[1])), set()))
            return set()
        if k == 'DeclRefExpr':
            rd = e.get('referencedDecl', {})
            if rd.get('kind') == 'ParmVarDecl':
                return {'@arg'}
            return {'@local'}
        if k == 'UnaryOperator' and e.get('opcode') == '*':
            return {'@arg'}
        return set()

    def build_itmap(self):
        # fixpoint: iterator type <- result type of ITER_SOURCES calls on an object of known region
        for _ in range(4):
            changed = False

            def walk(n):
                nonlocal changed
                if n.get('kind') == 'CXXMemberCallExpr':
                    cal = kids(n)[0]
                    if cal.get('kind') == 'MemberExpr' and cal.get('name') in ITER_SOURCES:
                        reg = self.obj_region(kids(cal)[0])
                        if reg:
                            t = qt(n)
                            s = self.itmap.setdefault(t, set())
                            if not reg <= s:
                                s |= reg
                                changed = True
                for c in kids(n):
                    walk(c)
            for m in self.methods.values():
                walk(m)
            if not changed:
                break
        # struct container's iterator-valued members point into the container of the same type
        # (c.lru -> lru list, c.timeout -> timeout map): covered by type equality with begin()/insert() results.

    # ---------------------------------------------------------------- helpers
    def callee_name(self, call):
        c = strip_casts(kids(call)[0])
        if c.get('kind') == 'DeclRefExpr':
            return c.get('referencedDecl', {}).get('name')
        if c.get('kind') == 'MemberExpr':
            return c.get('name')
        return None

    def callee_decl(self, call):
        c = strip_casts(kids(call)[0])
        if c.get('kind') == 'DeclRefExpr':
            return c.get('referencedDecl', {}).get('id')
        if c.get('kind') == 'MemberExpr':
            return c.get('referencedMemberDecl')
        return None

    def is_locking(self, did):
        """does the mem_cache method declare an RAII guard, directly or through other mem_cache methods"""
        if did in self.locking_cache:
            return self.locking_cache[did]
        self.locking_cache[did] = False          # recursion: decided by the rest of the body
        res = False

        def walk(n):
            nonlocal res
            if res:
                return
            k = n.get('kind')
            if k == 'VarDecl' and (GUARD_RE.search(qt(n)) or GUARD_RE.search(n.get('type', {}).get('qualType', ''))):
                res = True
                return
            if k == 'CXXMemberCallExpr':
                cal = strip_casts(kids(n)[0])
                d2 = cal.get('referencedMemberDecl') if cal.get('kind') == 'MemberExpr' else None
                if d2 in self.methods and d2 != did and self.is_locking(d2):
                    res = True
                    return
            for c in kids(n):
                walk(c)
        walk(body_of(self.methods[did]))
        self.locking_cache[did] = res
        return res

    def locking_call(self, n):
        """decl id of the callee if statement/expression n is (modulo casts/cleanups) a call of a locking mem_cache
        method on this, else None"""
        if n is None:
            return None
        e = strip_casts(n)
        if e.get('kind') != 'CXXMemberCallExpr':
            return None
        cal = strip_casts(kids(e)[0])
        if cal.get('kind') != 'MemberExpr':
            return None
        did = cal.get('referencedMemberDecl')
        if did in self.methods and self.is_locking(did):
            return did
        return None

    def simple_lockfree(self, n):
        """statement n is an expression / declaration / return statement (no nested block, no control flow) that declares no guard
        and calls no locking method"""
        if n.get('kind') in ('CompoundStmt', 'IfStmt', 'ForStmt', 'WhileStmt', 'DoStmt', 'CXXForRangeStmt', 'SwitchStmt', 'CXXTryStmt',
                             'GotoStmt', 'LabelStmt', 'BreakStmt', 'ContinueStmt'):
            return False
        ok = True

        def walk(x):
            nonlocal ok
            if not ok:
                return
            k = x.get('kind')
            if k == 'VarDecl' and (GUARD_RE.search(qt(x)) or GUARD_RE.search(x.get('type', {}).get('qualType', ''))):
                ok = False
                return
            if k in ('LambdaExpr', 'StmtExpr'):
                ok = False
                return
            if k == 'CXXMemberCallExpr':
                cal = strip_casts(kids(x)[0])
                d2 = cal.get('referencedMemberDecl') if cal.get('kind') == 'MemberExpr' else None
                if d2 in self.methods and self.is_locking(d2):
                    ok = False
                    return
            for c in kids(x):
                walk(c)
        walk(n)
        return ok

    def method_effect(self, decl_id, name):
        """'R' or 'W' for a member call on a tracked object"""
        d = self.ast.by_id.get(decl_id)
        if d is not None and has_body(d):
            return 'R' if self.is_pure(decl_id) else 'W'
        if name in MUT:
            return 'W'
        if name in READ:
            return 'R'
        if name and name.startswith('operator ') :   # conversion operators
            return 'R'
        raise Unsupported('member call %r on a shared object: not classified as mutating or read-only' % name)

    def is_pure(self, decl_id):
        """no store through anything but by-value locals/parameters, transitively through bodies present in the AST"""
        if decl_id in self.pure_cache:
            return self.pure_cache[decl_id]
        self.pure_cache[decl_id] = True     # optimistic for recursion
        d = self.ast.by_id[decl_id]
        ok = True

        def local_target(e):
            e = strip_casts(e)
            if e.get('kind') == 'DeclRefExpr':
                rd = e.get('referencedDecl', {})
                t = rd.get('type', {}).get('qualType', '')
                return rd.get('kind') in ('VarDecl', 'ParmVarDecl') and '&' not in t
            return False

        def walk(n):
            nonlocal ok
            if not ok:
                return
            k = n.get('kind')
            if k in ('BinaryOperator', 'CompoundAssignOperator') and (n.get('opcode', '').endswith('=') and n.get('opcode') not in ('==', '!=', '<=', '>=')):
                if not local_target(kids(n)[0]):
                    ok = False
                    return
            if k == 'UnaryOperator' and n.get('opcode') in ('++', '--'):
                if not local_target(kids(n)[0]):
                    ok = False
                    return
            if k in ('CXXMemberCallExpr', 'CXXOperatorCallExpr'):
                nm = self.callee_name(n)
                did = self.callee_decl(n)
                cd = self.ast.by_id.get(did)
                obj = kids(kids(n)[0])[0] if k == 'CXXMemberCallExpr' and kids(kids(n)[0]) else (kids(n)[1] if len(kids(n)) > 1 else None)
                if cd is not None and has_body(cd):
                    if not self.is_pure(did):
                        if obj is None or not local_target(obj):
                            ok = False
                            return
                elif nm in MUT:
                    if obj is None or not local_target(obj):
                        ok = False
                        return
                elif nm in READ or (nm or '').startswith('operator '):
                    pass
                else:
                    ok = False
                    return
            if k in ('CXXNewExpr', 'CXXDeleteExpr', 'LambdaExpr', 'GotoStmt', 'GCCAsmStmt'):
                ok = False
                return
            for c in kids(n):
                walk(c)
        b = body_of(d)
        walk(b)
        # constructors' member initialisers write members of a *new* object only: not relevant here
        self.pure_cache[decl_id] = ok
        return ok

    # ---------------------------------------------------------------- expression walk
    def rec(self, regions, rw):
        for r in regions:
            if r.startswith('@'):
                continue
            self.cur.acc.add((r, rw))
            if rw == 'W' and r == 'primary':
                for c in self.cfields.values():
                    self.cur.acc.add((c, 'W'))

    def arg_ctx(self, a):
        """context for an argument expression (parameter types of std:: callees are not in the filtered AST)"""
        if a.get('kind') == 'ImplicitCastExpr':
            if a.get('castKind') == 'LValueToRValue':
                return 'R'
            if a.get('castKind') == 'NoOp' and 'const' in a.get('type', {}).get('qualType', ''):
                return 'R'
        if a.get('valueCategory') == 'lvalue' and 'const' not in a.get('type', {}).get('qualType', ''):
            return 'W'
        return 'R'

    def expr(self, n, ctx):
        k = n.get('kind')
        if k in LEAF_KINDS:
            return
        if k in PASS_KINDS:
            for c in kids(n):
                self.expr(c, ctx)
            return
        if k == 'ImplicitCastExpr':
            self.expr(kids(n)[0], 'R' if n.get('castKind') == 'LValueToRValue' else ctx)
            return
        if k == 'DeclRefExpr':
            rd = n.get('referencedDecl', {})
            if rd.get('id') in self.guard_vars:
                raise Unsupported('guard object %s used after its declaration' % rd.get('name'))
            return
        if k == 'MemberExpr':
            rid = n.get('referencedMemberDecl')
            base = kids(n)[0] if kids(n) else None
            if rid in self.fields:
                if base is None or strip_casts(base).get('kind') != 'CXXThisExpr':
                    raise Unsupported('member %s accessed through something other than this' % n.get('name'))
                nm = self.fields[rid]
                if nm in self.lock_fields and ctx == 'W':
                    raise Unsupported('lock member %s modified' % nm)
                self.rec({nm}, ctx)
                return
            if rid in self.cfields:
                self.rec({self.cfields[rid]}, ctx)
                self.expr(base, 'R')
                return
            if rid in self.methods:
                raise Unsupported('bound member function outside a call')
            # member of an untracked record (pair.first/second, ...): part of the base lvalue
            if base is not None:
                self.expr(base, ctx if not n.get('isArrow') else 'R')
            return
        if k == 'CXXMemberCallExpr':
            cal = strip_casts(kids(n)[0])
            args = kids(n)[1:]
            if cal.get('kind') != 'MemberExpr':
                raise Unsupported('member call through ' + cal.get('kind', '?'))
            did = cal.get('referencedMemberDecl')
            obj = kids(cal)[0] if kids(cal) else None
            if did in self.methods:
                if obj is None or strip_casts(obj).get('kind') != 'CXXThisExpr':
                    raise Unsupported('mem_cache method %s called on another object' % cal.get('name'))
                for a in args:
                    self.expr(a, self.arg_ctx(a))
                self.inline(did)
                return
            sobj = strip_casts(obj)
            if sobj.get('kind') == 'DeclRefExpr' and sobj.get('referencedDecl', {}).get('id') in self.guard_vars:
                raise Unsupported('explicit call %s() on a guard object' % cal.get('name'))
            reg = self.obj_region(obj)
            shared = any(not r.startswith('@') for r in reg)
            if shared:
                eff = self.method_effect(did, cal.get('name'))
                self.expr(obj, eff)
            else:
                self.expr(obj, 'R')
            for a in args:
                self.expr(a, self.arg_ctx(a))
            return
        if k == 'CXXOperatorCallExpr':
            nm = self.callee_name(n)
            ops = kids(n)[1:]
            if nm in ('operator->', 'operator*') and len(ops) == 1:
                t = qt(strip_casts(ops[0]))
                reg = self.itmap.get(t)
                if reg is None:
                    t2 = qt(ops[0])
                    reg = self.itmap.get(t2)
                if reg is None:
                    if 'unique_ptr' in t and strip_casts(ops[0]).get('kind') == 'MemberExpr':
                        # *access_lock / *lru_mutex : read of the (immutable) pointer member
                        self.expr(ops[0], 'R')
                        return
                    raise Unsupported('dereference of an iterator of unknown provenance: ' + t[:120])
                self.rec(reg, ctx)
                self.expr(ops[0], 'R')
                return
            if nm in ('operator=', 'operator+=', 'operator-=', 'operator++', 'operator--'):
                self.expr(ops[0], 'W')
                for a in ops[1:]:
                    self.expr(a, self.arg_ctx(a))
                return
            if nm in ('operator==', 'operator!=', 'operator<', 'operator>', 'operator<=', 'operator>=', 'operator()'):
                for a in ops:
                    self.expr(a, 'R')
                return
            raise Unsupported('operator call ' + str(nm))
        if k == 'CallExpr':
            for a in kids(n)[1:]:
                self.expr(a, self.arg_ctx(a))
            return
        if k in ('CXXConstructExpr', 'CXXTemporaryObjectExpr', 'InitListExpr'):
            for a in kids(n):
                self.expr(a, self.arg_ctx(a))
            return
        if k in ('BinaryOperator', 'CompoundAssignOperator'):
            op = n.get('opcode', '')
            l, r = kids(n)
            if op.endswith('=') and op not in ('==', '!=', '<=', '>='):
                self.expr(l, 'W')
                self.expr(r, 'R')
            else:
                self.expr(l, 'R')
                self.expr(r, 'R')
            return
        if k == 'UnaryOperator':
            op = n.get('opcode')
            if op in ('++', '--', '&'):
                self.expr(kids(n)[0], 'W')
            else:
                self.expr(kids(n)[0], 'R' if op != '*' else 'R')
            return
        if k == 'ConditionalOperator':
            c, a, b = kids(n)
            self.expr(c, 'R')
            self.expr(a, ctx)
            self.expr(b, ctx)
            return
        if k == 'ArraySubscriptExpr':
            for c in kids(n):
                self.expr(c, ctx)
            return
        raise Unsupported('expression kind %s in %s' % (k, self.cur_method))

    # ---------------------------------------------------------------- statements
    def guard_of(self, vd):
        """(lockname, mode) if the VarDecl is an RAII guard, else None"""
        t = qt(vd)
        if not GUARD_RE.search(t) and not GUARD_RE.search(vd.get('type', {}).get('qualType', '')):
            return None
        mode = 'Shared' if re.search(r'\b(shared_lock|shared_guard)\s*<', t) else 'Excl'
        init = kids(vd)
        if len(init) != 1 or init[0].get('kind') not in ('CXXConstructExpr', 'ExprWithCleanups'):
            raise Unsupported('guard %s: unusual initialiser' % vd.get('name'))
        ce = strip_casts(init[0]) if init[0].get('kind') != 'CXXConstructExpr' else init[0]
        if ce.get('kind') != 'CXXConstructExpr' or len(kids(ce)) != 1:
            raise Unsupported('guard %s: constructor with other than one argument (deferred/try lock?)' % vd.get('name'))
        found = []

        def walk(n):
            if n.get('kind') == 'MemberExpr' and n.get('referencedMemberDecl') in self.fields:
                found.append(self.fields[n['referencedMemberDecl']])
            for c in kids(n):
                walk(c)
        walk(ce)
        if len(found) != 1:
            raise Unsupported('guard %s: cannot identify the lock member' % vd.get('name'))
        if found[0] not in self.lock_fields:
            raise Unsupported('guard on a member that is not a known mutex: ' + found[0])
        # the mutex type decides what Excl/Shared mean
        kind = self.lock_fields[found[0]]
        if mode == 'Shared' and kind != 'rw':
            raise Unsupported('shared guard on a plain mutex')
        return found[0], mode

    def stmt(self, n, in_loop):
        k = n.get('kind')
        if k == 'CompoundStmt':
            saved = self.cur
            saved_held = list(self.held)
            ss = kids(n)
            for idx, s in enumerate(ss):
                if s.get('kind') == 'DeclStmt':
                    for vd in kids(s):
                        if vd.get('kind') != 'VarDecl':
                            continue
                        g = self.guard_of(vd)
                        if g:
                            if in_loop:
                                raise Unsupported('guard declared inside a loop in ' + self.cur_method)
                            self.guard_vars.add(vd['id'])
                            if g[0] in [h for h, _ in self.held]:
                                via = self.methods[self.stack[-1]]['name']
                                self.diagnostics.append(('deadlock', '%s: %s is taken%s while this thread already holds it (%s): '
                                                         'the lock is not recursive, the thread blocks on itself' % (
                                                             self.cur_method, g[0], ' (inside the call of %s())' % via if len(self.stack) > 1 else '',
                                                             ', '.join('%s:%s' % h for h in self.held))))
                            # the lock expression itself is evaluated in the enclosing scope
                            self.rec({g[0]}, 'R')
                            sc = Scope(g[0], g[1])
                            self.cur.children.append(sc)
                            self.cur = sc
                            self.held.append(g)
                        else:
                            self.vardecl(vd)
                    continue
                # a call of a locking method at a point where no lock is held, in tail position: alternative path
                did = self.locking_call(s)
                ret_call = None
                if did is None and s.get('kind') == 'ReturnStmt' and len(kids(s)) == 1:
                    ret_call = self.locking_call(kids(s)[0])
                if (did is not None or ret_call is not None) and not self.held and len(self.stack) == 1 \
                        and not in_loop and self.loop_depth == 0 and self.try_depth_guarded == 0:
                    rest = ss[idx + 1:]
                    # tail position: nothing but simple, lock-free statements follow in this block and the last one is `return`
                    tail = ret_call is not None or (not rest and n is self.method_body) or \
                        (rest and rest[-1].get('kind') == 'ReturnStmt' and all(self.simple_lockfree(r) for r in rest))
                    if tail:
                        self.alt_path(strip_casts(s) if did is not None else strip_casts(kids(s)[0]), did if did is not None else ret_call)
                        continue
                self.stmt(s, in_loop)
            self.cur = saved
            self.held = saved_held
            return
        if k == 'DeclStmt':
            for vd in kids(n):
                if vd.get('kind') == 'VarDecl':
                    if self.guard_of(vd):
                        raise Unsupported('guard declared outside a compound statement in ' + self.cur_method)
                    self.vardecl(vd)
            return
        if k == 'IfStmt':
            for c in kids(n):
                self.stmt(c, in_loop)
            return
        if k in ('ForStmt', 'WhileStmt', 'DoStmt', 'CXXForRangeStmt'):
            self.loop_depth += 1
            for c in kids(n):
                self.stmt(c, True)
            self.loop_depth -= 1
            return
        if k == 'CXXTryStmt':
            # a call made inside the try BLOCK is never a tail call: a handler of this try may run after it
            cs = kids(n)
            self.try_depth_guarded += 1
            self.stmt(cs[0], in_loop)
            self.try_depth_guarded -= 1
            for c in cs[1:]:
                self.stmt(c, in_loop)
            return
        if k in ('ReturnStmt', 'CXXCatchStmt', 'SwitchStmt', 'CaseStmt', 'DefaultStmt'):
            for c in kids(n):
                if c.get('kind') == 'VarDecl':      # catch parameter
                    continue
                self.stmt(c, in_loop)
            return
        if k in ('NullStmt', 'BreakStmt', 'ContinueStmt'):
            return
        if k in ('GotoStmt', 'LabelStmt', 'IndirectGotoStmt', 'LambdaExpr', 'GCCAsmStmt', 'CoroutineBodyStmt'):
            raise Unsupported('statement kind %s in %s' % (k, self.cur_method))
        if k.endswith('Stmt'):
            raise Unsupported('statement kind %s in %s' % (k, self.cur_method))
        self.expr(n, 'R')

    def vardecl(self, vd):
        t = vd.get('type', {}).get('qualType', '')
        for init in kids(vd):
            if t.rstrip().endswith('&') and 'const' not in t:
                # non-const reference bound to something shared: later stores through the alias are attributed here
                self.expr(init, 'W' if self.obj_region(init) - {'@local', '@arg'} and not self.is_container_ref(t) else 'R')
            else:
                self.expr(init, 'R')

    def is_container_ref(self, t):
        # `container &cont = main->second;` : members of struct container are tracked by declaration, so the
        # alias itself needs no pessimistic write
        return re.search(r'\bcontainer\s*&\s*$', t) is not None

    def inline(self, did):
        if did in self.stack:
            raise Unsupported('recursive helper ' + self.methods[did]['name'])
        self.stack.append(did)
        self.stmt(body_of(self.methods[did]), self.loop_depth > 0)
        self.stack.pop()

    def alt_path(self, call, did):
        """`call` = CXXMemberCallExpr of the locking method `did`, no lock held, next thing the method does is return:
        record the path  <guard scopes textually before the call> ; <scope tree of the callee>"""
        for a in kids(call)[1:]:
            self.expr(a, self.arg_ctx(a))
        root = self.cur
        if root.lock is not None or root is not self.root:
            raise Unsupported('internal: alternative path outside the root scope')
        before = list(root.children)
        tmp = Scope()
        self.cur = tmp
        self.inline(did)
        self.cur = root
        path = Scope()
        path.acc = tmp.acc           # completed with the root accesses of the caller at the end of run_method
        path.children = before + tmp.children
        self.alts.append((self.methods[did]['name'], path))

    def run_method(self, name):
        ms = [m for m in self.methods.values() if m['name'] == name]
        if len(ms) != 1:
            raise Unsupported('method %s: %d definitions' % (name, len(ms)))
        m = ms[0]
        self.cur_method = name
        self.guard_vars = set()
        self.stack = [m['id']]
        self.loop_depth = 0
        self.try_depth_guarded = 0
        self.held = []
        self.alts = []
        root = Scope()
        self.root = root
        self.cur = root
        self.method_body = body_of(m)
        self.stmt(self.method_body, False)
        paths = [root]
        for callee, p in self.alts:
            p.acc = set(p.acc) | set(root.acc)      # conservative: everything the caller touches outside its locks
            self.alt_info.append((name, callee, len(paths)))
            paths.append(p)
        return paths

    def run(self):
        # which members are mutexes
        self.lock_fields = {}
        for c in kids(self.spec):
            if c.get('kind') == 'FieldDecl':
                t = qt(c)
                if re.search(r'\bshared_mutex\b', t):
                    self.lock_fields[c['name']] = 'rw'
                elif re.search(r'\bmutex\b', t):
                    self.lock_fields[c['name']] = 'mutex'
        if not self.lock_fields:
            raise Unsupported('no mutex members found')
        out = {}
        for name in self.entry:
            out[name] = self.run_method(name)
        return out


# -------------------------------------------------------------------------------------------------
# lock primitives: guard class -> mutex method -> pthread call
# -------------------------------------------------------------------------------------------------
def calls_in(n, out):
    if n.get('kind') in ('CallExpr', 'CXXMemberCallExpr'):
        c = strip_casts(kids(n)[0])
        nm = c.get('referencedDecl', {}).get('name') if c.get('kind') == 'DeclRefExpr' else c.get('name')
        if nm:
            out.append(nm)
    for c in kids(n):
        calls_in(c, out)


def lock_primitives(repo, incs):
    """check the chain guard -> booster::shared_mutex method -> pthread_rwlock_* ; returns a description dict.
    std::mutex / std::unique_lock are trusted (libstdc++)."""
    want = {'shared_lock': ['pthread_rwlock_rdlock'], 'unique_lock': ['pthread_rwlock_wrlock'],
            'unlock': ['pthread_rwlock_unlock']}
    objs = run_clang(os.path.join(repo, 'booster/lib/thread/src/pthread.cpp'), 'booster::shared_mutex::', incs)
    got = {}
    for o in objs:
        if o.get('kind') == 'CXXMethodDecl' and has_body(o) and o.get('name') in want:
            l = []
            calls_in(body_of(o), l)
            got[o['name']] = l
    for k, v in want.items():
        if got.get(k) != v:
            raise Unsupported('booster::shared_mutex::%s calls %r, expected %r' % (k, got.get(k), v))
    # header (seen from the cache TU, where shared_lock<shared_mutex> is instantiated):
    # shared_mutex::lock() -> unique_lock(); shared_lock<M>: ctor -> shared_lock(), dtor -> unlock()
    cache_src = os.path.join(repo, 'src/cache_storage.cpp')
    objs = run_clang(cache_src, 'booster::shared_lock', incs)
    ok_ctor = ok_dtor = False
    for o in objs:
        for spec in [c for c in kids(o) if c.get('kind') == 'ClassTemplateSpecializationDecl']:
            for n in kids(spec):
                if n.get('kind') == 'CXXConstructorDecl' and has_body(n):
                    l = []
                    calls_in(body_of(n), l)
                    if l != ['shared_lock']:
                        raise Unsupported('booster::shared_lock constructor calls %r' % l)
                    ok_ctor = True
                if n.get('kind') == 'CXXDestructorDecl' and has_body(n):
                    l = []
                    calls_in(body_of(n), l)
                    if l != ['unlock']:
                        raise Unsupported('booster::shared_lock destructor calls %r' % l)
                    ok_dtor = True
    if not (ok_ctor and ok_dtor):
        raise Unsupported('booster::shared_lock<M>: constructor/destructor not of the form m->shared_lock() / m->unlock()')
    objs = run_clang(cache_src, 'booster::shared_mutex', incs)
    lock_ok = False
    for o in objs:
        if o.get('kind') == 'CXXRecordDecl' and o.get('name') == 'shared_mutex':
            for n in kids(o):
                if n.get('kind') == 'CXXMethodDecl' and n.get('name') == 'lock' and has_body(n):
                    l = []
                    calls_in(body_of(n), l)
                    if l != ['unique_lock']:
                        raise Unsupported('booster::shared_mutex::lock() calls %r' % l)
                    lock_ok = True
    if not lock_ok:
        raise Unsupported('booster::shared_mutex::lock() not found')
    return {'Shared': 'booster::shared_lock<M> -> M::shared_lock -> pthread_rwlock_rdlock',
            'Excl': 'std::unique_lock<M> -> M::lock -> M::unique_lock -> pthread_rwlock_wrlock / std::mutex::lock'}


# -------------------------------------------------------------------------------------------------
# independent lexical extractor (cross-check)
# -------------------------------------------------------------------------------------------------
def strip_comments(s):
    s = re.sub(r'//[^\n]*', lambda m: ' ' * len(m.group(0)), s)
    s = re.sub(r'/\*.*?\*/', lambda m: re.sub(r'[^\n]', ' ', m.group(0)), s, flags=re.S)
    s = re.sub(r'"(?:\\.|[^"\\])*"', lambda m: '"' + ' ' * (len(m.group(0)) - 2) + '"', s)
    return s


def match_brace(s, i):
    assert s[i] == '{'
    d = 0
    for j in range(i, len(s)):
        if s[j] == '{':
            d += 1
        elif s[j] == '}':
            d -= 1
            if d == 0:
                return j
    raise Unsupported('lexical: unbalanced braces')


def lexical(repo, field_names, cfield_names, entry):
    src = strip_comments(open(os.path.join(repo, 'src/cache_storage.cpp')).read())
    src = re.sub(r'\bthis\s*->\s*', '', src)        # this->member / this->method(..) = member / method(..)
    m = re.search(r'class\s+mem_cache\s*:\s*public\s+base_cache\s*\{', src)
    if not m:
        raise Unsupported('lexical: class mem_cache not found')
    cb, ce = m.end() - 1, None
    ce = match_brace(src, cb)
    cls = src[cb:ce]
    # method bodies: name(args) {body}  at class level
    bodies = {}
    params = {}
    for mm in re.finditer(r'(?:virtual\s+)?[\w:<>\*&\s]+?\b(\w+)\s*\(([^;{}]*?)\)\s*\{', cls):
        name = mm.group(1)
        if name in ('if', 'for', 'while', 'switch', 'catch', 'mem_cache'):
            continue
        st = mm.end() - 1
        # class-level only: brace depth 1 at st
        depth = cls[:st].count('{') - cls[:st].count('}')
        if depth != 1:
            continue
        en = match_brace(cls, st)
        bodies[name] = cls[st:en + 1]
        params[name] = set(re.findall(r'(\w+)\s*(?:,|$)', mm.group(2).replace('\n', ' ')))
    guard_re = re.compile(r'\b(rdlock_guard|wrlock_guard|lock_guard)\s+\w+\s*\(\s*\*\s*(\w+)\s*\)\s*;')
    out = {}
    if re.search(r'(?:public|protected|private|:|,)\s*mem_cache\b\s*(?:<[^{;]*>)?\s*(?:,|\{)', src[ce:]) or \
            re.search(r'(?:public|protected|private)\s+mem_cache\b', src):
        raise Unsupported('lexical: a class derives from mem_cache (virtual calls inside the class may reach an override)')
    calls = []          # (entry method, called entry method, lock path at the call, followed by return?)

    def after_call(seg, pos):
        """text after the call whose name ends at pos: skip the balanced argument list and `;`"""
        i = seg.index('(', pos)
        d = 0
        for j in range(i, len(seg)):
            if seg[j] == '(':
                d += 1
            elif seg[j] == ')':
                d -= 1
                if d == 0:
                    return seg[j + 1:]
        return ''

    ctl_re = re.compile(r'\b(if|else|for|while|do|switch|try|catch|goto|break|continue)\b')

    def is_tail(pre, rest, at_end):
        """the call is `return f(..);`, or the rest of the block is simple statements without guards / calls of entry methods, the
        last of them a return"""
        if re.search(r'\breturn\s*$', pre) is not None and re.match(r'\s*;', rest) is not None:
            return True
        m0 = re.match(r'\s*;', rest)
        if not m0 or not at_end:
            return False
        body = rest[m0.end():]
        if ctl_re.search(body) or guard_re.search(body):
            return False
        for w in re.finditer(r'(?<![\w\.>])(\w+)\s*\(', body):
            if w.group(1) in bodies:
                return False                      # any call of a class method after it: not accepted as tail (conservative)
        stmts = [x.strip() for x in body.split(';') if x.strip()]
        return bool(stmts) and re.match(r'return\b', stmts[-1]) is not None

    def flush(name, seg, cur, acc, locals_, depth, at_end=False):
        for d in re.finditer(r'\b(?:pointer|time_t|unsigned|size_t|triggers_ptr|string_type)\s+(\w+)\s*[=;(]', seg):
            locals_.add(d.group(1))
        for idm in re.finditer(r'(?<![\w\.>])(\w+)\b(?!\s*::)', seg):
            w = idm.group(1)
            pre = seg[:idm.start()].rstrip()
            if w in field_names and w not in locals_ and not pre.endswith('.') and not pre.endswith('->'):
                acc.add((cur, w))
            elif w in bodies and w != name and re.match(r'\s*\(', seg[idm.end():]):
                if w in entry:
                    calls.append((name if depth == 0 else None, w, cur, is_tail(pre, after_call(seg, idm.end()), at_end)))
                scan(w, bodies[w], cur, acc, set(params.get(w, ())), depth + 1)
        for cm in re.finditer(r'(?:(?:\.|->)second|\bcont)\s*\.\s*(\w+)', seg):
            if 'c.' + cm.group(1) in cfield_names:
                acc.add((cur, 'c.' + cm.group(1)))

    def scan(name, text, path, acc, locals_, depth=0):
        """text = '{...}' block; path = tuple of (lock, mode) held on entry; guards declared in this block extend
        the path for the rest of the block"""
        if depth > 8:
            raise Unsupported('lexical: helper recursion')
        i = 1
        cur = path
        n = len(text) - 1
        seg_start = 1
        while i < n:
            if text[i] == '{':
                flush(name, text[seg_start:i], cur, acc, locals_, depth)
                j = match_brace(text, i)
                scan(name, text[i:j + 1], cur, acc, locals_, depth)
                i = j + 1
                seg_start = i
                continue
            gm = guard_re.match(text, i)
            if gm and not (text[i - 1].isalnum() or text[i - 1] == '_'):
                flush(name, text[seg_start:i], cur, acc, locals_, depth)
                acc.add((cur, gm.group(2)))
                mode = 'Shared' if gm.group(1) == 'rdlock_guard' else 'Excl'
                cur = cur + ((gm.group(2), mode),)
                i = gm.end()
                seg_start = i
                continue
            i += 1
        flush(name, text[seg_start:n], cur, acc, locals_, depth, at_end=True)

    for name in entry:
        if name not in bodies:
            raise Unsupported('lexical: body of %s not found' % name)
        acc = set()
        scan(name, bodies[name], (), acc, set(params.get(name, ())))
        out[name] = acc
    return out, calls


def flatten(scope, path=()):
    """AST scope tree -> set of (lockpath, field) as the lexical extractor produces"""
    p = path + (((scope.lock, scope.mode),) if scope.lock else ())
    s = set((p, f) for f, _ in scope.acc)
    for c in scope.children:
        s |= flatten(c, p)
    return s


def cross_check_calls(alt_info, calls):
    """the alternative paths of the AST side = the calls of entry methods that the lexical side sees directly in an entry
    method, outside every guard, followed by return"""
    a = sorted((caller, callee) for caller, callee, _ in alt_info)
    l = sorted((caller, callee) for caller, callee, path, tail in calls if caller is not None and path == () and tail)
    if a != l:
        raise Unsupported('AST and lexical extractors disagree on the calls of locking methods in tail position outside every lock: '
                          '%r vs %r' % (a, l))


def cross_check(tabs, lex, top_fields):
    """compare on top-level fields named literally in the text plus container members written as .second.X / cont.X.
    The AST side additionally derives accesses the text does not spell out (iterator dereferences, c.* writes implied
    by primary.erase, ...), so the AST set must be a superset of the lexical set, and every lock path must coincide."""
    for name, paths in tabs.items():
        a = set()
        for sc in paths:
            a |= flatten(sc)
        l = lex[name]
        if set(p for p, _ in a) != set(p for p, _ in l):
            raise Unsupported('AST and lexical extractors disagree on the lock scopes of %s: %r vs %r' % (
                name, sorted(set(p for p, _ in a)), sorted(set(p for p, _ in l))))
        missing = l - a
        if missing:
            raise Unsupported('lexical extractor sees accesses the AST extractor does not in %s: %r' % (name, sorted(missing)))
        # literal top-level names must also not be invented by the AST side
        extra = set((p, f) for p, f in a if f in top_fields and not f.startswith('c.')) - l
        # iterator dereferences add container regions that the text does not name: allowed only for containers
        extra = set((p, f) for p, f in extra if f not in ('primary', 'triggers', 'timeout', 'lru'))
        if extra:
            raise Unsupported('AST extractor sees scalar member accesses the lexical extractor does not in %s: %r' % (name, sorted(extra)))


# -------------------------------------------------------------------------------------------------
def coq_ident(s):
    return re.sub(r'\W', '_', s)


def emit(tabs, ex, prim, src):
    fields = list(ex.field_order)
    fid = {f: i for i, f in enumerate(fields)}
    locks = [f for f in fields if f in ex.lock_fields]
    # number the locks so that nesting goes from smaller to larger ids whenever the nesting relation is acyclic
    # (the numbering is only a witness for the `ordered` check in Coq; if there is a cycle the check fails there)
    edges = set()

    def collect(sc_, outer):
        o2 = outer + ([sc_.lock] if sc_.lock else [])
        if sc_.lock:
            for o in outer:
                edges.add((o, sc_.lock))
        for c in sc_.children:
            collect(c, o2)
    for ps_ in tabs.values():
        for s_ in ps_:
            collect(s_, [])
    order, rest = [], list(locks)
    while rest:
        free = [l for l in rest if not any((o, l) in edges for o in rest if o != l)]
        if not free:
            order += rest
            break
        order.append(free[0])
        rest.remove(free[0])
    locks = order
    lid = {l: i for i, l in enumerate(locks)}
    L = ['(* GENERATED by tools/locktab.py from %s -- do not edit *)' % src,
         'From Coq Require Import NArith List String.', 'From CppcmsV Require Import C09.Defs.',
         'Import ListNotations.', 'Local Open Scope N_scope.', 'Local Open Scope string_scope.', '']
    L.append('(* lock primitives checked: %s ; %s *)' % (prim['Shared'], prim['Excl']))
    for l in locks:
        L.append('Definition l_%s : lockid := %d.' % (coq_ident(l), lid[l]))
    for f in fields:
        L.append('Definition f_%s : fieldid := %d.' % (coq_ident(f), fid[f]))
    L.append('Definition lock_names : list (lockid * string) := [%s].' % '; '.join('(%d, "%s")' % (lid[l], l) for l in locks))
    L.append('Definition field_names : list (fieldid * string) := [%s].' % '; '.join('(%d, "%s")' % (fid[f], f) for f in fields))

    def sc(s, ind):
        lk = 'None' if not s.lock else 'Some (l_%s, %s)' % (coq_ident(s.lock), s.mode)
        acc = '; '.join('(f_%s, %s)' % (coq_ident(f), 'Wr' if rw == 'W' else 'Rd')
                        for f, rw in sorted(s.acc, key=lambda x: (fid[x[0]], x[1])))
        ch = (';\n'.join(sc(c, ind + '  ') for c in s.children))
        return '%sScope (%s)\n%s  [%s]\n%s  [%s]' % (ind, lk, ind, acc, ind, ('\n' + ch + '\n' + ind + '  ') if ch else '')
    callee_of = {(caller, idx): callee for caller, callee, idx in ex.alt_info}
    entries, alts = [], []
    for name, ps in tabs.items():
        for i, s in enumerate(ps):
            if i == 0:
                ident = 'm_%s' % coq_ident(name)
            else:
                callee = callee_of[(name, i)]
                ident = 'm_%s_via_%s' % (coq_ident(name), coq_ident(callee))
                if any(ident == e[1] for e in entries):
                    ident += '_%d' % i
                L.append('(* alternative path of %s: the call %s(..) made outside every lock and followed by return *)' % (name, callee))
                alts.append('("%s", "%s", %s)' % (name, callee, ident))
            L.append('Definition %s : scope :=\n%s.' % (ident, sc(s, '  ')))
            entries.append((name, ident))
    L.append('(* one entry per PATH of a method: a call picks any entry (same name = alternative paths of one method) *)')
    L.append('Definition table : list (string * scope) := [%s].' % '; '.join('("%s", %s)' % e for e in entries))
    L.append('(* (caller, callee, path): paths that consist of a complete call of another entry method *)')
    L.append('Definition alt_paths : list (string * string * scope) := [%s].' % '; '.join(alts))
    return '\n'.join(L) + '\n'


def extract_tables(repo, incs):
    """AST extractor + lexical extractor + their cross-checks on <repo>/src/cache_storage.cpp -> (tabs, ex)"""
    src = os.path.join(repo, 'src/cache_storage.cpp')
    objs = run_clang(src, 'cppcms::impl::', incs)
    ast = Ast(objs)
    spec = None
    for o in objs:
        if o.get('kind') == 'ClassTemplateDecl' and o.get('name') == 'mem_cache':
            for c in kids(o):
                if c.get('kind') == 'ClassTemplateSpecializationDecl' and any(
                        a.get('kind') == 'TemplateArgument' and 'thread_settings' in a.get('type', {}).get('qualType', '')
                        for a in kids(c)):
                    spec = c
    if spec is None:
        raise Unsupported('mem_cache<thread_settings> instantiation not found')
    # the class must only be handed out as base_cache: factories contain no member calls on it
    for o in objs:
        if o.get('kind') == 'FunctionDecl' and o.get('name') == 'thread_cache_factory' and has_body(o):
            l = []
            calls_in(body_of(o), l)
            if l:
                raise Unsupported('thread_cache_factory calls %r on the new cache before publishing it' % l)
    ex = Extractor(ast, spec)
    tabs = ex.run()
    want = {'fetch', 'store', 'rise', 'remove', 'clear', 'stats'}
    if not want <= set(tabs):
        raise Unsupported('entry methods missing: %r' % sorted(want - set(tabs)))
    top = set(ex.fields.values())
    lex, calls = lexical(repo, top, set(ex.cfields.values()), list(tabs))
    cross_check(tabs, lex, top | set(ex.cfields.values()))
    cross_check_calls(ex.alt_info, calls)
    return tabs, ex


def extract(repo, incs):
    tabs, ex = extract_tables(repo, incs)
    prim = lock_primitives(repo, incs)
    return tabs, ex, prim


def selftest(repo, incs, tmpdir):
    """translator self-test on textual variants of the CURRENT source (the handling of calls of locked methods must keep
    failing closed): returns [(name, 'ok' | 'skipped: ..' | 'FAILED: ..')]"""
    import shutil
    text = open(os.path.join(repo, 'src/cache_storage.cpp')).read()
    m = re.search(r'\n([ \t]*)remove\(key\);[ \t]*\n[ \t]*return;[ \t]*\n', text)
    res = []
    if not m:
        return [('nested-locked-call', 'skipped: store has no `remove(key); return;`'), ('non-tail-locked-call', 'skipped: same'),
                ('harmless-rewrite', 'skipped: same')]
    variants = {
        # remove() called while store holds access_lock: must be diagnosed as a self-deadlock
        'nested-locked-call': text[:m.start()] + '\n' + m.group(1) + 'wrlock_guard lock(*access_lock);' + text[m.start():],
        # remove() not followed by return: two critical sections in one call, no alternative path
        'non-tail-locked-call': text[:m.start()] + '\n' + m.group(1) + 'remove(key);\n' + text[m.end():],
        # behaviour-preserving rewrite: explicit this->, a local statement between the call and return: same lock structure
        'harmless-rewrite': text[:m.start()] + '\n' + m.group(1) + 'this->remove(key);\n' + m.group(1) + 'int c09_unused = 0; (void)c09_unused;\n' +
                            m.group(1) + 'return;\n' + text[m.end():],
    }
    for name, t in variants.items():
        d = os.path.join(tmpdir, name)
        shutil.rmtree(d, ignore_errors=True)
        os.makedirs(os.path.join(d, 'src'))
        with open(os.path.join(d, 'src', 'cache_storage.cpp'), 'w') as f:
            f.write(t)
        try:
            tabs, ex = extract_tables(d, list(incs) + [os.path.join(repo, 'src')])
            st = tabs['store']
            if name == 'nested-locked-call':
                ok = any(k == 'deadlock' for k, _ in ex.diagnostics) and not ex.alt_info
                what = 'diagnostics=%r alt=%r' % (ex.diagnostics, ex.alt_info)
            elif name == 'harmless-rewrite':
                ok = [(a, b) for a, b, _ in ex.alt_info] == [('store', 'remove')] and not ex.diagnostics and \
                    [len(p_.children) for p_ in st] == [1, 1]
                what = 'alt=%r diagnostics=%r sections=%r' % (ex.alt_info, ex.diagnostics, [len(p_.children) for p_ in st])
            else:
                ok = not ex.alt_info and len(st) == 1 and len(st[0].children) == 2
                what = 'alt=%r sections of store=%d' % (ex.alt_info, len(st[0].children))
            res.append((name, 'ok' if ok else 'FAILED: ' + what))
        except Unsupported as e:
            if name == 'harmless-rewrite':
                res.append((name, 'FAILED: translator refused a behaviour-preserving rewrite: %s' % str(e)[:200]))
            else:
                res.append((name, 'ok (translator refused: %s)' % str(e)[:200]))
        shutil.rmtree(d, ignore_errors=True)
    return res


def generate(repo, incs, out_path):
    tabs, ex, prim = extract(repo, incs)
    txt = emit(tabs, ex, prim, os.path.join(repo, 'src/cache_storage.cpp'))
    old = open(out_path).read() if os.path.exists(out_path) else None
    if old != txt:
        os.makedirs(os.path.dirname(out_path), exist_ok=True)
        with open(out_path, 'w') as f:
            f.write(txt)
    return tabs, ex


if __name__ == '__main__':
    repo = sys.argv[1] if len(sys.argv) > 1 else '/repo'
    incs = [repo, repo + '/booster', '/verif/.work/build', '/verif/.work/build/booster', repo + '/private']
    tabs, ex, prim = extract(repo, incs)
    for n, ps in tabs.items():
        for i, s in enumerate(ps):
            print(n, 'path %d' % i, json.dumps(s.to_obj(), indent=1))
    print('alt', ex.alt_info, 'diagnostics', ex.diagnostics)
