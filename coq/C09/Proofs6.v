(* C09 proofs, part 6: successor functions of the instrumented semantics (used to build the non-vacuity example) *)
From CppcmsV Require Import Base.Tac C09.Defs.
From Coq Require Import String.

Definition do_call (g : gconfig) (t : nat) (m : scope) : gconfig :=
  mkG (upd (g_c g) t [mkframe [] m]) (S (g_now g)) (updo (g_cur g) t (Some (g_ntx g))) (S (g_ntx g))
      (updo (g_txn g) (g_ntx g) (mkT t (g_now g) (g_now g) None)) (g_log g).
Definition do_enter (g : gconfig) (t : nat) (f : frame) (st : tstate) (k : scope) (post : list scope) : gconfig :=
  mkG (upd (g_c g) t (mkframe (fheld f) k :: mkF (fheld f) (faccs f) post :: st)) (S (g_now g)) (g_cur g)
      (g_ntx g) (bump_lp g t (scope_lock k)) (g_log g).
Definition do_exit (g : gconfig) (t : nat) (st : tstate) : gconfig :=
  mkG (upd (g_c g) t st) (S (g_now g)) (match st with [] => updo (g_cur g) t None | _ => g_cur g end)
      (g_ntx g) (finish g t st) (g_log g).
Definition do_acc (g : gconfig) (f : frame) (fl : fieldid) (r : rw) (x : nat) : gconfig :=
  mkG (g_c g) (S (g_now g)) (g_cur g) (g_ntx g) (g_txn g) (mkA x fl r (g_now g) (fheld f) :: g_log g).

Lemma do_call_step tbl g t name m :
  g_c g t = [] -> In (name, m) tbl -> can_acquire (g_c g) t (scope_lock m) -> gstep tbl g (do_call g t m).
Proof. intros. eapply gstep_call; eauto. Qed.
Lemma do_enter_step tbl g t f st pre k post :
  g_c g t = f :: st -> frest f = pre ++ k :: post -> can_acquire (g_c g) t (scope_lock k) -> gstep tbl g (do_enter g t f st k post).
Proof. intros. eapply gstep_enter; eauto. Qed.
Lemma do_exit_step tbl g t f st : g_c g t = f :: st -> gstep tbl g (do_exit g t st).
Proof. intros. eapply gstep_exit; eauto. Qed.
Lemma do_acc_step tbl g t f st fl r x :
  g_c g t = f :: st -> In (fl, r) (faccs f) -> g_cur g t = Some x -> gstep tbl g (do_acc g f fl r x).
Proof. intros. eapply gstep_acc; eauto. Qed.

(* first nested guard scope of a scope *)
Definition kid0 (s : scope) : scope := match scope_kids s with k :: _ => k | [] => s end.
