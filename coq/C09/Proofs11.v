(* C09 proofs, part 11: the clauses of the property text for CONCURRENT histories.
   From linearizability (any history that is linearizable w.r.t. the cache object, in particular every history of the
   data-level lock model) and C07's theorems about sequential histories: a hit is the entry of a store to the same key
   (value, triggers, deadline, generation - no torn value, no value of another key), that store was not invoked after
   the fetch returned, and no rise of one of its triggers / remove / clear / other store of the key / failed store of the
   key ran entirely between that store and the fetch. *)
From CppcmsV Require Import Base.Tac C09.Defs C09.Proofs3 C09.LockModel.
From CppcmsV Require C07.Defs C07.MapSpec C07.ProofsSpec C07.ProofsCor C07.ProofsIfc C09.Seq.

Module D := CppcmsV.C07.Defs.
Module M := CppcmsV.C07.MapSpec.
Import CppcmsV.C09.Seq.

Notation call := (nat * cop * cret)%type.
Definition ops_of (now : Z) (l : list call) : list D.op := map (fun c : call => to_op now (snd (fst c))) l.

Lemma step_to_op now o s :
  fst (fst (D.step now (to_op now o) s)) = now /\ snd (fst (D.step now (to_op now o) s)) = fst (eff now s o).
Proof.
  destruct o; simpl; try (split; reflexivity).
  destruct (D.fetch now k s) as [s' r]. simpl. split; reflexivity.
Qed.

Lemma run_ops_of now l : forall s,
  fst (fst (D.run now (ops_of now l) s)) = now /\
  snd (fst (D.run now (ops_of now l) s)) = seq_run D.state cop cret (eff now) s l.
Proof.
  induction l as [|[[id o] r] l IH]; intros s; [split; reflexivity|].
  unfold ops_of. cbn [map fst snd]. rewrite C07.ProofsIfc.run_cons. cbn [fst snd].
  destruct (step_to_op now o s) as [E1 E2]. rewrite E1, E2. apply IH.
Qed.

Lemma run_app_last now ops o : forall s,
  C07.ProofsSpec.last_out (snd (D.run now (ops ++ [o]) s)) =
  snd (D.step (fst (fst (D.run now ops s))) o (snd (fst (D.run now ops s)))).
Proof.
  revert now. induction ops as [|p ops IH]; intros now s.
  - cbn [app]. rewrite C07.ProofsIfc.run_cons. cbn [D.run fst snd]. reflexivity.
  - cbn [app]. rewrite !C07.ProofsIfc.run_cons. cbn [fst snd].
    rewrite <- IH. unfold C07.ProofsSpec.last_out. cbn [map].
    destruct (snd (D.run (fst (fst (D.step now p s))) (ops ++ [o]) (snd (fst (D.step now p s))))) eqn:E; [|reflexivity].
    exfalso. clear -E. revert E. generalize (fst (fst (D.step now p s))), (snd (fst (D.step now p s))).
    induction ops as [|q ops IH]; intros n st; cbn [app]; rewrite C07.ProofsIfc.run_cons; cbn [snd]; discriminate.
Qed.

(* the answer of a fetch that follows the calls l in a legal sequential run = C07's last_out of the history *)
Lemma fetch_after now lim l k :
  C07.ProofsSpec.last_out (snd (D.run now (ops_of now l ++ [D.Fetch k]) (D.init lim))) =
  snd (D.fetch now k (seq_run D.state cop cret (eff now) (D.init lim) l)).
Proof.
  rewrite run_app_last. destruct (run_ops_of now l (D.init lim)) as [E1 E2]. rewrite E1, E2.
  cbn [D.step]. destruct (D.fetch now k _) as [s' r]. reflexivity.
Qed.

(* ---- list lemmas ---- *)
Lemma last_split {A} (P : A -> bool) (l : list A) :
  forallb (fun x => negb (P x)) l = true \/
  exists pre x mid, l = pre ++ x :: mid /\ P x = true /\ forallb (fun x => negb (P x)) mid = true.
Proof.
  induction l as [|a l IH]; [left; reflexivity|].
  destruct IH as [Hno|(pre & x & mid & -> & Px & Hmid)].
  - destruct (P a) eqn:Pa.
    + right. exists [], a, l. repeat split; assumption.
    + left. simpl. now rewrite Pa, Hno.
  - right. exists (a :: pre), x, mid. repeat split; assumption.
Qed.
Lemma forallb_false_ex {A} (f : A -> bool) (l : list A) :
  forallb f l = false -> exists l0 x l1, l = l0 ++ x :: l1 /\ f x = false.
Proof.
  induction l as [|a l IH]; simpl; [discriminate|].
  destruct (f a) eqn:Fa; simpl.
  - intros H. destruct (IH H) as (l0 & x & l1 & -> & Fx). exists (a :: l0), x, l1. split; [reflexivity|exact Fx].
  - intros _. exists [], a, l. split; [reflexivity|exact Fa].
Qed.
Lemma forallb_map {A B} (g : A -> B) (f : B -> bool) l : forallb f (map g l) = forallb (fun x => f (g x)) l.
Proof. induction l as [|a l IH]; simpl; [reflexivity|]. now rewrite IH. Qed.

Section Seq.
  Variable now : Z.
  Variable lim : N.
  Notation srun := (seq_run D.state cop cret (eff now) (D.init lim)).
  Definition opc (c : call) : D.op := to_op now (snd (fst c)).
  Definition inval_ops (k : D.key) (ts : list D.key) (c : call) : bool := M.invalidates k ts (opc c).

  Lemma ops_of_app l1 l2 : ops_of now (l1 ++ l2) = ops_of now l1 ++ ops_of now l2.
  Proof. unfold ops_of. apply map_app. Qed.
  Lemma ops_of_cons c l : ops_of now (c :: l) = opc c :: ops_of now l.
  Proof. reflexivity. Qed.
  Lemma no_store_ops k l :
    forallb (fun c => negb (M.stores_key k (opc c))) l = forallb (fun o => negb (M.stores_key k o)) (ops_of now l).
  Proof. unfold ops_of. now rewrite forallb_map. Qed.

  (* a hit after the calls l1 of a legal sequential run is explained by the last store to that key in l1 *)
  Lemma hit_explained_seq l1 k v trigs d g :
    snd (D.fetch now k (srun l1)) = D.OHit v trigs d g ->
    exists pre ids vs tin gs rs mid,
      l1 = pre ++ (ids, OStore k vs tin d gs, rs) :: mid /\ v = vs /\ trigs = D.store_trigs k tin /\
      (forall x, gs = Some x -> g = x) /\
      forallb (fun c => negb (inval_ops k (D.store_trigs k tin) c)) mid = true.
  Proof.
    intros H. rewrite <- fetch_after in H.
    destruct (last_split (fun c => M.stores_key k (opc c)) l1) as [Hno|(pre & x & mid & -> & Px & Hmid)].
    - rewrite no_store_ops in Hno. rewrite (C07.ProofsCor.fetch_miss_never_stored_l lim now _ k Hno) in H. discriminate.
    - destruct x as [[ids o] rs]. unfold opc in Px. cbn [fst snd] in Px.
      rewrite ops_of_app, ops_of_cons in H. unfold opc at 1 in H. cbn [fst snd] in H. rewrite no_store_ops in Hmid.
      destruct o as [k'|k' vs tin ds gs|k' vs tin ds gs|t|k'| |]; cbn [to_op M.stores_key] in Px; try discriminate.
      + destruct (C07.Util.key_eqb_spec k' k) as [->|]; [|discriminate]. cbn [to_op] in H.
        destruct (C07.ProofsCor.fetch_hit_is_latest_store_l lim now (ops_of now pre) k vs tin ds gs D.FNone [] (ops_of now mid) Hmid) as [Em|(g' & Hg & Eh)].
        * cbv zeta in Em. rewrite Em in H. discriminate.
        * cbv zeta in Eh. rewrite Eh in H. inversion H; subst.
          exists pre, ids, v, tin, gs, rs, mid. repeat split; try reflexivity; try exact Hg.
          destruct (forallb (fun c => negb (inval_ops k (D.store_trigs k tin) c)) mid) eqn:Ef; [reflexivity|exfalso].
          destruct (forallb_false_ex _ _ Ef) as (m0 & y & m1 & -> & Fy). apply negb_false_iff in Fy.
          rewrite ops_of_app, ops_of_cons in Hmid, Eh. rewrite forallb_app in Hmid. cbn [forallb] in Hmid.
          apply andb_true_iff in Hmid. destruct Hmid as [H0 H1]. apply andb_true_iff in H1. destruct H1 as [Hy H1].
          apply negb_true_iff in Hy.
          pose proof (C07.ProofsCor.fetch_miss_after_invalidation_l lim now (ops_of now pre) k v tin d gs D.FNone []
                        (ops_of now m0) (opc y) (ops_of now m1) H0 Fy Hy H1) as Emiss.
          assert (E : (ops_of now pre ++ D.Store k v tin d gs D.FNone [] :: ops_of now m0) ++ opc y :: ops_of now m1 =
                      ops_of now pre ++ D.Store k v tin d gs D.FNone [] :: ops_of now m0 ++ opc y :: ops_of now m1)
            by (rewrite <- app_assoc; reflexivity).
          rewrite E in Emiss. rewrite Emiss in Eh. discriminate.
      + destruct (C07.Util.key_eqb_spec k' k) as [->|]; [|discriminate]. cbn [to_op] in H.
        rewrite (C07.ProofsCor.fetch_miss_after_failed_store_l lim now (ops_of now pre) k vs tin ds gs D.FDropBefore [] (ops_of now mid)) in H;
          [discriminate|discriminate|exact Hmid].
  Qed.
End Seq.

(* ---- more list lemmas: unique decomposition in a duplicate-free list ---- *)
Lemma nodup_app_disj {A} (a b : list A) x : NoDup (a ++ b) -> In x a -> In x b -> False.
Proof.
  induction a as [|y a IH]; simpl; [intros _ []|]. intros Hnd [->|Ha] Hb.
  - inversion Hnd as [|? ? Hnin Hnd']; subst. apply Hnin. apply in_or_app. now right.
  - inversion Hnd as [|? ? Hnin Hnd']; subst. now apply IH.
Qed.
Lemma split_unique {A} (x : A) : forall a1 a2 b1 b2, NoDup (a1 ++ x :: a2) -> a1 ++ x :: a2 = b1 ++ x :: b2 -> a1 = b1 /\ a2 = b2.
Proof.
  induction a1 as [|y a1 IH]; intros a2 [|z b1] b2 Hnd E; simpl in *.
  - inversion E. now split.
  - inversion E as [[E1 E2]]; subst. inversion Hnd as [|? ? Hnin Hnd']; subst. exfalso. apply Hnin. apply in_or_app. right. now left.
  - inversion E as [[E1 E2]]; subst. inversion Hnd as [|? ? Hnin Hnd']; subst. exfalso. apply Hnin. apply in_or_app. right. now left.
  - inversion E as [[E1 E2]]; subst. inversion Hnd as [|? ? Hnin Hnd']; subst. destruct (IH a2 b1 b2 Hnd' E2) as [-> ->]. now split.
Qed.
Lemma nodup_app_r {A} (a b : list A) : NoDup (a ++ b) -> NoDup b.
Proof. induction a as [|y a IH]; simpl; [auto|]. intros H. inversion H; subst. auto. Qed.
Lemma before_in_r {A} (l : list A) a b : before l a b -> In b l.
Proof. intros (l1 & l2 & l3 & ->). apply in_or_app. right. right. apply in_or_app. right. now left. Qed.
Lemma before_in_l' {A} (l : list A) a b : before l a b -> In a l.
Proof. intros (l1 & l2 & l3 & ->). apply in_or_app. right. now left. Qed.

Lemma seq_legal_app' {St Op Ret} (eff : St -> Op -> St * Ret) (a : list (nat * Op * Ret)) : forall s b,
  seq_legal St Op Ret eff s (a ++ b) -> seq_legal St Op Ret eff s a /\ seq_legal St Op Ret eff (seq_run St Op Ret eff s a) b.
Proof.
  induction a as [|[[id o] r] a IH]; intros s b H; simpl in *; [split; [exact I|exact H]|].
  destruct H as [H1 H2]. destruct (IH _ _ H2) as [H3 H4]. repeat split; assumption.
Qed.

Section Conc.
  Variable now : Z.
  Variable lim : N.
  Notation lin := (linearizable D.state cop cret (eff now) (D.init lim)).
  Notation I_ := (Inv cop cret).
  Notation R_ := (Res cop cret).

  Theorem lin_hit_explained : forall h, lin h -> inv_unique h ->
    forall idf v trigs d g, In (R_ idf (RHit v trigs d g)) h ->
    exists k tf ids ts tin gs,
      In (I_ idf tf (OFetch k)) h /\ In (I_ ids ts (OStore k v tin d gs)) h /\
      trigs = D.store_trigs k tin /\ (forall x, gs = Some x -> g = x) /\
      ~ before h (R_ idf (RHit v trigs d g)) (I_ ids ts (OStore k v tin d gs)) /\
      forall idr tr o rr, M.invalidates k trigs (to_op now o) = true ->
        before h (R_ ids RUnit) (I_ idr tr o) -> before h (R_ idr rr) (I_ idf tf (OFetch k)) -> False.
  Proof.
    intros h (l & Hleg & Hnd & Hres & Hinv & Hrt) Huq idf v trigs d g Hin.
    assert (Hndl : NoDup l) by (apply (NoDup_map_inv _ _ Hnd)).
    destruct (Hres _ _ Hin) as [of Hf]. destruct (in_split _ _ Hf) as (l1 & l2 & El). subst l.
    destruct (seq_legal_app' _ _ _ _ Hleg) as [Hleg1 Hleg2]. cbn [seq_legal] in Hleg2. destruct Hleg2 as [Er _].
    assert (Hk : exists k, of = OFetch k /\ snd (D.fetch now k (seq_run D.state cop cret (eff now) (D.init lim) l1)) = D.OHit v trigs d g).
    { destruct of as [k| | | | | |]; cbn [eff snd] in Er; try discriminate.
      exists k. split; [reflexivity|]. destruct (D.fetch now k _) as [s' r]. cbn [snd] in *. destruct r; try discriminate. now inversion Er. }
    destruct Hk as (k & -> & Hhit).
    destruct (hit_explained_seq now lim l1 k v trigs d g Hhit) as (pre & ids & vs & tin & gs & rs & mid & -> & <- & -> & Hg & Hmid).
    assert (HS : In (ids, OStore k v tin d gs, rs) ((pre ++ (ids, OStore k v tin d gs, rs) :: mid) ++ (idf, OFetch k, RHit v (D.store_trigs k tin) d g) :: l2)).
    { apply in_or_app. left. apply in_or_app. right. now left. }
    assert (Ers : rs = RUnit).
    { destruct (seq_legal_app' _ _ _ _ Hleg1) as [_ HlS]. cbn [seq_legal eff snd] in HlS. destruct HlS as [E _]. now symmetry. }
    subst rs.
    destruct (Hinv _ _ _ Hf) as [tf Hif]. destruct (Hinv _ _ _ HS) as [ts His].
    exists k, tf, ids, ts, tin, gs. repeat split; try assumption; try reflexivity.
    - (* the store was not invoked after the fetch returned *)
      intros Hb. pose proof (Hrt _ _ _ _ _ _ _ Hf HS Hb) as (y1 & y2 & y3 & Ey).
      rewrite <- app_assoc in Ey. cbn [app] in Ey.
      assert (E2 : (pre ++ (ids, OStore k v tin d gs, RUnit) :: mid) ++ (idf, OFetch k, RHit v (D.store_trigs k tin) d g) :: l2 =
                   y1 ++ (idf, OFetch k, RHit v (D.store_trigs k tin) d g) :: y2 ++ (ids, OStore k v tin d gs, RUnit) :: y3).
      { rewrite <- app_assoc. cbn [app]. exact Ey. }
      destruct (split_unique _ _ _ _ _ Hndl E2) as [E3 E4]. subst l2.
      apply (nodup_app_disj _ _ (ids, OStore k v tin d gs, RUnit) Hndl).
      + apply in_or_app. right. now left.
      + right. apply in_or_app. right. now left.
    - (* no invalidating call entirely between the store and the fetch *)
      intros idr tr o rr Hiv Hb1 Hb2.
      destruct (Hres _ _ (before_in_l' _ _ _ Hb2)) as [o' HR].
      destruct (Hinv _ _ _ HR) as [t' Hi'].
      assert (o = o') by (eapply Huq; [exact (before_in_r _ _ _ Hb1)|exact Hi']). subst o'.
      pose proof (Hrt _ _ _ _ _ _ _ HS HR Hb1) as B1. pose proof (Hrt _ _ _ _ _ _ _ HR Hf Hb2) as B2.
      (* R is before F in l: R is in l1 *)
      destruct B2 as (x1 & x2 & x3 & Ex).
      assert (Ex' : (pre ++ (ids, OStore k v tin d gs, RUnit) :: mid) ++ (idf, OFetch k, RHit v (D.store_trigs k tin) d g) :: l2 =
                    (x1 ++ (idr, o, rr) :: x2) ++ (idf, OFetch k, RHit v (D.store_trigs k tin) d g) :: x3).
      { rewrite Ex. rewrite <- app_assoc. reflexivity. }
      destruct (split_unique _ _ _ _ _ Hndl Ex') as [E1 _].
      (* R is after S in l: R is in mid *)
      destruct B1 as (y1 & y2 & y3 & Ey).
      assert (Ey' : pre ++ (ids, OStore k v tin d gs, RUnit) :: (mid ++ (idf, OFetch k, RHit v (D.store_trigs k tin) d g) :: l2) =
                    y1 ++ (ids, OStore k v tin d gs, RUnit) :: (y2 ++ (idr, o, rr) :: y3)).
      { rewrite <- Ey. rewrite <- app_assoc. reflexivity. }
      assert (Hndl' : NoDup (pre ++ (ids, OStore k v tin d gs, RUnit) :: (mid ++ (idf, OFetch k, RHit v (D.store_trigs k tin) d g) :: l2))).
      { rewrite <- app_assoc in Hndl. exact Hndl. }
      destruct (split_unique _ _ _ _ _ Hndl' Ey') as [<- E5].
      assert (HRin : In (idr, o, rr) (pre ++ (ids, OStore k v tin d gs, RUnit) :: mid)).
      { rewrite E1. apply in_or_app. right. now left. }
      assert (HRmid : In (idr, o, rr) mid).
      { apply in_app_or in HRin. destruct HRin as [Hp|[Es|Hm]]; [| |exact Hm]; exfalso.
        - apply (nodup_app_disj _ _ (idr, o, rr) Hndl'); [exact Hp|]. right. rewrite E5. apply in_or_app. right. now left.
        - rewrite <- Es in E5.
          assert (Hd : NoDup ((ids, OStore k v tin d gs, RUnit) :: (mid ++ (idf, OFetch k, RHit v (D.store_trigs k tin) d g) :: l2))).
          { exact (nodup_app_r _ _ Hndl'). }
          inversion Hd as [|? ? Hnin Hd']; subst. apply Hnin. rewrite E5. apply in_or_app. right. now left. }
      rewrite forallb_forall in Hmid. specialize (Hmid _ HRmid). unfold inval_ops, opc in Hmid. cbn [fst snd] in Hmid.
      rewrite Hiv in Hmid. discriminate.
  Qed.
End Conc.

(* ---- the miss clause (no size limit, no failed stores) ---- *)
Lemma before_antisym {A} (l : list A) x y : NoDup l -> before l x y -> before l y x -> False.
Proof.
  intros Hnd (a & b & c & E1) (a' & b' & c' & E2).
  assert (E : (a ++ x :: b) ++ y :: c = a' ++ y :: (b' ++ x :: c')).
  { rewrite <- app_assoc. cbn [app]. rewrite <- E1. exact E2. }
  assert (Hnd' : NoDup ((a ++ x :: b) ++ y :: c)) by (rewrite <- app_assoc; cbn [app]; rewrite <- E1; exact Hnd).
  destruct (split_unique _ _ _ _ _ Hnd' E) as [_ Ec].
  apply (nodup_app_disj _ _ x Hnd').
  - apply in_or_app. right. now left.
  - right. rewrite Ec. apply in_or_app. right. now left.
Qed.

Lemma same_id_same_call (l : list call) : NoDup (lin_ids cop cret l) ->
  forall id o r o' r', In (id, o, r) l -> In (id, o', r') l -> o = o' /\ r = r'.
Proof.
  induction l as [|[[i p] q] l IH]; intros Hnd id o r o' r' H1 H2; [contradiction|].
  cbn [lin_ids map fst] in Hnd. inversion Hnd as [|? ? Hnin Hnd']; subst.
  destruct H1 as [E1|H1], H2 as [E2|H2].
  - inversion E1; inversion E2; subst. now split.
  - inversion E1; subst. exfalso. apply Hnin. apply (in_map (fun c : call => fst (fst c)) _ _ H2).
  - inversion E2; subst. exfalso. apply Hnin. apply (in_map (fun c : call => fst (fst c)) _ _ H1).
  - eapply IH; eauto.
Qed.

Lemma clock_ops_of now l : C07.ProofsSpec.clock now (ops_of now l) = now.
Proof.
  unfold C07.ProofsSpec.clock. induction l as [|[[id o] r] l IH]; [reflexivity|].
  unfold ops_of. cbn [map fold_left fst snd]. destruct o; cbn [to_op]; exact IH.
Qed.

Section ConcMiss.
  Variable now : Z.
  Notation lin := (linearizable D.state cop cret (eff now) (D.init 0)).
  Notation I_ := (Inv cop cret).
  Notation R_ := (Res cop cret).

  (* limit 0 (no eviction), no failed store in the history: a fetch that began after a store of a live entry returned, every
     other call that could invalidate that entry having returned before that store was invoked, does not miss *)
  Theorem lin_miss_explained : forall h, lin h -> inv_unique h ->
    (forall id t k v tin d g, ~ In (I_ id t (OStoreFail k v tin d g)) h) ->
    forall ids ts k v tin d gs idf tf,
      In (I_ ids ts (OStore k v tin d gs)) h -> In (I_ idf tf (OFetch k)) h ->
      before h (R_ ids RUnit) (I_ idf tf (OFetch k)) -> (now <= d)%Z ->
      (forall idr tr o, In (I_ idr tr o) h -> idr <> ids -> M.invalidates k (D.store_trigs k tin) (to_op now o) = true ->
         exists rr, before h (R_ idr rr) (I_ ids ts (OStore k v tin d gs))) ->
      ~ In (R_ idf RMiss) h.
  Proof.
    intros h (l & Hleg & Hnd & Hres & Hinv & Hrt) Huq Hnf ids ts k v tin d gs idf tf HiS HiF Hb Hd Hivs HmF.
    assert (Hndl : NoDup l) by (apply (NoDup_map_inv _ _ Hnd)).
    destruct (Hres _ _ HmF) as [of HF]. destruct (Hinv _ _ _ HF) as [tf' HiF'].
    assert (of = OFetch k) by (eapply Huq; [exact HiF'|exact HiF]). subst of.
    destruct (Hres _ _ (before_in_l' _ _ _ Hb)) as [os HS]. destruct (Hinv _ _ _ HS) as [ts' HiS'].
    assert (os = OStore k v tin d gs) by (eapply Huq; [exact HiS'|exact HiS]). subst os.
    destruct (Hrt _ _ _ _ _ _ _ HS HF Hb) as (a & b & c & El).
    (* the fetch answers what the model answers after a ++ S :: b *)
    assert (El' : l = (a ++ (ids, OStore k v tin d gs, RUnit) :: b) ++ (idf, OFetch k, RMiss) :: c)
      by (rewrite <- app_assoc; exact El).
    rewrite El' in Hleg. destruct (seq_legal_app' _ _ _ _ Hleg) as [_ HlF]. cbn [seq_legal eff] in HlF. destruct HlF as [Er _].
    assert (Hmiss : snd (D.fetch now k (seq_run D.state cop cret (eff now) (D.init 0) (a ++ (ids, OStore k v tin d gs, RUnit) :: b))) = D.OMiss).
    { revert Er. generalize (seq_run D.state cop cret (eff now) (D.init 0) (a ++ (ids, OStore k v tin d gs, RUnit) :: b)). intros st.
      unfold D.fetch. destruct (D.pfind k (D.primary st)) as [cc|]; [destruct (D.c_deadline cc <? now)%Z|]; cbn; intros Er;
        try reflexivity; discriminate. }
    rewrite <- fetch_after in Hmiss.
    rewrite ops_of_app, ops_of_cons in Hmiss. unfold opc at 1 in Hmiss. cbn [fst snd to_op] in Hmiss.
    (* nothing in b invalidates *)
    assert (Hb' : forallb (fun o => negb (M.invalidates k (D.store_trigs k tin) o)) (ops_of now b) = true).
    { unfold ops_of. rewrite forallb_map. apply forallb_forall. intros [[idr o] rr] Hy. cbn [fst snd].
      destruct (M.invalidates k (D.store_trigs k tin) (to_op now o)) eqn:Ei; [exfalso|reflexivity].
      assert (Hyl : In (idr, o, rr) l).
      { rewrite El. apply in_or_app. right. right. apply in_or_app. left. exact Hy. }
      destruct (Hinv _ _ _ Hyl) as [tr Hir].
      assert (Hne : idr <> ids).
      { intros ->. destruct (same_id_same_call l Hnd _ _ _ _ _ Hyl HS) as [-> ->].
        rewrite El in Hndl. pose proof (nodup_app_r _ _ Hndl) as Hd0. inversion Hd0 as [|? ? Hnin0 _]; subst.
        apply Hnin0. apply in_or_app. left. exact Hy. }
      destruct (Hivs _ _ _ Hir Hne Ei) as [rr' Hbr].
      destruct (Hres _ _ (before_in_l' _ _ _ Hbr)) as [o'' Hy'].
      destruct (same_id_same_call l Hnd _ _ _ _ _ Hyl Hy') as [<- <-].
      pose proof (Hrt _ _ _ _ _ _ _ Hyl HS Hbr) as B1.
      apply (before_antisym l _ _ Hndl B1). rewrite El.
      destruct (in_split _ _ Hy) as (b1 & b2 & ->).
      exists a, b1, (b2 ++ (idf, OFetch k, RMiss) :: c). rewrite <- app_assoc. reflexivity. }
    assert (Hops : Forall C07.Spec.op_no_fault (ops_of now a ++ D.Store k v tin d gs D.FNone [] :: ops_of now b)).
    { assert (Hall : forall l0, (forall y, In y l0 -> In y l) -> Forall C07.Spec.op_no_fault (ops_of now l0)).
      { intros l0 Hsub. unfold ops_of. apply Forall_forall. intros o Ho. apply in_map_iff in Ho. destruct Ho as ([[idy oy] ry] & <- & Hy).
        cbn [fst snd]. destruct oy; cbn [to_op C07.Spec.op_no_fault]; auto.
        exfalso. destruct (Hinv _ _ _ (Hsub _ Hy)) as [ty Hiy]. exact (Hnf _ _ _ _ _ _ _ Hiy). }
      apply Forall_app. split; [|constructor; [split; reflexivity|]].
      - apply Hall. intros y Hy. rewrite El. apply in_or_app. now left.
      - apply Hall. intros y Hy. rewrite El. apply in_or_app. right. right. apply in_or_app. now left. }
    assert (Hclk : (C07.ProofsSpec.clock now (ops_of now a ++ D.Store k v tin d gs D.FNone [] :: ops_of now b) <= d)%Z).
    { pose proof (clock_ops_of now (a ++ (ids, OStore k v tin d gs, RUnit) :: b)) as E.
      rewrite ops_of_app, ops_of_cons in E. unfold opc at 1 in E. cbn [fst snd to_op] in E. rewrite E. exact Hd. }
    destruct (C07.ProofsCor.live_entry_found_l now _ k v tin d gs _ Hops Hb' Hclk) as (g' & _ & Eh).
    rewrite Eh in Hmiss. discriminate.
  Qed.
End ConcMiss.

(* ---- the histories of the data-level lock model are well-formed, hence the clauses hold for them ---- *)
From CppcmsV Require Import C09.LockModel C09.Proofs7.
Section LMHist.
  Variable now : Z.
  Variable limit : N.

  Definition hist_wf (c : cconfig) : Prop :=
    (forall id t o, In (Inv cop cret id t o) (cc_hist c) -> (id < cc_next c)%nat) /\ inv_unique (cc_hist c).

  Lemma hist_wf_init : hist_wf (cc_init limit).
  Proof. split; [intros id t o []|intros id t o t' o' []]. Qed.

  Lemma hist_wf_res c st ph id r : hist_wf c -> hist_wf (mkCC st ph (cc_next c) (cc_hist c ++ [Res cop cret id r])).
  Proof.
    intros [Hlt Huq]. split; simpl.
    - intros id' t o Hin. apply in_app_or in Hin. destruct Hin as [Hin|[E|[]]]; [eauto|discriminate].
    - intros id' t o t' o' H1 H2. apply in_app_or in H1. apply in_app_or in H2.
      destruct H1 as [H1|[E|[]]]; [|discriminate]. destruct H2 as [H2|[E|[]]]; [|discriminate]. eapply Huq; eauto.
  Qed.

  Lemma hist_wf_step c c' : hist_wf c -> cstep now c c' -> hist_wf c'.
  Proof.
    intros Hw Hs.
    destruct Hs as [c t o Hp | c t id o Hp Hg | c t id o Hp | c t id r Hp | c t id r Hp
                   | c t id o Hp Hg | c t id Hp | c t id k Hp Hm | c t id k Hp Hm | c t id k Hp | c t id k Hp | c t id r Hp | c t id r Hp];
      try exact Hw; try (apply hist_wf_res; exact Hw).
    destruct Hw as [Hlt Huq]. split; simpl.
    - intros id' t' o' Hin. apply in_app_or in Hin. destruct Hin as [Hin|[E|[]]].
      + specialize (Hlt _ _ _ Hin). lia.
      + inversion E; subst. lia.
    - intros id' t1 o1 t2 o2 H1 H2. apply in_app_or in H1. apply in_app_or in H2.
      destruct H1 as [H1|[E1|[]]], H2 as [H2|[E2|[]]].
      + eapply Huq; eauto.
      + inversion E2; subst. specialize (Hlt _ _ _ H1). lia.
      + inversion E1; subst. specialize (Hlt _ _ _ H2). lia.
      + inversion E1; subst. inversion E2; subst. reflexivity.
  Qed.

  Lemma creachable_hist_wf c : creachable now limit c -> hist_wf c.
  Proof. induction 1; [apply hist_wf_init|eapply hist_wf_step; eauto]. Qed.

  Theorem lock_model_hit_explained_l : forall c, creachable now limit c ->
    forall idf v trigs d g, In (Res cop cret idf (RHit v trigs d g)) (cc_hist c) ->
    exists k tf ids ts tin gs,
      In (Inv cop cret idf tf (OFetch k)) (cc_hist c) /\ In (Inv cop cret ids ts (OStore k v tin d gs)) (cc_hist c) /\
      trigs = D.store_trigs k tin /\ (forall x, gs = Some x -> g = x) /\
      ~ before (cc_hist c) (Res cop cret idf (RHit v trigs d g)) (Inv cop cret ids ts (OStore k v tin d gs)) /\
      forall idr tr o rr, M.invalidates k trigs (to_op now o) = true ->
        before (cc_hist c) (Res cop cret ids RUnit) (Inv cop cret idr tr o) ->
        before (cc_hist c) (Res cop cret idr rr) (Inv cop cret idf tf (OFetch k)) -> False.
  Proof.
    intros c Hc. apply (lin_hit_explained now limit).
    - exact (lock_model_linearizable_l now limit c Hc).
    - exact (proj2 (creachable_hist_wf c Hc)).
  Qed.
End LMHist.

Section LMMiss.
  Variable now : Z.
  Theorem lock_model_miss_explained_l : forall c, creachable now 0%N c ->
    (forall id t k v tin d g, ~ In (Inv cop cret id t (OStoreFail k v tin d g)) (cc_hist c)) ->
    forall ids ts k v tin d gs idf tf,
      In (Inv cop cret ids ts (OStore k v tin d gs)) (cc_hist c) -> In (Inv cop cret idf tf (OFetch k)) (cc_hist c) ->
      before (cc_hist c) (Res cop cret ids RUnit) (Inv cop cret idf tf (OFetch k)) -> (now <= d)%Z ->
      (forall idr tr o, In (Inv cop cret idr tr o) (cc_hist c) -> idr <> ids ->
         M.invalidates k (D.store_trigs k tin) (to_op now o) = true ->
         exists rr, before (cc_hist c) (Res cop cret idr rr) (Inv cop cret ids ts (OStore k v tin d gs))) ->
      ~ In (Res cop cret idf RMiss) (cc_hist c).
  Proof.
    intros c Hc. apply (lin_miss_explained now).
    - exact (lock_model_linearizable_l now 0%N c Hc).
    - exact (proj2 (creachable_hist_wf now 0%N c Hc)).
  Qed.
End LMMiss.

(* ---- the stats clause ---- *)
Lemma sum_trigs_ge (E : list (D.key * D.container)) :
  (forall k c, In (k, c) E -> In k (D.c_trigs c)) -> (List.length E <= C07.Spec.sum_trigs E)%nat.
Proof.
  induction E as [|[k c] E IH]; intros H; simpl; [lia|].
  assert (Hk : In k (D.c_trigs c)) by (apply (H k c); now left).
  assert (IH' : (List.length E <= C07.Spec.sum_trigs E)%nat) by (apply IH; intros k' c' Hin; apply (H k' c'); now right).
  destruct (D.c_trigs c); [contradiction|]. simpl. lia.
Qed.

Lemma inv_stats s : C07.Spec.Inv s -> (D.size s <= D.tcount s)%N /\ (D.size s = 0%N <-> D.tcount s = 0%N).
Proof.
  intros Hi. destruct Hi as [_ _ _ _ _ _ Hsz Htc Hwf _]. rewrite Hsz, Htc.
  assert (Hge : (List.length (D.primary s) <= C07.Spec.sum_trigs (D.primary s))%nat).
  { apply sum_trigs_ge. intros k c Hin. exact (proj2 (Hwf k c Hin)). }
  split; [lia|]. split; intros H.
  - destruct (D.primary s); simpl in *; [reflexivity|lia].
  - lia.
Qed.

Section ConcStats.
  Variable now : Z.
  Variable lim : N.
  Theorem lin_stats_consistent : forall h, linearizable D.state cop cret (eff now) (D.init lim) h ->
    forall id keys trigs, In (Res cop cret id (RStats keys trigs)) h ->
      (keys <= trigs)%N /\ (keys = 0%N <-> trigs = 0%N).
  Proof.
    intros h (l & Hleg & _ & Hres & _ & _) id keys trigs Hin.
    destruct (Hres _ _ Hin) as [o Ho]. destruct (in_split _ _ Ho) as (l1 & l2 & ->).
    destruct (seq_legal_app' _ _ _ _ Hleg) as [_ Hl2]. cbn [seq_legal] in Hl2. destruct Hl2 as [Er _].
    assert (Hs : keys = D.size (seq_run D.state cop cret (eff now) (D.init lim) l1) /\
                 trigs = D.tcount (seq_run D.state cop cret (eff now) (D.init lim) l1)).
    { destruct o; cbn [eff snd] in Er; try discriminate.
      - destruct (D.fetch now k _) as [s' r]. cbn [snd] in Er. destruct r; discriminate.
      - inversion Er. split; reflexivity. }
    destruct Hs as [-> ->]. apply inv_stats.
    destruct (run_ops_of now l1 (D.init lim)) as [_ <-].
    exact (proj1 (C07.ProofsInv.run_ref (ops_of now l1) now (D.init lim) (C07.ProofsInv.init_inv lim))).
  Qed.
End ConcStats.

Section LMStats.
  Variable now : Z.
  Variable limit : N.
  Theorem lock_model_stats_consistent_l : forall c, creachable now limit c ->
    forall id keys trigs, In (Res cop cret id (RStats keys trigs)) (cc_hist c) ->
      (keys <= trigs)%N /\ (keys = 0%N <-> trigs = 0%N).
  Proof. intros c Hc. apply (lin_stats_consistent now limit). exact (lock_model_linearizable_l now limit c Hc). Qed.
End LMStats.
