(* C09 proofs, part 7: the lock-level data model of the cache (LockModel.v) refines the atomic-effect system, hence
   all its histories are linearizable w.r.t. the sequential model.  Linearization points: mutators - their effect step
   under the exclusive lock; stats - its read; fetch - the LRU move under lru_mutex (hit) or the lookup (miss). *)
From CppcmsV Require Import Base.Tac C09.Defs C09.Proofs3 C09.LockModel.
From CppcmsV Require C07.Defs C09.Seq.

Module D := CppcmsV.C07.Defs.

Lemma fetch_res_lru now k s l : snd (D.fetch now k (D.set_lru s l)) = snd (D.fetch now k s).
Proof.
  unfold D.fetch. simpl. destruct (D.pfind k (D.primary s)) as [c|]; [|reflexivity].
  destruct (D.c_deadline c <? now)%Z; reflexivity.
Qed.

Lemma fetch_miss_state now k s : is_miss (snd (D.fetch now k s)) = true -> fst (D.fetch now k s) = s.
Proof.
  unfold D.fetch. destruct (D.pfind k (D.primary s)) as [c|]; [|reflexivity].
  destruct (D.c_deadline c <? now)%Z; [reflexivity|]. simpl. discriminate.
Qed.

Lemma fetch_hit_state now k s : is_miss (snd (D.fetch now k s)) = false ->
  fst (D.fetch now k s) = D.set_lru s (k :: D.kremove k (D.lru s)).
Proof.
  unfold D.fetch. destruct (D.pfind k (D.primary s)) as [c|]; [|simpl; discriminate].
  destruct (D.c_deadline c <? now)%Z; [simpl; discriminate|]. reflexivity.
Qed.

Lemma seq_eff_fetch now s k : Seq.eff now s (Seq.OFetch k) = (fst (D.fetch now k s), ret_of (snd (D.fetch now k s))).
Proof. unfold Seq.eff. destruct (D.fetch now k s) as [s' r]. simpl. destruct r; reflexivity. Qed.

Section Sim.
  Variable now : Z.
  Variable limit : N.
  Notation aconf := (lconfig cst Seq.cop Seq.cret).
  Notation E := (Seq.eff now).

  Definition abs_ph (s : cst) (p : cphase) : phase Seq.cop Seq.cret :=
    match p with
    | CIdle => Idle _ _
    | CMutWait id o => Pending _ _ id o
    | CMutIn id o => Pending _ _ id o
    | CRdWait id o => Pending _ _ id o
    | CRdIn id o => Pending _ _ id o
    | CRdHit id k => Pending _ _ id (Seq.OFetch k)
    | CMutOut id r _ => Done _ _ id r
    | CRdOut id r _ => Done _ _ id r
    | CRdMoved id k => Done _ _ id (ret_of (snd (D.fetch now k s)))
    end.

  Definition R (c : cconfig) (a : aconf) : Prop :=
    l_st _ _ _ a = cc_st c /\ (forall t, l_ph _ _ _ a t = abs_ph (cc_st c) (cc_ph c t)) /\
    l_next _ _ _ a = cc_next c /\ l_hist _ _ _ a = cc_hist c.

  (* the readers-writer lock: an exclusive holder is alone *)
  Definition LI (c : cconfig) : Prop :=
    forall t u, t <> u -> holds_x (cc_ph c t) = true -> holds_x (cc_ph c u) = false /\ holds_s (cc_ph c u) = false.
  (* the hit decision of a fetch stays valid while it holds the shared lock *)
  Definition HI (c : cconfig) : Prop :=
    forall t id k, cc_ph c t = CRdHit id k -> is_miss (snd (D.fetch now k (cc_st c))) = false.

  Lemma LI_init : LI (cc_init limit).
  Proof. intros t u _ H. simpl in H. discriminate. Qed.
  Lemma HI_init : HI (cc_init limit).
  Proof. intros t id k H. simpl in H. discriminate. Qed.

  (* a step of thread t that does not let t gain a lock it did not hold keeps LI *)
  Lemma LI_upd c t p st nx h :
    LI c ->
    (holds_x p = true -> holds_x (cc_ph c t) = true \/
        forall u, u <> t -> holds_x (cc_ph c u) = false /\ holds_s (cc_ph c u) = false) ->
    (holds_s p = true -> holds_s (cc_ph c t) = true \/ forall u, u <> t -> holds_x (cc_ph c u) = false) ->
    LI (mkCC st (updo (cc_ph c) t p) nx h).
  Proof.
    intros Hli Hx Hs t1 u1 Hne H1. simpl in *.
    destruct (Nat.eq_dec t1 t) as [->|N1], (Nat.eq_dec u1 t) as [->|N2].
    - contradiction.
    - rewrite updo_same in H1. rewrite updo_other by assumption.
      destruct (Hx H1) as [Hold|Hnew]; [apply (Hli t u1); auto|now apply Hnew].
    - rewrite updo_other in H1 by assumption. rewrite updo_same.
      destruct (Hli t1 t N1 H1) as [A B]. split.
      + destruct (holds_x p) eqn:Ep; [|reflexivity]. destruct (Hx eq_refl) as [Hold|Hnew].
        * rewrite Hold in A. discriminate.
        * destruct (Hnew t1 N1) as [A' _]. rewrite A' in H1. discriminate.
      + destruct (holds_s p) eqn:Ep; [|reflexivity]. destruct (Hs eq_refl) as [Hold|Hnew].
        * rewrite Hold in B. discriminate.
        * rewrite (Hnew t1 N1) in H1. discriminate.
    - rewrite updo_other in H1 by assumption. rewrite updo_other by assumption. apply (Hli t1 u1); auto.
  Qed.

  Lemma LI_step c c' : LI c -> cstep now c c' -> LI c'.
  Proof.
    intros Hli Hs.
    destruct Hs as [c t o Hp | c t id o Hp Hg | c t id o Hp | c t id r Hp | c t id r Hp
                   | c t id o Hp Hg | c t id Hp | c t id k Hp Hm | c t id k Hp Hm | c t id k Hp | c t id k Hp | c t id r Hp | c t id r Hp];
      apply LI_upd; try exact Hli; rewrite ?Hp; simpl; intros; try discriminate; auto.
    all: destruct (is_mut o); simpl in *; discriminate.
  Qed.

  Lemma HI_step c c' : LI c -> HI c -> cstep now c c' -> HI c'.
  Proof.
    intros Hli Hhi Hs.
    destruct Hs as [c t o Hp | c t id o Hp Hg | c t id o Hp | c t id r Hp | c t id r Hp
                   | c t id o Hp Hg | c t id Hp | c t id k Hp Hm | c t id k Hp Hm | c t id k Hp | c t id k Hp | c t id r Hp | c t id r Hp];
      intros u id' k' Hu; simpl in *.
    all: destruct (Nat.eq_dec u t) as [->|Hne];
      [rewrite updo_same in Hu | rewrite updo_other in Hu by assumption].
    all: try discriminate.
    all: try (eapply Hhi; eauto; fail).
    - destruct (is_mut o); discriminate.
    - (* effect by t under the exclusive lock: u cannot be inside the shared lock *)
      exfalso. assert (Hx : holds_x (cc_ph c t) = true) by (rewrite Hp; reflexivity).
      destruct (Hli t u (not_eq_sym Hne) Hx) as [_ B]. rewrite Hu in B. discriminate.
    - inversion Hu; subst. exact Hm.
    - (* LRU move by t: only the lru list changes *)
      rewrite fetch_res_lru. eapply Hhi; eauto.
  Qed.

  Lemma abs_ph_lru s l p : abs_ph (D.set_lru s l) p = abs_ph s p.
  Proof. destruct p; simpl; try reflexivity. now rewrite fetch_res_lru. Qed.

  (* the simulation: every concrete step is matched by zero or one step of the atomic-effect system *)
  Lemma sim_step c c' a : LI c -> HI c -> R c a -> cstep now c c' ->
    exists a', (a' = a \/ lstep cst Seq.cop Seq.cret E a a') /\ R c' a'.
  Proof.
    intros Hli Hhi (Rst & Rph & Rnx & Rh) Hs. unfold cst in *.
    destruct Hs as [c t o Hp | c t id o Hp Hg | c t id o Hp | c t id r Hp | c t id r Hp
                   | c t id o Hp Hg | c t id Hp | c t id k Hp Hm | c t id k Hp Hm | c t id k Hp | c t id k Hp | c t id r Hp | c t id r Hp].
    - (* invocation *)
      eexists. split; [right; apply (lstep_inv _ _ _ E a t o); rewrite Rph, Hp; reflexivity|].
      unfold R; simpl. rewrite Rst, Rnx, Rh. repeat split; try reflexivity.
      intros u. destruct (Nat.eq_dec u t) as [->|Hne].
      + rewrite !updo_same. destruct (is_mut o); reflexivity.
      + rewrite !updo_other by assumption. apply Rph.
    - (* lock exclusive: stutter *)
      exists a. split; [now left|]. unfold R; simpl. repeat split; try assumption.
      intros u. destruct (Nat.eq_dec u t) as [->|Hne].
      + rewrite updo_same, Rph, Hp. reflexivity.
      + rewrite updo_other by assumption. apply Rph.
    - (* effect of a mutator *)
      eexists. split; [right; apply (lstep_eff _ _ _ E a t id o); rewrite Rph, Hp; reflexivity|].
      unfold R; simpl. rewrite Rst. repeat split; try assumption.
      intros u. destruct (Nat.eq_dec u t) as [->|Hne].
      + rewrite !updo_same. reflexivity.
      + rewrite !updo_other by assumption. rewrite Rph.
        assert (Hx : holds_x (cc_ph c t) = true) by (rewrite Hp; reflexivity).
        destruct (Hli t u (not_eq_sym Hne) Hx) as [_ B].
        destruct (cc_ph c u); simpl in *; try reflexivity. discriminate.
    - (* unlock *)
      exists a. split; [now left|]. unfold R; simpl. repeat split; try assumption.
      intros u. destruct (Nat.eq_dec u t) as [->|Hne].
      + rewrite updo_same, Rph, Hp. reflexivity.
      + rewrite updo_other by assumption. apply Rph.
    - (* response *)
      eexists. split; [right; apply (lstep_res _ _ _ E a t id r); rewrite Rph, Hp; reflexivity|].
      unfold R; simpl. rewrite Rh. repeat split; try assumption.
      intros u. destruct (Nat.eq_dec u t) as [->|Hne].
      + rewrite !updo_same. reflexivity.
      + rewrite !updo_other by assumption. apply Rph.
    - (* lock shared: stutter *)
      exists a. split; [now left|]. unfold R; simpl. repeat split; try assumption.
      intros u. destruct (Nat.eq_dec u t) as [->|Hne].
      + rewrite updo_same, Rph, Hp. reflexivity.
      + rewrite updo_other by assumption. apply Rph.
    - (* stats *)
      eexists. split; [right; apply (lstep_eff _ _ _ E a t id Seq.OStats); rewrite Rph, Hp; reflexivity|].
      unfold R; simpl. rewrite Rst. repeat split; try assumption.
      intros u. destruct (Nat.eq_dec u t) as [->|Hne].
      + rewrite !updo_same. reflexivity.
      + rewrite !updo_other by assumption. apply Rph.
    - (* fetch miss: linearization point = the lookup *)
      eexists. split; [right; apply (lstep_eff _ _ _ E a t id (Seq.OFetch k)); rewrite Rph, Hp; reflexivity|].
      unfold R; cbn [l_st l_ph l_next l_hist cc_st cc_ph cc_next cc_hist]. rewrite Rst, seq_eff_fetch. cbn [fst snd]. rewrite (fetch_miss_state now k _ Hm).
      repeat split; try assumption.
      intros u. destruct (Nat.eq_dec u t) as [->|Hne].
      + rewrite !updo_same. simpl. destruct (snd (D.fetch now k (cc_st c))); simpl in *; try reflexivity. discriminate.
      + rewrite !updo_other by assumption. apply Rph.
    - (* fetch hit decision: stutter *)
      exists a. split; [now left|]. unfold R; simpl. repeat split; try assumption.
      intros u. destruct (Nat.eq_dec u t) as [->|Hne].
      + rewrite updo_same, Rph, Hp. reflexivity.
      + rewrite updo_other by assumption. apply Rph.
    - (* LRU move: linearization point of a hit *)
      pose proof (Hhi t id k Hp) as Hhit.
      eexists. split; [right; apply (lstep_eff _ _ _ E a t id (Seq.OFetch k)); rewrite Rph, Hp; reflexivity|].
      unfold R; cbn [l_st l_ph l_next l_hist cc_st cc_ph cc_next cc_hist]. rewrite Rst, seq_eff_fetch. cbn [fst snd]. rewrite (fetch_hit_state now k _ Hhit).
      repeat split; try assumption.
      intros u. destruct (Nat.eq_dec u t) as [->|Hne].
      + rewrite !updo_same. simpl. now rewrite fetch_res_lru.
      + rewrite !updo_other by assumption. rewrite abs_ph_lru. apply Rph.
    - (* copy-out: stutter, the value is the one fixed at the move *)
      exists a. split; [now left|]. unfold R; simpl. repeat split; try assumption.
      intros u. destruct (Nat.eq_dec u t) as [->|Hne].
      + rewrite updo_same, Rph, Hp. reflexivity.
      + rewrite updo_other by assumption. apply Rph.
    - exists a. split; [now left|]. unfold R; simpl. repeat split; try assumption.
      intros u. destruct (Nat.eq_dec u t) as [->|Hne].
      + rewrite updo_same, Rph, Hp. reflexivity.
      + rewrite updo_other by assumption. apply Rph.
    - eexists. split; [right; apply (lstep_res _ _ _ E a t id r); rewrite Rph, Hp; reflexivity|].
      unfold R; simpl. rewrite Rh. repeat split; try assumption.
      intros u. destruct (Nat.eq_dec u t) as [->|Hne].
      + rewrite !updo_same. reflexivity.
      + rewrite !updo_other by assumption. apply Rph.
  Qed.

  Lemma creachable_sim c : creachable now limit c ->
    LI c /\ HI c /\ exists a, lreachable cst Seq.cop Seq.cret E (D.init limit) a /\ R c a.
  Proof.
    induction 1 as [|c c' Hr (Hli & Hhi & a & Ha & HR) Hs].
    - split; [apply LI_init|]. split; [apply HI_init|].
      exists (linit cst Seq.cop Seq.cret (D.init limit)). split; [apply lreach_init|].
      unfold R; simpl. repeat split; reflexivity.
    - split; [eapply LI_step; eauto|]. split; [eapply HI_step; eauto|].
      destruct (sim_step c c' a Hli Hhi HR Hs) as (a' & [->|Hstep] & HR').
      + exists a. split; assumption.
      + exists a'. split; [eapply lreach_step; eauto|exact HR'].
  Qed.

  Theorem lock_model_linearizable_l : forall c, creachable now limit c ->
    linearizable cst Seq.cop Seq.cret E (D.init limit) (cc_hist c).
  Proof.
    intros c Hr. destruct (creachable_sim c Hr) as (_ & _ & a & Ha & (_ & _ & _ & Hh)).
    rewrite <- Hh. now apply atomic_effect_linearizable_l.
  Qed.

  (* the readers-writer discipline of the model *)
  Theorem lock_model_exclusion_l : forall c, creachable now limit c ->
    forall t u, t <> u -> holds_x (cc_ph c t) = true -> holds_x (cc_ph c u) = false /\ holds_s (cc_ph c u) = false.
  Proof. intros c Hr. destruct (creachable_sim c Hr) as (Hli & _). exact Hli. Qed.
End Sim.
