Require Extraction.
Require Import ExtrOcamlBasic.
From Coq Require Import NArith ZArith List.
From CppcmsV Require Import C07.Defs C09.Seq.
Definition keep_types : (N * Z * nat) := (0%N, 0%Z, 0%nat).
Extraction "c09m.ml" keep_types N.add N.mul N.div_eucl eff run_seq init err size.
