(* C09 proofs, part 5: two-phase locking on the instrumented semantics.
   Conflicting accesses of different calls are ordered like the lock points of the calls (so the conflict graph is
   acyclic and the calls are conflict-serializable in lock-point order), and the lock point of a call lies between its
   invocation and its response (so that order respects real time). *)
From CppcmsV Require Import Base.Tac C09.Defs C09.Proofs1 C09.Proofs3.
From Coq Require Import String.

Definition nofut (st : tstate) : Prop := Forall (fun f => frest f = []) st.
Definition final (g : gconfig) (x : nat) : Prop := forall t, g_cur g t = Some x -> nofut (g_c g t).
Definition chain_frame (f : frame) : Prop := forallb chain_scope (frest f) = true /\ (List.length (frest f) <= 1)%nat.

Lemma chain_kids lk accs ks : chain_scope (Scope lk accs ks) = true -> forallb chain_scope ks = true /\ (List.length ks <= 1)%nat.
Proof.
  destruct ks as [|k [|k2 ks]]; simpl; intros H.
  - split; [reflexivity|lia].
  - split; [rewrite H; reflexivity|lia].
  - discriminate.
Qed.

Lemma mkframe_chain h k : chain_scope k = true -> chain_frame (mkframe h k).
Proof. destruct k as [lk accs ks]. intros H. apply chain_kids in H. exact H. Qed.

Lemma single_split {A} (l pre post : list A) k : (List.length l <= 1)%nat -> l = pre ++ k :: post -> pre = [] /\ post = [].
Proof.
  intros Hl ->. rewrite app_length in Hl. simpl in Hl.
  destruct pre; destruct post; simpl in Hl; try lia; auto.
Qed.

Lemma lp_set_end tx n : t_lp (set_end tx n) = t_lp tx.
Proof. reflexivity. Qed.

Lemma finish_lp g t st x : t_lp (finish g t st x) = t_lp (g_txn g x).
Proof.
  unfold finish. destruct st; [|reflexivity]. destruct (g_cur g t) as [y|]; [|reflexivity].
  unfold updo. destruct (Nat.eqb x y) eqn:E; [|reflexivity]. apply Nat.eqb_eq in E. subst. reflexivity.
Qed.

Lemma bump_lp_other g t lk x x' : g_cur g t = Some x -> x' <> x -> bump_lp g t lk x' = g_txn g x'.
Proof.
  intros Hc Hne. unfold bump_lp. rewrite Hc. destruct lk; [|reflexivity]. now apply updo_other.
Qed.

Lemma bump_lp_same g t l x : g_cur g t = Some x -> t_lp (bump_lp g t (Some l) x) = g_now g.
Proof. intros Hc. unfold bump_lp. rewrite Hc. rewrite updo_same. reflexivity. Qed.

Lemma bump_lp_none g t : bump_lp g t None = g_txn g.
Proof. reflexivity. Qed.

Lemma bump_lp_cases g t lk x x' : g_cur g t = Some x ->
  t_lp (bump_lp g t lk x') = t_lp (g_txn g x') \/ (x' = x /\ lk <> None /\ t_lp (bump_lp g t lk x') = g_now g).
Proof.
  intros Hc. destruct lk as [l|]; [|left; reflexivity].
  destruct (Nat.eq_dec x' x) as [->|Hne].
  - right. split; [reflexivity|]. split; [discriminate|]. now apply bump_lp_same.
  - left. now rewrite (bump_lp_other g t (Some l) x x').
Qed.

Section TwoPhase.
  Variable tbl : table.
  Hypothesis Hrf : race_free tbl = true.
  Hypothesis H2p : two_phase tbl = true.

  Lemma table_chain name m : In (name, m) tbl -> chain_scope m = true.
  Proof. intros H. unfold two_phase in H2p. rewrite forallb_forall in H2p. apply (H2p (name, m) H). Qed.

  Lemma greachable_reachable g : greachable tbl g -> reachable tbl (g_c g).
  Proof.
    induction 1 as [|g g' Hr IH Hs]; [apply reach_init|].
    destruct Hs; simpl.
    - eapply reach_step; [exact IH|]. eapply step_call; eauto.
    - eapply reach_step; [exact IH|]. eapply step_enter; eauto.
    - eapply reach_step; [exact IH|]. eapply step_exit; eauto.
    - exact IH.
  Qed.

  (* ---- bookkeeping invariant ---- *)
  Definition book (g : gconfig) : Prop :=
    (forall t, g_c g t = [] <-> g_cur g t = None) /\
    (forall t x, g_cur g t = Some x -> (x < g_ntx g)%nat) /\
    (forall t u x, g_cur g t = Some x -> g_cur g u = Some x -> t = u) /\
    (forall a, In a (g_log g) -> (a_txn a < g_ntx g)%nat /\ (a_time a < g_now g)%nat) /\
    (forall x, (x < g_ntx g)%nat -> (t_lp (g_txn g x) < g_now g)%nat /\ (t_start (g_txn g x) <= t_lp (g_txn g x))%nat).

  Lemma book_init : book ginit.
  Proof.
    unfold book, ginit; simpl. repeat split; try (intros; try discriminate; try contradiction; try lia; fail).
  Qed.

  Lemma book_step g g' : book g -> gstep tbl g g' -> book g'.
  Proof.
    intros (B1 & B2 & B3 & B4 & B5) Hs.
    destruct Hs as [g t name m Hidle Hin Hacq | g t f st pre k post Hct Hrest Hacq | g t f st Hct | g t f st fl r x Hct Hacc Hcur];
      unfold book; simpl.
    - (* call *)
      split; [|split; [|split; [|split]]].
      + intros u. destruct (Nat.eq_dec u t) as [->|Hne].
        * rewrite upd_same, updo_same. split; discriminate.
        * rewrite upd_other, updo_other by assumption. apply B1.
      + intros u x Hx. destruct (Nat.eq_dec u t) as [->|Hne].
        * rewrite updo_same in Hx. inversion Hx. lia.
        * rewrite updo_other in Hx by assumption. specialize (B2 _ _ Hx). lia.
      + intros u1 u2 x H1 H2.
        destruct (Nat.eq_dec u1 t) as [->|N1], (Nat.eq_dec u2 t) as [->|N2]; auto.
        * rewrite updo_same in H1. rewrite updo_other in H2 by assumption. inversion H1; subst. specialize (B2 _ _ H2). lia.
        * rewrite updo_same in H2. rewrite updo_other in H1 by assumption. inversion H2; subst. specialize (B2 _ _ H1). lia.
        * rewrite updo_other in H1, H2 by assumption. eapply B3; eauto.
      + intros a Ha. destruct (B4 a Ha). lia.
      + intros x Hx. destruct (Nat.eq_dec x (g_ntx g)) as [->|Hne].
        * rewrite updo_same. simpl. lia.
        * rewrite updo_other by assumption. destruct (B5 x); lia.
    - (* enter *)
      assert (Hcur : exists x, g_cur g t = Some x).
      { destruct (g_cur g t) as [x|] eqn:E; [now exists x|]. apply B1 in E. rewrite Hct in E. discriminate. }
      destruct Hcur as (x & Hcur).
      split; [|split; [|split; [|split]]].
      + intros u. destruct (Nat.eq_dec u t) as [->|Hne].
        * rewrite upd_same. rewrite Hcur. split; discriminate.
        * rewrite upd_other by assumption. apply B1.
      + exact B2.
      + exact B3.
      + intros a Ha. destruct (B4 a Ha). lia.
      + intros x' Hx'. destruct (B5 x' Hx') as [L1 L2].
        destruct (bump_lp_cases g t (scope_lock k) x x' Hcur) as [E|(-> & _ & E)].
        * rewrite E. split; [lia|].
          assert (Es : t_start (bump_lp g t (scope_lock k) x') = t_start (g_txn g x')).
          { unfold bump_lp. rewrite Hcur. destruct (scope_lock k); [|reflexivity]. unfold updo.
            destruct (Nat.eqb x' x) eqn:Eq; [|reflexivity]. apply Nat.eqb_eq in Eq. subst. reflexivity. }
          rewrite Es. exact L2.
        * rewrite E. split; [lia|].
          assert (Es : t_start (bump_lp g t (scope_lock k) x) = t_start (g_txn g x)).
          { unfold bump_lp. rewrite Hcur. destruct (scope_lock k); [|reflexivity]. rewrite updo_same. reflexivity. }
          rewrite Es. lia.
    - (* exit *)
      split; [|split; [|split; [|split]]].
      + intros u. destruct (Nat.eq_dec u t) as [->|Hne].
        * rewrite upd_same. destruct st as [|f2 st2].
          -- rewrite updo_same. split; reflexivity.
          -- split; [discriminate|]. intros E. apply B1 in E. rewrite Hct in E. discriminate.
        * rewrite upd_other by assumption. destruct st; [rewrite updo_other by assumption|]; apply B1.
      + intros u x Hx. destruct st as [|f2 st2]; [|eapply B2; eauto].
        destruct (Nat.eq_dec u t) as [->|Hne]; [rewrite updo_same in Hx; discriminate|].
        rewrite updo_other in Hx by assumption. eapply B2; eauto.
      + intros u1 u2 x H1 H2. destruct st as [|f2 st2]; [|eapply B3; eauto].
        destruct (Nat.eq_dec u1 t) as [->|N1]; [rewrite updo_same in H1; discriminate|].
        destruct (Nat.eq_dec u2 t) as [->|N2]; [rewrite updo_same in H2; discriminate|].
        rewrite updo_other in H1, H2 by assumption. eapply B3; eauto.
      + intros a Ha. destruct (B4 a Ha). lia.
      + intros x Hx. rewrite finish_lp. destruct (B5 x Hx) as [L1 L2]. split; [lia|].
        assert (Es : t_start (finish g t st x) = t_start (g_txn g x)).
        { unfold finish. destruct st; [|reflexivity]. destruct (g_cur g t) as [y|]; [|reflexivity]. unfold updo.
          destruct (Nat.eqb x y) eqn:Eq; [|reflexivity]. apply Nat.eqb_eq in Eq. subst. reflexivity. }
        rewrite Es. exact L2.
    - (* access *)
      split; [exact B1|]. split; [exact B2|]. split; [exact B3|]. split.
      + intros a [<-|Ha]; simpl.
        * specialize (B2 _ _ Hcur). lia.
        * destruct (B4 a Ha). lia.
      + intros x' Hx'. destruct (B5 x' Hx'). lia.
  Qed.

  Lemma greachable_book g : greachable tbl g -> book g.
  Proof. induction 1; [apply book_init|eapply book_step; eauto]. Qed.

  (* ---- shape invariant: below the top frame nothing can be entered any more (two-phase) ---- *)
  Definition shape (g : gconfig) : Prop :=
    (forall t f st, g_c g t = f :: st -> nofut st) /\ (forall t f, In f (g_c g t) -> chain_frame f).

  Lemma shape_init : shape ginit.
  Proof. unfold shape, ginit, init; simpl. split; intros; [discriminate|contradiction]. Qed.

  Lemma shape_step g g' : shape g -> gstep tbl g g' -> shape g'.
  Proof.
    intros (S1 & S2) Hs.
    destruct Hs as [g t name m Hidle Hin Hacq | g t f st pre k post Hct Hrest Hacq | g t f st Hct | g t f st fl r x Hct Hacc Hcur];
      unfold shape; simpl.
    - split.
      + intros u f0 st0 Hu. destruct (Nat.eq_dec u t) as [->|Hne].
        * rewrite upd_same in Hu. inversion Hu; subst. constructor.
        * rewrite upd_other in Hu by assumption. eapply S1; eauto.
      + intros u f0 Hu. destruct (Nat.eq_dec u t) as [->|Hne].
        * rewrite upd_same in Hu. destruct Hu as [<-|[]]. apply mkframe_chain. eapply table_chain; eauto.
        * rewrite upd_other in Hu by assumption. eapply S2; eauto.
    - assert (Hcf : chain_frame f) by (apply (S2 t); rewrite Hct; now left).
      destruct Hcf as [Hc1 Hc2]. destruct (single_split _ _ _ _ Hc2 Hrest) as [-> ->].
      assert (Hk : chain_scope k = true).
      { rewrite forallb_forall in Hc1. apply Hc1. rewrite Hrest. now left. }
      split.
      + intros u f0 st0 Hu. destruct (Nat.eq_dec u t) as [->|Hne].
        * rewrite upd_same in Hu. inversion Hu; subst. constructor; [reflexivity|]. eapply S1; eauto.
        * rewrite upd_other in Hu by assumption. eapply S1; eauto.
      + intros u f0 Hu. destruct (Nat.eq_dec u t) as [->|Hne].
        * rewrite upd_same in Hu. destruct Hu as [<-|[<-|Hu]].
          -- now apply mkframe_chain.
          -- split; simpl; [reflexivity|lia].
          -- apply (S2 t). rewrite Hct. now right.
        * rewrite upd_other in Hu by assumption. eapply S2; eauto.
    - split.
      + intros u f0 st0 Hu. destruct (Nat.eq_dec u t) as [->|Hne].
        * rewrite upd_same in Hu. specialize (S1 t f st Hct). rewrite Hu in S1. now inversion S1.
        * rewrite upd_other in Hu by assumption. eapply S1; eauto.
      + intros u f0 Hu. destruct (Nat.eq_dec u t) as [->|Hne].
        * rewrite upd_same in Hu. apply (S2 t). rewrite Hct. now right.
        * rewrite upd_other in Hu by assumption. eapply S2; eauto.
    - split; assumption.
  Qed.

  Lemma greachable_shape g : greachable tbl g -> shape g.
  Proof. induction 1; [apply shape_init|eapply shape_step; eauto]. Qed.

  (* a thread that can still enter a nested scope has a future *)
  Lemma enter_not_nofut f st pre k post : frest f = pre ++ k :: post -> ~ nofut (f :: st).
  Proof. intros Hr Hn. inversion Hn as [|? ? Hf _]; subst. rewrite Hr in Hf. destruct pre; discriminate. Qed.

  (* ---- the two-phase-locking invariant ---- *)
  Definition ev_node (a : aev) : Prop :=
    exists accs, In (a_held a, accs) (all_nodes tbl) /\ In (a_field a, a_rw a) accs.

  Definition I_node (g : gconfig) : Prop := forall a, In a (g_log g) -> ev_node a.
  Definition I_held (g : gconfig) : Prop :=
    forall a t, In a (g_log g) -> g_cur g t = Some (a_txn a) -> incl (a_held a) (held (g_c g t)) \/ nofut (g_c g t).
  Definition I_lock (g : gconfig) : Prop :=
    forall a l m1 u y m', In a (g_log g) -> In (l, m1) (a_held a) -> g_cur g u = Some y -> y <> a_txn a ->
      In (l, m') (held (g_c g u)) -> mode_compat m1 m' = false -> (lp_of g (a_txn a) < lp_of g y)%nat.
  Definition I_conf (g : gconfig) : Prop :=
    forall a1 a2, In a1 (g_log g) -> In a2 (g_log g) -> (a_time a1 < a_time a2)%nat -> a_txn a1 <> a_txn a2 ->
      conflict (a_field a1, a_rw a1) (a_field a2, a_rw a2) = true ->
      (lp_of g (a_txn a1) < lp_of g (a_txn a2))%nat /\ final g (a_txn a1).

  Lemma excl_contra c t u l m1 m2 :
    excl_inv c -> t <> u -> In (l, m1) (held (c t)) -> In (l, m2) (held (c u)) -> mode_compat m1 m2 = false -> False.
  Proof.
    intros He Hne H1 H2 Hc. destruct (He t u l m1 m2 Hne H1 H2) as [-> ->]. discriminate.
  Qed.

  Lemma I_node_step g g' : inv tbl (g_c g) -> I_node g -> gstep tbl g g' -> I_node g'.
  Proof.
    intros (Hf & _ & _) Hn Hs.
    destruct Hs as [g t name m Hidle Hin Hacq | g t f st pre k post Hct Hrest Hacq | g t f st Hct | g t f st fl r x Hct Hacc Hcur];
      unfold I_node; simpl; try exact Hn.
    intros a [<-|Ha]; [|now apply Hn]. exists (faccs f). simpl. split; [|exact Hacc].
    assert (Hfo : frame_ok tbl f) by (apply (Hf t); rewrite Hct; now left). apply Hfo.
  Qed.

  Lemma I_held_step g g' : book g -> shape g -> I_held g -> gstep tbl g g' -> I_held g'.
  Proof.
    intros (B1 & B2 & B3 & B4 & B5) (S1 & S2) Hh Hs.
    destruct Hs as [g t name m Hidle Hin Hacq | g t f st pre k post Hct Hrest Hacq | g t f st Hct | g t f st fl r x Hct Hacc Hcur];
      unfold I_held; simpl.
    - intros a u Ha Hu. destruct (Nat.eq_dec u t) as [->|Hne].
      + rewrite updo_same in Hu. inversion Hu as [E]. destruct (B4 a Ha) as [L _]. lia.
      + rewrite updo_other in Hu by assumption. rewrite upd_other by assumption. now apply Hh.
    - intros a u Ha Hu. destruct (Nat.eq_dec u t) as [->|Hne].
      + rewrite upd_same. destruct (Hh a t Ha Hu) as [Hi|Hn].
        * left. simpl. rewrite mkframe_held. rewrite Hct in Hi. simpl in Hi.
          intros z Hz. apply push_incl. now apply Hi.
        * exfalso. rewrite Hct in Hn. eapply enter_not_nofut; eauto.
      + rewrite upd_other by assumption. now apply Hh.
    - intros a u Ha Hu. destruct (Nat.eq_dec u t) as [->|Hne].
      + rewrite upd_same. right. destruct st as [|f2 st2]; [constructor|]. eapply S1; eauto.
      + rewrite upd_other by assumption. apply Hh; [assumption|].
        destruct st; [rewrite updo_other in Hu by assumption|]; exact Hu.
    - intros a u [<-|Ha] Hu; simpl in *.
      + assert (u = t) by (eapply B3; eauto). subst u. left. rewrite Hct. simpl. apply incl_refl.
      + now apply Hh.
  Qed.

  Lemma I_lock_step g g' : inv tbl (g_c g) -> book g -> I_held g -> I_lock g -> gstep tbl g g' -> I_lock g'.
  Proof.
    intros (Hf & Hmono & He) (B1 & B2 & B3 & B4 & B5) Hh Hl Hs.
    destruct Hs as [g t name m Hidle Hin Hacq | g t f st pre k post Hct Hrest Hacq | g t f st Hct | g t f st fl r x Hct Hacc Hcur];
      unfold I_lock, lp_of; simpl.
    - (* call: the new transaction gets lock point = now *)
      intros a l m1 u y m' Ha Hin1 Hu Hne Hin2 Hc.
      destruct (B4 a Ha) as [La _].
      rewrite (updo_other (g_txn g) (g_ntx g) _ (a_txn a)) by lia.
      destruct (Nat.eq_dec u t) as [->|Hnu].
      + rewrite updo_same in Hu. inversion Hu; subst y. rewrite updo_same. simpl. destruct (B5 (a_txn a) La). lia.
      + rewrite updo_other in Hu by assumption. rewrite upd_other in Hin2 by assumption.
        specialize (B2 _ _ Hu). rewrite updo_other by lia. eapply Hl; eauto.
    - (* enter *)
      assert (Hcur : exists x, g_cur g t = Some x).
      { destruct (g_cur g t) as [x|] eqn:E; [now exists x|]. apply B1 in E. rewrite Hct in E. discriminate. }
      destruct Hcur as (x & Hcur).
      intros a l m1 u y m' Ha Hin1 Hu Hne Hin2 Hc.
      destruct (B4 a Ha) as [La _].
      destruct (Nat.eq_dec u t) as [->|Hnu].
      + (* the entering thread is the holder *)
        rewrite Hcur in Hu. inversion Hu; subst y.
        rewrite (bump_lp_other g t (scope_lock k) x (a_txn a) Hcur) by (intros E; apply Hne; now symmetry).
        rewrite upd_same in Hin2. simpl in Hin2. rewrite mkframe_held in Hin2.
        destruct (scope_lock k) as [[l0 m0]|] eqn:Elk; simpl in Hin2.
        * destruct Hin2 as [E|Hin2].
          -- rewrite (bump_lp_same g t (l0, m0) x Hcur). destruct (B5 (a_txn a) La). lia.
          -- rewrite (bump_lp_same g t (l0, m0) x Hcur).
             destruct (B5 (a_txn a) La). lia.
        * rewrite bump_lp_none. eapply (Hl a l m1 t x m'); eauto. rewrite Hct. exact Hin2.
      + rewrite upd_other in Hin2 by assumption.
        assert (Hyx : y <> x) by (intros ->; apply Hnu; eapply B3; eauto).
        rewrite (bump_lp_other g t (scope_lock k) x y Hcur Hyx).
        destruct (Nat.eq_dec (a_txn a) x) as [Eax|Nax].
        * (* the event belongs to the entering transaction: it still holds the lock, contradiction *)
          exfalso. rewrite <- Eax in Hcur. destruct (Hh a t Ha Hcur) as [Hi|Hn].
          -- apply (excl_contra (g_c g) t u l m1 m' He); auto.
          -- rewrite Hct in Hn. eapply enter_not_nofut; eauto.
        * rewrite (bump_lp_other g t (scope_lock k) x (a_txn a) Hcur Nax). eapply Hl; eauto.
    - (* exit *)
      intros a l m1 u y m' Ha Hin1 Hu Hne Hin2 Hc. rewrite !finish_lp.
      destruct (Nat.eq_dec u t) as [->|Hnu].
      + rewrite upd_same in Hin2. destruct st as [|f2 st2]; [simpl in Hin2; contradiction|].
        simpl in Hin2. specialize (Hmono t). rewrite Hct in Hmono. simpl in Hmono. destruct Hmono as [Hi _].
        eapply (Hl a l m1 t y m'); eauto. rewrite Hct. simpl. now apply Hi.
      + rewrite upd_other in Hin2 by assumption.
        eapply (Hl a l m1 u y m'); eauto.
        destruct st; [rewrite updo_other in Hu by assumption|]; exact Hu.
    - (* access *)
      intros a l m1 u y m' [<-|Ha] Hin1 Hu Hne Hin2 Hc; simpl in *.
      + exfalso. assert (Hut : u <> t) by (intros ->; rewrite Hcur in Hu; inversion Hu; subst; now apply Hne).
        apply (excl_contra (g_c g) t u l m1 m' He); auto. rewrite Hct. exact Hin1.
      + eapply Hl; eauto.
  Qed.

  Lemma final_enter_contra g t f st pre k post x :
    g_c g t = f :: st -> frest f = pre ++ k :: post -> g_cur g t = Some x -> final g x -> False.
  Proof. intros Hct Hrest Hcur Hfin. specialize (Hfin t Hcur). rewrite Hct in Hfin. eapply enter_not_nofut; eauto. Qed.

  Lemma I_conf_step g g' :
    inv tbl (g_c g) -> book g -> shape g -> I_node g -> I_held g -> I_lock g -> I_conf g -> gstep tbl g g' -> I_conf g'.
  Proof.
    intros (Hf & Hmono & He) (B1 & B2 & B3 & B4 & B5) (S1 & S2) Hn Hh Hl Hc Hs.
    destruct Hs as [g t name m Hidle Hin Hacq | g t f st pre k post Hct Hrest Hacq | g t f st Hct | g t f st fl r x Hct Hacc Hcur];
      unfold I_conf, lp_of, final; simpl.
    - (* call *)
      intros a1 a2 H1 H2 Ht Hne Hcf. destruct (B4 a1 H1) as [L1 _]. destruct (B4 a2 H2) as [L2 _].
      rewrite !updo_other by lia. destruct (Hc a1 a2 H1 H2 Ht Hne Hcf) as [Hlt Hfin]. split; [exact Hlt|].
      intros u Hu. destruct (Nat.eq_dec u t) as [->|Hnu].
      + rewrite updo_same in Hu. inversion Hu. lia.
      + rewrite updo_other in Hu by assumption. rewrite upd_other by assumption. now apply Hfin.
    - (* enter *)
      assert (Hcur : exists x, g_cur g t = Some x).
      { destruct (g_cur g t) as [x|] eqn:E; [now exists x|]. apply B1 in E. rewrite Hct in E. discriminate. }
      destruct Hcur as (x & Hcur).
      intros a1 a2 H1 H2 Ht Hne Hcf. destruct (B4 a1 H1) as [L1 _]. destruct (B4 a2 H2) as [L2 _].
      destruct (Hc a1 a2 H1 H2 Ht Hne Hcf) as [Hlt Hfin].
      assert (N1 : a_txn a1 <> x) by (intros E; rewrite E in Hfin; eapply final_enter_contra; eauto).
      split.
      + rewrite (bump_lp_other g t (scope_lock k) x (a_txn a1) Hcur N1).
        destruct (bump_lp_cases g t (scope_lock k) x (a_txn a2) Hcur) as [E|(_ & _ & E)]; rewrite E.
        * exact Hlt.
        * destruct (B5 (a_txn a1) L1). lia.
      + intros u Hu. destruct (Nat.eq_dec u t) as [->|Hnu].
        * rewrite Hcur in Hu. inversion Hu. exfalso. now apply N1.
        * rewrite upd_other by assumption. now apply Hfin.
    - (* exit *)
      intros a1 a2 H1 H2 Ht Hne Hcf. rewrite !finish_lp.
      destruct (Hc a1 a2 H1 H2 Ht Hne Hcf) as [Hlt Hfin]. split; [exact Hlt|].
      intros u Hu. destruct (Nat.eq_dec u t) as [->|Hnu].
      + rewrite upd_same. destruct st as [|f2 st2]; [constructor|]. eapply S1; eauto.
      + rewrite upd_other by assumption. apply Hfin.
        destruct st; [rewrite updo_other in Hu by assumption|]; exact Hu.
    - (* access: the new event is the latest one *)
      intros a1 a2 [<-|H1] [<-|H2] Ht Hne Hcf; simpl in *.
      + lia.
      + destruct (B4 a2 H2). lia.
      + (* a1 old, a2 new *)
        destruct (Hn a1 H1) as (accs1 & Hn1 & Ha1).
        assert (Hfo : frame_ok tbl f) by (apply (Hf t); rewrite Hct; now left).
        destruct Hfo as (Hn2 & _).
        pose proof (race_free_nodes tbl Hrf (a_held a1, accs1) (fheld f, faccs f) (a_field a1, a_rw a1) (fl, r) Hn1 Hn2 Ha1 Hacc Hcf) as Hp.
        simpl in Hp. apply protects_spec in Hp. destruct Hp as (l & m1 & m2 & Hl1 & Hl2 & Hcm).
        assert (Hx : x <> a_txn a1) by (intros E; apply Hne; now symmetry).
        split.
        * apply (Hl a1 l m1 t x m2 H1 Hl1 Hcur Hx); [rewrite Hct; exact Hl2|exact Hcm].
        * intros u Hu.
          assert (Hut : u <> t) by (intros ->; rewrite Hcur in Hu; inversion Hu; now apply Hx).
          destruct (Hh a1 u H1 Hu) as [Hi|Hnf]; [|exact Hnf].
          exfalso. apply (excl_contra (g_c g) u t l m1 m2 He Hut); auto. rewrite Hct. exact Hl2.
      + now apply Hc.
  Qed.

  Definition tpl (g : gconfig) : Prop := I_node g /\ I_held g /\ I_lock g /\ I_conf g.

  Lemma tpl_init : tpl ginit.
  Proof. unfold tpl, I_node, I_held, I_lock, I_conf, ginit; simpl. repeat split; intros; contradiction. Qed.

  Lemma greachable_tpl g : greachable tbl g -> tpl g.
  Proof.
    induction 1 as [|g g' Hr IH Hs]; [apply tpl_init|].
    destruct IH as (I1 & I2 & I3 & I4).
    pose proof (reachable_inv tbl _ (greachable_reachable g Hr)) as Hinv.
    pose proof (greachable_book g Hr) as Hb. pose proof (greachable_shape g Hr) as Hsh.
    unfold tpl. split; [|split; [|split]].
    - eapply I_node_step; eauto.
    - eapply I_held_step; eauto.
    - eapply I_lock_step; eauto.
    - eapply I_conf_step; eauto.
  Qed.

  (* ---- the theorems ---- *)
  (* conflicting accesses of two different calls are ordered like the lock points of the calls, and the earlier call
     acquires no lock any more *)
  Theorem conflicts_follow_lock_points_l : forall g, greachable tbl g ->
    forall a1 a2, In a1 (g_log g) -> In a2 (g_log g) -> (a_time a1 < a_time a2)%nat -> a_txn a1 <> a_txn a2 ->
      conflict (a_field a1, a_rw a1) (a_field a2, a_rw a2) = true ->
      (lp_of g (a_txn a1) < lp_of g (a_txn a2))%nat /\ final g (a_txn a1).
  Proof. intros g Hr. destruct (greachable_tpl g Hr) as (_ & _ & _ & Hc). exact Hc. Qed.

  (* hence no cycle of conflicts: along any chain of conflict edges the lock points strictly increase *)
  Inductive conflict_path (g : gconfig) : nat -> nat -> Prop :=
  | cp_edge : forall a1 a2, In a1 (g_log g) -> In a2 (g_log g) -> (a_time a1 < a_time a2)%nat -> a_txn a1 <> a_txn a2 ->
      conflict (a_field a1, a_rw a1) (a_field a2, a_rw a2) = true -> conflict_path g (a_txn a1) (a_txn a2)
  | cp_trans : forall x y z, conflict_path g x y -> conflict_path g y z -> conflict_path g x z.

  Theorem conflict_graph_acyclic_l : forall g, greachable tbl g -> forall x, ~ conflict_path g x x.
  Proof.
    intros g Hr.
    assert (Hmono : forall x y, conflict_path g x y -> (lp_of g x < lp_of g y)%nat).
    { induction 1 as [a1 a2 H1 H2 Ht Hne Hcf|x y z _ IH1 _ IH2].
      - now destruct (conflicts_follow_lock_points_l g Hr a1 a2 H1 H2 Ht Hne Hcf).
      - lia. }
    intros x Hp. specialize (Hmono x x Hp). lia.
  Qed.

  (* the lock point of a call lies between its invocation and the present (its response, once it has returned) *)
  Theorem lock_point_in_interval_l : forall g, greachable tbl g -> forall x, (x < g_ntx g)%nat ->
    (t_start (g_txn g x) <= lp_of g x)%nat /\ (lp_of g x < g_now g)%nat.
  Proof.
    intros g Hr x Hx. destruct (greachable_book g Hr) as (_ & _ & _ & _ & B5). destruct (B5 x Hx). unfold lp_of. lia.
  Qed.

  (* ---- a returned call keeps its lock point, which lies before its response ---- *)
  Definition ended_ok (g : gconfig) : Prop :=
    forall x e, t_end (g_txn g x) = Some e -> (lp_of g x < e)%nat /\ (forall t, g_cur g t <> Some x).

  Lemma t_end_bump g t lk x : t_end (bump_lp g t lk x) = t_end (g_txn g x).
  Proof.
    unfold bump_lp. destruct lk; [|reflexivity]. destruct (g_cur g t) as [y|]; [|reflexivity].
    unfold updo. destruct (Nat.eqb x y) eqn:E; [|reflexivity]. apply Nat.eqb_eq in E. subst. reflexivity.
  Qed.

  Lemma ended_ok_init : ended_ok ginit.
  Proof. unfold ended_ok, ginit; simpl. intros; discriminate. Qed.

  Lemma ended_ok_step g g' : book g -> ended_ok g -> gstep tbl g g' -> ended_ok g'.
  Proof.
    intros (B1 & B2 & B3 & B4 & B5) He Hs.
    destruct Hs as [g t name m Hidle Hin Hacq | g t f st pre k post Hct Hrest Hacq | g t f st Hct | g t f st fl r x Hct Hacc Hcur];
      unfold ended_ok, lp_of; simpl.
    - intros x e Hx. destruct (Nat.eq_dec x (g_ntx g)) as [->|Hne].
      + rewrite updo_same in Hx. discriminate.
      + rewrite updo_other in Hx |- * by assumption. destruct (He x e Hx) as [L Hn]. split; [exact L|].
        intros u Hu. destruct (Nat.eq_dec u t) as [->|Hnu].
        * rewrite updo_same in Hu. inversion Hu. now apply Hne.
        * rewrite updo_other in Hu by assumption. now apply (Hn u).
    - assert (Hcur : exists x, g_cur g t = Some x).
      { destruct (g_cur g t) as [x|] eqn:E; [now exists x|]. apply B1 in E. rewrite Hct in E. discriminate. }
      destruct Hcur as (x0 & Hcur).
      intros x e Hx. rewrite t_end_bump in Hx. destruct (He x e Hx) as [L Hn]. split; [|exact Hn].
      rewrite (bump_lp_other g t (scope_lock k) x0 x Hcur); [exact L|]. intros ->. now apply (Hn t).
    - intros x e Hx. rewrite finish_lp.
      assert (Hcases : t_end (g_txn g x) = Some e \/ (st = [] /\ g_cur g t = Some x /\ e = g_now g)).
      { unfold finish in Hx. destruct st as [|f2 st2]; [|now left]. destruct (g_cur g t) as [y|] eqn:Ey; [|now left].
        unfold updo in Hx. destruct (Nat.eqb x y) eqn:E.
        - apply Nat.eqb_eq in E. subst y. simpl in Hx. inversion Hx. right. auto.
        - now left. }
      destruct Hcases as [Hold|(-> & Hcx & ->)].
      + destruct (He x e Hold) as [L Hn]. split; [exact L|].
        intros u Hu. destruct st; [|now apply (Hn u)].
        destruct (Nat.eq_dec u t) as [->|Hnu]; [rewrite updo_same in Hu; discriminate|].
        rewrite updo_other in Hu by assumption. now apply (Hn u).
      + split; [destruct (B5 x (B2 _ _ Hcx)); lia|].
        intros u Hu. destruct (Nat.eq_dec u t) as [->|Hnu]; [rewrite updo_same in Hu; discriminate|].
        rewrite updo_other in Hu by assumption. apply Hnu. eapply B3; eauto.
    - exact He.
  Qed.

  Lemma greachable_ended g : greachable tbl g -> ended_ok g.
  Proof. induction 1 as [|g g' Hr IH Hs]; [apply ended_ok_init|]. eapply ended_ok_step; eauto. now apply greachable_book. Qed.

  (* the lock-point order respects real time: a call that returned before another was invoked has the smaller lock point *)
  Theorem lock_points_respect_real_time_l : forall g, greachable tbl g -> forall x y e,
    t_end (g_txn g x) = Some e -> (y < g_ntx g)%nat -> (e <= t_start (g_txn g y))%nat -> (lp_of g x < lp_of g y)%nat.
  Proof.
    intros g Hr x y e Hx Hy Hle. destruct (greachable_ended g Hr x e Hx) as [L _].
    destruct (greachable_book g Hr) as (_ & _ & _ & _ & B5). destruct (B5 y Hy). unfold lp_of in *. lia.
  Qed.
End TwoPhase.
