(* C09 proofs, part 9: the lock protocol of the data-level model (LockModel.v) is the one of a table of the protocol shape *)
From CppcmsV Require Import Base.Tac C09.Defs C09.LockModel C09.Proofs8.
From CppcmsV Require C07.Defs C09.Seq.
From Coq Require Import String.

Lemma lock_eqb_eq x y : lock_eqb x y = true -> x = y.
Proof.
  destruct x as [a m], y as [b m']. unfold lock_eqb. simpl. intros H. apply andb_true_iff in H. destruct H as [H1 H2].
  apply N.eqb_eq in H1. apply mode_eqb_eq in H2. now subst.
Qed.
Lemma locks_eqb_eq x : forall y, locks_eqb x y = true -> x = y.
Proof.
  induction x as [|p x IH]; intros [|q y]; simpl; try congruence.
  intros H. apply andb_true_iff in H. destruct H as [H1 H2]. apply lock_eqb_eq in H1. apply IH in H2. now subst.
Qed.
Lemma shape_eqb_eq x : forall y, shape_eqb x y = true -> x = y.
Proof.
  induction x as [|p x IH]; intros [|q y]; simpl; try congruence.
  intros H. apply andb_true_iff in H. destruct H as [H1 H2]. apply locks_eqb_eq in H1. apply IH in H2. now subst.
Qed.

(* generic in the table: the facts about the generated table enter as premises (proved by vm_compute in Props.v), so that this
   file does not depend on the current source and a change of the lock structure is reported at the theorem of Props.v *)
Section Follows.
  Variables (a l : lockid) (tbl : list (string * scope)).
  Hypothesis HT : table_has_proto_shape a l tbl = true.
  Hypothesis HL : forallb (fun n => match lookup_scope n tbl with Some _ => true | None => false end)
                          ["fetch"; "store"; "rise"; "remove"; "clear"; "stats"]%string = true.

  Lemma table_shape name m sh : In (name, m) tbl -> proto_shape a l name = Some sh -> shape m = sh.
  Proof.
    intros Hin Hp. unfold table_has_proto_shape in HT. rewrite forallb_forall in HT. specialize (HT _ Hin). simpl in HT.
    rewrite Hp in HT. now apply shape_eqb_eq.
  Qed.

  Lemma lock_model_follows_l : forall (o : Seq.cop),
    exists sh, proto_shape a l (name_of o) = Some sh /\
      (forall m, In (name_of o, m) tbl -> shape m = sh) /\
      (exists m, In (name_of o, m) tbl) /\
      forall (p : cphase), (holds_x p = true -> is_mut o = true -> In (phase_held a p) sh) /\
                           (holds_s p = true -> is_mut o = false -> In (phase_held a p) sh).
  Proof.
    intros o.
    assert (Hn : In (name_of o) ["fetch"; "store"; "rise"; "remove"; "clear"; "stats"]%string).
    { destruct o; simpl; tauto. }
    rewrite forallb_forall in HL. specialize (HL _ Hn).
    destruct (lookup_scope (name_of o) tbl) as [m0|] eqn:Hm0; [|discriminate]. apply lookup_scope_in in Hm0.
    destruct o; simpl name_of in *;
      (eexists; split; [reflexivity|]; split; [intros m Hin; apply (table_shape _ _ _ Hin); reflexivity|];
       split; [exists m0; exact Hm0|]);
      intros p; unfold phase_held; split; intros Hx Hm; simpl in Hm; try discriminate.
    all: destruct p; simpl in Hx |- *; try discriminate;
         repeat match goal with b : bool |- _ => destruct b end; simpl in Hx |- *; try discriminate; simpl; tauto.
  Qed.
End Follows.
