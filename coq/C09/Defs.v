(* C09: lock discipline of the thread-shared cache (src/cache_storage.cpp, mem_cache<thread_settings>).
   Definitions only.  The table of lock scopes and member accesses is GENERATED from the source
   (coq/gen/Gen_locktab.v, tools/locktab.py); everything here is generic in the table. *)
From Coq Require Import NArith List Bool String.
Import ListNotations.

Definition lockid := N.
Definition fieldid := N.
Inductive mode := Shared | Excl.
Inductive rw := Rd | Wr.
Definition lock := (lockid * mode)%type.
Definition access := (fieldid * rw)%type.

(* a lexical lock scope: the lock its guard takes (None for a method body before the first guard),
   the member accesses made directly in it (control flow abstracted: any of them, any number of times),
   and the nested guard scopes in program order (none of them is inside a loop: the translator refuses that) *)
Inductive scope := Scope (lk : option lock) (accs : list access) (kids : list scope).

Definition scope_lock (s : scope) := match s with Scope lk _ _ => lk end.
Definition scope_accs (s : scope) := match s with Scope _ a _ => a end.
Definition scope_kids (s : scope) := match s with Scope _ _ k => k end.

Definition mode_compat (a b : mode) : bool := match a, b with Shared, Shared => true | _, _ => false end.
Definition rw_conflict (a b : rw) : bool := match a, b with Rd, Rd => false | _, _ => true end.
Definition push (lk : option lock) (h : list lock) : list lock := match lk with Some l => l :: h | None => h end.

Definition node := (list lock * list access)%type.

Fixpoint nodes (h : list lock) (s : scope) : list node :=
  match s with
  | Scope lk accs ks =>
      (push lk h, accs) ::
      (fix go (l : list scope) : list node := match l with [] => [] | k :: l' => nodes (push lk h) k ++ go l' end) ks
  end.

Definition table := list (string * scope).
Definition all_nodes (tbl : table) : list node := flat_map (fun p => nodes [] (snd p)) tbl.

(* ---- the decidable checks evaluated on the generated table ---- *)

(* two lock sets exclude each other: some lock is in both, in incompatible modes *)
Definition protects (h1 h2 : list lock) : bool :=
  existsb (fun l1 => existsb (fun l2 => N.eqb (fst l1) (fst l2) && negb (mode_compat (snd l1) (snd l2))) h2) h1.

Definition conflict (a1 a2 : access) : bool := N.eqb (fst a1) (fst a2) && rw_conflict (snd a1) (snd a2).

Definition node_pair_ok (n1 n2 : node) : bool :=
  forallb (fun a1 => forallb (fun a2 => negb (conflict a1 a2) || protects (fst n1) (fst n2)) (snd n2)) (snd n1).

Definition race_free (tbl : table) : bool :=
  let ns := all_nodes tbl in forallb (fun n1 => forallb (node_pair_ok n1) ns) ns.

(* locks are taken in strictly increasing id order and never re-taken (=> no deadlock) *)
Fixpoint ordered_scope (h : list lock) (s : scope) : bool :=
  match s with
  | Scope lk accs ks =>
      match lk with Some (l, _) => forallb (fun x => N.ltb (fst x) l) h | None => true end &&
      (fix go (l : list scope) : bool := match l with [] => true | k :: l' => ordered_scope (push lk h) k && go l' end) ks
  end.
Definition ordered (tbl : table) : bool := forallb (fun p => ordered_scope [] (snd p)) tbl.

(* two-phase: every scope has at most one nested guard scope, so no lock is taken after one was released *)
Fixpoint chain_scope (s : scope) : bool :=
  match s with
  | Scope _ _ [] => true
  | Scope _ _ [k] => chain_scope k
  | Scope _ _ _ => false
  end.
Definition two_phase (tbl : table) : bool := forallb (fun p => chain_scope (snd p)) tbl.

(* no member is touched outside every lock, except members nobody ever writes (the mutex pointers) *)
Definition written (tbl : table) (f : fieldid) : bool :=
  existsb (fun n : node => existsb (fun a : access => N.eqb (fst a) f && match snd a with Wr => true | Rd => false end) (snd n)) (all_nodes tbl).
Definition unlocked_only_constants (tbl : table) : bool :=
  forallb (fun n : node => match fst n with [] => forallb (fun a : access => negb (written tbl (fst a))) (snd n) | _ => true end) (all_nodes tbl).

(* an access to field f by method m happens only under lock l (in any mode) *)
Fixpoint under_lock_scope (inside : bool) (l : lockid) (f : fieldid) (s : scope) : bool :=
  match s with
  | Scope lk accs ks =>
      let ins := inside || match lk with Some (l', _) => N.eqb l' l | None => false end in
      (ins || negb (existsb (fun a : access => N.eqb (fst a) f) accs)) &&
      (fix go (q : list scope) : bool := match q with [] => true | k :: q' => under_lock_scope ins l f k && go q' end) ks
  end.

(* every node that touches member f holds lock l (in some mode) *)
Definition holds_lock (l : lockid) (h : list lock) : bool := existsb (fun x : lock => N.eqb (fst x) l) h.
Definition field_guarded (tbl : table) (f : fieldid) (l : lockid) : bool :=
  forallb (fun n : node => negb (existsb (fun a : access => N.eqb (fst a) f) (snd n)) || holds_lock l (fst n)) (all_nodes tbl).
(* every node that writes member f holds lock l exclusively *)
Definition holds_excl (l : lockid) (h : list lock) : bool :=
  existsb (fun x : lock => N.eqb (fst x) l && match snd x with Excl => true | Shared => false end) h.
Definition writes_guarded_excl (tbl : table) (f : fieldid) (l : lockid) : bool :=
  forallb (fun n : node => negb (existsb (fun a : access => N.eqb (fst a) f && match snd a with Wr => true | Rd => false end) (snd n))
                           || holds_excl l (fst n)) (all_nodes tbl).

(* ---- alternative paths ----
   The table has one entry per PATH of a method.  A method that calls another locked method at a point where it
   holds no lock, and returns right after (store: `catch(std::bad_alloc) { remove(key); return; }`), has a second entry
   under the same name whose scope tree is the one of the callee; the generated list alt_paths names them as
   (caller, callee, path).  The check: the critical sections of such a path are exactly those of (the main path of)
   the callee - on that path the call behaves, as far as locks and shared members go, like a call of the callee. *)
Definition mode_eqb (a b : mode) : bool := match a, b with Shared, Shared => true | Excl, Excl => true | _, _ => false end.
Definition rw_eqb (a b : rw) : bool := match a, b with Rd, Rd => true | Wr, Wr => true | _, _ => false end.
Definition olock_eqb (a b : option lock) : bool :=
  match a, b with
  | None, None => true
  | Some (l1, m1), Some (l2, m2) => N.eqb l1 l2 && mode_eqb m1 m2
  | _, _ => false
  end.
Fixpoint accs_eqb (a b : list access) : bool :=
  match a, b with
  | [], [] => true
  | (f1, r1) :: a', (f2, r2) :: b' => N.eqb f1 f2 && rw_eqb r1 r2 && accs_eqb a' b'
  | _, _ => false
  end.
Fixpoint scope_eqb (a b : scope) {struct a} : bool :=
  match a, b with
  | Scope l1 a1 k1, Scope l2 a2 k2 =>
      olock_eqb l1 l2 && accs_eqb a1 a2 &&
      (fix go (x y : list scope) {struct x} : bool :=
         match x, y with
         | [], [] => true
         | p :: x', q :: y' => scope_eqb p q && go x' y'
         | _, _ => false
         end) k1 k2
  end.
Fixpoint scopes_eqb (x y : list scope) : bool :=
  match x, y with
  | [], [] => true
  | p :: x', q :: y' => scope_eqb p q && scopes_eqb x' y'
  | _, _ => false
  end.
Fixpoint lookup_scope (name : string) (tbl : list (string * scope)) : option scope :=
  match tbl with
  | [] => None
  | (n, m) :: tbl' => if String.eqb n name then Some m else lookup_scope name tbl'
  end.
Definition alt_path_ok (tbl : list (string * scope)) (a : string * string * scope) : bool :=
  let '(caller, callee, p) := a in
  existsb (fun e : string * scope => String.eqb (fst e) caller && scope_eqb (snd e) p) tbl &&
  match scope_lock p, lookup_scope callee tbl with
  | None, Some m => scopes_eqb (scope_kids p) (scope_kids m)
  | _, _ => false
  end.
Definition alt_paths_ok (tbl : list (string * scope)) (alts : list (string * string * scope)) : bool :=
  forallb (alt_path_ok tbl) alts.

(* ---- semantics: threads running methods of the table ---- *)

Record frame := mkF { fheld : list lock; faccs : list access; frest : list scope }.
Definition tstate := list frame.          (* innermost scope first; [] = not inside a method *)
Definition config := nat -> tstate.       (* any number of threads *)

Definition held (s : tstate) : list lock := match s with [] => [] | f :: _ => fheld f end.
Definition cur_accs (s : tstate) : list access := match s with [] => [] | f :: _ => faccs f end.
Definition upd (c : config) (t : nat) (s : tstate) : config := fun u => if Nat.eqb u t then s else c u.
Definition init : config := fun _ => [].

Definition mkframe (h : list lock) (s : scope) : frame :=
  match s with Scope lk accs ks => mkF (push lk h) accs ks end.

(* readers-writer lock: many Shared holders or one Excl holder; a mutex is a lock only ever taken Excl.
   The lock state is the set of holders, i.e. a function of where the threads are. *)
Definition can_acquire (c : config) (t : nat) (lk : option lock) : Prop :=
  match lk with
  | None => True
  | Some (l, m) => forall u m', u <> t -> In (l, m') (held (c u)) -> m = Shared /\ m' = Shared
  end.

Inductive step (tbl : table) : config -> config -> Prop :=
| step_call : forall c t name m,
    c t = [] -> In (name, m) tbl -> can_acquire c t (scope_lock m) ->
    step tbl c (upd c t [mkframe [] m])
| step_enter : forall c t f st pre k post,
    c t = f :: st -> frest f = pre ++ k :: post -> can_acquire c t (scope_lock k) ->
    step tbl c (upd c t (mkframe (fheld f) k :: mkF (fheld f) (faccs f) post :: st))
| step_exit : forall c t f st,
    c t = f :: st -> step tbl c (upd c t st).

Inductive reachable (tbl : table) : config -> Prop :=
| reach_init : reachable tbl init
| reach_step : forall c c', reachable tbl c -> step tbl c c' -> reachable tbl c'.

(* a data race: two different threads stand at accesses to the same member, one of them a write *)
Definition race (c : config) : Prop :=
  exists t u f r, t <> u /\ In (f, Wr) (cur_accs (c t)) /\ In (f, r) (cur_accs (c u)).

(* thread t has decided to enter nested scope k and is kept out by thread u *)
Definition waiting (c : config) (t : nat) : Prop :=
  exists f st pre k post l m u m',
    c t = f :: st /\ frest f = pre ++ k :: post /\ scope_lock k = Some (l, m) /\
    u <> t /\ In (l, m') (held (c u)) /\ mode_compat m m' = false.

(* ------------------------------------------------------------------------------------------------
   instrumented semantics for the serializability theorem: a global clock, transaction ids, and a log of
   access events; acc steps are explicit.  Erasing the ghost parts gives back `step`. *)
Record txn := mkT { t_thread : nat; t_start : nat;
                    t_lp : nat;             (* time of the latest lock acquisition so far = the lock point *)
                    t_end : option nat }.
Record aev := mkA { a_txn : nat; a_field : fieldid; a_rw : rw; a_time : nat; a_held : list lock }.
Record gconfig := mkG {
  g_c : config;
  g_now : nat;
  g_cur : nat -> option nat;     (* transaction (method execution) currently run by each thread *)
  g_ntx : nat;                   (* next fresh transaction id *)
  g_txn : nat -> txn;
  g_log : list aev               (* newest first *)
}.
Definition updo {A} (g : nat -> A) (t : nat) (v : A) : nat -> A := fun u => if Nat.eqb u t then v else g u.
Definition ginit : gconfig := mkG init 0 (fun _ => None) 0 (fun _ => mkT 0 0 0 None) [].
Definition lp_of (g : gconfig) (x : nat) : nat := t_lp (g_txn g x).
Definition set_lp (tx : txn) (n : nat) : txn := mkT (t_thread tx) (t_start tx) n (t_end tx).
Definition set_end (tx : txn) (n : nat) : txn := mkT (t_thread tx) (t_start tx) (t_lp tx) (Some n).
Definition bump_lp (g : gconfig) (t : nat) (lk : option lock) : nat -> txn :=
  match lk, g_cur g t with
  | Some _, Some x => updo (g_txn g) x (set_lp (g_txn g x) (g_now g))
  | _, _ => g_txn g
  end.
Definition finish (g : gconfig) (t : nat) (st : tstate) : nat -> txn :=
  match st, g_cur g t with
  | [], Some x => updo (g_txn g) x (set_end (g_txn g x) (g_now g))
  | _, _ => g_txn g
  end.

Inductive gstep (tbl : table) : gconfig -> gconfig -> Prop :=
| gstep_call : forall g t name m,
    g_c g t = [] -> In (name, m) tbl -> can_acquire (g_c g) t (scope_lock m) ->
    gstep tbl g (mkG (upd (g_c g) t [mkframe [] m]) (S (g_now g)) (updo (g_cur g) t (Some (g_ntx g))) (S (g_ntx g))
                     (updo (g_txn g) (g_ntx g) (mkT t (g_now g) (g_now g) None)) (g_log g))
| gstep_enter : forall g t f st pre k post,
    g_c g t = f :: st -> frest f = pre ++ k :: post -> can_acquire (g_c g) t (scope_lock k) ->
    gstep tbl g (mkG (upd (g_c g) t (mkframe (fheld f) k :: mkF (fheld f) (faccs f) post :: st)) (S (g_now g)) (g_cur g)
                     (g_ntx g) (bump_lp g t (scope_lock k)) (g_log g))
| gstep_exit : forall g t f st,
    g_c g t = f :: st ->
    gstep tbl g (mkG (upd (g_c g) t st) (S (g_now g)) (match st with [] => updo (g_cur g) t None | _ => g_cur g end)
                     (g_ntx g) (finish g t st) (g_log g))
| gstep_acc : forall g t f st fl r x,
    g_c g t = f :: st -> In (fl, r) (faccs f) -> g_cur g t = Some x ->
    gstep tbl g (mkG (g_c g) (S (g_now g)) (g_cur g) (g_ntx g) (g_txn g) (mkA x fl r (g_now g) (fheld f) :: g_log g)).

Inductive greachable (tbl : table) : gconfig -> Prop :=
| greach_init : greachable tbl ginit
| greach_step : forall g g', greachable tbl g -> gstep tbl g g' -> greachable tbl g'.

(* ------------------------------------------------------------------------------------------------
   linearizability of the atomic-effect model: each call takes effect at one step between its invocation and
   its response (the lock point justified by the serializability theorem). Generic in the sequential object. *)
Section Lin.
  Variables (St Op Ret : Type) (eff : St -> Op -> St * Ret) (s0 : St).

  Inductive hev := Inv (id : nat) (t : nat) (o : Op) | Res (id : nat) (r : Ret).
  Inductive phase := Idle | Pending (id : nat) (o : Op) | Done (id : nat) (r : Ret).
  Record lconfig := mkL {
    l_st : St;
    l_ph : nat -> phase;
    l_next : nat;                   (* next fresh call id *)
    l_hist : list hev;              (* oldest first *)
    l_lin : list (nat * Op * Ret)   (* calls in the order they took effect, oldest first *)
  }.
  Definition linit : lconfig := mkL s0 (fun _ => Idle) 0 [] [].
  Inductive lstep : lconfig -> lconfig -> Prop :=
  | lstep_inv : forall c t o, l_ph c t = Idle ->
      lstep c (mkL (l_st c) (updo (l_ph c) t (Pending (l_next c) o)) (S (l_next c)) (l_hist c ++ [Inv (l_next c) t o]) (l_lin c))
  | lstep_eff : forall c t id o, l_ph c t = Pending id o ->
      lstep c (mkL (fst (eff (l_st c) o)) (updo (l_ph c) t (Done id (snd (eff (l_st c) o)))) (l_next c) (l_hist c)
                   (l_lin c ++ [(id, o, snd (eff (l_st c) o))]))
  | lstep_res : forall c t id r, l_ph c t = Done id r ->
      lstep c (mkL (l_st c) (updo (l_ph c) t Idle) (l_next c) (l_hist c ++ [Res id r]) (l_lin c)).
  Inductive lreachable : lconfig -> Prop :=
  | lreach_init : lreachable linit
  | lreach_step : forall c c', lreachable c -> lstep c c' -> lreachable c'.

  (* running a list of calls sequentially from a state: final state, and whether every recorded result is the
     one the sequential object returns *)
  Fixpoint seq_run (s : St) (l : list (nat * Op * Ret)) : St :=
    match l with [] => s | (_, o, _) :: l' => seq_run (fst (eff s o)) l' end.
  Fixpoint seq_legal (s : St) (l : list (nat * Op * Ret)) : Prop :=
    match l with [] => True | (_, o, r) :: l' => snd (eff s o) = r /\ seq_legal (fst (eff s o)) l' end.

  (* x occurs strictly before y in l *)
  Definition before {A} (l : list A) (x y : A) : Prop := exists l1 l2 l3, l = l1 ++ x :: l2 ++ y :: l3.
  Definition lin_ids (l : list (nat * Op * Ret)) : list nat := map (fun p => fst (fst p)) l.

  (* history h is linearizable: some sequential, legal order of calls contains every completed call with its
     result, only invoked calls, and respects real time (a call that returned before another was invoked comes
     first) *)
  Definition linearizable (h : list hev) : Prop :=
    exists l : list (nat * Op * Ret),
      seq_legal s0 l /\ NoDup (lin_ids l) /\
      (forall id r, In (Res id r) h -> exists o, In (id, o, r) l) /\
      (forall id o r, In (id, o, r) l -> exists t, In (Inv id t o) h) /\
      (forall id1 o1 r1 id2 o2 r2 t2, In (id1, o1, r1) l -> In (id2, o2, r2) l ->
          before h (Res id1 r1) (Inv id2 t2 o2) -> before l (id1, o1, r1) (id2, o2, r2)).
End Lin.

(* The sequential object used as `eff` (what one call does) is C07's model of mem_cache: see C09/Seq.v. *)
