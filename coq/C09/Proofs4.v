(* C09 proofs, part 4: instances of the linearizability theorem for the cache object (C07 model through Seq.eff),
   and the facts used by the non-vacuity examples *)
From CppcmsV Require Import Base.Tac C09.Defs C09.Proofs3.
From CppcmsV Require C07.Defs C09.Seq.

Definition cstate := C07.Defs.state.
Definition cache_eff (now : Z) : cstate -> Seq.cop -> cstate * Seq.cret := Seq.eff now.
Definition cache_s0 (limit : N) : cstate := C07.Defs.init limit.

Lemma cache_atomic_linearizable_l : forall (limit : N) (now : Z) c,
  lreachable cstate Seq.cop Seq.cret (cache_eff now) (cache_s0 limit) c ->
  linearizable cstate Seq.cop Seq.cret (cache_eff now) (cache_s0 limit) (l_hist _ _ _ c).
Proof. intros limit now c. apply atomic_effect_linearizable_l. Qed.

(* a history in which a fetch of a key that was never stored returns a value is not linearizable *)
Lemma hit_without_store_not_linearizable : forall limit now k v tr d g,
  ~ linearizable cstate Seq.cop Seq.cret (cache_eff now) (cache_s0 limit)
      [Inv Seq.cop Seq.cret 0 0 (Seq.OFetch k); Res Seq.cop Seq.cret 0 (Seq.RHit v tr d g)].
Proof.
  intros limit now k v tr d g (l & Hleg & Hnd & Hres & Hinv & _).
  destruct (Hres 0%nat (Seq.RHit v tr d g)) as (o & Ho); [right; now left|].
  destruct l as [|[[i o1] r1] l']; [contradiction|].
  assert (Hi : i = 0%nat /\ o1 = Seq.OFetch k).
  { destruct (Hinv i o1 r1 (or_introl eq_refl)) as (t & [E|[E|[]]]); [|discriminate]. inversion E; subst. auto. }
  destruct Hi as [-> ->].
  simpl in Hleg. destruct Hleg as [Hr _].
  destruct Ho as [E|Hin].
  - inversion E; subst. unfold cache_eff, cache_s0, Seq.eff in H1. simpl in H1. discriminate.
  - simpl in Hnd. inversion Hnd as [|x xs Hnot _]; subst. apply Hnot.
    apply in_map_iff. exists (0%nat, o, Seq.RHit v tr d g). split; [reflexivity|exact Hin].
Qed.

(* two overlapping calls, store by thread 0 and fetch by thread 1, the fetch taking effect after the store:
   a reachable configuration of the atomic-effect system whose history has the fetch return the stored value *)
Definition ex_k : C07.Defs.key := [107; 49]%N.
Definition ex_v : list N := [1; 2; 3]%N.
Definition ex_hist : list (hev Seq.cop Seq.cret) :=
  [Inv _ _ 0 0 (Seq.OStore ex_k ex_v [] 2000%Z None); Inv _ _ 1 1 (Seq.OFetch ex_k);
   Res _ _ 0 Seq.RUnit; Res _ _ 1 (Seq.RHit ex_v [ex_k] 2000%Z 0%N)].

Lemma ex_hist_reachable : exists c, lreachable cstate Seq.cop Seq.cret (cache_eff 1000%Z) (cache_s0 0%N) c /\ l_hist _ _ _ c = ex_hist.
Proof.
  pose (E := cache_eff 1000%Z). pose (S0 := cache_s0 0%N).
  pose (c0 := linit cstate Seq.cop Seq.cret S0).
  eexists. split.
  - eapply lreach_step; [eapply lreach_step; [eapply lreach_step; [eapply lreach_step; [eapply lreach_step; [eapply lreach_step; [apply lreach_init|]|]|]|]|]|].
    + apply (lstep_inv _ _ _ E c0 0%nat (Seq.OStore ex_k ex_v [] 2000%Z None)). reflexivity.
    + eapply (lstep_inv _ _ _ E _ 1%nat (Seq.OFetch ex_k)). reflexivity.
    + eapply (lstep_eff _ _ _ E _ 0%nat). reflexivity.
    + eapply (lstep_eff _ _ _ E _ 1%nat). reflexivity.
    + eapply (lstep_res _ _ _ E _ 0%nat). reflexivity.
    + eapply (lstep_res _ _ _ E _ 1%nat). reflexivity.
  - vm_compute. reflexivity.
Qed.
