(* C09 proofs, part 10: the data-level lock model (LockModel.v) is a refinement of the interleaving semantics of the lock
   table (Defs.step) for every table that has the protocol shape (proved of the generated table in Props.v): every
   reachable configuration of the data-level model corresponds, thread by thread (TR), to a reachable configuration of
   the table semantics in which every thread holds exactly the locks its phase says.  So the group 2/3 theorems
   (no race, mutual exclusion, no deadlock, guarded members) are about the executions of the data-level model too. *)
From CppcmsV Require Import Base.Tac C09.Defs C09.Proofs1 C09.Proofs3 C09.LockModel C09.Proofs9.
From CppcmsV Require C07.Defs C09.Seq.
From Coq Require Import String.

Lemma nodes_cons h s : exists n r, nodes h s = n :: r.
Proof. destruct s as [lk ac ks]. rewrite nodes_eq. eauto. Qed.

Lemma flat_nodes_nil h ks : flat_map (nodes h) ks = [] -> ks = [].
Proof.
  destruct ks as [|k ks]; [reflexivity|]. simpl. destruct (nodes_cons h k) as (n & r & ->). discriminate.
Qed.

Lemma push_nil lk : push lk [] = [] -> lk = None.
Proof. destruct lk; simpl; [discriminate|reflexivity]. Qed.
Lemma push_one lk h x : push lk h = x :: h -> lk = Some x.
Proof.
  destruct lk as [y|]; simpl; intros H.
  - inversion H. reflexivity.
  - exfalso. assert (E : List.length h = List.length (x :: h)) by (now rewrite <- H). simpl in E. lia.
Qed.

Lemma mapfst_cons_app h lk ac ks ks' r :
  map fst (flat_map (nodes h) (Scope lk ac ks :: ks') ++ r) =
  push lk h :: map fst (flat_map (nodes (push lk h)) ks ++ flat_map (nodes h) ks' ++ r).
Proof. cbn [flat_map]. rewrite nodes_eq. rewrite <- !app_assoc. reflexivity. Qed.
Lemma mapfst_cons h lk ac ks ks' :
  map fst (flat_map (nodes h) (Scope lk ac ks :: ks')) =
  push lk h :: map fst (flat_map (nodes (push lk h)) ks ++ flat_map (nodes h) ks').
Proof. rewrite <- (app_nil_r (flat_map (nodes h) (Scope lk ac ks :: ks'))). rewrite mapfst_cons_app. now rewrite app_nil_r. Qed.
Lemma shape_root lk ac ks : shape (Scope lk ac ks) = push lk [] :: map fst (flat_map (nodes (push lk [])) ks).
Proof. unfold shape. rewrite nodes_eq. reflexivity. Qed.
Lemma mapfst_app_nil h1 h2 ks ks' : map fst (flat_map (nodes h1) ks ++ flat_map (nodes h2) ks') = [] -> ks = [] /\ ks' = [].
Proof.
  intros H. apply map_eq_nil in H. apply app_eq_nil in H. destruct H as [H1 H2].
  apply flat_nodes_nil in H1. apply flat_nodes_nil in H2. now split.
Qed.

(* a method whose shape is  [] ; [l1]  or  [] ; [l1] ; [l2; l1] *)
Lemma shape_inv2 m l1 : shape m = [[]; [l1]] -> exists ac ac1, m = Scope None ac [Scope (Some l1) ac1 []].
Proof.
  destruct m as [lk ac ks]. rewrite shape_root. intros H. inversion H as [[H0 H1]].
  apply push_nil in H0. subst lk. cbn [push] in H1.
  destruct ks as [|[lk1 ac1 ks1] ks']; [discriminate|]. rewrite mapfst_cons in H1.
  inversion H1 as [[H2 H3]]. apply (push_one lk1 []) in H2. subst lk1.
  apply mapfst_app_nil in H3. destruct H3 as [-> ->]. eauto.
Qed.

Lemma shape_inv3 m l1 l2 : shape m = [[]; [l1]; [l2; l1]] ->
  exists ac ac1 ac2, m = Scope None ac [Scope (Some l1) ac1 [Scope (Some l2) ac2 []]].
Proof.
  destruct m as [lk ac ks]. rewrite shape_root. intros H. inversion H as [[H0 H1]].
  apply push_nil in H0. subst lk. cbn [push] in H1.
  destruct ks as [|[lk1 ac1 ks1] ks']; [discriminate|]. rewrite mapfst_cons in H1.
  inversion H1 as [[H2 H3]]. apply (push_one lk1 []) in H2. subst lk1. cbn [push] in H3.
  destruct ks1 as [|[lk2 ac2 ks2] ks1'].
  - cbn [flat_map app] in H3. destruct ks' as [|[lk2 ac2 ks2] ks'']; [discriminate|]. rewrite mapfst_cons in H3.
    inversion H3 as [[H4 H5]]. destruct lk2; simpl in H4; discriminate.
  - rewrite mapfst_cons_app in H3. inversion H3 as [[H4 H5]].
    apply (push_one lk2 [l1]) in H4. subst lk2.
    apply map_eq_nil in H5. apply app_eq_nil in H5. destruct H5 as [H5 H6]. apply app_eq_nil in H6. destruct H6 as [H6 H7].
    apply flat_nodes_nil in H5. apply flat_nodes_nil in H6. apply flat_nodes_nil in H7. subst. eauto.
Qed.

Section Refine.
  Variables (a l : lockid) (tbl : list (string * scope)).
  Hypothesis Hal : a <> l.
  Hypothesis HT : table_has_proto_shape a l tbl = true.
  Hypothesis Hex : forall o : Seq.cop, exists m, In (name_of o, m) tbl.
  Variable now : Z.
  Variable limit : N.

  Notation TR := (TR a l tbl).
  Notation Rel := (Rel a l tbl).

  Lemma entry_shape name m sh : In (name, m) tbl -> proto_shape a l name = Some sh -> shape m = sh.
  Proof.
    intros Hin Hp. unfold table_has_proto_shape in HT. rewrite forallb_forall in HT. specialize (HT _ Hin). simpl in HT.
    rewrite Hp in HT. now apply shape_eqb_eq.
  Qed.

  Lemma mut_entry o : is_mut o = true ->
    exists ac ac1, In (name_of o, Scope None ac [Scope (Some (a, Excl)) ac1 []]) tbl.
  Proof.
    intros Hm. destruct (Hex o) as [m Hin].
    assert (Hs : shape m = [[]; [(a, Excl)]]).
    { apply (entry_shape _ _ _ Hin). destruct o; simpl in Hm; try discriminate; reflexivity. }
    destruct (shape_inv2 _ _ Hs) as (ac & ac1 & ->). eauto.
  Qed.

  Lemma rd_entry o : is_mut o = false ->
    exists ac ac1 ks1, In (name_of o, Scope None ac [Scope (Some (a, Shared)) ac1 ks1]) tbl /\
                       (forall k, o = Seq.OFetch k -> exists ac2, ks1 = [Scope (Some (l, Excl)) ac2 []]).
  Proof.
    intros Hm. destruct (Hex o) as [m Hin]. destruct o; simpl in Hm; try discriminate.
    - assert (Hs : shape m = [[]; [(a, Shared)]; [(l, Excl); (a, Shared)]]) by (apply (entry_shape _ _ _ Hin); reflexivity).
      destruct (shape_inv3 _ _ _ Hs) as (ac & ac1 & ac2 & ->). exists ac, ac1, [Scope (Some (l, Excl)) ac2 []]. split; [exact Hin|].
      intros _ _. eauto.
    - assert (Hs : shape m = [[]; [(a, Shared)]]) by (apply (entry_shape _ _ _ Hin); reflexivity).
      destruct (shape_inv2 _ _ Hs) as (ac & ac1 & ->). exists ac, ac1, []. split; [exact Hin|]. intros k E. discriminate.
  Qed.

  (* the locks of the table-level thread are exactly the locks of the phase *)
  Lemma TR_held p st : TR p st -> held st = phase_held a p.
  Proof.
    unfold phase_held. destruct p as [|id o|id o|id r [|]|id o|id o|id k|id k|id r [|]]; simpl; intros H.
    - subst. reflexivity.
    - destruct H as (ac & ac1 & _ & ->). reflexivity.
    - destruct H as (ac & ac1 & ->). reflexivity.
    - destruct H as (ac & ac1 & ->). reflexivity.
    - destruct H as (ac & ->). reflexivity.
    - destruct H as (ac & ac1 & ks1 & _ & _ & ->). reflexivity.
    - destruct H as (ac & ac1 & ks1 & _ & ->). reflexivity.
    - destruct H as (ac & ac1 & ac2 & ->). reflexivity.
    - destruct H as (ac & ac1 & ->). reflexivity.
    - destruct H as (ac & ac1 & ks1 & ->). reflexivity.
    - destruct H as (ac & ->). reflexivity.
  Qed.

  Lemma held_only_a p st x m : TR p st -> In (x, m) (held st) ->
    x = a /\ ((m = Excl /\ holds_x p = true) \/ (m = Shared /\ holds_s p = true /\ holds_x p = false)).
  Proof.
    intros H Hin. rewrite (TR_held _ _ H) in Hin. unfold phase_held in Hin.
    destruct (holds_x p) eqn:Ex.
    - destruct Hin as [E|[]]. inversion E. auto.
    - destruct (holds_s p) eqn:Es; [|contradiction]. destruct Hin as [E|[]]. inversion E. auto.
  Qed.

  Lemma Rel_upd c c' t p st stn nx h :
    Rel c c' -> TR p stn -> Rel (mkCC st (updo (cc_ph c) t p) nx h) (upd c' t stn).
  Proof.
    intros HR Hp u. simpl. destruct (Nat.eq_dec u t) as [->|Hne].
    - rewrite updo_same, upd_same. exact Hp.
    - rewrite updo_other, upd_other by assumption. apply HR.
  Qed.
  Lemma Rel_stutter c c' t p st nx h :
    Rel c c' -> TR p (c' t) -> Rel (mkCC st (updo (cc_ph c) t p) nx h) c'.
  Proof.
    intros HR Hp u. simpl. destruct (Nat.eq_dec u t) as [->|Hne].
    - rewrite updo_same. exact Hp.
    - rewrite updo_other by assumption. apply HR.
  Qed.

  Lemma sim_table c c' d : Rel c c' -> reachable tbl c' -> cstep now c d -> exists d', reachable tbl d' /\ Rel d d'.
  Proof.
    intros HR Hr Hs.
    destruct Hs as [c t o Hp | c t id o Hp Hg | c t id o Hp | c t id r Hp | c t id r Hp
                   | c t id o Hp Hg | c t id Hp | c t id k Hp Hm | c t id k Hp Hm | c t id k Hp | c t id k Hp | c t id r Hp | c t id r Hp];
      pose proof (HR t) as Ht; rewrite Hp in Ht; simpl in Ht.
    - (* invocation = call of the method (no lock at its root) *)
      destruct (is_mut o) eqn:Em.
      + destruct (mut_entry o Em) as (ac & ac1 & Hin).
        exists (upd c' t [mkframe [] (Scope None ac [Scope (Some (a, Excl)) ac1 []])]). split.
        * eapply reach_step; [exact Hr|]. eapply step_call; [exact Ht|exact Hin|exact I].
        * apply Rel_upd; [exact HR|]. simpl. exists ac, ac1. split; [exact Hin|reflexivity].
      + destruct (rd_entry o Em) as (ac & ac1 & ks1 & Hin & Hk).
        exists (upd c' t [mkframe [] (Scope None ac [Scope (Some (a, Shared)) ac1 ks1])]). split.
        * eapply reach_step; [exact Hr|]. eapply step_call; [exact Ht|exact Hin|exact I].
        * apply Rel_upd; [exact HR|]. simpl. exists ac, ac1, ks1. split; [exact Hin|]. split; [exact Hk|reflexivity].
    - (* exclusive lock *)
      destruct Ht as (ac & ac1 & Hin & Est).
      exists (upd c' t (mkframe [] (Scope (Some (a, Excl)) ac1 []) :: mkF [] ac [] :: [])). split.
      + eapply reach_step; [exact Hr|].
        apply (step_enter tbl c' t (fr0 ac [Scope (Some (a, Excl)) ac1 []]) [] [] (Scope (Some (a, Excl)) ac1 []) []); [exact Est|reflexivity|].
        intros u m' Hu Hin'. exfalso. destruct (held_only_a _ _ _ _ (HR u) Hin') as [_ [[_ Hx]|[_ [Hs' _]]]];
          destruct (Hg u Hu) as [G1 G2]; congruence.
      + apply Rel_upd; [exact HR|]. simpl. exists ac, ac1. reflexivity.
    - (* effect: inside the section *)
      exists c'. split; [exact Hr|]. apply Rel_stutter; [exact HR|]. simpl. exact Ht.
    - (* unlock exclusive *)
      destruct Ht as (ac & ac1 & Est). exists (upd c' t [fr0 ac []]). split.
      + eapply reach_step; [exact Hr|]. eapply step_exit. exact Est.
      + apply Rel_upd; [exact HR|]. simpl. exists ac. reflexivity.
    - (* return *)
      destruct Ht as (ac & Est). exists (upd c' t []). split.
      + eapply reach_step; [exact Hr|]. eapply step_exit. exact Est.
      + apply Rel_upd; [exact HR|]. reflexivity.
    - (* shared lock *)
      destruct Ht as (ac & ac1 & ks1 & Hin & Hk & Est).
      exists (upd c' t (mkframe [] (Scope (Some (a, Shared)) ac1 ks1) :: mkF [] ac [] :: [])). split.
      + eapply reach_step; [exact Hr|].
        apply (step_enter tbl c' t (fr0 ac [Scope (Some (a, Shared)) ac1 ks1]) [] [] (Scope (Some (a, Shared)) ac1 ks1) []); [exact Est|reflexivity|].
        intros u m' Hu Hin'. destruct (held_only_a _ _ _ _ (HR u) Hin') as [_ [[_ Hx]|[-> _]]].
        * rewrite (Hg u Hu) in Hx. discriminate.
        * split; reflexivity.
      + apply Rel_upd; [exact HR|]. simpl. exists ac, ac1, ks1. split; [exact Hk|reflexivity].
    - (* stats read *)
      exists c'. split; [exact Hr|]. apply Rel_stutter; [exact HR|]. simpl.
      destruct Ht as (ac & ac1 & ks1 & _ & Est). eauto.
    - (* miss decision *)
      exists c'. split; [exact Hr|]. apply Rel_stutter; [exact HR|]. simpl.
      destruct Ht as (ac & ac1 & ks1 & _ & Est). eauto.
    - (* hit decision *)
      exists c'. split; [exact Hr|]. apply Rel_stutter; [exact HR|]. simpl.
      destruct Ht as (ac & ac1 & ks1 & Hk & Est). destruct (Hk k eq_refl) as [ac2 ->]. eauto.
    - (* LRU move: enter the lru_mutex section, leave it *)
      destruct Ht as (ac & ac1 & ac2 & Est).
      pose (f1 := mkF [(a, Shared)] ac1 [Scope (Some (l, Excl)) ac2 []]).
      pose (c1 := upd c' t (mkframe (fheld f1) (Scope (Some (l, Excl)) ac2 []) :: mkF (fheld f1) (faccs f1) [] :: [fr0 ac []])).
      assert (R1 : reachable tbl c1).
      { eapply reach_step; [exact Hr|].
        apply (step_enter tbl c' t f1 [fr0 ac []] [] (Scope (Some (l, Excl)) ac2 []) []); [exact Est|reflexivity|].
        intros u m' Hu Hin'. exfalso. destruct (held_only_a _ _ _ _ (HR u) Hin') as [E _]. apply Hal. now symmetry. }
      exists (upd c1 t (mkF (fheld f1) (faccs f1) [] :: [fr0 ac []])). split.
      + eapply reach_step; [exact R1|]. eapply step_exit. unfold c1. rewrite upd_same. reflexivity.
      + intros u. simpl. destruct (Nat.eq_dec u t) as [->|Hne].
        * rewrite updo_same, upd_same. simpl. exists ac, ac1. reflexivity.
        * rewrite updo_other by assumption. unfold c1. rewrite !upd_other by assumption. apply HR.
    - (* copy-out *)
      exists c'. split; [exact Hr|]. apply Rel_stutter; [exact HR|]. simpl.
      destruct Ht as (ac & ac1 & Est). eauto.
    - (* unlock shared *)
      destruct Ht as (ac & ac1 & ks1 & Est). exists (upd c' t [fr0 ac []]). split.
      + eapply reach_step; [exact Hr|]. eapply step_exit. exact Est.
      + apply Rel_upd; [exact HR|]. simpl. exists ac. reflexivity.
    - (* return *)
      destruct Ht as (ac & Est). exists (upd c' t []). split.
      + eapply reach_step; [exact Hr|]. eapply step_exit. exact Est.
      + apply Rel_upd; [exact HR|]. reflexivity.
  Qed.

  Theorem lock_model_refines_l : forall c, creachable now limit c ->
    exists c', reachable tbl c' /\ Rel c c' /\ forall t, held (c' t) = phase_held a (cc_ph c t).
  Proof.
    assert (H : forall c, creachable now limit c -> exists c', reachable tbl c' /\ Rel c c').
    { induction 1 as [|c d Hc IH Hs].
      - exists init. split; [apply reach_init|]. intros t. reflexivity.
      - destruct IH as (c' & Hr & HR). eapply sim_table; eauto. }
    intros c Hc. destruct (H c Hc) as (c' & Hr & HR). exists c'. split; [exact Hr|]. split; [exact HR|].
    intros t. apply TR_held. apply HR.
  Qed.
End Refine.
