(* C09: the sequential object the concurrent cache is compared with = C07's executable model of mem_cache
   (coq/C07/Defs.v, imported read-only), packaged as one function  eff : state -> op -> state * result.
   thread_settings: not_enough_memory() = false, size_limit() = max; the only allocation fault kept is the one the
   harness can inject into the real code: std::bad_alloc while store copies the value (first try block of store, C07's
   FDropBefore) - operation OStoreFail; the catch block then calls remove(key) and returns.  The clock is a constant
   of a run (the harness interposes time()). Definitions only. *)
From Coq Require Import NArith ZArith List Bool.
From CppcmsV Require Import C07.Defs.
Import ListNotations.

Inductive cop :=
| OFetch (k : key)
| OStore (k : key) (v : list N) (tin : list key) (d : Z) (g : option N)
| OStoreFail (k : key) (v : list N) (tin : list key) (d : Z) (g : option N)   (* store whose value copy throws std::bad_alloc *)
| ORise (t : key)
| ORemove (k : key)
| OClear
| OStats.

Inductive cret :=
| RMiss
| RHit (v : list N) (trigs : list key) (d : Z) (g : N)
| RUnit
| RStats (keys triggers : N).

Definition eff (now : Z) (s : state) (o : cop) : state * cret :=
  match o with
  | OFetch k =>
      let (s', r) := fetch now k s in
      (s', match r with OHit v t d g => RHit v t d g | _ => RMiss end)
  | OStore k v tin d g => (store now k v tin d g FNone [] s, RUnit)
  | OStoreFail k v tin d g => (store now k v tin d g FDropBefore [] s, RUnit)
  | ORise t => (rise t s, RUnit)
  | ORemove k => (remove k s, RUnit)
  | OClear => (clear s, RUnit)
  | OStats => (s, RStats (size s) (tcount s))
  end.

(* run a list of operations sequentially, collecting the results *)
Fixpoint run_seq (now : Z) (s : state) (l : list cop) : state * list cret :=
  match l with
  | [] => (s, [])
  | o :: l' => let (s1, r) := eff now s o in let (s2, rs) := run_seq now s1 l' in (s2, r :: rs)
  end.

(* the operations as operations of C07's histories (C07.Defs.op), so that C07's theorems about sequential histories
   apply to linearizations; stats = a clock tick to the same time (no effect on the state) *)
Definition to_op (now : Z) (o : cop) : op :=
  match o with
  | OFetch k => Fetch k
  | OStore k v tin d g => Store k v tin d g FNone []
  | OStoreFail k v tin d g => Store k v tin d g FDropBefore []
  | ORise t => Rise t
  | ORemove k => Remove k
  | OClear => Clear
  | OStats => Tick now
  end.
