(* C09: the sequential object the concurrent cache is compared with = C07's executable model of mem_cache
   (coq/C07/Defs.v, imported read-only), packaged as one function  eff : state -> op -> state * result.
   thread_settings: no allocation faults, not_enough_memory() = false, size_limit() = max. The clock is a constant
   of a run (the harness interposes time()). Definitions only. *)
From Coq Require Import NArith ZArith List Bool.
From CppcmsV Require Import C07.Defs.
Import ListNotations.

Inductive cop :=
| OFetch (k : key)
| OStore (k : key) (v : list N) (tin : list key) (d : Z) (g : option N)
| ORise (t : key)
| ORemove (k : key)
| OClear
| OStats.

Inductive cret :=
| RMiss
| RHit (v : list N) (trigs : list key) (d : Z) (g : N)
| RUnit
| RStats (keys triggers : N).

Definition eff (now : Z) (s : state) (o : cop) : state * cret :=
  match o with
  | OFetch k =>
      let (s', r) := fetch now k s in
      (s', match r with OHit v t d g => RHit v t d g | _ => RMiss end)
  | OStore k v tin d g => (store now k v tin d g FNone [] s, RUnit)
  | ORise t => (rise t s, RUnit)
  | ORemove k => (remove k s, RUnit)
  | OClear => (clear s, RUnit)
  | OStats => (s, RStats (size s) (tcount s))
  end.

(* run a list of operations sequentially, collecting the results *)
Fixpoint run_seq (now : Z) (s : state) (l : list cop) : state * list cret :=
  match l with
  | [] => (s, [])
  | o :: l' => let (s1, r) := eff now s o in let (s2, rs) := run_seq now s1 l' in (s2, r :: rs)
  end.
