(* C09: a lock-level model of the cache WITH data: the sequential object (C07 model through Seq.eff) behind a
   readers-writer lock and the LRU mutex, each call split the way the code splits it.
     mutators (store, rise, remove, clear):  wait - take access_lock exclusively - apply the whole effect - release - return
     stats:   wait - take access_lock shared - read the counters - release - return
     fetch:   wait - take access_lock shared - look the key up (hit / miss decision) - [hit: move the entry to the front
              of the LRU list, atomically under lru_mutex] - copy value, triggers, deadline, generation out - release - return
   Other threads may run between any two of these steps.  Definitions only. *)
From Coq Require Import NArith ZArith List Bool.
From CppcmsV Require Import C09.Defs.
From CppcmsV Require C07.Defs C09.Seq.
Import ListNotations.

Definition cst := C07.Defs.state.
Definition is_mut (o : Seq.cop) : bool :=
  match o with Seq.OFetch _ => false | Seq.OStats => false | _ => true end.
Definition ret_of (r : C07.Defs.out) : Seq.cret :=
  match r with C07.Defs.OHit v t d g => Seq.RHit v t d g | _ => Seq.RMiss end.
Definition is_miss (r : C07.Defs.out) : bool := match r with C07.Defs.OHit _ _ _ _ => false | _ => true end.

Inductive cphase :=
| CIdle
| CMutWait (id : nat) (o : Seq.cop)
| CMutIn (id : nat) (o : Seq.cop)
| CMutOut (id : nat) (r : Seq.cret) (locked : bool)
| CRdWait (id : nat) (o : Seq.cop)
| CRdIn (id : nat) (o : Seq.cop)
| CRdHit (id : nat) (k : C07.Defs.key)
| CRdMoved (id : nat) (k : C07.Defs.key)
| CRdOut (id : nat) (r : Seq.cret) (locked : bool).

Definition holds_x (p : cphase) : bool :=
  match p with CMutIn _ _ => true | CMutOut _ _ true => true | _ => false end.
Definition holds_s (p : cphase) : bool :=
  match p with CRdIn _ _ => true | CRdHit _ _ => true | CRdMoved _ _ => true | CRdOut _ _ true => true | _ => false end.

Record cconfig := mkCC {
  cc_st : cst;
  cc_ph : nat -> cphase;
  cc_next : nat;
  cc_hist : list (hev Seq.cop Seq.cret)
}.
Definition cc_init (limit : N) : cconfig := mkCC (C07.Defs.init limit) (fun _ => CIdle) 0 [].

Section LM.
  Variable now : Z.

  Inductive cstep : cconfig -> cconfig -> Prop :=
  | cs_inv : forall c t o, cc_ph c t = CIdle ->
      cstep c (mkCC (cc_st c) (updo (cc_ph c) t (if is_mut o then CMutWait (cc_next c) o else CRdWait (cc_next c) o))
                    (S (cc_next c)) (cc_hist c ++ [Inv _ _ (cc_next c) t o]))
  (* mutators *)
  | cs_lock_x : forall c t id o, cc_ph c t = CMutWait id o ->
      (forall u, u <> t -> holds_x (cc_ph c u) = false /\ holds_s (cc_ph c u) = false) ->
      cstep c (mkCC (cc_st c) (updo (cc_ph c) t (CMutIn id o)) (cc_next c) (cc_hist c))
  | cs_effect : forall c t id o, cc_ph c t = CMutIn id o ->
      cstep c (mkCC (fst (Seq.eff now (cc_st c) o)) (updo (cc_ph c) t (CMutOut id (snd (Seq.eff now (cc_st c) o)) true))
                    (cc_next c) (cc_hist c))
  | cs_unlock_x : forall c t id r, cc_ph c t = CMutOut id r true ->
      cstep c (mkCC (cc_st c) (updo (cc_ph c) t (CMutOut id r false)) (cc_next c) (cc_hist c))
  | cs_res_x : forall c t id r, cc_ph c t = CMutOut id r false ->
      cstep c (mkCC (cc_st c) (updo (cc_ph c) t CIdle) (cc_next c) (cc_hist c ++ [Res _ _ id r]))
  (* readers *)
  | cs_lock_s : forall c t id o, cc_ph c t = CRdWait id o ->
      (forall u, u <> t -> holds_x (cc_ph c u) = false) ->
      cstep c (mkCC (cc_st c) (updo (cc_ph c) t (CRdIn id o)) (cc_next c) (cc_hist c))
  | cs_stats : forall c t id, cc_ph c t = CRdIn id Seq.OStats ->
      cstep c (mkCC (cc_st c) (updo (cc_ph c) t (CRdOut id (Seq.RStats (C07.Defs.size (cc_st c)) (C07.Defs.tcount (cc_st c))) true))
                    (cc_next c) (cc_hist c))
  | cs_miss : forall c t id k, cc_ph c t = CRdIn id (Seq.OFetch k) ->
      is_miss (snd (C07.Defs.fetch now k (cc_st c))) = true ->
      cstep c (mkCC (cc_st c) (updo (cc_ph c) t (CRdOut id Seq.RMiss true)) (cc_next c) (cc_hist c))
  | cs_hit : forall c t id k, cc_ph c t = CRdIn id (Seq.OFetch k) ->
      is_miss (snd (C07.Defs.fetch now k (cc_st c))) = false ->
      cstep c (mkCC (cc_st c) (updo (cc_ph c) t (CRdHit id k)) (cc_next c) (cc_hist c))
  (* lru.erase(p->second.lru); lru.push_front(p); p->second.lru = lru.begin();   under lru_mutex: one atomic step *)
  | cs_move : forall c t id k, cc_ph c t = CRdHit id k ->
      cstep c (mkCC (C07.Defs.set_lru (cc_st c) (k :: C07.Defs.kremove k (C07.Defs.lru (cc_st c))))
                    (updo (cc_ph c) t (CRdMoved id k)) (cc_next c) (cc_hist c))
  | cs_copy : forall c t id k, cc_ph c t = CRdMoved id k ->
      cstep c (mkCC (cc_st c) (updo (cc_ph c) t (CRdOut id (ret_of (snd (C07.Defs.fetch now k (cc_st c)))) true))
                    (cc_next c) (cc_hist c))
  | cs_unlock_s : forall c t id r, cc_ph c t = CRdOut id r true ->
      cstep c (mkCC (cc_st c) (updo (cc_ph c) t (CRdOut id r false)) (cc_next c) (cc_hist c))
  | cs_res_s : forall c t id r, cc_ph c t = CRdOut id r false ->
      cstep c (mkCC (cc_st c) (updo (cc_ph c) t CIdle) (cc_next c) (cc_hist c ++ [Res _ _ id r])).

  Inductive creachable (limit : N) : cconfig -> Prop :=
  | creach_init : creachable limit (cc_init limit)
  | creach_step : forall c c', creachable limit c -> cstep c c' -> creachable limit c'.
End LM.
