(* C09: a lock-level model of the cache WITH data: the sequential object (C07 model through Seq.eff) behind a
   readers-writer lock and the LRU mutex, each call split the way the code splits it.
     mutators (store, rise, remove, clear):  wait - take access_lock exclusively - apply the whole effect - release - return
     stats:   wait - take access_lock shared - read the counters - release - return
     fetch:   wait - take access_lock shared - look the key up (hit / miss decision) - [hit: move the entry to the front
              of the LRU list, atomically under lru_mutex] - copy value, triggers, deadline, generation out - release - return
   Other threads may run between any two of these steps.  Definitions only. *)
From Coq Require Import NArith ZArith List Bool.
From CppcmsV Require Import C09.Defs.
From CppcmsV Require C07.Defs C09.Seq.
Import ListNotations.

Definition cst := C07.Defs.state.
Definition is_mut (o : Seq.cop) : bool :=
  match o with Seq.OFetch _ => false | Seq.OStats => false | _ => true end.
Definition ret_of (r : C07.Defs.out) : Seq.cret :=
  match r with C07.Defs.OHit v t d g => Seq.RHit v t d g | _ => Seq.RMiss end.
Definition is_miss (r : C07.Defs.out) : bool := match r with C07.Defs.OHit _ _ _ _ => false | _ => true end.

Inductive cphase :=
| CIdle
| CMutWait (id : nat) (o : Seq.cop)
| CMutIn (id : nat) (o : Seq.cop)
| CMutOut (id : nat) (r : Seq.cret) (locked : bool)
| CRdWait (id : nat) (o : Seq.cop)
| CRdIn (id : nat) (o : Seq.cop)
| CRdHit (id : nat) (k : C07.Defs.key)
| CRdMoved (id : nat) (k : C07.Defs.key)
| CRdOut (id : nat) (r : Seq.cret) (locked : bool).

Definition holds_x (p : cphase) : bool :=
  match p with CMutIn _ _ => true | CMutOut _ _ true => true | _ => false end.
Definition holds_s (p : cphase) : bool :=
  match p with CRdIn _ _ => true | CRdHit _ _ => true | CRdMoved _ _ => true | CRdOut _ _ true => true | _ => false end.

Record cconfig := mkCC {
  cc_st : cst;
  cc_ph : nat -> cphase;
  cc_next : nat;
  cc_hist : list (hev Seq.cop Seq.cret)
}.
Definition cc_init (limit : N) : cconfig := mkCC (C07.Defs.init limit) (fun _ => CIdle) 0 [].

Section LM.
  Variable now : Z.

  Inductive cstep : cconfig -> cconfig -> Prop :=
  | cs_inv : forall c t o, cc_ph c t = CIdle ->
      cstep c (mkCC (cc_st c) (updo (cc_ph c) t (if is_mut o then CMutWait (cc_next c) o else CRdWait (cc_next c) o))
                    (S (cc_next c)) (cc_hist c ++ [Inv _ _ (cc_next c) t o]))
  (* mutators *)
  | cs_lock_x : forall c t id o, cc_ph c t = CMutWait id o ->
      (forall u, u <> t -> holds_x (cc_ph c u) = false /\ holds_s (cc_ph c u) = false) ->
      cstep c (mkCC (cc_st c) (updo (cc_ph c) t (CMutIn id o)) (cc_next c) (cc_hist c))
  | cs_effect : forall c t id o, cc_ph c t = CMutIn id o ->
      cstep c (mkCC (fst (Seq.eff now (cc_st c) o)) (updo (cc_ph c) t (CMutOut id (snd (Seq.eff now (cc_st c) o)) true))
                    (cc_next c) (cc_hist c))
  | cs_unlock_x : forall c t id r, cc_ph c t = CMutOut id r true ->
      cstep c (mkCC (cc_st c) (updo (cc_ph c) t (CMutOut id r false)) (cc_next c) (cc_hist c))
  | cs_res_x : forall c t id r, cc_ph c t = CMutOut id r false ->
      cstep c (mkCC (cc_st c) (updo (cc_ph c) t CIdle) (cc_next c) (cc_hist c ++ [Res _ _ id r]))
  (* readers *)
  | cs_lock_s : forall c t id o, cc_ph c t = CRdWait id o ->
      (forall u, u <> t -> holds_x (cc_ph c u) = false) ->
      cstep c (mkCC (cc_st c) (updo (cc_ph c) t (CRdIn id o)) (cc_next c) (cc_hist c))
  | cs_stats : forall c t id, cc_ph c t = CRdIn id Seq.OStats ->
      cstep c (mkCC (cc_st c) (updo (cc_ph c) t (CRdOut id (Seq.RStats (C07.Defs.size (cc_st c)) (C07.Defs.tcount (cc_st c))) true))
                    (cc_next c) (cc_hist c))
  | cs_miss : forall c t id k, cc_ph c t = CRdIn id (Seq.OFetch k) ->
      is_miss (snd (C07.Defs.fetch now k (cc_st c))) = true ->
      cstep c (mkCC (cc_st c) (updo (cc_ph c) t (CRdOut id Seq.RMiss true)) (cc_next c) (cc_hist c))
  | cs_hit : forall c t id k, cc_ph c t = CRdIn id (Seq.OFetch k) ->
      is_miss (snd (C07.Defs.fetch now k (cc_st c))) = false ->
      cstep c (mkCC (cc_st c) (updo (cc_ph c) t (CRdHit id k)) (cc_next c) (cc_hist c))
  (* lru.splice(lru.begin(), lru, p->second.lru)   under lru_mutex: one atomic step (the node of the entry moves to the front;
     the entry's own iterator c.lru is only read and stays valid; before /repo 117bb4c: erase + push_front + iterator assignment) *)
  | cs_move : forall c t id k, cc_ph c t = CRdHit id k ->
      cstep c (mkCC (C07.Defs.set_lru (cc_st c) (k :: C07.Defs.kremove k (C07.Defs.lru (cc_st c))))
                    (updo (cc_ph c) t (CRdMoved id k)) (cc_next c) (cc_hist c))
  | cs_copy : forall c t id k, cc_ph c t = CRdMoved id k ->
      cstep c (mkCC (cc_st c) (updo (cc_ph c) t (CRdOut id (ret_of (snd (C07.Defs.fetch now k (cc_st c)))) true))
                    (cc_next c) (cc_hist c))
  | cs_unlock_s : forall c t id r, cc_ph c t = CRdOut id r true ->
      cstep c (mkCC (cc_st c) (updo (cc_ph c) t (CRdOut id r false)) (cc_next c) (cc_hist c))
  | cs_res_s : forall c t id r, cc_ph c t = CRdOut id r false ->
      cstep c (mkCC (cc_st c) (updo (cc_ph c) t CIdle) (cc_next c) (cc_hist c ++ [Res _ _ id r])).

  Inductive creachable (limit : N) : cconfig -> Prop :=
  | creach_init : creachable limit (cc_init limit)
  | creach_step : forall c c', creachable limit c -> cstep c c' -> creachable limit c'.
End LM.

(* ---- tie of the protocol above to the lock table generated from the source ----
   shape of a method = the stacks of held locks of its scopes in program order (pre-order of the scope tree; the stack
   lengths give the nesting, so the list determines the lock structure of the tree).  proto_shape is the lock protocol the
   steps of cstep follow: mutators (cs_lock_x .. cs_unlock_x) one exclusive section on access_lock; stats one shared
   section; fetch one shared section with the lru_mutex section (the atomic cs_move step) nested in it.  Props.v proves
   that every entry (every path of every method) of the CURRENT table has exactly the shape assumed here. *)
From Coq Require Import String.
Definition shape (s : scope) : list (list lock) := map fst (nodes [] s).
Definition lock_eqb (x y : lock) : bool := N.eqb (fst x) (fst y) && mode_eqb (snd x) (snd y).
Fixpoint locks_eqb (x y : list lock) : bool :=
  match x, y with [], [] => true | p :: x', q :: y' => lock_eqb p q && locks_eqb x' y' | _, _ => false end.
Fixpoint shape_eqb (x y : list (list lock)) : bool :=
  match x, y with [], [] => true | p :: x', q :: y' => locks_eqb p q && shape_eqb x' y' | _, _ => false end.
Definition mutator_names : list string := ["store"; "rise"; "remove"; "clear"; "add_ref"; "del_ref"]%string.
Definition proto_shape (a l : lockid) (name : string) : option (list (list lock)) :=
  if String.eqb name "fetch" then Some [[]; [(a, Shared)]; [(l, Excl); (a, Shared)]]
  else if String.eqb name "stats" then Some [[]; [(a, Shared)]]
  else if existsb (String.eqb name) mutator_names then Some [[]; [(a, Excl)]]
  else None.
Definition table_has_proto_shape (a l : lockid) (tbl : list (string * scope)) : bool :=
  forallb (fun e : string * scope =>
             match proto_shape a l (fst e) with Some sh => shape_eqb (shape (snd e)) sh | None => false end) tbl.
(* the operation name under which an operation of the sequential object enters the table; a failed store is a path of store *)
Definition name_of (o : Seq.cop) : string :=
  match o with
  | Seq.OFetch _ => "fetch" | Seq.OStore _ _ _ _ _ => "store" | Seq.OStoreFail _ _ _ _ _ => "store"
  | Seq.ORise _ => "rise" | Seq.ORemove _ => "remove" | Seq.OClear => "clear" | Seq.OStats => "stats"
  end%string.
(* the lock stack a thread of the model holds in each phase *)
Definition phase_held (a : lockid) (p : cphase) : list lock :=
  if holds_x p then [(a, Excl)] else if holds_s p then [(a, Shared)] else [].

(* what the shared sections may do: a scope entered with access_lock Shared and nothing else only reads; a scope under
   access_lock Shared + lru_mutex writes nothing but the two LRU members; (writers hold access_lock Excl) *)
Definition reader_sections_ok (a l : lockid) (f_lru f_c_lru : fieldid) (tbl : list (string * scope)) : bool :=
  forallb (fun n : node =>
    if locks_eqb (fst n) [(a, Shared)] then forallb (fun x : access => rw_eqb (snd x) Rd) (snd n)
    else if locks_eqb (fst n) [(l, Excl); (a, Shared)] then
      forallb (fun x : access => rw_eqb (snd x) Rd || N.eqb (fst x) f_lru || N.eqb (fst x) f_c_lru) (snd n)
    else if locks_eqb (fst n) [(a, Excl)] then true
    else match fst n with [] => forallb (fun x : access => rw_eqb (snd x) Rd) (snd n) | _ => false end)
    (all_nodes tbl).

(* ---- the data-level model as a refinement of the table semantics (Defs.step) ----
   TR a l p st : a thread of the data-level model in phase p corresponds to a thread of the table semantics with frame
   stack st (a = access_lock, l = lru_mutex).  The frames are those of a method of the protocol shape:
   root (no lock) > section on access_lock > (fetch only) section on lru_mutex. *)
Definition fr0 (ac : list access) (ks : list scope) : frame := mkF [] ac ks.
Definition TR (a l : lockid) (tbl : list (string * scope)) (p : cphase) (st : tstate) : Prop :=
  match p with
  | CIdle => st = []
  | CMutWait _ o => exists ac ac1, In (name_of o, Scope None ac [Scope (Some (a, Excl)) ac1 []]) tbl /\
                                   st = [fr0 ac [Scope (Some (a, Excl)) ac1 []]]
  | CMutIn _ _ => exists ac ac1, st = [mkF [(a, Excl)] ac1 []; fr0 ac []]
  | CMutOut _ _ true => exists ac ac1, st = [mkF [(a, Excl)] ac1 []; fr0 ac []]
  | CMutOut _ _ false => exists ac, st = [fr0 ac []]
  | CRdWait _ o => exists ac ac1 ks1, In (name_of o, Scope None ac [Scope (Some (a, Shared)) ac1 ks1]) tbl /\
                                      (forall k, o = Seq.OFetch k -> exists ac2, ks1 = [Scope (Some (l, Excl)) ac2 []]) /\
                                      st = [fr0 ac [Scope (Some (a, Shared)) ac1 ks1]]
  | CRdIn _ o => exists ac ac1 ks1, (forall k, o = Seq.OFetch k -> exists ac2, ks1 = [Scope (Some (l, Excl)) ac2 []]) /\
                                    st = [mkF [(a, Shared)] ac1 ks1; fr0 ac []]
  | CRdHit _ _ => exists ac ac1 ac2, st = [mkF [(a, Shared)] ac1 [Scope (Some (l, Excl)) ac2 []]; fr0 ac []]
  | CRdMoved _ _ => exists ac ac1, st = [mkF [(a, Shared)] ac1 []; fr0 ac []]
  | CRdOut _ _ true => exists ac ac1 ks1, st = [mkF [(a, Shared)] ac1 ks1; fr0 ac []]
  | CRdOut _ _ false => exists ac, st = [fr0 ac []]
  end.
Definition Rel (a l : lockid) (tbl : list (string * scope)) (c : cconfig) (c' : config) : Prop :=
  forall t, TR a l tbl (cc_ph c t) (c' t).

(* a well-formed history names every call once *)
Definition inv_unique {Op Ret} (h : list (hev Op Ret)) : Prop :=
  forall id t o t' o', In (Inv Op Ret id t o) h -> In (Inv Op Ret id t' o') h -> o = o'.
