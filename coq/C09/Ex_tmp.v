From CppcmsV Require Import Base.Tac C09.Defs C09.Proofs3 C09.LockModel C09.Proofs7.
From CppcmsV Require C07.Defs C09.Seq.

Definition lk : C07.Defs.key := [107; 49]%N.
Definition lv : list N := [1; 2; 3]%N.

Ltac fwd H tac :=
  let H' := fresh "H" in
  eassert (H' : creachable 1000%Z 0%N _); [eapply creach_step; [exact H | tac] | clear H; rename H' into H].
Ltac alone := let u := fresh "u" in let Hu := fresh "Hu" in
  intros u Hu; destruct u as [|[|[|u]]]; try (exfalso; now apply Hu); try split; reflexivity.

Example lock_model_nonvacuous :
  exists c, creachable 1000%Z 0%N c /\
    cc_hist c = [Inv _ _ 0 0 (Seq.OStore lk lv [] 2000%Z None); Res _ _ 0 Seq.RUnit;
                 Inv _ _ 1 1 (Seq.OFetch lk); Inv _ _ 2 2 (Seq.OFetch lk);
                 Res _ _ 1 (Seq.RHit lv [lk] 2000%Z 0%N); Res _ _ 2 (Seq.RHit lv [lk] 2000%Z 0%N)] /\
    C07.Defs.lru (cc_st c) = [lk].
Proof.
  pose proof (creach_init 1000%Z 0%N) as H.
  fwd H ltac:(apply (cs_inv _ _ 0%nat (Seq.OStore lk lv [] 2000%Z None)); reflexivity).
  fwd H ltac:(eapply (cs_lock_x _ _ 0%nat); [reflexivity|alone]).
  fwd H ltac:(eapply (cs_effect _ _ 0%nat); reflexivity).
  fwd H ltac:(eapply (cs_unlock_x _ _ 0%nat); reflexivity).
  fwd H ltac:(eapply (cs_res_x _ _ 0%nat); reflexivity).
  fwd H ltac:(apply (cs_inv _ _ 1%nat (Seq.OFetch lk)); reflexivity).
  fwd H ltac:(apply (cs_inv _ _ 2%nat (Seq.OFetch lk)); reflexivity).
  fwd H ltac:(eapply (cs_lock_s _ _ 1%nat); [reflexivity|alone]).
  fwd H ltac:(eapply (cs_lock_s _ _ 2%nat); [reflexivity|alone]).
  fwd H ltac:(eapply (cs_hit _ _ 1%nat); reflexivity).
  fwd H ltac:(eapply (cs_hit _ _ 2%nat); reflexivity).
  fwd H ltac:(eapply (cs_move _ _ 2%nat); reflexivity).
  fwd H ltac:(eapply (cs_move _ _ 1%nat); reflexivity).
  fwd H ltac:(eapply (cs_copy _ _ 1%nat); reflexivity).
  fwd H ltac:(eapply (cs_copy _ _ 2%nat); reflexivity).
  fwd H ltac:(eapply (cs_unlock_s _ _ 1%nat); reflexivity).
  fwd H ltac:(eapply (cs_unlock_s _ _ 2%nat); reflexivity).
  fwd H ltac:(eapply (cs_res_s _ _ 1%nat); reflexivity).
  fwd H ltac:(eapply (cs_res_s _ _ 2%nat); reflexivity).
  eexists. split; [exact H|]. split; vm_compute; reflexivity.
Qed.
