(* C09 proofs, part 12: with a size limit the cache never holds more than limit entries - in every state of a legal
   sequential run of the cache object, hence in every stats() answer of a linearizable history. *)
From CppcmsV Require Import Base.Tac C09.Defs C09.Proofs3 C09.LockModel C09.Proofs7 C09.Proofs11.
From CppcmsV Require C07.Defs C07.Spec C07.ProofsInv C09.Seq.
Module D := CppcmsV.C07.Defs.
Import CppcmsV.C09.Seq.
Local Open Scope N_scope.

Definition bounded (s : D.state) : Prop := 0 < D.limit s -> D.size s <= D.limit s.

Lemma delete_node_size k s : D.size (D.delete_node k s) <= D.size s.
Proof.
  unfold D.delete_node. destruct (D.pfind k (D.primary s)) as [c|]; [|lia].
  destruct (D.unlink_all k (D.c_trigs c) (D.triggers s, D.tcount s)) as [trs tc]. cbn [D.size]. lia.
Qed.
Lemma delete_node_bounded k s : bounded s -> bounded (D.delete_node k s).
Proof.
  unfold bounded. rewrite C07.ProofsInv.delete_node_limit. intros H Hl. specialize (H Hl).
  pose proof (delete_node_size k s). lia.
Qed.
Lemma fold_delete_bounded l : forall s, bounded s -> bounded (fold_left (fun s k => D.delete_node k s) l s).
Proof. induction l as [|k l IH]; intros s H; simpl; [exact H|]. apply IH. now apply delete_node_bounded. Qed.

Lemma last_opt_none l : D.last_opt l = None -> l = [].
Proof.
  induction l as [|x l IH]; [reflexivity|]. simpl. destruct l as [|y l]; [discriminate|]. intros H. specialize (IH H). discriminate.
Qed.

Lemma lru_empty_size s : C07.Spec.Inv s -> D.lru s = [] -> D.size s = 0.
Proof.
  intros I Hl. rewrite (C07.Spec.inv_size s I). destruct (D.primary s) as [|[k c] E] eqn:Ep; [reflexivity|exfalso].
  assert (Hin : In k (D.lru s)) by (apply (C07.Spec.inv_lru s I); rewrite Ep; now left). rewrite Hl in Hin. exact Hin.
Qed.

(* the eviction loop with no memory pressure: when it ends without running out of fuel there is room for one more entry *)
Lemma loop_post now fuel : forall s, C07.Spec.Inv s ->
  D.err (D.check_limits_loop fuel now [] s) = false -> 0 < D.limit s ->
  D.limit (D.check_limits_loop fuel now [] s) = D.limit s /\ D.size (D.check_limits_loop fuel now [] s) < D.limit s.
Proof.
  induction fuel as [|f IH]; intros s I He Hl; cbn [D.check_limits_loop tl] in *.
  - destruct ((0 <? D.size s) && (false || (D.limit s <=? D.size s) && (0 <? D.limit s))) eqn:Ec.
    + cbn in He. discriminate.
    + split; [reflexivity|]. rewrite orb_false_l in Ec.
      destruct (N.ltb_spec 0 (D.size s)); destruct (N.leb_spec (D.limit s) (D.size s)); destruct (N.ltb_spec 0 (D.limit s));
        simpl in Ec; try discriminate; lia.
  - destruct ((0 <? D.size s) && (false || (D.limit s <=? D.size s) && (0 <? D.limit s))) eqn:Ec.
    + assert (Hrec : forall k, D.err (D.check_limits_loop f now [] (D.delete_node k s)) = false ->
                 D.limit (D.check_limits_loop f now [] (D.delete_node k s)) = D.limit s /\
                 D.size (D.check_limits_loop f now [] (D.delete_node k s)) < D.limit s).
      { intros k Hek. destruct (IH (D.delete_node k s) (C07.ProofsInv.delete_node_inv k s I) Hek) as [E1 E2].
        - now rewrite C07.ProofsInv.delete_node_limit.
        - rewrite C07.ProofsInv.delete_node_limit in E1, E2. now split. }
      assert (Hlru : D.err match D.last_opt (D.lru s) with
                           | Some k => D.check_limits_loop f now [] (D.delete_node k s) | None => s end = false ->
                     D.limit match D.last_opt (D.lru s) with
                             | Some k => D.check_limits_loop f now [] (D.delete_node k s) | None => s end = D.limit s /\
                     D.size match D.last_opt (D.lru s) with
                            | Some k => D.check_limits_loop f now [] (D.delete_node k s) | None => s end < D.limit s).
      { destruct (D.last_opt (D.lru s)) as [k|] eqn:El; [apply Hrec|].
        intros _. exfalso. apply last_opt_none in El. pose proof (lru_empty_size s I El) as Hz.
        rewrite Hz in Ec. cbn in Ec. discriminate. }
      destruct (D.timeout s) as [|[d k] tl0]; [apply Hlru; exact He|].
      destruct (d <? now)%Z; [apply Hrec; exact He|apply Hlru; exact He].
    + split; [reflexivity|]. rewrite orb_false_l in Ec.
      destruct (N.ltb_spec 0 (D.size s)); destruct (N.leb_spec (D.limit s) (D.size s)); destruct (N.ltb_spec 0 (D.limit s));
        simpl in Ec; try discriminate; lia.
Qed.

Lemma eff_bounded now s o : C07.Spec.Inv s -> bounded s -> bounded (fst (eff now s o)).
Proof.
  intros I B.
  assert (I' : C07.Spec.Inv (fst (eff now s o))).
  { destruct (step_to_op now o s) as [_ <-]. exact (proj1 (C07.ProofsInv.step_ref now (to_op now o) s I)). }
  destruct o as [k|k v tin d g|k v tin d g|t|k| |]; cbn [eff fst] in *.
  - destruct (D.fetch now k s) as [s' r] eqn:Ef. cbn [fst]. unfold D.fetch in Ef.
    destruct (D.pfind k (D.primary s)) as [c|]; [destruct (D.c_deadline c <? now)%Z|]; inversion Ef; subst; exact B.
  - (* store *)
    unfold D.store in *. cbv zeta in *.
    set (s1 := D.delete_node k s) in *.
    assert (I1 : C07.Spec.Inv s1) by (apply C07.ProofsInv.delete_node_inv; exact I).
    set (s2 := D.check_limits now [] s1) in *.
    destruct (D.link_all k (D.store_trigs k tin) (D.triggers s2, D.tcount s2)) as [trs tc].
    unfold bounded. cbn [D.limit D.size]. intros Hl.
    assert (He : D.err s2 = false) by (pose proof (C07.Spec.inv_err _ I') as E; cbn [D.err] in E; exact E).
    assert (Hl1 : 0 < D.limit s1).
    { unfold s2, D.check_limits in Hl. unfold s2, D.check_limits in He.
      destruct (N.ltb_spec 0 (D.limit s1)) as [Hp|Hn]; [exact Hp|exfalso].
      (* limit s1 = 0: the loop does not run, limit s2 = limit s1 *)
      assert (E0 : D.limit s1 = 0) by lia.
      revert Hl. cbn [D.check_limits_loop]. rewrite E0. rewrite N.ltb_irrefl, andb_false_r, orb_false_l, andb_false_r. rewrite E0. lia. }
    destruct (loop_post now _ s1 I1 He Hl1) as [E1 E2]. fold (D.check_limits now [] s1) in E1, E2. fold s2 in E1, E2. lia.
  - apply delete_node_bounded. exact B.
  - unfold D.rise. destruct (D.tfind t (D.triggers s)); [apply fold_delete_bounded|]; exact B.
  - apply delete_node_bounded. exact B.
  - unfold bounded, D.clear. cbn [D.limit D.size]. lia.
  - exact B.
Qed.

Lemma loop_limit now fuel : forall nem s, D.limit (D.check_limits_loop fuel now nem s) = D.limit s.
Proof.
  induction fuel as [|f IH]; intros nem s; cbn [D.check_limits_loop].
  - destruct (_ && _); reflexivity.
  - destruct (_ && _); [|reflexivity].
    assert (Hl : D.limit match D.last_opt (D.lru s) with
                         | Some k => D.check_limits_loop f now (tl nem) (D.delete_node k s) | None => s end = D.limit s).
    { destruct (D.last_opt (D.lru s)); [|reflexivity]. now rewrite IH, C07.ProofsInv.delete_node_limit. }
    destruct (D.timeout s) as [|[d k] tl0]; [exact Hl|].
    destruct (d <? now)%Z; [now rewrite IH, C07.ProofsInv.delete_node_limit|exact Hl].
Qed.

Lemma fold_delete_limit l : forall s, D.limit (fold_left (fun s k => D.delete_node k s) l s) = D.limit s.
Proof. induction l as [|k l IH]; intros s; simpl; [reflexivity|]. now rewrite IH, C07.ProofsInv.delete_node_limit. Qed.

Lemma eff_limit now s o : D.limit (fst (eff now s o)) = D.limit s.
Proof.
  destruct o as [k|k v tin d g|k v tin d g|t|k| |]; cbn [eff fst].
  - destruct (D.fetch now k s) as [s' r] eqn:Ef. cbn [fst]. unfold D.fetch in Ef.
    destruct (D.pfind k (D.primary s)) as [c|]; [destruct (D.c_deadline c <? now)%Z|]; inversion Ef; subst; reflexivity.
  - unfold D.store. cbv zeta.
    destruct (D.link_all k (D.store_trigs k tin) _) as [trs tc]. cbn [D.limit]. unfold D.check_limits.
    now rewrite loop_limit, C07.ProofsInv.delete_node_limit.
  - apply C07.ProofsInv.delete_node_limit.
  - unfold D.rise. destruct (D.tfind t (D.triggers s)); [apply fold_delete_limit|reflexivity].
  - apply C07.ProofsInv.delete_node_limit.
  - reflexivity.
  - reflexivity.
Qed.

Lemma srun_bounded now l : forall s, C07.Spec.Inv s -> bounded s ->
  C07.Spec.Inv (seq_run D.state cop cret (eff now) s l) /\ bounded (seq_run D.state cop cret (eff now) s l) /\
  D.limit (seq_run D.state cop cret (eff now) s l) = D.limit s.
Proof.
  induction l as [|[[id o] r] l IH]; intros s I B; [split; [exact I|split; [exact B|reflexivity]]|].
  cbn [seq_run].
  assert (I' : C07.Spec.Inv (fst (eff now s o))).
  { destruct (step_to_op now o s) as [_ <-]. exact (proj1 (C07.ProofsInv.step_ref now (to_op now o) s I)). }
  destruct (IH _ I' (eff_bounded now s o I B)) as (A1 & A2 & A3). split; [exact A1|split; [exact A2|]].
  rewrite A3. apply eff_limit.
Qed.

Section ConcLimit.
  Variable now : Z.
  Variable lim : N.
  (* with a size limit, no stats() answer of a linearizable history reports more keys than the limit *)
  Theorem lin_stats_within_limit : forall h, linearizable D.state cop cret (eff now) (D.init lim) h -> 0 < lim ->
    forall id keys trigs, In (Res cop cret id (RStats keys trigs)) h -> keys <= lim.
  Proof.
    intros h (l & Hleg & _ & Hres & _ & _) Hl id keys trigs Hin.
    destruct (Hres _ _ Hin) as [o Ho]. destruct (in_split _ _ Ho) as (l1 & l2 & ->).
    destruct (seq_legal_app' _ _ _ _ Hleg) as [_ Hl2]. cbn [seq_legal] in Hl2. destruct Hl2 as [Er _].
    assert (Hs : keys = D.size (seq_run D.state cop cret (eff now) (D.init lim) l1)).
    { destruct o; cbn [eff snd] in Er; try discriminate.
      - destruct (D.fetch now k _) as [s' r]. cbn [snd] in Er. destruct r; discriminate.
      - inversion Er. reflexivity. }
    subst keys.
    destruct (srun_bounded now l1 (D.init lim) (C07.ProofsInv.init_inv lim)) as (_ & B & El).
    - unfold bounded. cbn. lia.
    - unfold bounded in B. rewrite El in B. cbn [D.init D.limit] in B. apply B. exact Hl.
  Qed.

  Theorem lock_model_stats_within_limit_l : forall c, creachable now lim c -> 0 < lim ->
    forall id keys trigs, In (Res cop cret id (RStats keys trigs)) (cc_hist c) -> keys <= lim.
  Proof. intros c Hc. apply lin_stats_within_limit. exact (lock_model_linearizable_l now lim c Hc). Qed.
End ConcLimit.
