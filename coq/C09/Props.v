(* C09: concurrent cache use is race-free, deadlock-free and behaves like some sequential order.
   Property theorems only.  Gen_locktab.table is REGENERATED from /repo/src/cache_storage.cpp on every run
   (tools/locktab.py): the *_table theorems are re-checked against the current source each time. *)
From CppcmsV Require Import Base.Tac C09.Defs C09.Proofs1 C09.Proofs2 gen.Gen_locktab.
From Coq Require Import String.

(* ---------- group 1: the lock discipline extracted from the current source passes the decidable checks ---------- *)
Theorem race_free_table : race_free Gen_locktab.table = true.
Proof. vm_compute. reflexivity. Qed.
Print Assumptions race_free_table.

Theorem ordered_table : ordered Gen_locktab.table = true.
Proof. vm_compute. reflexivity. Qed.
Print Assumptions ordered_table.

Theorem two_phase_table : two_phase Gen_locktab.table = true.
Proof. vm_compute. reflexivity. Qed.
Print Assumptions two_phase_table.

Theorem unlocked_only_constants_table : unlocked_only_constants Gen_locktab.table = true.
Proof. vm_compute. reflexivity. Qed.
Print Assumptions unlocked_only_constants_table.

(* the value, trigger list, deadline and generation of an entry are read only under access_lock and written only
   under access_lock held exclusively; likewise the index structures *)
Definition excl_guarded_fields : list fieldid :=
  [f_c_data; f_c_triggers; f_c_timeout; f_c_generation; f_primary; f_triggers; f_timeout; f_size; f_triggers_count; f_generation; f_refs].
Theorem entry_fields_guarded_table :
  forallb (fun f => field_guarded Gen_locktab.table f l_access_lock && writes_guarded_excl Gen_locktab.table f l_access_lock)
          excl_guarded_fields = true.
Proof. vm_compute. reflexivity. Qed.
Print Assumptions entry_fields_guarded_table.

(* the LRU list and the per-entry LRU position are touched only under access_lock, and only under lru_mutex unless
   access_lock is held exclusively *)
Theorem lru_fields_guarded_table :
  forallb (fun f => field_guarded Gen_locktab.table f l_access_lock) [f_lru; f_c_lru] = true /\
  forallb (fun n : node => negb (existsb (fun a : access => N.eqb (fst a) f_lru || N.eqb (fst a) f_c_lru) (snd n))
                           || holds_excl l_access_lock (fst n) || holds_excl l_lru_mutex (fst n))
          (all_nodes Gen_locktab.table) = true.
Proof. split; vm_compute; reflexivity. Qed.
Print Assumptions lru_fields_guarded_table.

(* ---------- group 2: soundness of the checks, for every table, any number of threads and calls ---------- *)
(* full statement: if race_free tbl = true then in no reachable configuration of the interleaving semantics do two
   different threads stand at accesses to the same member one of which is a write *)
Theorem race_free_sound : forall tbl, race_free tbl = true -> forall c, reachable tbl c -> ~ race c.
Proof. exact race_free_sound_l. Qed.
Print Assumptions race_free_sound.

Theorem mutual_exclusion : forall tbl c, reachable tbl c ->
  forall t u l m m', t <> u -> In (l, m) (held (c t)) -> In (l, m') (held (c u)) -> m = Shared /\ m' = Shared.
Proof. exact mutual_exclusion_l. Qed.
Print Assumptions mutual_exclusion.

(* every operation completes: whenever some thread is inside a call, not all of the active threads are blocked *)
Theorem deadlock_free : forall tbl, ordered tbl = true -> forall c, reachable tbl c ->
  (exists t, c t <> []) -> ~ (forall t, c t <> [] -> waiting c t).
Proof. exact deadlock_free_l. Qed.
Print Assumptions deadlock_free.

Theorem field_guarded_sound : forall tbl f l, field_guarded tbl f l = true ->
  forall c, reachable tbl c -> forall t r, In (f, r) (cur_accs (c t)) -> exists m, In (l, m) (held (c t)).
Proof. exact field_guarded_sound_l. Qed.
Print Assumptions field_guarded_sound.

Theorem writer_alone : forall tbl f l, writes_guarded_excl tbl f l = true ->
  forall c, reachable tbl c -> forall t, In (f, Wr) (cur_accs (c t)) ->
    In (l, Excl) (held (c t)) /\ forall u m, u <> t -> ~ In (l, m) (held (c u)).
Proof. exact writer_alone_l. Qed.
Print Assumptions writer_alone.

(* ---------- group 3: the property for the cache as it is in the current source ---------- *)
Theorem cache_race_free : forall c, reachable Gen_locktab.table c -> ~ race c.
Proof. exact (race_free_sound_l Gen_locktab.table race_free_table). Qed.
Print Assumptions cache_race_free.

Theorem cache_deadlock_free : forall c, reachable Gen_locktab.table c ->
  (exists t, c t <> []) -> ~ (forall t, c t <> [] -> waiting c t).
Proof. exact (deadlock_free_l Gen_locktab.table ordered_table). Qed.
Print Assumptions cache_deadlock_free.

(* no torn value: while a thread stands at the copy-out of an entry value (or at any other access to c.data) it holds
   access_lock, and no other thread stands at a write of c.data; a thread writing c.data is alone in the cache *)
Theorem cache_no_torn_value : forall c, reachable Gen_locktab.table c -> forall t r, In (f_c_data, r) (cur_accs (c t)) ->
  (exists m, In (l_access_lock, m) (held (c t))) /\
  (forall u, u <> t -> ~ In (f_c_data, Wr) (cur_accs (c u))).
Proof.
  intros c Hr t r Hin.
  assert (Hg : field_guarded Gen_locktab.table f_c_data l_access_lock = true) by (vm_compute; reflexivity).
  assert (Hw : writes_guarded_excl Gen_locktab.table f_c_data l_access_lock = true) by (vm_compute; reflexivity).
  split.
  - exact (field_guarded_sound_l _ _ _ Hg c Hr t r Hin).
  - intros u Hne. exact (reader_stable_l _ _ _ Hw Hg c Hr t u r (not_eq_sym Hne) Hin).
Qed.
Print Assumptions cache_no_torn_value.

(* mutators run in isolation: a thread standing at a write of any member other than the LRU links holds access_lock
   exclusively and no other thread is inside any critical section of the cache *)
Theorem cache_mutators_isolated : forall c, reachable Gen_locktab.table c -> forall t f,
  In f excl_guarded_fields -> In (f, Wr) (cur_accs (c t)) ->
  In (l_access_lock, Excl) (held (c t)) /\ forall u m, u <> t -> ~ In (l_access_lock, m) (held (c u)).
Proof.
  intros c Hr t f Hf Hin. apply (writer_alone_l Gen_locktab.table f l_access_lock); auto.
  pose proof entry_fields_guarded_table as H. rewrite forallb_forall in H. specialize (H f Hf).
  apply andb_true_iff in H. apply H.
Qed.
Print Assumptions cache_mutators_isolated.

(* ---------- non-vacuity ---------- *)
(* two threads are concurrently inside fetch, both under the shared lock, one of them inside the lru_mutex scope:
   the configuration is reachable, so the theorems above talk about genuinely concurrent executions *)
(* first nested guard scope of a scope (robust against changes of the access lists in the generated table) *)
Definition kid0 (s : scope) : scope := match scope_kids s with k :: _ => k | [] => s end.
Example concurrency_nonvacuous :
  exists c, reachable Gen_locktab.table c /\
            In (l_access_lock, Shared) (held (c 0%nat)) /\ In (l_lru_mutex, Excl) (held (c 0%nat)) /\
            In (l_access_lock, Shared) (held (c 1%nat)) /\ In (f_c_data, Rd) (cur_accs (c 1%nat)) /\
            In (f_lru, Wr) (cur_accs (c 0%nat)).
Proof.
  pose (k1 := kid0 m_fetch).
  pose (k2 := kid0 k1).
  (* thread 0: call fetch, enter rdlock scope, enter lru scope; thread 1: call fetch, enter rdlock scope *)
  pose (c1 := upd init 0 [mkframe [] m_fetch]).
  pose (f0 := mkframe [] m_fetch).
  pose (c2 := upd c1 0 (mkframe (fheld f0) k1 :: mkF (fheld f0) (faccs f0) [] :: [])).
  pose (f1 := mkframe (fheld f0) k1).
  pose (c3 := upd c2 0 (mkframe (fheld f1) k2 :: mkF (fheld f1) (faccs f1) [] :: [mkF (fheld f0) (faccs f0) []])).
  pose (c4 := upd c3 1 [mkframe [] m_fetch]).
  pose (c5 := upd c4 1 (mkframe (fheld f0) k1 :: mkF (fheld f0) (faccs f0) [] :: [])).
  exists c5.
  assert (R1 : reachable Gen_locktab.table c1).
  { eapply reach_step; [apply reach_init|]. apply (step_call _ init 0%nat "fetch"%string m_fetch); [reflexivity|vm_compute; tauto|exact I]. }
  assert (R2 : reachable Gen_locktab.table c2).
  { eapply reach_step; [exact R1|]. apply (step_enter _ c1 0%nat f0 [] [] k1 []); [reflexivity|reflexivity|].
    intros u m' Hu Hin. unfold c1 in Hin. rewrite upd_other in Hin by exact Hu. simpl in Hin. contradiction. }
  assert (R3 : reachable Gen_locktab.table c3).
  { eapply reach_step; [exact R2|]. apply (step_enter _ c2 0%nat f1 [mkF (fheld f0) (faccs f0) []] [] k2 []); [reflexivity|reflexivity|].
    intros u m' Hu Hin. unfold c2 in Hin. rewrite upd_other in Hin by exact Hu. unfold c1 in Hin. rewrite upd_other in Hin by exact Hu.
    simpl in Hin. contradiction. }
  assert (R4 : reachable Gen_locktab.table c4).
  { eapply reach_step; [exact R3|]. apply (step_call _ c3 1%nat "fetch"%string m_fetch); [reflexivity|vm_compute; tauto|exact I]. }
  assert (R5 : reachable Gen_locktab.table c5).
  { eapply reach_step; [exact R4|]. apply (step_enter _ c4 1%nat f0 [] [] k1 []); [reflexivity|reflexivity|].
    intros u m' Hu Hin. destruct u as [|[|u]].
    - vm_compute in Hin. destruct Hin as [E|[E|[]]]; inversion E. split; reflexivity.
    - contradiction.
    - vm_compute in Hin. contradiction. }
  split; [exact R5|]. vm_compute. repeat split; tauto.
Qed.

(* the check is not trivially true: dropping the lru_mutex guard from fetch makes it fail, and the semantics then
   really reaches a configuration with a race (two fetches both standing at the write of lru) *)
Definition bad_fetch : scope :=
  Scope None [(f_access_lock, Rd)]
    [Scope (Some (l_access_lock, Shared)) [(f_c_data, Rd); (f_primary, Rd); (f_c_lru, Rd); (f_c_lru, Wr); (f_lru, Rd); (f_lru, Wr)] []].
Definition bad_table : list (string * scope) := [("fetch"%string, bad_fetch)].
Example race_free_detects_nonvacuous :
  race_free bad_table = false /\ exists c, reachable bad_table c /\ race c.
Proof.
  split; [vm_compute; reflexivity|].
  pose (k1 := Scope (Some (l_access_lock, Shared)) [(f_c_data, Rd); (f_primary, Rd); (f_c_lru, Rd); (f_c_lru, Wr); (f_lru, Rd); (f_lru, Wr)] []).
  pose (f0 := mkframe [] bad_fetch).
  pose (c1 := upd init 0 [f0]).
  pose (c2 := upd c1 0 (mkframe (fheld f0) k1 :: mkF (fheld f0) (faccs f0) [] :: [])).
  pose (c3 := upd c2 1 [f0]).
  pose (c4 := upd c3 1 (mkframe (fheld f0) k1 :: mkF (fheld f0) (faccs f0) [] :: [])).
  exists c4. split.
  - eapply reach_step; [eapply reach_step; [eapply reach_step; [eapply reach_step; [apply reach_init|]|]|]|].
    + apply (step_call _ init 0%nat "fetch"%string bad_fetch); [reflexivity|left; reflexivity|exact I].
    + apply (step_enter _ c1 0%nat f0 [] [] k1 []); [reflexivity|reflexivity|].
      intros u m' Hu Hin. unfold c1 in Hin. rewrite upd_other in Hin by exact Hu. simpl in Hin. contradiction.
    + apply (step_call _ c2 1%nat "fetch"%string bad_fetch); [reflexivity|left; reflexivity|exact I].
    + apply (step_enter _ c3 1%nat f0 [] [] k1 []); [reflexivity|reflexivity|].
      intros u m' Hu Hin. destruct u as [|[|u]].
      * vm_compute in Hin. destruct Hin as [E|[]]. inversion E. split; reflexivity.
      * contradiction.
      * vm_compute in Hin. contradiction.
  - exists 0%nat, 1%nat, f_lru, Wr. split; [discriminate|]. vm_compute. split; tauto.
Qed.
