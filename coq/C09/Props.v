(* C09: concurrent cache use is race-free, deadlock-free and behaves like some sequential order.
   Property theorems only.  Gen_locktab.table is REGENERATED from /repo/src/cache_storage.cpp on every run
   (tools/locktab.py): the *_table theorems are re-checked against the current source each time. *)
From CppcmsV Require Import Base.Tac C09.Defs C09.Proofs1 C09.Proofs2 C09.Proofs3 C09.Proofs4 gen.Gen_locktab.
From CppcmsV Require C07.Defs C09.Seq.
From Coq Require Import String.

(* ---------- group 1: the lock discipline extracted from the current source passes the decidable checks ---------- *)
Theorem race_free_table : race_free Gen_locktab.table = true.
Proof. vm_compute. reflexivity. Qed.
Print Assumptions race_free_table.

Theorem ordered_table : ordered Gen_locktab.table = true.
Proof. vm_compute. reflexivity. Qed.
Print Assumptions ordered_table.

Theorem two_phase_table : two_phase Gen_locktab.table = true.
Proof. vm_compute. reflexivity. Qed.
Print Assumptions two_phase_table.

Theorem unlocked_only_constants_table : unlocked_only_constants Gen_locktab.table = true.
Proof. vm_compute. reflexivity. Qed.
Print Assumptions unlocked_only_constants_table.

(* the value, trigger list, deadline and generation of an entry are read only under access_lock and written only
   under access_lock held exclusively; likewise the index structures *)
Definition excl_guarded_fields : list fieldid :=
  [f_c_data; f_c_triggers; f_c_timeout; f_c_generation; f_primary; f_triggers; f_timeout; f_size; f_triggers_count; f_generation; f_refs].
Theorem entry_fields_guarded_table :
  forallb (fun f => field_guarded Gen_locktab.table f l_access_lock && writes_guarded_excl Gen_locktab.table f l_access_lock)
          excl_guarded_fields = true.
Proof. vm_compute. reflexivity. Qed.
Print Assumptions entry_fields_guarded_table.

(* the LRU list and the per-entry LRU position are touched only under access_lock, and only under lru_mutex unless
   access_lock is held exclusively *)
Theorem lru_fields_guarded_table :
  forallb (fun f => field_guarded Gen_locktab.table f l_access_lock) [f_lru; f_c_lru] = true /\
  forallb (fun n : node => negb (existsb (fun a : access => N.eqb (fst a) f_lru || N.eqb (fst a) f_c_lru) (snd n))
                           || holds_excl l_access_lock (fst n) || holds_excl l_lru_mutex (fst n))
          (all_nodes Gen_locktab.table) = true.
Proof. split; vm_compute; reflexivity. Qed.
Print Assumptions lru_fields_guarded_table.

(* ---------- group 2: soundness of the checks, for every table, any number of threads and calls ---------- *)
(* full statement: if race_free tbl = true then in no reachable configuration of the interleaving semantics do two
   different threads stand at accesses to the same member one of which is a write *)
Theorem race_free_sound : forall tbl, race_free tbl = true -> forall c, reachable tbl c -> ~ race c.
Proof. exact race_free_sound_l. Qed.
Print Assumptions race_free_sound.

Theorem mutual_exclusion : forall tbl c, reachable tbl c ->
  forall t u l m m', t <> u -> In (l, m) (held (c t)) -> In (l, m') (held (c u)) -> m = Shared /\ m' = Shared.
Proof. exact mutual_exclusion_l. Qed.
Print Assumptions mutual_exclusion.

(* every operation completes: whenever some thread is inside a call, not all of the active threads are blocked *)
Theorem deadlock_free : forall tbl, ordered tbl = true -> forall c, reachable tbl c ->
  (exists t, c t <> []) -> ~ (forall t, c t <> [] -> waiting c t).
Proof. exact deadlock_free_l. Qed.
Print Assumptions deadlock_free.

Theorem field_guarded_sound : forall tbl f l, field_guarded tbl f l = true ->
  forall c, reachable tbl c -> forall t r, In (f, r) (cur_accs (c t)) -> exists m, In (l, m) (held (c t)).
Proof. exact field_guarded_sound_l. Qed.
Print Assumptions field_guarded_sound.

Theorem writer_alone : forall tbl f l, writes_guarded_excl tbl f l = true ->
  forall c, reachable tbl c -> forall t, In (f, Wr) (cur_accs (c t)) ->
    In (l, Excl) (held (c t)) /\ forall u m, u <> t -> ~ In (l, m) (held (c u)).
Proof. exact writer_alone_l. Qed.
Print Assumptions writer_alone.

(* ---------- group 3: the property for the cache as it is in the current source ---------- *)
Theorem cache_race_free : forall c, reachable Gen_locktab.table c -> ~ race c.
Proof. exact (race_free_sound_l Gen_locktab.table race_free_table). Qed.
Print Assumptions cache_race_free.

Theorem cache_deadlock_free : forall c, reachable Gen_locktab.table c ->
  (exists t, c t <> []) -> ~ (forall t, c t <> [] -> waiting c t).
Proof. exact (deadlock_free_l Gen_locktab.table ordered_table). Qed.
Print Assumptions cache_deadlock_free.

(* no torn value: while a thread stands at the copy-out of an entry value (or at any other access to c.data) it holds
   access_lock, and no other thread stands at a write of c.data; a thread writing c.data is alone in the cache *)
Theorem cache_no_torn_value : forall c, reachable Gen_locktab.table c -> forall t r, In (f_c_data, r) (cur_accs (c t)) ->
  (exists m, In (l_access_lock, m) (held (c t))) /\
  (forall u, u <> t -> ~ In (f_c_data, Wr) (cur_accs (c u))).
Proof.
  intros c Hr t r Hin.
  assert (Hg : field_guarded Gen_locktab.table f_c_data l_access_lock = true) by (vm_compute; reflexivity).
  assert (Hw : writes_guarded_excl Gen_locktab.table f_c_data l_access_lock = true) by (vm_compute; reflexivity).
  split.
  - exact (field_guarded_sound_l _ _ _ Hg c Hr t r Hin).
  - intros u Hne. exact (reader_stable_l _ _ _ Hw Hg c Hr t u r (not_eq_sym Hne) Hin).
Qed.
Print Assumptions cache_no_torn_value.

(* mutators run in isolation: a thread standing at a write of any member other than the LRU links holds access_lock
   exclusively and no other thread is inside any critical section of the cache *)
Theorem cache_mutators_isolated : forall c, reachable Gen_locktab.table c -> forall t f,
  In f excl_guarded_fields -> In (f, Wr) (cur_accs (c t)) ->
  In (l_access_lock, Excl) (held (c t)) /\ forall u m, u <> t -> ~ In (l_access_lock, m) (held (c u)).
Proof.
  intros c Hr t f Hf Hin. apply (writer_alone_l Gen_locktab.table f l_access_lock); auto.
  pose proof entry_fields_guarded_table as H. rewrite forallb_forall in H. specialize (H f Hf).
  apply andb_true_iff in H. apply H.
Qed.
Print Assumptions cache_mutators_isolated.

(* ---------- group 4: linearizability ---------- *)
(* FULL STATEMENT (DESIGN.md, theorem 2): every finite interleaved execution of k threads of the lock-level semantics,
   with the data effect of each call given by the sequential model (C07.Defs through Seq.eff), produces a history that
   is linearizable: some sequential order of the calls that respects real-time precedence makes the sequential model
   return exactly the recorded results.
   PROVED HERE: (i) atomic_effect_linearizable - for ANY sequential object, any system in which each call takes effect
   atomically at one step between its invocation and its response produces only linearizable histories (any number of
   threads and calls); (ii) its instance for the cache object.
   GAP (named): that the lock-level execution of the real method bodies refines the atomic-effect system, i.e. that the
   member accesses of one call can be moved together to one point (its lock point) without changing any value read.
   Groups 1-3 give the premises of the standard two-phase-locking argument (race_free: conflicting accesses share a
   lock in incompatible modes; two_phase: no acquisition after a release; mutators isolated; the value copy-out inside
   the shared scope) but the data semantics of individual accesses is not modelled, so this step is argued on paper
   (docs/C09.md) and searched on the real cache (recorded histories checked linearizable by bin/check). *)
Theorem atomic_effect_linearizable :
  forall (St Op Ret : Type) (eff : St -> Op -> St * Ret) (s0 : St) (c : lconfig St Op Ret),
    lreachable St Op Ret eff s0 c -> linearizable St Op Ret eff s0 (l_hist St Op Ret c).
Proof. exact atomic_effect_linearizable_l. Qed.
Print Assumptions atomic_effect_linearizable.

Theorem atomic_effect_state :
  forall (St Op Ret : Type) (eff : St -> Op -> St * Ret) (s0 : St) (c : lconfig St Op Ret),
    lreachable St Op Ret eff s0 c -> seq_run St Op Ret eff s0 (l_lin St Op Ret c) = l_st St Op Ret c.
Proof. exact atomic_effect_state_l. Qed.
Print Assumptions atomic_effect_state.

Theorem cache_linearizable_partial : forall (limit : N) (now : Z) c,
  lreachable cstate Seq.cop Seq.cret (cache_eff now) (cache_s0 limit) c ->
  linearizable cstate Seq.cop Seq.cret (cache_eff now) (cache_s0 limit) (l_hist _ _ _ c).
Proof. exact cache_atomic_linearizable_l. Qed.
Print Assumptions cache_linearizable_partial.

(* ---------- non-vacuity ---------- *)
(* two threads are concurrently inside fetch, both under the shared lock, one of them inside the lru_mutex scope:
   the configuration is reachable, so the theorems above talk about genuinely concurrent executions *)
(* first nested guard scope of a scope (robust against changes of the access lists in the generated table) *)
Definition kid0 (s : scope) : scope := match scope_kids s with k :: _ => k | [] => s end.
Example concurrency_nonvacuous :
  exists c, reachable Gen_locktab.table c /\
            In (l_access_lock, Shared) (held (c 0%nat)) /\ In (l_lru_mutex, Excl) (held (c 0%nat)) /\
            In (l_access_lock, Shared) (held (c 1%nat)) /\ In (f_c_data, Rd) (cur_accs (c 1%nat)) /\
            In (f_lru, Wr) (cur_accs (c 0%nat)).
Proof.
  pose (k1 := kid0 m_fetch).
  pose (k2 := kid0 k1).
  (* thread 0: call fetch, enter rdlock scope, enter lru scope; thread 1: call fetch, enter rdlock scope *)
  pose (c1 := upd init 0 [mkframe [] m_fetch]).
  pose (f0 := mkframe [] m_fetch).
  pose (c2 := upd c1 0 (mkframe (fheld f0) k1 :: mkF (fheld f0) (faccs f0) [] :: [])).
  pose (f1 := mkframe (fheld f0) k1).
  pose (c3 := upd c2 0 (mkframe (fheld f1) k2 :: mkF (fheld f1) (faccs f1) [] :: [mkF (fheld f0) (faccs f0) []])).
  pose (c4 := upd c3 1 [mkframe [] m_fetch]).
  pose (c5 := upd c4 1 (mkframe (fheld f0) k1 :: mkF (fheld f0) (faccs f0) [] :: [])).
  exists c5.
  assert (R1 : reachable Gen_locktab.table c1).
  { eapply reach_step; [apply reach_init|]. apply (step_call _ init 0%nat "fetch"%string m_fetch); [reflexivity|vm_compute; tauto|exact I]. }
  assert (R2 : reachable Gen_locktab.table c2).
  { eapply reach_step; [exact R1|]. apply (step_enter _ c1 0%nat f0 [] [] k1 []); [reflexivity|reflexivity|].
    intros u m' Hu Hin. unfold c1 in Hin. rewrite upd_other in Hin by exact Hu. simpl in Hin. contradiction. }
  assert (R3 : reachable Gen_locktab.table c3).
  { eapply reach_step; [exact R2|]. apply (step_enter _ c2 0%nat f1 [mkF (fheld f0) (faccs f0) []] [] k2 []); [reflexivity|reflexivity|].
    intros u m' Hu Hin. unfold c2 in Hin. rewrite upd_other in Hin by exact Hu. unfold c1 in Hin. rewrite upd_other in Hin by exact Hu.
    simpl in Hin. contradiction. }
  assert (R4 : reachable Gen_locktab.table c4).
  { eapply reach_step; [exact R3|]. apply (step_call _ c3 1%nat "fetch"%string m_fetch); [reflexivity|vm_compute; tauto|exact I]. }
  assert (R5 : reachable Gen_locktab.table c5).
  { eapply reach_step; [exact R4|]. apply (step_enter _ c4 1%nat f0 [] [] k1 []); [reflexivity|reflexivity|].
    intros u m' Hu Hin. destruct u as [|[|u]].
    - vm_compute in Hin. destruct Hin as [E|[E|[]]]; inversion E. split; reflexivity.
    - contradiction.
    - vm_compute in Hin. contradiction. }
  split; [exact R5|]. vm_compute. repeat split; tauto.
Qed.

(* the check is not trivially true: dropping the lru_mutex guard from fetch makes it fail, and the semantics then
   really reaches a configuration with a race (two fetches both standing at the write of lru) *)
Definition bad_fetch : scope :=
  Scope None [(f_access_lock, Rd)]
    [Scope (Some (l_access_lock, Shared)) [(f_c_data, Rd); (f_primary, Rd); (f_c_lru, Rd); (f_c_lru, Wr); (f_lru, Rd); (f_lru, Wr)] []].
Definition bad_table : list (string * scope) := [("fetch"%string, bad_fetch)].
Example race_free_detects_nonvacuous :
  race_free bad_table = false /\ exists c, reachable bad_table c /\ race c.
Proof.
  split; [vm_compute; reflexivity|].
  pose (k1 := Scope (Some (l_access_lock, Shared)) [(f_c_data, Rd); (f_primary, Rd); (f_c_lru, Rd); (f_c_lru, Wr); (f_lru, Rd); (f_lru, Wr)] []).
  pose (f0 := mkframe [] bad_fetch).
  pose (c1 := upd init 0 [f0]).
  pose (c2 := upd c1 0 (mkframe (fheld f0) k1 :: mkF (fheld f0) (faccs f0) [] :: [])).
  pose (c3 := upd c2 1 [f0]).
  pose (c4 := upd c3 1 (mkframe (fheld f0) k1 :: mkF (fheld f0) (faccs f0) [] :: [])).
  exists c4. split.
  - eapply reach_step; [eapply reach_step; [eapply reach_step; [eapply reach_step; [apply reach_init|]|]|]|].
    + apply (step_call _ init 0%nat "fetch"%string bad_fetch); [reflexivity|left; reflexivity|exact I].
    + apply (step_enter _ c1 0%nat f0 [] [] k1 []); [reflexivity|reflexivity|].
      intros u m' Hu Hin. unfold c1 in Hin. rewrite upd_other in Hin by exact Hu. simpl in Hin. contradiction.
    + apply (step_call _ c2 1%nat "fetch"%string bad_fetch); [reflexivity|left; reflexivity|exact I].
    + apply (step_enter _ c3 1%nat f0 [] [] k1 []); [reflexivity|reflexivity|].
      intros u m' Hu Hin. destruct u as [|[|u]].
      * vm_compute in Hin. destruct Hin as [E|[]]. inversion E. split; reflexivity.
      * contradiction.
      * vm_compute in Hin. contradiction.
  - exists 0%nat, 1%nat, f_lru, Wr. split; [discriminate|]. vm_compute. split; tauto.
Qed.

(* linearizability is not trivially true: a fetch that returns a value for a key nobody stored is not linearizable;
   and it is not trivially false: two overlapping calls (store, fetch) of the atomic-effect system give a history in
   which the fetch returns the stored entry, which the theorem declares linearizable *)
Example linearizable_nonvacuous :
  (forall limit now k v tr d g,
     ~ linearizable cstate Seq.cop Seq.cret (cache_eff now) (cache_s0 limit)
         [Inv Seq.cop Seq.cret 0 0 (Seq.OFetch k); Res Seq.cop Seq.cret 0 (Seq.RHit v tr d g)]) /\
  linearizable cstate Seq.cop Seq.cret (cache_eff 1000%Z) (cache_s0 0%N) ex_hist.
Proof.
  split; [exact hit_without_store_not_linearizable|].
  destruct ex_hist_reachable as (c & Hr & <-). now apply cache_atomic_linearizable_l.
Qed.
