(* C09: concurrent cache use is race-free, deadlock-free and behaves like some sequential order.
   Property theorems only.  Gen_locktab.table is REGENERATED from /repo/src/cache_storage.cpp on every run
   (tools/locktab.py): the *_table theorems are re-checked against the current source each time. *)
From CppcmsV Require Import Base.Tac C09.Defs C09.Proofs1 C09.Proofs2 C09.Proofs3 C09.Proofs4 C09.Proofs5 C09.Proofs6 C09.LockModel C09.Proofs7 C09.Proofs8 gen.Gen_locktab C09.Proofs9 C09.Proofs10 C09.Proofs11 C09.Proofs12.
From CppcmsV Require C07.Defs C07.MapSpec C09.Seq.
From Coq Require Import String.

(* ---------- group 1: the lock discipline extracted from the current source passes the decidable checks ---------- *)
Theorem race_free_table : race_free Gen_locktab.table = true. Proof. vm_compute. reflexivity. Qed.
Print Assumptions race_free_table.

Theorem ordered_table : ordered Gen_locktab.table = true. Proof. vm_compute. reflexivity. Qed.
Print Assumptions ordered_table.

(* the table has one entry per PATH of a method (same name = alternative paths of one method; a call follows exactly one
   of them): on every path no lock is taken after one was released *)
Theorem two_phase_table : two_phase Gen_locktab.table = true. Proof. vm_compute. reflexivity. Qed.
Print Assumptions two_phase_table.

(* alternative paths (Gen_locktab.alt_paths, from the current source): a method that calls another locked method while it
   holds no lock and returns right after - store: catch(std::bad_alloc) { remove(key); return; } - has that call as a path of
   its own.  Each such path is an entry of the table under the name of the caller, takes no lock of its own, and its
   critical sections are exactly those of the callee: as far as locks and shared members go the call IS a call of the callee *)
Theorem alt_paths_table : alt_paths_ok Gen_locktab.table Gen_locktab.alt_paths = true. Proof. vm_compute. reflexivity. Qed.
Print Assumptions alt_paths_table.

(* the path the repair 6978548 introduced is there: store has the alternative path that is a call of remove *)
Definition has_alt_path (caller callee : string) (alts : list (string * string * scope)) : bool :=
  existsb (fun x : string * string * scope => String.eqb (fst (fst x)) caller && String.eqb (snd (fst x)) callee) alts.
Theorem store_failure_path_table : has_alt_path "store" "remove" Gen_locktab.alt_paths = true. Proof. vm_compute. reflexivity. Qed.
Print Assumptions store_failure_path_table.

Theorem alt_paths_ok_sound : forall tbl alts, alt_paths_ok tbl alts = true ->
  forall caller callee p, In (caller, callee, p) alts ->
    In (caller, p) tbl /\ scope_lock p = None /\ exists m, In (callee, m) tbl /\ scope_kids p = scope_kids m.
Proof. exact alt_paths_ok_sound_l. Qed.
Print Assumptions alt_paths_ok_sound.

Theorem unlocked_only_constants_table : unlocked_only_constants Gen_locktab.table = true. Proof. vm_compute. reflexivity. Qed.
Print Assumptions unlocked_only_constants_table.

(* the value, trigger list, deadline and generation of an entry are read only under access_lock and written only
   under access_lock held exclusively; likewise the index structures *)
Definition excl_guarded_fields : list fieldid :=
  [f_c_data; f_c_triggers; f_c_timeout; f_c_generation; f_primary; f_triggers; f_timeout; f_size; f_triggers_count; f_generation; f_refs].
(* (statement as a definition so that statement and proof are on one line: bin/check names a failing theorem by its line) *)
Definition entry_fields_guarded (tbl : list (string * scope)) : Prop :=
  forallb (fun f => field_guarded tbl f l_access_lock && writes_guarded_excl tbl f l_access_lock) excl_guarded_fields = true.
Theorem entry_fields_guarded_table : entry_fields_guarded Gen_locktab.table. Proof. vm_compute. reflexivity. Qed.
Print Assumptions entry_fields_guarded_table.

(* the LRU list and the per-entry LRU position are touched only under access_lock, and only under lru_mutex unless
   access_lock is held exclusively *)
Definition lru_fields_guarded (tbl : list (string * scope)) : Prop :=
  forallb (fun f => field_guarded tbl f l_access_lock) [f_lru; f_c_lru] = true /\
  forallb (fun n : node => negb (existsb (fun a : access => N.eqb (fst a) f_lru || N.eqb (fst a) f_c_lru) (snd n))
                           || holds_excl l_access_lock (fst n) || holds_excl l_lru_mutex (fst n))
          (all_nodes tbl) = true.
Theorem lru_fields_guarded_table : lru_fields_guarded Gen_locktab.table. Proof. split; vm_compute; reflexivity. Qed.
Print Assumptions lru_fields_guarded_table.

(* the data-carrying lock-level model (LockModel.v, group 4 (iv)) assumes a lock protocol per operation: mutators one exclusive
   section on access_lock, stats one shared section, fetch one shared section with the lru_mutex section nested in it.
   Every entry - every path of every method - of the table extracted from the CURRENT source has exactly that shape *)
Theorem lock_model_shape_table : table_has_proto_shape l_access_lock l_lru_mutex Gen_locktab.table = true. Proof. vm_compute. reflexivity. Qed.
Print Assumptions lock_model_shape_table.

(* and the sections do what the model lets them do: a section under access_lock Shared alone only reads; the section under
   access_lock Shared + lru_mutex writes nothing but lru / c.lru (the LRU move; since /repo 117bb4c - one list splice - it writes
   lru only, c.lru is only read; the check admits both forms); outside every lock only reads; every other
   section holds access_lock exclusively *)
Theorem reader_sections_table : reader_sections_ok l_access_lock l_lru_mutex f_lru f_c_lru Gen_locktab.table = true. Proof. vm_compute. reflexivity. Qed.
Print Assumptions reader_sections_table.

(* ---------- group 2: soundness of the checks, for every table, any number of threads and calls ---------- *)
(* full statement: if race_free tbl = true then in no reachable configuration of the interleaving semantics do two
   different threads stand at accesses to the same member one of which is a write *)
Theorem race_free_sound : forall tbl, race_free tbl = true -> forall c, reachable tbl c -> ~ race c.
Proof. exact race_free_sound_l. Qed.
Print Assumptions race_free_sound.

Theorem mutual_exclusion : forall tbl c, reachable tbl c ->
  forall t u l m m', t <> u -> In (l, m) (held (c t)) -> In (l, m') (held (c u)) -> m = Shared /\ m' = Shared.
Proof. exact mutual_exclusion_l. Qed.
Print Assumptions mutual_exclusion.

(* every operation completes: whenever some thread is inside a call, not all of the active threads are blocked *)
Theorem deadlock_free : forall tbl, ordered tbl = true -> forall c, reachable tbl c ->
  (exists t, c t <> []) -> ~ (forall t, c t <> [] -> waiting c t).
Proof. exact deadlock_free_l. Qed.
Print Assumptions deadlock_free.

Theorem field_guarded_sound : forall tbl f l, field_guarded tbl f l = true ->
  forall c, reachable tbl c -> forall t r, In (f, r) (cur_accs (c t)) -> exists m, In (l, m) (held (c t)).
Proof. exact field_guarded_sound_l. Qed.
Print Assumptions field_guarded_sound.

Theorem writer_alone : forall tbl f l, writes_guarded_excl tbl f l = true ->
  forall c, reachable tbl c -> forall t, In (f, Wr) (cur_accs (c t)) ->
    In (l, Excl) (held (c t)) /\ forall u m, u <> t -> ~ In (l, m) (held (c u)).
Proof. exact writer_alone_l. Qed.
Print Assumptions writer_alone.

(* ---------- group 3: the property for the cache as it is in the current source ---------- *)
Theorem cache_race_free : forall c, reachable Gen_locktab.table c -> ~ race c.
Proof. exact (race_free_sound_l Gen_locktab.table race_free_table). Qed.
Print Assumptions cache_race_free.

Theorem cache_deadlock_free : forall c, reachable Gen_locktab.table c ->
  (exists t, c t <> []) -> ~ (forall t, c t <> [] -> waiting c t).
Proof. exact (deadlock_free_l Gen_locktab.table ordered_table). Qed.
Print Assumptions cache_deadlock_free.

(* no torn value: while a thread stands at the copy-out of an entry value (or at any other access to c.data) it holds
   access_lock, and no other thread stands at a write of c.data; a thread writing c.data is alone in the cache *)
Theorem cache_no_torn_value : forall c, reachable Gen_locktab.table c -> forall t r, In (f_c_data, r) (cur_accs (c t)) ->
  (exists m, In (l_access_lock, m) (held (c t))) /\
  (forall u, u <> t -> ~ In (f_c_data, Wr) (cur_accs (c u))).
Proof.
  intros c Hr t r Hin.
  assert (Hg : field_guarded Gen_locktab.table f_c_data l_access_lock = true) by (vm_compute; reflexivity).
  assert (Hw : writes_guarded_excl Gen_locktab.table f_c_data l_access_lock = true) by (vm_compute; reflexivity).
  split.
  - exact (field_guarded_sound_l _ _ _ Hg c Hr t r Hin).
  - intros u Hne. exact (reader_stable_l _ _ _ Hw Hg c Hr t u r (not_eq_sym Hne) Hin).
Qed.
Print Assumptions cache_no_torn_value.

(* mutators run in isolation: a thread standing at a write of any member other than the LRU links holds access_lock
   exclusively and no other thread is inside any critical section of the cache *)
Theorem cache_mutators_isolated : forall c, reachable Gen_locktab.table c -> forall t f,
  In f excl_guarded_fields -> In (f, Wr) (cur_accs (c t)) ->
  In (l_access_lock, Excl) (held (c t)) /\ forall u m, u <> t -> ~ In (l_access_lock, m) (held (c u)).
Proof.
  intros c Hr t f Hf Hin. apply (writer_alone_l Gen_locktab.table f l_access_lock); auto.
  pose proof entry_fields_guarded_table as H. unfold entry_fields_guarded in H. rewrite forallb_forall in H. specialize (H f Hf).
  apply andb_true_iff in H. apply H.
Qed.
Print Assumptions cache_mutators_isolated.

(* ---------- group 3b: two-phase locking => conflict-serializable in lock-point order, which respects real time ---------- *)
(* instrumented semantics (gstep): a global clock, one transaction per call, lock point = time of its latest lock
   acquisition, a log of access events.  For ANY table that passes race_free and two_phase, any number of threads: *)
Theorem conflicts_follow_lock_points : forall tbl, race_free tbl = true -> two_phase tbl = true ->
  forall g, greachable tbl g ->
  forall a1 a2, In a1 (g_log g) -> In a2 (g_log g) -> (a_time a1 < a_time a2)%nat -> a_txn a1 <> a_txn a2 ->
    conflict (a_field a1, a_rw a1) (a_field a2, a_rw a2) = true ->
    (lp_of g (a_txn a1) < lp_of g (a_txn a2))%nat /\ final g (a_txn a1).
Proof. exact conflicts_follow_lock_points_l. Qed.
Print Assumptions conflicts_follow_lock_points.

Theorem conflict_graph_acyclic : forall tbl, race_free tbl = true -> two_phase tbl = true ->
  forall g, greachable tbl g -> forall x, ~ conflict_path g x x.
Proof. exact conflict_graph_acyclic_l. Qed.
Print Assumptions conflict_graph_acyclic.

Theorem lock_point_in_interval : forall tbl g, greachable tbl g -> forall x, (x < g_ntx g)%nat ->
  (t_start (g_txn g x) <= lp_of g x)%nat /\ (lp_of g x < g_now g)%nat.
Proof. exact lock_point_in_interval_l. Qed.
Print Assumptions lock_point_in_interval.

Theorem lock_points_respect_real_time : forall tbl g, greachable tbl g -> forall x y e,
  t_end (g_txn g x) = Some e -> (y < g_ntx g)%nat -> (e <= t_start (g_txn g y))%nat -> (lp_of g x < lp_of g y)%nat.
Proof. exact lock_points_respect_real_time_l. Qed.
Print Assumptions lock_points_respect_real_time.

(* for the cache as it is in the current source *)
Theorem cache_conflict_serializable : forall g, greachable Gen_locktab.table g ->
  (forall a1 a2, In a1 (g_log g) -> In a2 (g_log g) -> (a_time a1 < a_time a2)%nat -> a_txn a1 <> a_txn a2 ->
     conflict (a_field a1, a_rw a1) (a_field a2, a_rw a2) = true -> (lp_of g (a_txn a1) < lp_of g (a_txn a2))%nat) /\
  (forall x, ~ conflict_path g x x) /\
  (forall x y e, t_end (g_txn g x) = Some e -> (y < g_ntx g)%nat -> (e <= t_start (g_txn g y))%nat -> (lp_of g x < lp_of g y)%nat).
Proof.
  intros g Hr. split; [|split].
  - intros a1 a2 H1 H2 Ht Hne Hc.
    now destruct (conflicts_follow_lock_points_l _ race_free_table two_phase_table g Hr a1 a2 H1 H2 Ht Hne Hc).
  - exact (conflict_graph_acyclic_l _ race_free_table two_phase_table g Hr).
  - exact (lock_points_respect_real_time_l _ g Hr).
Qed.
Print Assumptions cache_conflict_serializable.

(* ---------- group 4: linearizability ---------- *)
(* FULL STATEMENT (DESIGN.md, theorem 2): every finite interleaved execution of k threads of the lock-level semantics,
   with the data effect of each call given by the sequential model (C07.Defs through Seq.eff), produces a history that
   is linearizable: some sequential order of the calls that respects real-time precedence makes the sequential model
   return exactly the recorded results.
   PROVED HERE: (i) atomic_effect_linearizable - for ANY sequential object, any system in which each call takes effect
   atomically at one step between its invocation and its response produces only linearizable histories (any number of
   threads and calls); (ii) its instance for the cache object.
   (iii) group 3b - the lock-level executions are conflict-serializable in lock-point order (conflicting accesses of
   different calls are ordered like the lock points, the conflict graph is acyclic), each lock point lies between the
   invocation and the response of its call, and the lock-point order respects real-time precedence: exactly the
   premises under which the calls may be regarded as taking effect atomically at their lock points.
   (iv) lock_model_linearizable (below) - the data-carrying lock-level model, in which fetch is split into lookup, LRU
   move under lru_mutex and copy-out with other threads interleaving, is linearizable w.r.t. the sequential model.
   (v) lock_model_shape_table, reader_sections_table (group 1), lock_model_follows_table, lock_model_refines_table (below) -
   the data-level model of (iv) follows the lock protocol of the table extracted from the CURRENT source, and every one
   of its reachable configurations corresponds to a reachable, race-free configuration of the table semantics in which
   every thread holds exactly the same locks: (iv) is a data refinement of the semantics groups 1-3b are about.
   (vi) group 5 - the clauses of the property text for every linearizable history, hence for every execution of (iv).
   REMAINING GAP (named): (iv) takes as atomic the steps that groups 1-3b justify treating as atomic (a whole mutator body
   under the exclusive lock; the LRU move under lru_mutex; each read of a fetch/stats under the shared lock, during which
   no member it reads is written: reader_sections_table, cache_no_torn_value, cache_mutators_isolated).  That the real
   method body, run without conflicting interference, computes the step the model gives it is not a Coq theorem (the
   table is a may-access abstraction without data semantics for an individual member access): it is C07's
   correspondence (sequential meaning of each body; re-tied single-threaded by bin/check C09) and it is searched on the
   real cache (recorded histories, also with injected allocation faults, checked linearizable by bin/check). *)
Theorem atomic_effect_linearizable :
  forall (St Op Ret : Type) (eff : St -> Op -> St * Ret) (s0 : St) (c : lconfig St Op Ret),
    lreachable St Op Ret eff s0 c -> linearizable St Op Ret eff s0 (l_hist St Op Ret c).
Proof. exact atomic_effect_linearizable_l. Qed.
Print Assumptions atomic_effect_linearizable.

Theorem atomic_effect_state :
  forall (St Op Ret : Type) (eff : St -> Op -> St * Ret) (s0 : St) (c : lconfig St Op Ret),
    lreachable St Op Ret eff s0 c -> seq_run St Op Ret eff s0 (l_lin St Op Ret c) = l_st St Op Ret c.
Proof. exact atomic_effect_state_l. Qed.
Print Assumptions atomic_effect_state.

Theorem cache_linearizable_partial : forall (limit : N) (now : Z) c,
  lreachable cstate Seq.cop Seq.cret (cache_eff now) (cache_s0 limit) c ->
  linearizable cstate Seq.cop Seq.cret (cache_eff now) (cache_s0 limit) (l_hist _ _ _ c).
Proof. exact cache_atomic_linearizable_l. Qed.
Print Assumptions cache_linearizable_partial.

(* (iv) the lock-level model WITH data (LockModel.v): the sequential object behind a readers-writer lock and the LRU
   mutex, every call split the way the code splits it - mutators: wait / lock exclusive / whole effect / unlock / return;
   stats: wait / lock shared / read / unlock / return; fetch: wait / lock shared / lookup (hit or miss decision) /
   [hit: LRU move, atomic under lru_mutex] / copy-out / unlock / return - with arbitrary interleaving of other threads
   between any two steps.  Every history of this system is linearizable w.r.t. the sequential model (any limit, any
   clock value, any number of threads and calls).  Linearization points: the effect step; the read; the LRU move (hit)
   or the lookup (miss). *)
Theorem lock_model_linearizable : forall (now : Z) (limit : N) c, creachable now limit c ->
  linearizable cst Seq.cop Seq.cret (Seq.eff now) (C07.Defs.init limit) (cc_hist c).
Proof. exact lock_model_linearizable_l. Qed.
Print Assumptions lock_model_linearizable.

(* the failed store (std::bad_alloc while the value is copied; source: catch block calls remove(key) and returns; table: the
   path store-via-remove, alt_paths_table) is, as an operation of the sequential object, exactly a remove of the key - state and
   result - so the data-level model treats it as a mutator with one exclusive section, which is the shape of that path *)
Theorem failed_store_is_remove : forall now s k v tin d g,
  Seq.eff now s (Seq.OStoreFail k v tin d g) = Seq.eff now s (Seq.ORemove k).
Proof. reflexivity. Qed.
Print Assumptions failed_store_is_remove.

(* every operation of the sequential object enters the table under a name whose paths all have the protocol shape, and in
   every phase a thread of the data-level model holds a lock stack that occurs in that shape *)
Theorem lock_model_follows_table : forall (o : Seq.cop),
  exists sh, proto_shape l_access_lock l_lru_mutex (name_of o) = Some sh /\
    (forall m, In (name_of o, m) Gen_locktab.table -> shape m = sh) /\
    (exists m, In (name_of o, m) Gen_locktab.table) /\
    forall (p : cphase), (holds_x p = true -> is_mut o = true -> In (phase_held l_access_lock p) sh) /\
                         (holds_s p = true -> is_mut o = false -> In (phase_held l_access_lock p) sh).
Proof.
  apply (lock_model_follows_l l_access_lock l_lru_mutex Gen_locktab.table lock_model_shape_table). vm_compute. reflexivity.
Qed.
Print Assumptions lock_model_follows_table.

(* the data-level model is a refinement of the table semantics of the CURRENT source: every reachable configuration of the
   data-level model corresponds thread by thread (LockModel.TR: same method path, same scope, same remaining nested
   scopes) to a reachable configuration of the interleaving semantics of Gen_locktab.table in which every thread holds
   exactly the locks its phase says; in particular that configuration has no race (group 3).  For ANY table of the
   protocol shape: Proofs10.lock_model_refines_l. *)
Theorem lock_model_refines_table : forall (now : Z) (limit : N) c, creachable now limit c ->
  exists c', reachable Gen_locktab.table c' /\ Rel l_access_lock l_lru_mutex Gen_locktab.table c c' /\
             (forall t, held (c' t) = phase_held l_access_lock (cc_ph c t)) /\ ~ race c'.
Proof.
  intros now limit c Hc.
  destruct (lock_model_refines_l l_access_lock l_lru_mutex Gen_locktab.table) with (now := now) (limit := limit) (c := c)
    as (c' & Hr & HR & Hh); try exact Hc.
  - discriminate.
  - exact lock_model_shape_table.
  - intros o. destruct (lock_model_follows_table o) as (sh & _ & _ & Hm & _). exact Hm.
  - exists c'. repeat split; try assumption. exact (race_free_sound_l Gen_locktab.table race_free_table c' Hr).
Qed.
Print Assumptions lock_model_refines_table.

Theorem lock_model_exclusion : forall (now : Z) (limit : N) c, creachable now limit c ->
  forall t u, t <> u -> holds_x (cc_ph c t) = true -> holds_x (cc_ph c u) = false /\ holds_s (cc_ph c u) = false.
Proof. exact lock_model_exclusion_l. Qed.
Print Assumptions lock_model_exclusion.

(* ---------- non-vacuity ---------- *)
(* two threads are concurrently inside fetch, both under the shared lock, one of them inside the lru_mutex scope:
   the configuration is reachable, so the theorems above talk about genuinely concurrent executions *)
(* kid0 = first nested guard scope of a scope (Proofs6): keeps the examples robust against changes of the access lists *)
Example concurrency_nonvacuous :
  exists c, reachable Gen_locktab.table c /\
            In (l_access_lock, Shared) (held (c 0%nat)) /\ In (l_lru_mutex, Excl) (held (c 0%nat)) /\
            In (l_access_lock, Shared) (held (c 1%nat)) /\ In (f_c_data, Rd) (cur_accs (c 1%nat)) /\
            In (f_lru, Wr) (cur_accs (c 0%nat)).
Proof.
  pose (k1 := kid0 m_fetch).
  pose (k2 := kid0 k1).
  (* thread 0: call fetch, enter rdlock scope, enter lru scope; thread 1: call fetch, enter rdlock scope *)
  pose (c1 := upd init 0 [mkframe [] m_fetch]).
  pose (f0 := mkframe [] m_fetch).
  pose (c2 := upd c1 0 (mkframe (fheld f0) k1 :: mkF (fheld f0) (faccs f0) [] :: [])).
  pose (f1 := mkframe (fheld f0) k1).
  pose (c3 := upd c2 0 (mkframe (fheld f1) k2 :: mkF (fheld f1) (faccs f1) [] :: [mkF (fheld f0) (faccs f0) []])).
  pose (c4 := upd c3 1 [mkframe [] m_fetch]).
  pose (c5 := upd c4 1 (mkframe (fheld f0) k1 :: mkF (fheld f0) (faccs f0) [] :: [])).
  exists c5.
  assert (R1 : reachable Gen_locktab.table c1).
  { eapply reach_step; [apply reach_init|]. apply (step_call _ init 0%nat "fetch"%string m_fetch); [reflexivity|vm_compute; tauto|exact I]. }
  assert (R2 : reachable Gen_locktab.table c2).
  { eapply reach_step; [exact R1|]. apply (step_enter _ c1 0%nat f0 [] [] k1 []); [reflexivity|reflexivity|].
    intros u m' Hu Hin. unfold c1 in Hin. rewrite upd_other in Hin by exact Hu. simpl in Hin. contradiction. }
  assert (R3 : reachable Gen_locktab.table c3).
  { eapply reach_step; [exact R2|]. apply (step_enter _ c2 0%nat f1 [mkF (fheld f0) (faccs f0) []] [] k2 []); [reflexivity|reflexivity|].
    intros u m' Hu Hin. unfold c2 in Hin. rewrite upd_other in Hin by exact Hu. unfold c1 in Hin. rewrite upd_other in Hin by exact Hu.
    simpl in Hin. contradiction. }
  assert (R4 : reachable Gen_locktab.table c4).
  { eapply reach_step; [exact R3|]. apply (step_call _ c3 1%nat "fetch"%string m_fetch); [reflexivity|vm_compute; tauto|exact I]. }
  assert (R5 : reachable Gen_locktab.table c5).
  { eapply reach_step; [exact R4|]. apply (step_enter _ c4 1%nat f0 [] [] k1 []); [reflexivity|reflexivity|].
    intros u m' Hu Hin. destruct u as [|[|u]].
    - vm_compute in Hin. destruct Hin as [E|[E|[]]]; inversion E. split; reflexivity.
    - contradiction.
    - vm_compute in Hin. contradiction. }
  split; [exact R5|]. vm_compute. repeat split; tauto.
Qed.

(* the check is not trivially true: dropping the lru_mutex guard from fetch makes it fail, and the semantics then
   really reaches a configuration with a race (two fetches both standing at the write of lru) *)
Definition bad_fetch : scope :=
  Scope None [(f_access_lock, Rd)]
    [Scope (Some (l_access_lock, Shared)) [(f_c_data, Rd); (f_primary, Rd); (f_c_lru, Rd); (f_lru, Rd); (f_lru, Wr)] []].
Definition bad_table : list (string * scope) := [("fetch"%string, bad_fetch)].
Example race_free_detects_nonvacuous :
  race_free bad_table = false /\ exists c, reachable bad_table c /\ race c.
Proof.
  split; [vm_compute; reflexivity|].
  pose (k1 := Scope (Some (l_access_lock, Shared)) [(f_c_data, Rd); (f_primary, Rd); (f_c_lru, Rd); (f_lru, Rd); (f_lru, Wr)] []).
  pose (f0 := mkframe [] bad_fetch).
  pose (c1 := upd init 0 [f0]).
  pose (c2 := upd c1 0 (mkframe (fheld f0) k1 :: mkF (fheld f0) (faccs f0) [] :: [])).
  pose (c3 := upd c2 1 [f0]).
  pose (c4 := upd c3 1 (mkframe (fheld f0) k1 :: mkF (fheld f0) (faccs f0) [] :: [])).
  exists c4. split.
  - eapply reach_step; [eapply reach_step; [eapply reach_step; [eapply reach_step; [apply reach_init|]|]|]|].
    + apply (step_call _ init 0%nat "fetch"%string bad_fetch); [reflexivity|left; reflexivity|exact I].
    + apply (step_enter _ c1 0%nat f0 [] [] k1 []); [reflexivity|reflexivity|].
      intros u m' Hu Hin. unfold c1 in Hin. rewrite upd_other in Hin by exact Hu. simpl in Hin. contradiction.
    + apply (step_call _ c2 1%nat "fetch"%string bad_fetch); [reflexivity|left; reflexivity|exact I].
    + apply (step_enter _ c3 1%nat f0 [] [] k1 []); [reflexivity|reflexivity|].
      intros u m' Hu Hin. destruct u as [|[|u]].
      * vm_compute in Hin. destruct Hin as [E|[]]. inversion E. split; reflexivity.
      * contradiction.
      * vm_compute in Hin. contradiction.
  - exists 0%nat, 1%nat, f_lru, Wr. split; [discriminate|]. vm_compute. split; tauto.
Qed.

(* linearizability is not trivially true: a fetch that returns a value for a key nobody stored is not linearizable;
   and it is not trivially false: two overlapping calls (store, fetch) of the atomic-effect system give a history in
   which the fetch returns the stored entry, which the theorem declares linearizable *)
Example linearizable_nonvacuous :
  (forall limit now k v tr d g,
     ~ linearizable cstate Seq.cop Seq.cret (cache_eff now) (cache_s0 limit)
         [Inv Seq.cop Seq.cret 0 0 (Seq.OFetch k); Res Seq.cop Seq.cret 0 (Seq.RHit v tr d g)]) /\
  linearizable cstate Seq.cop Seq.cret (cache_eff 1000%Z) (cache_s0 0%N) ex_hist.
Proof.
  split; [exact hit_without_store_not_linearizable|].
  destruct ex_hist_reachable as (c & Hr & <-). now apply cache_atomic_linearizable_l.
Qed.

(* the two-phase theorems talk about real executions: thread 0 runs store (writes primary under the exclusive lock) and
   returns, then thread 1 runs fetch and reads primary under the shared lock: a reachable instrumented configuration
   whose log holds two conflicting accesses of different calls, ordered like their lock points (1 < 6) *)
Definition xg1 := do_call ginit 0 m_store.
Definition xf0 := mkframe [] m_store.
Definition xg2 := do_enter xg1 0 xf0 [] (kid0 m_store) [].
Definition xf1 := mkframe (fheld xf0) (kid0 m_store).
Definition xg3 := do_acc xg2 xf1 f_primary Wr 0.
Definition xg4 := do_exit xg3 0 [mkF (fheld xf0) (faccs xf0) []].
Definition xg5 := do_exit xg4 0 [].
Definition xg6 := do_call xg5 1 m_fetch.
Definition xh0 := mkframe [] m_fetch.
Definition xg7 := do_enter xg6 1 xh0 [] (kid0 m_fetch) [].
Definition xh1 := mkframe (fheld xh0) (kid0 m_fetch).
Definition xg8 := do_acc xg7 xh1 f_primary Rd 1.

Ltac no_holder Hu Hin :=
  match type of Hin with In _ (held (_ ?u)) =>
    destruct u as [|[|u]]; try (exfalso; now apply Hu); vm_compute in Hin; try contradiction end.

Example two_phase_nonvacuous :
  greachable Gen_locktab.table xg8 /\
  exists a1 a2, In a1 (g_log xg8) /\ In a2 (g_log xg8) /\ (a_time a1 < a_time a2)%nat /\ a_txn a1 <> a_txn a2 /\
    conflict (a_field a1, a_rw a1) (a_field a2, a_rw a2) = true /\
    (lp_of xg8 (a_txn a1) < lp_of xg8 (a_txn a2))%nat /\ t_end (g_txn xg8 (a_txn a1)) = Some 4%nat.
Proof.
  split.
  - eapply greach_step; [eapply greach_step; [eapply greach_step; [eapply greach_step; [eapply greach_step; [eapply greach_step; [eapply greach_step; [eapply greach_step; [apply greach_init|]|]|]|]|]|]|]|].
    + apply (do_call_step _ ginit 0%nat "store"%string m_store); [reflexivity|vm_compute; tauto|exact I].
    + apply (do_enter_step _ xg1 0%nat xf0 [] [] (kid0 m_store) []); [reflexivity|reflexivity|].
      intros u m' Hu Hin. no_holder Hu Hin.
    + apply (do_acc_step _ xg2 0%nat xf1 [mkF (fheld xf0) (faccs xf0) []] f_primary Wr 0%nat); [reflexivity|vm_compute; tauto|reflexivity].
    + apply (do_exit_step _ xg3 0%nat xf1 [mkF (fheld xf0) (faccs xf0) []]). reflexivity.
    + apply (do_exit_step _ xg4 0%nat (mkF (fheld xf0) (faccs xf0) []) []). reflexivity.
    + apply (do_call_step _ xg5 1%nat "fetch"%string m_fetch); [reflexivity|vm_compute; tauto|exact I].
    + apply (do_enter_step _ xg6 1%nat xh0 [] [] (kid0 m_fetch) []); [reflexivity|reflexivity|].
      intros u m' Hu Hin. no_holder Hu Hin.
    + apply (do_acc_step _ xg7 1%nat xh1 [mkF (fheld xh0) (faccs xh0) []] f_primary Rd 1%nat); [reflexivity|vm_compute; tauto|reflexivity].
  - exists (mkA 0 f_primary Wr 2 (fheld xf1)), (mkA 1 f_primary Rd 7 (fheld xh1)).
    vm_compute. repeat split; try tauto; try lia; try discriminate.
Qed.

(* the lock-level data model really interleaves: two fetches of the same key are inside their shared periods at the
   same time, both decide hit, then move the LRU entry in the opposite order, then copy out; both return the stored
   entry (and by lock_model_linearizable the history is linearizable) *)
Definition lk : C07.Defs.key := [107; 49]%N.
Definition lv : list N := [1; 2; 3]%N.
Ltac fwd H tac :=
  let H' := fresh "H" in
  eassert (H' : creachable 1000%Z 0%N _); [eapply creach_step; [exact H | tac] | clear H; rename H' into H; vm_compute in H].
Ltac alone := let u := fresh "u" in let Hu := fresh "Hu" in
  intros u Hu; destruct u as [|[|[|u]]]; try (exfalso; now apply Hu); try split; reflexivity.
Example lock_model_nonvacuous :
  exists c, creachable 1000%Z 0%N c /\
    cc_hist c = [Inv _ _ 0 0 (Seq.OStore lk lv [] 2000%Z None); Res _ _ 0 Seq.RUnit;
                 Inv _ _ 1 1 (Seq.OFetch lk); Inv _ _ 2 2 (Seq.OFetch lk);
                 Res _ _ 1 (Seq.RHit lv [lk] 2000%Z 0%N); Res _ _ 2 (Seq.RHit lv [lk] 2000%Z 0%N)] /\
    C07.Defs.lru (cc_st c) = [lk].
Proof.
  pose proof (creach_init 1000%Z 0%N) as H.
  fwd H ltac:(apply (cs_inv _ _ 0%nat (Seq.OStore lk lv [] 2000%Z None)); reflexivity).
  fwd H ltac:(eapply (cs_lock_x _ _ 0%nat); [reflexivity|alone]).
  fwd H ltac:(eapply (cs_effect _ _ 0%nat); reflexivity).
  fwd H ltac:(eapply (cs_unlock_x _ _ 0%nat); reflexivity).
  fwd H ltac:(eapply (cs_res_x _ _ 0%nat); reflexivity).
  fwd H ltac:(apply (cs_inv _ _ 1%nat (Seq.OFetch lk)); reflexivity).
  fwd H ltac:(apply (cs_inv _ _ 2%nat (Seq.OFetch lk)); reflexivity).
  fwd H ltac:(eapply (cs_lock_s _ _ 1%nat); [reflexivity|alone]).
  fwd H ltac:(eapply (cs_lock_s _ _ 2%nat); [reflexivity|alone]).
  fwd H ltac:(eapply (cs_hit _ _ 1%nat); reflexivity).
  fwd H ltac:(eapply (cs_hit _ _ 2%nat); reflexivity).
  fwd H ltac:(eapply (cs_move _ _ 2%nat); reflexivity).
  fwd H ltac:(eapply (cs_move _ _ 1%nat); reflexivity).
  fwd H ltac:(eapply (cs_copy _ _ 1%nat); reflexivity).
  fwd H ltac:(eapply (cs_copy _ _ 2%nat); reflexivity).
  fwd H ltac:(eapply (cs_unlock_s _ _ 1%nat); reflexivity).
  fwd H ltac:(eapply (cs_unlock_s _ _ 2%nat); reflexivity).
  fwd H ltac:(eapply (cs_res_s _ _ 1%nat); reflexivity).
  fwd H ltac:(eapply (cs_res_s _ _ 2%nat); reflexivity).
  eexists. split; [exact H|]. split; vm_compute; reflexivity.
Qed.

(* the failed store: (i) the table of the current source really has the path store-via-remove (so alt_paths_table and
   two_phase_table say something about it); (ii) in the data-level model a failed store of a cached key overlaps a fetch:
   the fetch takes the shared lock first and still hits, the failed store then removes the entry under the exclusive lock
   and returns BEFORE the fetch returns, the next fetch misses *)
Example failed_store_path_nonvacuous :
  has_alt_path "store" "remove" Gen_locktab.alt_paths = true /\
  exists c, creachable 1000%Z 0%N c /\
    cc_hist c = [Inv _ _ 0 0 (Seq.OStore lk lv [] 2000%Z None); Res _ _ 0 Seq.RUnit;
                 Inv _ _ 1 1 (Seq.OStoreFail lk lv [] 2000%Z None); Inv _ _ 2 2 (Seq.OFetch lk);
                 Res _ _ 1 Seq.RUnit; Res _ _ 2 (Seq.RHit lv [lk] 2000%Z 0%N);
                 Inv _ _ 3 2 (Seq.OFetch lk); Res _ _ 3 Seq.RMiss] /\
    C07.Defs.size (cc_st c) = 0%N.
Proof.
  split; [exact store_failure_path_table|].
  pose proof (creach_init 1000%Z 0%N) as H.
  fwd H ltac:(apply (cs_inv _ _ 0%nat (Seq.OStore lk lv [] 2000%Z None)); reflexivity).
  fwd H ltac:(eapply (cs_lock_x _ _ 0%nat); [reflexivity|alone]).
  fwd H ltac:(eapply (cs_effect _ _ 0%nat); reflexivity).
  fwd H ltac:(eapply (cs_unlock_x _ _ 0%nat); reflexivity).
  fwd H ltac:(eapply (cs_res_x _ _ 0%nat); reflexivity).
  fwd H ltac:(apply (cs_inv _ _ 1%nat (Seq.OStoreFail lk lv [] 2000%Z None)); reflexivity).
  fwd H ltac:(apply (cs_inv _ _ 2%nat (Seq.OFetch lk)); reflexivity).
  fwd H ltac:(eapply (cs_lock_s _ _ 2%nat); [reflexivity|alone]).
  fwd H ltac:(eapply (cs_hit _ _ 2%nat); reflexivity).
  fwd H ltac:(eapply (cs_move _ _ 2%nat); reflexivity).
  fwd H ltac:(eapply (cs_copy _ _ 2%nat); reflexivity).
  fwd H ltac:(eapply (cs_unlock_s _ _ 2%nat); reflexivity).
  fwd H ltac:(eapply (cs_lock_x _ _ 1%nat); [reflexivity|alone]).
  fwd H ltac:(eapply (cs_effect _ _ 1%nat); reflexivity).
  fwd H ltac:(eapply (cs_unlock_x _ _ 1%nat); reflexivity).
  fwd H ltac:(eapply (cs_res_x _ _ 1%nat); reflexivity).
  fwd H ltac:(eapply (cs_res_s _ _ 2%nat); reflexivity).
  fwd H ltac:(apply (cs_inv _ _ 2%nat (Seq.OFetch lk)); reflexivity).
  fwd H ltac:(eapply (cs_lock_s _ _ 2%nat); [reflexivity|alone]).
  fwd H ltac:(eapply (cs_miss _ _ 2%nat); reflexivity).
  fwd H ltac:(eapply (cs_unlock_s _ _ 2%nat); reflexivity).
  fwd H ltac:(eapply (cs_res_s _ _ 2%nat); reflexivity).
  eexists. split; [exact H|]. split; vm_compute; reflexivity.
Qed.

(* ---------- group 5: the clauses of the property text for CONCURRENT histories ---------- *)
(* for ANY history that is linearizable w.r.t. the cache object and names every call once (any limit, any clock value):
   a fetch that returned a hit (v, trigs, d, g) is explained by a store to THE SAME key with exactly that value, deadline
   and trigger set (store_trigs k tin = the key plus the given triggers) and, when given, generation - so never a torn or
   mixed entry and never the value of another key -; that store was not invoked after the fetch returned; and no call that
   invalidates the entry (rise of one of its triggers, remove of the key, clear, another store or failed store of the key:
   C07.MapSpec.invalidates) ran entirely between that store and the fetch - in particular never a value whose trigger
   had already been raised before the fetch began, unless the store itself did not precede that rise.
   Proof: linearization + C07's theorems about sequential histories (fetch_hit_is_latest_store, fetch_miss_after_invalidation,
   fetch_miss_never_stored, fetch_miss_after_failed_store).  These are the predicates the oracle of checks/C09.py evaluates
   on the recorded answers of the real cache (hit-not-a-stored-entry, hit-before-store, stale-hit). *)
Theorem concurrent_hit_explained : forall (now : Z) (lim : N) h,
  linearizable C07.Defs.state Seq.cop Seq.cret (Seq.eff now) (C07.Defs.init lim) h -> inv_unique h ->
  forall idf v trigs d g, In (Res Seq.cop Seq.cret idf (Seq.RHit v trigs d g)) h ->
  exists k tf ids ts tin gs,
    In (Inv Seq.cop Seq.cret idf tf (Seq.OFetch k)) h /\ In (Inv Seq.cop Seq.cret ids ts (Seq.OStore k v tin d gs)) h /\
    trigs = C07.Defs.store_trigs k tin /\ (forall x, gs = Some x -> g = x) /\
    ~ before h (Res Seq.cop Seq.cret idf (Seq.RHit v trigs d g)) (Inv Seq.cop Seq.cret ids ts (Seq.OStore k v tin d gs)) /\
    forall idr tr o rr, C07.MapSpec.invalidates k trigs (Seq.to_op now o) = true ->
      before h (Res Seq.cop Seq.cret ids Seq.RUnit) (Inv Seq.cop Seq.cret idr tr o) ->
      before h (Res Seq.cop Seq.cret idr rr) (Inv Seq.cop Seq.cret idf tf (Seq.OFetch k)) -> False.
Proof. exact lin_hit_explained. Qed.
Print Assumptions concurrent_hit_explained.

(* ... and every history of the data-level lock model is such a history *)
Theorem lock_model_hit_explained : forall (now : Z) (limit : N) c, creachable now limit c ->
  forall idf v trigs d g, In (Res Seq.cop Seq.cret idf (Seq.RHit v trigs d g)) (cc_hist c) ->
  exists k tf ids ts tin gs,
    In (Inv Seq.cop Seq.cret idf tf (Seq.OFetch k)) (cc_hist c) /\ In (Inv Seq.cop Seq.cret ids ts (Seq.OStore k v tin d gs)) (cc_hist c) /\
    trigs = C07.Defs.store_trigs k tin /\ (forall x, gs = Some x -> g = x) /\
    ~ before (cc_hist c) (Res Seq.cop Seq.cret idf (Seq.RHit v trigs d g)) (Inv Seq.cop Seq.cret ids ts (Seq.OStore k v tin d gs)) /\
    forall idr tr o rr, C07.MapSpec.invalidates k trigs (Seq.to_op now o) = true ->
      before (cc_hist c) (Res Seq.cop Seq.cret ids Seq.RUnit) (Inv Seq.cop Seq.cret idr tr o) ->
      before (cc_hist c) (Res Seq.cop Seq.cret idr rr) (Inv Seq.cop Seq.cret idf tf (Seq.OFetch k)) -> False.
Proof. exact lock_model_hit_explained_l. Qed.
Print Assumptions lock_model_hit_explained.

(* non-vacuous: the interleaved run of lock_model_nonvacuous is a history with hits; the theorem names the store that
   explains the hit of call 1 *)
Example hit_explained_nonvacuous :
  exists c, creachable 1000%Z 0%N c /\ In (Res Seq.cop Seq.cret 1 (Seq.RHit lv [lk] 2000%Z 0%N)) (cc_hist c) /\
    exists ids ts tin gs, In (Inv Seq.cop Seq.cret ids ts (Seq.OStore lk lv tin 2000%Z gs)) (cc_hist c).
Proof.
  destruct lock_model_nonvacuous as (c & Hc & Hh & _). exists c. split; [exact Hc|].
  assert (Hin : In (Res Seq.cop Seq.cret 1 (Seq.RHit lv [lk] 2000%Z 0%N)) (cc_hist c)) by (rewrite Hh; simpl; tauto).
  split; [exact Hin|].
  destruct (lock_model_hit_explained _ _ c Hc _ _ _ _ _ Hin) as (k & tf & ids & ts & tin & gs & Hf & Hs & _).
  assert (k = lk).
  { rewrite Hh in Hf. simpl in Hf. repeat (destruct Hf as [E|Hf]; [try discriminate; inversion E; reflexivity|]). contradiction. }
  subst k. eauto.
Qed.

(* the miss clause (no size limit, no failed store in the history): a fetch of key k that was invoked after a store of a
   live entry (deadline >= now) under k returned, every OTHER call that could invalidate that entry (rise of one of its
   triggers, remove, clear, another store of the key) having returned before that store was invoked, does not miss.
   (the oracle's miss-of-live-entry predicate; proof: linearization + C07.live_entry_found) *)
Theorem concurrent_miss_explained : forall (now : Z) h,
  linearizable C07.Defs.state Seq.cop Seq.cret (Seq.eff now) (C07.Defs.init 0) h -> inv_unique h ->
  (forall id t k v tin d g, ~ In (Inv Seq.cop Seq.cret id t (Seq.OStoreFail k v tin d g)) h) ->
  forall ids ts k v tin d gs idf tf,
    In (Inv Seq.cop Seq.cret ids ts (Seq.OStore k v tin d gs)) h -> In (Inv Seq.cop Seq.cret idf tf (Seq.OFetch k)) h ->
    before h (Res Seq.cop Seq.cret ids Seq.RUnit) (Inv Seq.cop Seq.cret idf tf (Seq.OFetch k)) -> (now <= d)%Z ->
    (forall idr tr o, In (Inv Seq.cop Seq.cret idr tr o) h -> idr <> ids ->
       C07.MapSpec.invalidates k (C07.Defs.store_trigs k tin) (Seq.to_op now o) = true ->
       exists rr, before h (Res Seq.cop Seq.cret idr rr) (Inv Seq.cop Seq.cret ids ts (Seq.OStore k v tin d gs))) ->
    ~ In (Res Seq.cop Seq.cret idf Seq.RMiss) h.
Proof. exact lin_miss_explained. Qed.
Print Assumptions concurrent_miss_explained.

Theorem lock_model_miss_explained : forall (now : Z) c, creachable now 0%N c ->
  (forall id t k v tin d g, ~ In (Inv Seq.cop Seq.cret id t (Seq.OStoreFail k v tin d g)) (cc_hist c)) ->
  forall ids ts k v tin d gs idf tf,
    In (Inv Seq.cop Seq.cret ids ts (Seq.OStore k v tin d gs)) (cc_hist c) -> In (Inv Seq.cop Seq.cret idf tf (Seq.OFetch k)) (cc_hist c) ->
    before (cc_hist c) (Res Seq.cop Seq.cret ids Seq.RUnit) (Inv Seq.cop Seq.cret idf tf (Seq.OFetch k)) -> (now <= d)%Z ->
    (forall idr tr o, In (Inv Seq.cop Seq.cret idr tr o) (cc_hist c) -> idr <> ids ->
       C07.MapSpec.invalidates k (C07.Defs.store_trigs k tin) (Seq.to_op now o) = true ->
       exists rr, before (cc_hist c) (Res Seq.cop Seq.cret idr rr) (Inv Seq.cop Seq.cret ids ts (Seq.OStore k v tin d gs))) ->
    ~ In (Res Seq.cop Seq.cret idf Seq.RMiss) (cc_hist c).
Proof. exact lock_model_miss_explained_l. Qed.
Print Assumptions lock_model_miss_explained.

(* non-vacuous: the premises hold in the run of lock_model_nonvacuous (store returned, then two overlapping fetches) *)
Example miss_explained_nonvacuous :
  exists c, creachable 1000%Z 0%N c /\ In (Res Seq.cop Seq.cret 1 (Seq.RHit lv [lk] 2000%Z 0%N)) (cc_hist c) /\
            ~ In (Res Seq.cop Seq.cret 1 Seq.RMiss) (cc_hist c).
Proof.
  destruct lock_model_nonvacuous as (c & Hc & Hh & _). exists c. split; [exact Hc|].
  split; [rewrite Hh; simpl; tauto|].
  apply (lock_model_miss_explained 1000%Z c Hc) with (ids := 0%nat) (ts := 0%nat) (k := lk) (v := lv) (tin := []) (d := 2000%Z)
                                                   (gs := None) (tf := 1%nat).
  - intros id t k v tin d g Hin. rewrite Hh in Hin. simpl in Hin. repeat (destruct Hin as [E|Hin]; [discriminate|]). contradiction.
  - rewrite Hh. simpl. tauto.
  - rewrite Hh. simpl. tauto.
  - rewrite Hh. exists [Inv _ _ 0 0 (Seq.OStore lk lv [] 2000%Z None)], [], [Inv _ _ 2 2 (Seq.OFetch lk);
                 Res _ _ 1 (Seq.RHit lv [lk] 2000%Z 0%N); Res _ _ 2 (Seq.RHit lv [lk] 2000%Z 0%N)]. reflexivity.
  - lia.
  - intros idr tr o Hin Hne Hiv. exfalso. rewrite Hh in Hin. simpl in Hin.
    repeat (destruct Hin as [E|Hin]; [try discriminate; inversion E; subst; try (now apply Hne); simpl in Hiv; discriminate|]).
    contradiction.
Qed.

(* the stats clause: in any history linearizable w.r.t. the cache object (any limit, any clock value) every stats() answer has
   keys <= triggers and keys = 0 <-> triggers = 0 (every entry carries at least its own key as trigger: C07's mirror
   invariant holds in the state of the linearization at which the stats call takes effect); the oracle's stats-inconsistent *)
Theorem concurrent_stats_consistent : forall (now : Z) (lim : N) h,
  linearizable C07.Defs.state Seq.cop Seq.cret (Seq.eff now) (C07.Defs.init lim) h ->
  forall id keys trigs, In (Res Seq.cop Seq.cret id (Seq.RStats keys trigs)) h ->
    (keys <= trigs)%N /\ (keys = 0%N <-> trigs = 0%N).
Proof. exact lin_stats_consistent. Qed.
Print Assumptions concurrent_stats_consistent.

Theorem lock_model_stats_consistent : forall (now : Z) (limit : N) c, creachable now limit c ->
  forall id keys trigs, In (Res Seq.cop Seq.cret id (Seq.RStats keys trigs)) (cc_hist c) ->
    (keys <= trigs)%N /\ (keys = 0%N <-> trigs = 0%N).
Proof. exact lock_model_stats_consistent_l. Qed.
Print Assumptions lock_model_stats_consistent.

(* non-vacuous: a store with one extra trigger, then stats in another thread: the model answers 1 key / 2 triggers *)
Example stats_nonvacuous :
  exists c, creachable 1000%Z 0%N c /\ In (Res Seq.cop Seq.cret 1 (Seq.RStats 1 2)) (cc_hist c).
Proof.
  pose proof (creach_init 1000%Z 0%N) as H.
  fwd H ltac:(apply (cs_inv _ _ 0%nat (Seq.OStore lk lv [[116; 49]%N] 2000%Z None)); reflexivity).
  fwd H ltac:(eapply (cs_lock_x _ _ 0%nat); [reflexivity|alone]).
  fwd H ltac:(eapply (cs_effect _ _ 0%nat); reflexivity).
  fwd H ltac:(eapply (cs_unlock_x _ _ 0%nat); reflexivity).
  fwd H ltac:(eapply (cs_res_x _ _ 0%nat); reflexivity).
  fwd H ltac:(apply (cs_inv _ _ 1%nat Seq.OStats); reflexivity).
  fwd H ltac:(eapply (cs_lock_s _ _ 1%nat); [reflexivity|alone]).
  fwd H ltac:(eapply (cs_stats _ _ 1%nat); reflexivity).
  fwd H ltac:(eapply (cs_unlock_s _ _ 1%nat); reflexivity).
  fwd H ltac:(eapply (cs_res_s _ _ 1%nat); reflexivity).
  eexists. split; [exact H|]. vm_compute. tauto.
Qed.

(* the size limit: with a limit > 0 no stats() answer of a history linearizable w.r.t. the cache object reports more keys
   than the limit (the eviction loop of store leaves room for the new entry: Proofs12.loop_post, over C07's model; the bound is
   an invariant of every legal sequential run).  The oracle's stats-keys-out-of-range. *)
Theorem concurrent_stats_within_limit : forall (now : Z) (lim : N) h,
  linearizable C07.Defs.state Seq.cop Seq.cret (Seq.eff now) (C07.Defs.init lim) h -> (0 < lim)%N ->
  forall id keys trigs, In (Res Seq.cop Seq.cret id (Seq.RStats keys trigs)) h -> (keys <= lim)%N.
Proof. exact lin_stats_within_limit. Qed.
Print Assumptions concurrent_stats_within_limit.

Theorem lock_model_stats_within_limit : forall (now : Z) (lim : N) c, creachable now lim c -> (0 < lim)%N ->
  forall id keys trigs, In (Res Seq.cop Seq.cret id (Seq.RStats keys trigs)) (cc_hist c) -> (keys <= lim)%N.
Proof. exact lock_model_stats_within_limit_l. Qed.
Print Assumptions lock_model_stats_within_limit.

(* non-vacuous: limit 1, two stores of different keys, then stats: the model answers 1 key (the first entry was evicted) *)
Definition lk2 : C07.Defs.key := [107; 50]%N.
Ltac fwd1 H tac :=
  let H' := fresh "H" in
  eassert (H' : creachable 1000%Z 1%N _); [eapply creach_step; [exact H | tac] | clear H; rename H' into H; vm_compute in H].
Example limit_nonvacuous :
  exists c, creachable 1000%Z 1%N c /\ In (Res Seq.cop Seq.cret 2 (Seq.RStats 1 1)) (cc_hist c).
Proof.
  pose proof (creach_init 1000%Z 1%N) as H.
  fwd1 H ltac:(apply (cs_inv _ _ 0%nat (Seq.OStore lk lv [] 2000%Z None)); reflexivity).
  fwd1 H ltac:(eapply (cs_lock_x _ _ 0%nat); [reflexivity|alone]).
  fwd1 H ltac:(eapply (cs_effect _ _ 0%nat); reflexivity).
  fwd1 H ltac:(eapply (cs_unlock_x _ _ 0%nat); reflexivity).
  fwd1 H ltac:(eapply (cs_res_x _ _ 0%nat); reflexivity).
  fwd1 H ltac:(apply (cs_inv _ _ 0%nat (Seq.OStore lk2 lv [] 2000%Z None)); reflexivity).
  fwd1 H ltac:(eapply (cs_lock_x _ _ 0%nat); [reflexivity|alone]).
  fwd1 H ltac:(eapply (cs_effect _ _ 0%nat); reflexivity).
  fwd1 H ltac:(eapply (cs_unlock_x _ _ 0%nat); reflexivity).
  fwd1 H ltac:(eapply (cs_res_x _ _ 0%nat); reflexivity).
  fwd1 H ltac:(apply (cs_inv _ _ 1%nat Seq.OStats); reflexivity).
  fwd1 H ltac:(eapply (cs_lock_s _ _ 1%nat); [reflexivity|alone]).
  fwd1 H ltac:(eapply (cs_stats _ _ 1%nat); reflexivity).
  fwd1 H ltac:(eapply (cs_unlock_s _ _ 1%nat); reflexivity).
  fwd1 H ltac:(eapply (cs_res_s _ _ 1%nat); reflexivity).
  eexists. split; [exact H|]. vm_compute. tauto.
Qed.
