(* C09: concurrent cache use is race-free, deadlock-free and behaves like some sequential order.
   Property theorems only.  Gen_locktab.table is REGENERATED from /repo/src/cache_storage.cpp on every run
   (tools/locktab.py): the *_table theorems are re-checked against the current source each time. *)
From CppcmsV Require Import Base.Tac C09.Defs C09.Proofs1 C09.Proofs2 C09.Proofs3 C09.Proofs4 C09.Proofs5 C09.Proofs6 C09.LockModel C09.Proofs7 gen.Gen_locktab.
From CppcmsV Require C07.Defs C09.Seq.
From Coq Require Import String.

(* ---------- group 1: the lock discipline extracted from the current source passes the decidable checks ---------- *)
Theorem race_free_table : race_free Gen_locktab.table = true.
Proof. vm_compute. reflexivity. Qed.
Print Assumptions race_free_table.

Theorem ordered_table : ordered Gen_locktab.table = true.
Proof. vm_compute. reflexivity. Qed.
Print Assumptions ordered_table.

Theorem two_phase_table : two_phase Gen_locktab.table = true.
Proof. vm_compute. reflexivity. Qed.
Print Assumptions two_phase_table.

Theorem unlocked_only_constants_table : unlocked_only_constants Gen_locktab.table = true.
Proof. vm_compute. reflexivity. Qed.
Print Assumptions unlocked_only_constants_table.

(* the value, trigger list, deadline and generation of an entry are read only under access_lock and written only
   under access_lock held exclusively; likewise the index structures *)
Definition excl_guarded_fields : list fieldid :=
  [f_c_data; f_c_triggers; f_c_timeout; f_c_generation; f_primary; f_triggers; f_timeout; f_size; f_triggers_count; f_generation; f_refs].
Theorem entry_fields_guarded_table :
  forallb (fun f => field_guarded Gen_locktab.table f l_access_lock && writes_guarded_excl Gen_locktab.table f l_access_lock)
          excl_guarded_fields = true.
Proof. vm_compute. reflexivity. Qed.
Print Assumptions entry_fields_guarded_table.

(* the LRU list and the per-entry LRU position are touched only under access_lock, and only under lru_mutex unless
   access_lock is held exclusively *)
Theorem lru_fields_guarded_table :
  forallb (fun f => field_guarded Gen_locktab.table f l_access_lock) [f_lru; f_c_lru] = true /\
  forallb (fun n : node => negb (existsb (fun a : access => N.eqb (fst a) f_lru || N.eqb (fst a) f_c_lru) (snd n))
                           || holds_excl l_access_lock (fst n) || holds_excl l_lru_mutex (fst n))
          (all_nodes Gen_locktab.table) = true.
Proof. split; vm_compute; reflexivity. Qed.
Print Assumptions lru_fields_guarded_table.

(* ---------- group 2: soundness of the checks, for every table, any number of threads and calls ---------- *)
(* full statement: if race_free tbl = true then in no reachable configuration of the interleaving semantics do two
   different threads stand at accesses to the same member one of which is a write *)
Theorem race_free_sound : forall tbl, race_free tbl = true -> forall c, reachable tbl c -> ~ race c.
Proof. exact race_free_sound_l. Qed.
Print Assumptions race_free_sound.

Theorem mutual_exclusion : forall tbl c, reachable tbl c ->
  forall t u l m m', t <> u -> In (l, m) (held (c t)) -> In (l, m') (held (c u)) -> m = Shared /\ m' = Shared.
Proof. exact mutual_exclusion_l. Qed.
Print Assumptions mutual_exclusion.

(* every operation completes: whenever some thread is inside a call, not all of the active threads are blocked *)
Theorem deadlock_free : forall tbl, ordered tbl = true -> forall c, reachable tbl c ->
  (exists t, c t <> []) -> ~ (forall t, c t <> [] -> waiting c t).
Proof. exact deadlock_free_l. Qed.
Print Assumptions deadlock_free.

Theorem field_guarded_sound : forall tbl f l, field_guarded tbl f l = true ->
  forall c, reachable tbl c -> forall t r, In (f, r) (cur_accs (c t)) -> exists m, In (l, m) (held (c t)).
Proof. exact field_guarded_sound_l. Qed.
Print Assumptions field_guarded_sound.

Theorem writer_alone : forall tbl f l, writes_guarded_excl tbl f l = true ->
  forall c, reachable tbl c -> forall t, In (f, Wr) (cur_accs (c t)) ->
    In (l, Excl) (held (c t)) /\ forall u m, u <> t -> ~ In (l, m) (held (c u)).
Proof. exact writer_alone_l. Qed.
Print Assumptions writer_alone.

(* ---------- group 3: the property for the cache as it is in the current source ---------- *)
Theorem cache_race_free : forall c, reachable Gen_locktab.table c -> ~ race c.
Proof. exact (race_free_sound_l Gen_locktab.table race_free_table). Qed.
Print Assumptions cache_race_free.

Theorem cache_deadlock_free : forall c, reachable Gen_locktab.table c ->
  (exists t, c t <> []) -> ~ (forall t, c t <> [] -> waiting c t).
Proof. exact (deadlock_free_l Gen_locktab.table ordered_table). Qed.
Print Assumptions cache_deadlock_free.

(* no torn value: while a thread stands at the copy-out of an entry value (or at any other access to c.data) it holds
   access_lock, and no other thread stands at a write of c.data; a thread writing c.data is alone in the cache *)
Theorem cache_no_torn_value : forall c, reachable Gen_locktab.table c -> forall t r, In (f_c_data, r) (cur_accs (c t)) ->
  (exists m, In (l_access_lock, m) (held (c t))) /\
  (forall u, u <> t -> ~ In (f_c_data, Wr) (cur_accs (c u))).
Proof.
  intros c Hr t r Hin.
  assert (Hg : field_guarded Gen_locktab.table f_c_data l_access_lock = true) by (vm_compute; reflexivity).
  assert (Hw : writes_guarded_excl Gen_locktab.table f_c_data l_access_lock = true) by (vm_compute; reflexivity).
  split.
  - exact (field_guarded_sound_l _ _ _ Hg c Hr t r Hin).
  - intros u Hne. exact (reader_stable_l _ _ _ Hw Hg c Hr t u r (not_eq_sym Hne) Hin).
Qed.
Print Assumptions cache_no_torn_value.

(* mutators run in isolation: a thread standing at a write of any member other than the LRU links holds access_lock
   exclusively and no other thread is inside any critical section of the cache *)
Theorem cache_mutators_isolated : forall c, reachable Gen_locktab.table c -> forall t f,
  In f excl_guarded_fields -> In (f, Wr) (cur_accs (c t)) ->
  In (l_access_lock, Excl) (held (c t)) /\ forall u m, u <> t -> ~ In (l_access_lock, m) (held (c u)).
Proof.
  intros c Hr t f Hf Hin. apply (writer_alone_l Gen_locktab.table f l_access_lock); auto.
  pose proof entry_fields_guarded_table as H. rewrite forallb_forall in H. specialize (H f Hf).
  apply andb_true_iff in H. apply H.
Qed.
Print Assumptions cache_mutators_isolated.

(* ---------- group 3b: two-phase locking => conflict-serializable in lock-point order, which respects real time ---------- *)
(* instrumented semantics (gstep): a global clock, one transaction per call, lock point = time of its latest lock
   acquisition, a log of access events.  For ANY table that passes race_free and two_phase, any number of threads: *)
Theorem conflicts_follow_lock_points : forall tbl, race_free tbl = true -> two_phase tbl = true ->
  forall g, greachable tbl g ->
  forall a1 a2, In a1 (g_log g) -> In a2 (g_log g) -> (a_time a1 < a_time a2)%nat -> a_txn a1 <> a_txn a2 ->
    conflict (a_field a1, a_rw a1) (a_field a2, a_rw a2) = true ->
    (lp_of g (a_txn a1) < lp_of g (a_txn a2))%nat /\ final g (a_txn a1).
Proof. exact conflicts_follow_lock_points_l. Qed.
Print Assumptions conflicts_follow_lock_points.

Theorem conflict_graph_acyclic : forall tbl, race_free tbl = true -> two_phase tbl = true ->
  forall g, greachable tbl g -> forall x, ~ conflict_path g x x.
Proof. exact conflict_graph_acyclic_l. Qed.
Print Assumptions conflict_graph_acyclic.

Theorem lock_point_in_interval : forall tbl g, greachable tbl g -> forall x, (x < g_ntx g)%nat ->
  (t_start (g_txn g x) <= lp_of g x)%nat /\ (lp_of g x < g_now g)%nat.
Proof. exact lock_point_in_interval_l. Qed.
Print Assumptions lock_point_in_interval.

Theorem lock_points_respect_real_time : forall tbl g, greachable tbl g -> forall x y e,
  t_end (g_txn g x) = Some e -> (y < g_ntx g)%nat -> (e <= t_start (g_txn g y))%nat -> (lp_of g x < lp_of g y)%nat.
Proof. exact lock_points_respect_real_time_l. Qed.
Print Assumptions lock_points_respect_real_time.

(* for the cache as it is in the current source *)
Theorem cache_conflict_serializable : forall g, greachable Gen_locktab.table g ->
  (forall a1 a2, In a1 (g_log g) -> In a2 (g_log g) -> (a_time a1 < a_time a2)%nat -> a_txn a1 <> a_txn a2 ->
     conflict (a_field a1, a_rw a1) (a_field a2, a_rw a2) = true -> (lp_of g (a_txn a1) < lp_of g (a_txn a2))%nat) /\
  (forall x, ~ conflict_path g x x) /\
  (forall x y e, t_end (g_txn g x) = Some e -> (y < g_ntx g)%nat -> (e <= t_start (g_txn g y))%nat -> (lp_of g x < lp_of g y)%nat).
Proof.
  intros g Hr. split; [|split].
  - intros a1 a2 H1 H2 Ht Hne Hc.
    now destruct (conflicts_follow_lock_points_l _ race_free_table two_phase_table g Hr a1 a2 H1 H2 Ht Hne Hc).
  - exact (conflict_graph_acyclic_l _ race_free_table two_phase_table g Hr).
  - exact (lock_points_respect_real_time_l _ g Hr).
Qed.
Print Assumptions cache_conflict_serializable.

(* ---------- group 4: linearizability ---------- *)
(* FULL STATEMENT (DESIGN.md, theorem 2): every finite interleaved execution of k threads of the lock-level semantics,
   with the data effect of each call given by the sequential model (C07.Defs through Seq.eff), produces a history that
   is linearizable: some sequential order of the calls that respects real-time precedence makes the sequential model
   return exactly the recorded results.
   PROVED HERE: (i) atomic_effect_linearizable - for ANY sequential object, any system in which each call takes effect
   atomically at one step between its invocation and its response produces only linearizable histories (any number of
   threads and calls); (ii) its instance for the cache object.
   (iii) group 3b - the lock-level executions are conflict-serializable in lock-point order (conflicting accesses of
   different calls are ordered like the lock points, the conflict graph is acyclic), each lock point lies between the
   invocation and the response of its call, and the lock-point order respects real-time precedence: exactly the
   premises under which the calls may be regarded as taking effect atomically at their lock points.
   (iv) lock_model_linearizable (below) - the data-carrying lock-level model, in which fetch is split into lookup, LRU
   move under lru_mutex and copy-out with other threads interleaving, is linearizable w.r.t. the sequential model.
   GAP (named): (iv) takes as atomic the steps that groups 1-3b justify treating as atomic (a whole mutator body under the
   exclusive lock; the LRU move under lru_mutex; each read of a fetch/stats under the shared lock, during which no
   member it reads is written).  The formal connection between the access table (a may-access abstraction of each
   method body, without data semantics for an individual member access) and the step granularity of (iv) - i.e. that
   the real method body, run without conflicting interference, computes the step of the sequential model - is not a
   Coq theorem: it is C07's correspondence (sequential meaning of each body) plus the paper argument in docs/C09.md,
   and it is searched on the real cache (recorded histories checked linearizable by bin/check). *)
Theorem atomic_effect_linearizable :
  forall (St Op Ret : Type) (eff : St -> Op -> St * Ret) (s0 : St) (c : lconfig St Op Ret),
    lreachable St Op Ret eff s0 c -> linearizable St Op Ret eff s0 (l_hist St Op Ret c).
Proof. exact atomic_effect_linearizable_l. Qed.
Print Assumptions atomic_effect_linearizable.

Theorem atomic_effect_state :
  forall (St Op Ret : Type) (eff : St -> Op -> St * Ret) (s0 : St) (c : lconfig St Op Ret),
    lreachable St Op Ret eff s0 c -> seq_run St Op Ret eff s0 (l_lin St Op Ret c) = l_st St Op Ret c.
Proof. exact atomic_effect_state_l. Qed.
Print Assumptions atomic_effect_state.

Theorem cache_linearizable_partial : forall (limit : N) (now : Z) c,
  lreachable cstate Seq.cop Seq.cret (cache_eff now) (cache_s0 limit) c ->
  linearizable cstate Seq.cop Seq.cret (cache_eff now) (cache_s0 limit) (l_hist _ _ _ c).
Proof. exact cache_atomic_linearizable_l. Qed.
Print Assumptions cache_linearizable_partial.

(* (iv) the lock-level model WITH data (LockModel.v): the sequential object behind a readers-writer lock and the LRU
   mutex, every call split the way the code splits it - mutators: wait / lock exclusive / whole effect / unlock / return;
   stats: wait / lock shared / read / unlock / return; fetch: wait / lock shared / lookup (hit or miss decision) /
   [hit: LRU move, atomic under lru_mutex] / copy-out / unlock / return - with arbitrary interleaving of other threads
   between any two steps.  Every history of this system is linearizable w.r.t. the sequential model (any limit, any
   clock value, any number of threads and calls).  Linearization points: the effect step; the read; the LRU move (hit)
   or the lookup (miss). *)
Theorem lock_model_linearizable : forall (now : Z) (limit : N) c, creachable now limit c ->
  linearizable cst Seq.cop Seq.cret (Seq.eff now) (C07.Defs.init limit) (cc_hist c).
Proof. exact lock_model_linearizable_l. Qed.
Print Assumptions lock_model_linearizable.

Theorem lock_model_exclusion : forall (now : Z) (limit : N) c, creachable now limit c ->
  forall t u, t <> u -> holds_x (cc_ph c t) = true -> holds_x (cc_ph c u) = false /\ holds_s (cc_ph c u) = false.
Proof. exact lock_model_exclusion_l. Qed.
Print Assumptions lock_model_exclusion.

(* ---------- non-vacuity ---------- *)
(* two threads are concurrently inside fetch, both under the shared lock, one of them inside the lru_mutex scope:
   the configuration is reachable, so the theorems above talk about genuinely concurrent executions *)
(* kid0 = first nested guard scope of a scope (Proofs6): keeps the examples robust against changes of the access lists *)
Example concurrency_nonvacuous :
  exists c, reachable Gen_locktab.table c /\
            In (l_access_lock, Shared) (held (c 0%nat)) /\ In (l_lru_mutex, Excl) (held (c 0%nat)) /\
            In (l_access_lock, Shared) (held (c 1%nat)) /\ In (f_c_data, Rd) (cur_accs (c 1%nat)) /\
            In (f_lru, Wr) (cur_accs (c 0%nat)).
Proof.
  pose (k1 := kid0 m_fetch).
  pose (k2 := kid0 k1).
  (* thread 0: call fetch, enter rdlock scope, enter lru scope; thread 1: call fetch, enter rdlock scope *)
  pose (c1 := upd init 0 [mkframe [] m_fetch]).
  pose (f0 := mkframe [] m_fetch).
  pose (c2 := upd c1 0 (mkframe (fheld f0) k1 :: mkF (fheld f0) (faccs f0) [] :: [])).
  pose (f1 := mkframe (fheld f0) k1).
  pose (c3 := upd c2 0 (mkframe (fheld f1) k2 :: mkF (fheld f1) (faccs f1) [] :: [mkF (fheld f0) (faccs f0) []])).
  pose (c4 := upd c3 1 [mkframe [] m_fetch]).
  pose (c5 := upd c4 1 (mkframe (fheld f0) k1 :: mkF (fheld f0) (faccs f0) [] :: [])).
  exists c5.
  assert (R1 : reachable Gen_locktab.table c1).
  { eapply reach_step; [apply reach_init|]. apply (step_call _ init 0%nat "fetch"%string m_fetch); [reflexivity|vm_compute; tauto|exact I]. }
  assert (R2 : reachable Gen_locktab.table c2).
  { eapply reach_step; [exact R1|]. apply (step_enter _ c1 0%nat f0 [] [] k1 []); [reflexivity|reflexivity|].
    intros u m' Hu Hin. unfold c1 in Hin. rewrite upd_other in Hin by exact Hu. simpl in Hin. contradiction. }
  assert (R3 : reachable Gen_locktab.table c3).
  { eapply reach_step; [exact R2|]. apply (step_enter _ c2 0%nat f1 [mkF (fheld f0) (faccs f0) []] [] k2 []); [reflexivity|reflexivity|].
    intros u m' Hu Hin. unfold c2 in Hin. rewrite upd_other in Hin by exact Hu. unfold c1 in Hin. rewrite upd_other in Hin by exact Hu.
    simpl in Hin. contradiction. }
  assert (R4 : reachable Gen_locktab.table c4).
  { eapply reach_step; [exact R3|]. apply (step_call _ c3 1%nat "fetch"%string m_fetch); [reflexivity|vm_compute; tauto|exact I]. }
  assert (R5 : reachable Gen_locktab.table c5).
  { eapply reach_step; [exact R4|]. apply (step_enter _ c4 1%nat f0 [] [] k1 []); [reflexivity|reflexivity|].
    intros u m' Hu Hin. destruct u as [|[|u]].
    - vm_compute in Hin. destruct Hin as [E|[E|[]]]; inversion E. split; reflexivity.
    - contradiction.
    - vm_compute in Hin. contradiction. }
  split; [exact R5|]. vm_compute. repeat split; tauto.
Qed.

(* the check is not trivially true: dropping the lru_mutex guard from fetch makes it fail, and the semantics then
   really reaches a configuration with a race (two fetches both standing at the write of lru) *)
Definition bad_fetch : scope :=
  Scope None [(f_access_lock, Rd)]
    [Scope (Some (l_access_lock, Shared)) [(f_c_data, Rd); (f_primary, Rd); (f_c_lru, Rd); (f_c_lru, Wr); (f_lru, Rd); (f_lru, Wr)] []].
Definition bad_table : list (string * scope) := [("fetch"%string, bad_fetch)].
Example race_free_detects_nonvacuous :
  race_free bad_table = false /\ exists c, reachable bad_table c /\ race c.
Proof.
  split; [vm_compute; reflexivity|].
  pose (k1 := Scope (Some (l_access_lock, Shared)) [(f_c_data, Rd); (f_primary, Rd); (f_c_lru, Rd); (f_c_lru, Wr); (f_lru, Rd); (f_lru, Wr)] []).
  pose (f0 := mkframe [] bad_fetch).
  pose (c1 := upd init 0 [f0]).
  pose (c2 := upd c1 0 (mkframe (fheld f0) k1 :: mkF (fheld f0) (faccs f0) [] :: [])).
  pose (c3 := upd c2 1 [f0]).
  pose (c4 := upd c3 1 (mkframe (fheld f0) k1 :: mkF (fheld f0) (faccs f0) [] :: [])).
  exists c4. split.
  - eapply reach_step; [eapply reach_step; [eapply reach_step; [eapply reach_step; [apply reach_init|]|]|]|].
    + apply (step_call _ init 0%nat "fetch"%string bad_fetch); [reflexivity|left; reflexivity|exact I].
    + apply (step_enter _ c1 0%nat f0 [] [] k1 []); [reflexivity|reflexivity|].
      intros u m' Hu Hin. unfold c1 in Hin. rewrite upd_other in Hin by exact Hu. simpl in Hin. contradiction.
    + apply (step_call _ c2 1%nat "fetch"%string bad_fetch); [reflexivity|left; reflexivity|exact I].
    + apply (step_enter _ c3 1%nat f0 [] [] k1 []); [reflexivity|reflexivity|].
      intros u m' Hu Hin. destruct u as [|[|u]].
      * vm_compute in Hin. destruct Hin as [E|[]]. inversion E. split; reflexivity.
      * contradiction.
      * vm_compute in Hin. contradiction.
  - exists 0%nat, 1%nat, f_lru, Wr. split; [discriminate|]. vm_compute. split; tauto.
Qed.

(* linearizability is not trivially true: a fetch that returns a value for a key nobody stored is not linearizable;
   and it is not trivially false: two overlapping calls (store, fetch) of the atomic-effect system give a history in
   which the fetch returns the stored entry, which the theorem declares linearizable *)
Example linearizable_nonvacuous :
  (forall limit now k v tr d g,
     ~ linearizable cstate Seq.cop Seq.cret (cache_eff now) (cache_s0 limit)
         [Inv Seq.cop Seq.cret 0 0 (Seq.OFetch k); Res Seq.cop Seq.cret 0 (Seq.RHit v tr d g)]) /\
  linearizable cstate Seq.cop Seq.cret (cache_eff 1000%Z) (cache_s0 0%N) ex_hist.
Proof.
  split; [exact hit_without_store_not_linearizable|].
  destruct ex_hist_reachable as (c & Hr & <-). now apply cache_atomic_linearizable_l.
Qed.

(* the two-phase theorems talk about real executions: thread 0 runs store (writes primary under the exclusive lock) and
   returns, then thread 1 runs fetch and reads primary under the shared lock: a reachable instrumented configuration
   whose log holds two conflicting accesses of different calls, ordered like their lock points (1 < 6) *)
Definition xg1 := do_call ginit 0 m_store.
Definition xf0 := mkframe [] m_store.
Definition xg2 := do_enter xg1 0 xf0 [] (kid0 m_store) [].
Definition xf1 := mkframe (fheld xf0) (kid0 m_store).
Definition xg3 := do_acc xg2 xf1 f_primary Wr 0.
Definition xg4 := do_exit xg3 0 [mkF (fheld xf0) (faccs xf0) []].
Definition xg5 := do_exit xg4 0 [].
Definition xg6 := do_call xg5 1 m_fetch.
Definition xh0 := mkframe [] m_fetch.
Definition xg7 := do_enter xg6 1 xh0 [] (kid0 m_fetch) [].
Definition xh1 := mkframe (fheld xh0) (kid0 m_fetch).
Definition xg8 := do_acc xg7 xh1 f_primary Rd 1.

Ltac no_holder Hu Hin :=
  match type of Hin with In _ (held (_ ?u)) =>
    destruct u as [|[|u]]; try (exfalso; now apply Hu); vm_compute in Hin; try contradiction end.

Example two_phase_nonvacuous :
  greachable Gen_locktab.table xg8 /\
  exists a1 a2, In a1 (g_log xg8) /\ In a2 (g_log xg8) /\ (a_time a1 < a_time a2)%nat /\ a_txn a1 <> a_txn a2 /\
    conflict (a_field a1, a_rw a1) (a_field a2, a_rw a2) = true /\
    (lp_of xg8 (a_txn a1) < lp_of xg8 (a_txn a2))%nat /\ t_end (g_txn xg8 (a_txn a1)) = Some 4%nat.
Proof.
  split.
  - eapply greach_step; [eapply greach_step; [eapply greach_step; [eapply greach_step; [eapply greach_step; [eapply greach_step; [eapply greach_step; [eapply greach_step; [apply greach_init|]|]|]|]|]|]|]|].
    + apply (do_call_step _ ginit 0%nat "store"%string m_store); [reflexivity|vm_compute; tauto|exact I].
    + apply (do_enter_step _ xg1 0%nat xf0 [] [] (kid0 m_store) []); [reflexivity|reflexivity|].
      intros u m' Hu Hin. no_holder Hu Hin.
    + apply (do_acc_step _ xg2 0%nat xf1 [mkF (fheld xf0) (faccs xf0) []] f_primary Wr 0%nat); [reflexivity|vm_compute; tauto|reflexivity].
    + apply (do_exit_step _ xg3 0%nat xf1 [mkF (fheld xf0) (faccs xf0) []]). reflexivity.
    + apply (do_exit_step _ xg4 0%nat (mkF (fheld xf0) (faccs xf0) []) []). reflexivity.
    + apply (do_call_step _ xg5 1%nat "fetch"%string m_fetch); [reflexivity|vm_compute; tauto|exact I].
    + apply (do_enter_step _ xg6 1%nat xh0 [] [] (kid0 m_fetch) []); [reflexivity|reflexivity|].
      intros u m' Hu Hin. no_holder Hu Hin.
    + apply (do_acc_step _ xg7 1%nat xh1 [mkF (fheld xh0) (faccs xh0) []] f_primary Rd 1%nat); [reflexivity|vm_compute; tauto|reflexivity].
  - exists (mkA 0 f_primary Wr 2 (fheld xf1)), (mkA 1 f_primary Rd 7 (fheld xh1)).
    vm_compute. repeat split; try tauto; try lia; try discriminate.
Qed.

(* the lock-level data model really interleaves: two fetches of the same key are inside their shared periods at the
   same time, both decide hit, then move the LRU entry in the opposite order, then copy out; both return the stored
   entry (and by lock_model_linearizable the history is linearizable) *)
Definition lk : C07.Defs.key := [107; 49]%N.
Definition lv : list N := [1; 2; 3]%N.
Ltac fwd H tac :=
  let H' := fresh "H" in
  eassert (H' : creachable 1000%Z 0%N _); [eapply creach_step; [exact H | tac] | clear H; rename H' into H; vm_compute in H].
Ltac alone := let u := fresh "u" in let Hu := fresh "Hu" in
  intros u Hu; destruct u as [|[|[|u]]]; try (exfalso; now apply Hu); try split; reflexivity.
Example lock_model_nonvacuous :
  exists c, creachable 1000%Z 0%N c /\
    cc_hist c = [Inv _ _ 0 0 (Seq.OStore lk lv [] 2000%Z None); Res _ _ 0 Seq.RUnit;
                 Inv _ _ 1 1 (Seq.OFetch lk); Inv _ _ 2 2 (Seq.OFetch lk);
                 Res _ _ 1 (Seq.RHit lv [lk] 2000%Z 0%N); Res _ _ 2 (Seq.RHit lv [lk] 2000%Z 0%N)] /\
    C07.Defs.lru (cc_st c) = [lk].
Proof.
  pose proof (creach_init 1000%Z 0%N) as H.
  fwd H ltac:(apply (cs_inv _ _ 0%nat (Seq.OStore lk lv [] 2000%Z None)); reflexivity).
  fwd H ltac:(eapply (cs_lock_x _ _ 0%nat); [reflexivity|alone]).
  fwd H ltac:(eapply (cs_effect _ _ 0%nat); reflexivity).
  fwd H ltac:(eapply (cs_unlock_x _ _ 0%nat); reflexivity).
  fwd H ltac:(eapply (cs_res_x _ _ 0%nat); reflexivity).
  fwd H ltac:(apply (cs_inv _ _ 1%nat (Seq.OFetch lk)); reflexivity).
  fwd H ltac:(apply (cs_inv _ _ 2%nat (Seq.OFetch lk)); reflexivity).
  fwd H ltac:(eapply (cs_lock_s _ _ 1%nat); [reflexivity|alone]).
  fwd H ltac:(eapply (cs_lock_s _ _ 2%nat); [reflexivity|alone]).
  fwd H ltac:(eapply (cs_hit _ _ 1%nat); reflexivity).
  fwd H ltac:(eapply (cs_hit _ _ 2%nat); reflexivity).
  fwd H ltac:(eapply (cs_move _ _ 2%nat); reflexivity).
  fwd H ltac:(eapply (cs_move _ _ 1%nat); reflexivity).
  fwd H ltac:(eapply (cs_copy _ _ 1%nat); reflexivity).
  fwd H ltac:(eapply (cs_copy _ _ 2%nat); reflexivity).
  fwd H ltac:(eapply (cs_unlock_s _ _ 1%nat); reflexivity).
  fwd H ltac:(eapply (cs_unlock_s _ _ 2%nat); reflexivity).
  fwd H ltac:(eapply (cs_res_s _ _ 1%nat); reflexivity).
  fwd H ltac:(eapply (cs_res_s _ _ 2%nat); reflexivity).
  eexists. split; [exact H|]. split; vm_compute; reflexivity.
Qed.
