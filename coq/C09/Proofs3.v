(* C09 proofs, part 3: a system in which every call takes effect atomically at one step between its invocation and its
   response produces only linearizable histories (generic in the sequential object) *)
From CppcmsV Require Import Base.Tac C09.Defs.

Section LinProof.
  Variables (St Op Ret : Type) (eff : St -> Op -> St * Ret) (s0 : St).
  Notation lconfig := (lconfig St Op Ret).
  Notation lstep := (lstep St Op Ret eff).
  Notation lreachable := (lreachable St Op Ret eff s0).
  Notation seq_legal := (seq_legal St Op Ret eff).
  Notation seq_run := (seq_run St Op Ret eff).
  Notation hev := (hev Op Ret).
  Notation lin_ids := (lin_ids Op Ret).

  Lemma updo_same {A} (g : nat -> A) t v : updo g t v t = v.
  Proof. unfold updo. now rewrite Nat.eqb_refl. Qed.
  Lemma updo_other {A} (g : nat -> A) t v u : u <> t -> updo g t v u = g u.
  Proof. unfold updo. intros H. destruct (Nat.eqb_spec u t); [contradiction|reflexivity]. Qed.

  Lemma seq_run_app s l id o r : seq_run s (l ++ [(id, o, r)]) = fst (eff (seq_run s l) o).
  Proof. revert s. induction l as [|[[i o'] r'] l IH]; intros s; simpl; [reflexivity|apply IH]. Qed.

  Lemma seq_legal_app s l id o r :
    seq_legal s l -> snd (eff (seq_run s l) o) = r -> seq_legal s (l ++ [(id, o, r)]).
  Proof.
    revert s. induction l as [|[[i o'] r'] l IH]; intros s Hl He; simpl in *.
    - split; [exact He|exact I].
    - destruct Hl as [H1 H2]. split; [exact H1|]. apply IH; assumption.
  Qed.

  Lemma before_app_r {A} (l : list A) x a b : before l a b -> before (l ++ [x]) a b.
  Proof.
    intros (l1 & l2 & l3 & ->). exists l1, l2, (l3 ++ [x]).
    rewrite <- !app_assoc. simpl. rewrite <- app_assoc. reflexivity.
  Qed.

  Lemma before_last {A} (l : list A) a x : In a l -> before (l ++ [x]) a x.
  Proof.
    intros H. apply in_split in H. destruct H as (l1 & l2 & ->). exists l1, l2, [].
    rewrite <- app_assoc. reflexivity.
  Qed.

  Lemma before_snoc_inv {A} (l : list A) x a b : before (l ++ [x]) a b -> before l a b \/ b = x.
  Proof.
    intros (l1 & l2 & l3 & E).
    destruct l3 as [|y l3] using rev_ind.
    - right. assert (H : l ++ [x] = (l1 ++ a :: l2) ++ [b]) by (rewrite E, <- app_assoc; reflexivity).
      apply app_inj_tail in H. destruct H as [_ H]. now symmetry.
    - left. clear IHl3.
      assert (H : l ++ [x] = (l1 ++ a :: l2 ++ b :: l3) ++ [y]).
      { rewrite E. rewrite <- !app_assoc. simpl. rewrite <- !app_assoc. reflexivity. }
      apply app_inj_tail in H. destruct H as [H _]. exists l1, l2, l3. exact H.
  Qed.

  Lemma before_in_l {A} (l : list A) a b : before l a b -> In a l.
  Proof. intros (l1 & l2 & l3 & ->). apply in_or_app. right. now left. Qed.

  Lemma NoDup_app_tail {A} (l : list A) x : NoDup l -> ~ In x l -> NoDup (l ++ [x]).
  Proof.
    induction l as [|y l IH]; intros Hnd Hx; simpl.
    - constructor; [intros []|constructor].
    - inversion Hnd; subst. constructor.
      + intros Hin. apply in_app_or in Hin. destruct Hin as [Hin|[E|[]]]; [contradiction|]. apply Hx. now left.
      + apply IH; [assumption|]. intros Hin. apply Hx. now right.
  Qed.

  Definition pend_ok (c : lconfig) : Prop :=
    forall t id o, l_ph _ _ _ c t = Pending Op Ret id o ->
      id < l_next _ _ _ c /\ ~ In id (lin_ids (l_lin _ _ _ c)) /\ (forall r, ~ In (Res Op Ret id r) (l_hist _ _ _ c)) /\
      In (Inv Op Ret id t o) (l_hist _ _ _ c).
  Definition done_ok (c : lconfig) : Prop :=
    forall t id r, l_ph _ _ _ c t = Done Op Ret id r -> exists o, In (id, o, r) (l_lin _ _ _ c).
  Definition pend_uniq (c : lconfig) : Prop :=
    forall t u id o id' o', t <> u -> l_ph _ _ _ c t = Pending Op Ret id o -> l_ph _ _ _ c u = Pending Op Ret id' o' -> id <> id'.

  Definition linv (c : lconfig) : Prop :=
    (seq_legal s0 (l_lin _ _ _ c) /\ seq_run s0 (l_lin _ _ _ c) = l_st _ _ _ c) /\
    NoDup (lin_ids (l_lin _ _ _ c)) /\
    (forall id, In id (lin_ids (l_lin _ _ _ c)) -> id < l_next _ _ _ c) /\
    pend_ok c /\ done_ok c /\ pend_uniq c /\
    (forall id r, In (Res Op Ret id r) (l_hist _ _ _ c) -> exists o, In (id, o, r) (l_lin _ _ _ c)) /\
    (forall id o r, In (id, o, r) (l_lin _ _ _ c) -> exists t, In (Inv Op Ret id t o) (l_hist _ _ _ c)) /\
    (forall id1 o1 r1 id2 o2 r2 t2, In (id1, o1, r1) (l_lin _ _ _ c) -> In (id2, o2, r2) (l_lin _ _ _ c) ->
        before (l_hist _ _ _ c) (Res Op Ret id1 r1) (Inv Op Ret id2 t2 o2) ->
        before (l_lin _ _ _ c) (id1, o1, r1) (id2, o2, r2)).

  Lemma lin_ids_app l e : lin_ids (l ++ [e]) = lin_ids l ++ [fst (fst e)].
  Proof. unfold lin_ids. rewrite map_app. reflexivity. Qed.

  Lemma in_lin_ids l id o r : In (id, o, r) l -> In id (lin_ids l).
  Proof. intros H. unfold lin_ids. apply in_map_iff. exists (id, o, r). split; [reflexivity|exact H]. Qed.

  Lemma linv_init : linv (linit St Op Ret s0).
  Proof.
    unfold linv, linit, pend_ok, done_ok, pend_uniq. simpl.
    repeat split; try (intros; try discriminate; try contradiction; fail).
    all: try (constructor; fail).
    all: try (intros id1 o1 r1 id2 o2 r2 t2 H; contradiction).
  Qed.

  Lemma linv_step c c' : linv c -> lstep c c' -> linv c'.
  Proof.
    intros ((Hleg & Hrun) & Hnd & Hlt & Hp & Hd & Hu & Hres & Hinv & Hrt) Hs.
    destruct Hs as [c t o Hidle | c t id o Hpend | c t id r Hdone]; unfold linv, pend_ok, done_ok, pend_uniq; simpl.
    - (* invocation *)
      split; [split; assumption|]. split; [assumption|].
      split; [intros id Hid; specialize (Hlt id Hid); lia|].
      split; [|split; [|split; [|split; [|split]]]].
      + intros u id o' Hph. destruct (Nat.eq_dec u t) as [->|Hne].
        * rewrite updo_same in Hph. inversion Hph; subst id o'. simpl.
          split; [lia|]. split; [intros Hin; specialize (Hlt _ Hin); lia|]. split.
          -- intros r Hin. apply in_app_or in Hin. destruct Hin as [Hin|[E|[]]]; [|discriminate].
             destruct (Hres _ _ Hin) as (o' & Ho'). specialize (Hlt _ (in_lin_ids _ _ _ _ Ho')). lia.
          -- apply in_or_app. right. now left.
        * rewrite updo_other in Hph by assumption. destruct (Hp u id o' Hph) as (A & B & C & D). simpl.
          split; [lia|]. split; [exact B|]. split.
          -- intros r Hin. apply in_app_or in Hin. destruct Hin as [Hin|[E|[]]]; [|discriminate]. now apply (C r).
          -- apply in_or_app. now left.
      + intros u id r Hph. destruct (Nat.eq_dec u t) as [->|Hne].
        * rewrite updo_same in Hph. discriminate.
        * rewrite updo_other in Hph by assumption. simpl. now apply (Hd u).
      + intros u1 u2 id1 o1 id2 o2 Hne H1 H2.
        destruct (Nat.eq_dec u1 t) as [->|N1], (Nat.eq_dec u2 t) as [->|N2].
        * contradiction.
        * rewrite updo_same in H1. rewrite updo_other in H2 by assumption. inversion H1; subst.
          destruct (Hp u2 id2 o2 H2) as (A & _). lia.
        * rewrite updo_same in H2. rewrite updo_other in H1 by assumption. inversion H2; subst.
          destruct (Hp u1 id1 o1 H1) as (A & _). lia.
        * rewrite updo_other in H1, H2 by assumption. apply (Hu u1 u2 id1 o1 id2 o2); assumption.
      + intros id r Hin. apply in_app_or in Hin. destruct Hin as [Hin|[E|[]]]; [|discriminate]. now apply Hres.
      + intros id o' r Hin. destruct (Hinv _ _ _ Hin) as (u & Hu'). exists u. apply in_or_app. now left.
      + intros id1 o1 r1 id2 o2 r2 t2 H1 H2 Hb. apply before_snoc_inv in Hb. destruct Hb as [Hb|E].
        * eapply Hrt; eauto.
        * inversion E; subst. specialize (Hlt _ (in_lin_ids _ _ _ _ H2)). lia.
    - (* effect *)
      destruct (Hp t id o Hpend) as (Hidlt & Hnotin & Hnores & Hinvh).
      split; [split|].
      + apply seq_legal_app; [exact Hleg|]. rewrite Hrun. reflexivity.
      + rewrite seq_run_app, Hrun. reflexivity.
      + split; [|split; [|split; [|split; [|split; [|split; [|split]]]]]].
        * rewrite lin_ids_app. simpl. apply NoDup_app_tail; [exact Hnd|exact Hnotin].
        * intros id' Hin. rewrite lin_ids_app in Hin. apply in_app_or in Hin. destruct Hin as [Hin|[<-|[]]]; [now apply Hlt|exact Hidlt].
        * intros u id' o' Hph. destruct (Nat.eq_dec u t) as [->|Hne].
          -- rewrite updo_same in Hph. discriminate.
          -- rewrite updo_other in Hph by assumption. destruct (Hp u id' o' Hph) as (A & B & C & D). simpl.
             split; [exact A|]. split; [|split; [exact C|exact D]].
             rewrite lin_ids_app. intros Hin. apply in_app_or in Hin. destruct Hin as [Hin|[E|[]]]; [now apply B|].
             simpl in E. apply (Hu t u id o id' o'); auto.
        * intros u id' r Hph. destruct (Nat.eq_dec u t) as [->|Hne].
          -- rewrite updo_same in Hph. inversion Hph; subst. exists o. apply in_or_app. right. now left.
          -- rewrite updo_other in Hph by assumption. destruct (Hd u id' r Hph) as (o' & Ho'). exists o'. apply in_or_app. now left.
        * intros u1 u2 id1 o1 id2 o2 Hne H1 H2.
          destruct (Nat.eq_dec u1 t) as [->|N1]; [rewrite updo_same in H1; discriminate|].
          destruct (Nat.eq_dec u2 t) as [->|N2]; [rewrite updo_same in H2; discriminate|].
          rewrite updo_other in H1, H2 by assumption. apply (Hu u1 u2 id1 o1 id2 o2); assumption.
        * intros id' r Hin. destruct (Hres _ _ Hin) as (o' & Ho'). exists o'. apply in_or_app. now left.
        * intros id' o' r Hin. apply in_app_or in Hin. destruct Hin as [Hin|[E|[]]]; [now apply (Hinv _ _ r)|].
          inversion E; subst. exists t. exact Hinvh.
        * intros id1 o1 r1 id2 o2 r2 t2 H1 H2 Hb.
          apply in_app_or in H1. apply in_app_or in H2.
          destruct H1 as [H1|[E1|[]]].
          -- destruct H2 as [H2|[E2|[]]].
             ++ apply before_app_r. eapply Hrt; eauto.
             ++ rewrite <- E2. apply before_last. exact H1.
          -- apply before_in_l in Hb. inversion E1; subst. exfalso. exact (Hnores _ Hb).
    - (* response *)
      split; [split; assumption|]. split; [assumption|]. split; [assumption|].
      split; [|split; [|split; [|split; [|split]]]].
      + intros u id' o' Hph. destruct (Nat.eq_dec u t) as [->|Hne].
        * rewrite updo_same in Hph. discriminate.
        * rewrite updo_other in Hph by assumption. destruct (Hp u id' o' Hph) as (A & B & C & D). simpl.
          split; [exact A|]. split; [exact B|]. split.
          -- intros r' Hin. apply in_app_or in Hin. destruct Hin as [Hin|[E|[]]]; [now apply (C r')|].
             inversion E; subst. destruct (Hd t id' r' Hdone) as (o'' & Ho''). apply B. eapply in_lin_ids; eauto.
          -- apply in_or_app. now left.
      + intros u id' r' Hph. destruct (Nat.eq_dec u t) as [->|Hne].
        * rewrite updo_same in Hph. discriminate.
        * rewrite updo_other in Hph by assumption. simpl. now apply (Hd u).
      + intros u1 u2 id1 o1 id2 o2 Hne H1 H2.
        destruct (Nat.eq_dec u1 t) as [->|N1]; [rewrite updo_same in H1; discriminate|].
        destruct (Nat.eq_dec u2 t) as [->|N2]; [rewrite updo_same in H2; discriminate|].
        rewrite updo_other in H1, H2 by assumption. apply (Hu u1 u2 id1 o1 id2 o2); assumption.
      + intros id' r' Hin. apply in_app_or in Hin. destruct Hin as [Hin|[E|[]]]; [now apply Hres|].
        inversion E; subst. now apply (Hd t).
      + intros id' o' r' Hin. destruct (Hinv _ _ _ Hin) as (u & Hu'). exists u. apply in_or_app. now left.
      + intros id1 o1 r1 id2 o2 r2 t2 H1 H2 Hb. apply before_snoc_inv in Hb. destruct Hb as [Hb|E]; [|discriminate].
        eapply Hrt; eauto.
  Qed.

  Lemma lreachable_linv c : lreachable c -> linv c.
  Proof. induction 1; [apply linv_init|eapply linv_step; eauto]. Qed.

  Theorem atomic_effect_linearizable_l : forall c, lreachable c -> linearizable St Op Ret eff s0 (l_hist _ _ _ c).
  Proof.
    intros c Hr. destruct (lreachable_linv c Hr) as ((Hleg & _) & Hnd & _ & _ & _ & _ & Hres & Hinv & Hrt).
    exists (l_lin _ _ _ c). repeat split; assumption.
  Qed.

  (* the state reached is the one the sequential object reaches on the linearization *)
  Theorem atomic_effect_state_l : forall c, lreachable c -> seq_run s0 (l_lin _ _ _ c) = l_st _ _ _ c.
  Proof. intros c Hr. destruct (lreachable_linv c Hr) as ((_ & Hrun) & _). exact Hrun. Qed.
End LinProof.
