(* C09 proofs, part 2: per-member guard lemmas (the property's words: no torn value) *)
From CppcmsV Require Import Base.Tac C09.Defs C09.Proofs1.
From Coq Require Import String.

Section Guard.
  Variable tbl : table.

  Lemma holds_lock_spec l h : holds_lock l h = true -> exists m, In (l, m) h.
  Proof.
    unfold holds_lock. intros H. apply existsb_exists in H. destruct H as ([l' m] & Hin & E).
    simpl in E. apply N.eqb_eq in E. subst l'. now exists m.
  Qed.

  Lemma holds_excl_spec l h : holds_excl l h = true -> In (l, Excl) h.
  Proof.
    unfold holds_excl. intros H. apply existsb_exists in H. destruct H as ([l' m] & Hin & E).
    simpl in E. apply andb_true_iff in E. destruct E as [E1 E2]. apply N.eqb_eq in E1. subst l'.
    destruct m; [discriminate|exact Hin].
  Qed.

  Lemma top_node c t f st : reachable tbl c -> c t = f :: st -> In (fheld f, faccs f) (all_nodes tbl).
  Proof.
    intros Hr Hct. destruct (reachable_inv tbl c Hr) as (Hf & _ & _).
    assert (Hfo : frame_ok tbl f) by (apply (Hf t); rewrite Hct; now left).
    destruct Hfo as (Hn & _). exact Hn.
  Qed.

  (* a thread standing at an access to member f holds lock l *)
  Lemma field_guarded_sound_l f l :
    field_guarded tbl f l = true ->
    forall c, reachable tbl c -> forall t r, In (f, r) (cur_accs (c t)) -> exists m, In (l, m) (held (c t)).
  Proof.
    intros Hg c Hr t r Hin. destruct (c t) as [|fr st] eqn:Ect; [simpl in Hin; contradiction|]. simpl in Hin |- *.
    pose proof (top_node c t fr st Hr Ect) as Hn.
    unfold field_guarded in Hg. rewrite forallb_forall in Hg. specialize (Hg _ Hn). simpl in Hg.
    apply orb_true_iff in Hg. destruct Hg as [Hg|Hg].
    - apply negb_true_iff in Hg. exfalso. apply not_true_iff_false in Hg. apply Hg.
      apply existsb_exists. exists (f, r). split; [exact Hin|]. simpl. apply N.eqb_refl.
    - now apply holds_lock_spec.
  Qed.

  (* a thread standing at a write of member f holds lock l exclusively, so that nobody else holds l at all *)
  Lemma writer_alone_l f l :
    writes_guarded_excl tbl f l = true ->
    forall c, reachable tbl c -> forall t, In (f, Wr) (cur_accs (c t)) ->
      In (l, Excl) (held (c t)) /\ forall u m, u <> t -> ~ In (l, m) (held (c u)).
  Proof.
    intros Hg c Hr t Hin. destruct (c t) as [|fr st] eqn:Ect; [simpl in Hin; contradiction|]. simpl in Hin.
    pose proof (top_node c t fr st Hr Ect) as Hn.
    unfold writes_guarded_excl in Hg. rewrite forallb_forall in Hg. specialize (Hg _ Hn). simpl in Hg.
    apply orb_true_iff in Hg. destruct Hg as [Hg|Hg].
    - apply negb_true_iff in Hg. exfalso. apply not_true_iff_false in Hg. apply Hg.
      apply existsb_exists. exists (f, Wr). split; [exact Hin|]. simpl. now rewrite N.eqb_refl.
    - apply holds_excl_spec in Hg. split; [simpl; exact Hg|].
      intros u m Hne Hu.
      assert (Ht : In (l, Excl) (held (c t))) by (rewrite Ect; exact Hg).
      destruct (mutual_exclusion_l tbl c Hr t u l Excl m (not_eq_sym Hne) Ht Hu) as [E _]. discriminate.
  Qed.

  (* a reader of member f under lock l is never concurrent with a writer of f, when all writers take l exclusively *)
  Lemma reader_stable_l f l :
    writes_guarded_excl tbl f l = true -> field_guarded tbl f l = true ->
    forall c, reachable tbl c -> forall t u r, t <> u ->
      In (f, r) (cur_accs (c t)) -> ~ In (f, Wr) (cur_accs (c u)).
  Proof.
    intros Hw Hg c Hr t u r Hne Hrd Hwr.
    destruct (field_guarded_sound_l f l Hg c Hr t r Hrd) as (m & Hm).
    destruct (writer_alone_l f l Hw c Hr u Hwr) as (_ & Halone).
    apply (Halone t m Hne Hm).
  Qed.
End Guard.
