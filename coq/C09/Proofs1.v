(* C09 proofs, part 1: lock-set invariant => no data race; lock order => no deadlock *)
From CppcmsV Require Import Base.Tac C09.Defs.
From Coq Require Import String.

Lemma nodes_eq h lk accs ks :
  nodes h (Scope lk accs ks) = (push lk h, accs) :: flat_map (nodes (push lk h)) ks.
Proof.
  reflexivity.
Qed.

Lemma ordered_scope_eq h lk accs ks :
  ordered_scope h (Scope lk accs ks) =
  (match lk with Some (l, _) => forallb (fun x => N.ltb (fst x) l) h | None => true end) &&
  forallb (ordered_scope (push lk h)) ks.
Proof.
  reflexivity.
Qed.

Lemma mode_compat_true a b : mode_compat a b = true <-> a = Shared /\ b = Shared.
Proof. destruct a, b; simpl; split; intros H; try discriminate; try (destruct H; discriminate); auto. Qed.

Lemma upd_same c t s : upd c t s t = s.
Proof. unfold upd. now rewrite Nat.eqb_refl. Qed.
Lemma upd_other c t s u : u <> t -> upd c t s u = c u.
Proof. unfold upd. intros H. destruct (Nat.eqb_spec u t); [contradiction|reflexivity]. Qed.

Section Inv.
  Variable tbl : table.

  Definition frame_ok (f : frame) : Prop :=
    In (fheld f, faccs f) (all_nodes tbl) /\
    (forall k, In k (frest f) -> incl (nodes (fheld f) k) (all_nodes tbl)) /\
    (ordered tbl = true -> forall k, In k (frest f) -> ordered_scope (fheld f) k = true).

  Fixpoint stack_mono (st : tstate) : Prop :=
    match st with
    | f1 :: tl => match tl with f2 :: _ => incl (fheld f2) (fheld f1) | [] => True end /\ stack_mono tl
    | [] => True
    end.

  Definition excl_inv (c : config) : Prop :=
    forall t u l m m', t <> u -> In (l, m) (held (c t)) -> In (l, m') (held (c u)) -> m = Shared /\ m' = Shared.

  Definition inv (c : config) : Prop :=
    (forall t f, In f (c t) -> frame_ok f) /\ (forall t, stack_mono (c t)) /\ excl_inv c.

  Lemma mkframe_held h k : fheld (mkframe h k) = push (scope_lock k) h.
  Proof. destruct k; reflexivity. Qed.
  Lemma mkframe_accs h k : faccs (mkframe h k) = scope_accs k.
  Proof. destruct k; reflexivity. Qed.
  Lemma mkframe_rest h k : frest (mkframe h k) = scope_kids k.
  Proof. destruct k; reflexivity. Qed.

  Lemma push_incl lk h : incl h (push lk h).
  Proof. destruct lk; simpl; intros x Hx; auto. now right. Qed.

  Lemma mkframe_ok h k :
    incl (nodes h k) (all_nodes tbl) -> (ordered tbl = true -> ordered_scope h k = true) -> frame_ok (mkframe h k).
  Proof.
    destruct k as [lk accs ks]. rewrite nodes_eq. intros Hin Hord. unfold frame_ok. simpl. repeat split.
    - apply Hin. now left.
    - intros k Hk x Hx. apply Hin. right. apply in_flat_map. exists k. split; assumption.
    - intros Ho k Hk. specialize (Hord Ho). rewrite ordered_scope_eq in Hord.
      apply andb_true_iff in Hord. destruct Hord as [_ Hord]. rewrite forallb_forall in Hord. now apply Hord.
  Qed.

  Lemma table_nodes name m : In (name, m) tbl -> incl (nodes [] m) (all_nodes tbl).
  Proof. intros H x Hx. unfold all_nodes. apply in_flat_map. exists (name, m). split; assumption. Qed.

  Lemma table_ordered name m : In (name, m) tbl -> ordered tbl = true -> ordered_scope [] m = true.
  Proof. intros H Ho. unfold ordered in Ho. rewrite forallb_forall in Ho. apply (Ho (name, m) H). Qed.

  Lemma excl_inv_upd c t s' :
    excl_inv c ->
    (forall l m, In (l, m) (held s') ->
       In (l, m) (held (c t)) \/ (forall u m', u <> t -> In (l, m') (held (c u)) -> m = Shared /\ m' = Shared)) ->
    excl_inv (upd c t s').
  Proof.
    intros He Hn t1 u1 l m m' Hne H1 H2.
    destruct (Nat.eq_dec t1 t) as [E1|E1], (Nat.eq_dec u1 t) as [E2|E2]; subst.
    - contradiction.
    - rewrite upd_same in H1. rewrite upd_other in H2 by assumption.
      destruct (Hn _ _ H1) as [Hold|Hnew].
      + apply (He t u1 l m m'); auto.
      + apply (Hnew u1 m'); auto.
    - rewrite upd_same in H2. rewrite upd_other in H1 by assumption.
      destruct (Hn _ _ H2) as [Hold|Hnew].
      + apply (He t1 t l m m'); auto.
      + destruct (Hnew t1 m) as [A B]; auto.
    - rewrite upd_other in H1, H2 by assumption. apply (He t1 u1 l m m'); auto.
  Qed.

  Lemma inv_init : inv init.
  Proof.
    unfold inv, init. repeat split; simpl; try contradiction; auto.
  Qed.

  Lemma inv_step c c' : inv c -> step tbl c c' -> inv c'.
  Proof.
    intros (Hf & Hm & He) Hs. destruct Hs as [c t name m Hidle Hin Hacq | c t f st pre k post Hct Hrest Hacq | c t f st Hct].
    - (* call *)
      split; [|split].
      + intros u g Hg. destruct (Nat.eq_dec u t) as [->|Hne].
        * rewrite upd_same in Hg. destruct Hg as [<-|[]].
          apply mkframe_ok; [now apply (table_nodes name)|now apply (table_ordered name)].
        * rewrite upd_other in Hg by assumption. eapply Hf; eauto.
      + intros u. destruct (Nat.eq_dec u t) as [->|Hne].
        * rewrite upd_same. simpl. auto.
        * rewrite upd_other by assumption. apply Hm.
      + apply excl_inv_upd; [assumption|]. intros l mo Hl. simpl in Hl. rewrite mkframe_held in Hl.
        destruct (scope_lock m) as [[l0 m0]|] eqn:El; simpl in Hl; [|contradiction].
        destruct Hl as [E|[]]. inversion E; subst. right. intros u m' Hu Hh. simpl in Hacq. eapply Hacq; eauto.
    - (* enter *)
      assert (Hfok : frame_ok f) by (apply (Hf t); rewrite Hct; now left).
      assert (Hk : In k (frest f)) by (rewrite Hrest; apply in_or_app; right; now left).
      split; [|split].
      + intros u g Hg. destruct (Nat.eq_dec u t) as [->|Hne].
        * rewrite upd_same in Hg. destruct Hg as [<-|[<-|Hg]].
          -- destruct Hfok as (_ & Hn & Ho). apply mkframe_ok; [now apply Hn|intros; now apply Ho].
          -- destruct Hfok as (Hn0 & Hn & Ho). unfold frame_ok; simpl. repeat split; auto.
             ++ intros k' Hk'. apply Hn. rewrite Hrest. apply in_or_app. right. now right.
             ++ intros Hot k' Hk'. apply Ho; auto. rewrite Hrest. apply in_or_app. right. now right.
          -- apply (Hf t). rewrite Hct. now right.
        * rewrite upd_other in Hg by assumption. eapply Hf; eauto.
      + intros u. destruct (Nat.eq_dec u t) as [->|Hne].
        * rewrite upd_same. specialize (Hm t). rewrite Hct in Hm. simpl in Hm. simpl. split; [|split].
          -- rewrite mkframe_held. apply push_incl.
          -- destruct Hm as [Hm _]. exact Hm.
          -- destruct Hm as [_ Hm]. exact Hm.
        * rewrite upd_other by assumption. apply Hm.
      + apply excl_inv_upd; [assumption|]. intros l mo Hl. simpl in Hl. rewrite mkframe_held in Hl.
        rewrite Hct. simpl.
        destruct (scope_lock k) as [[l0 m0]|] eqn:El; simpl in Hl.
        * destruct Hl as [E|Hl]; [|now left]. inversion E; subst. right. intros u m' Hu Hh. simpl in Hacq. eapply Hacq; eauto.
        * now left.
    - (* exit *)
      split; [|split].
      + intros u g Hg. destruct (Nat.eq_dec u t) as [->|Hne].
        * rewrite upd_same in Hg. apply (Hf t). rewrite Hct. now right.
        * rewrite upd_other in Hg by assumption. eapply Hf; eauto.
      + intros u. destruct (Nat.eq_dec u t) as [->|Hne].
        * rewrite upd_same. specialize (Hm t). rewrite Hct in Hm. simpl in Hm. apply Hm.
        * rewrite upd_other by assumption. apply Hm.
      + apply excl_inv_upd; [assumption|]. intros l mo Hl. left. rewrite Hct. simpl.
        specialize (Hm t). rewrite Hct in Hm. simpl in Hm. destruct st as [|f2 st']; simpl in Hl; [contradiction|].
        destruct Hm as [Hi _]. now apply Hi.
  Qed.

  Lemma reachable_inv c : reachable tbl c -> inv c.
  Proof. induction 1; [apply inv_init|eapply inv_step; eauto]. Qed.

  (* ---------------- theorem 1: the boolean check on the table implies absence of races ---------------- *)
  Lemma protects_spec h1 h2 :
    protects h1 h2 = true -> exists l m1 m2, In (l, m1) h1 /\ In (l, m2) h2 /\ mode_compat m1 m2 = false.
  Proof.
    unfold protects. intros H. apply existsb_exists in H. destruct H as ([l1 m1] & H1 & H).
    apply existsb_exists in H. destruct H as ([l2 m2] & H2 & H). simpl in H.
    apply andb_true_iff in H. destruct H as [E C]. apply N.eqb_eq in E. subst l2.
    exists l1, m1, m2. repeat split; auto. now apply negb_true_iff in C.
  Qed.

  Lemma race_free_nodes :
    race_free tbl = true ->
    forall n1 n2 a1 a2, In n1 (all_nodes tbl) -> In n2 (all_nodes tbl) -> In a1 (snd n1) -> In a2 (snd n2) ->
      conflict a1 a2 = true -> protects (fst n1) (fst n2) = true.
  Proof.
    unfold race_free. intros H n1 n2 a1 a2 H1 H2 Ha1 Ha2 Hc.
    rewrite forallb_forall in H. specialize (H n1 H1). rewrite forallb_forall in H. specialize (H n2 H2).
    unfold node_pair_ok in H. rewrite forallb_forall in H. specialize (H a1 Ha1).
    rewrite forallb_forall in H. specialize (H a2 Ha2). rewrite Hc in H. simpl in H. exact H.
  Qed.

  Theorem race_free_sound_l : race_free tbl = true -> forall c, reachable tbl c -> ~ race c.
  Proof.
    intros Hrf c Hr (t & u & f & r & Hne & Ht & Hu).
    destruct (reachable_inv c Hr) as (Hf & _ & He).
    destruct (c t) as [|ft stt] eqn:Ect; [simpl in Ht; contradiction|].
    destruct (c u) as [|fu stu] eqn:Ecu; [simpl in Hu; contradiction|].
    simpl in Ht, Hu.
    assert (Hft : frame_ok ft) by (apply (Hf t); rewrite Ect; now left).
    assert (Hfu : frame_ok fu) by (apply (Hf u); rewrite Ecu; now left).
    destruct Hft as (Hnt & _). destruct Hfu as (Hnu & _).
    pose proof (race_free_nodes Hrf _ _ (f, Wr) (f, r) Hnt Hnu Ht Hu) as Hp. simpl in Hp.
    assert (Hc : conflict (f, Wr) (f, r) = true) by (unfold conflict; simpl; now rewrite N.eqb_refl).
    specialize (Hp Hc). apply protects_spec in Hp. destruct Hp as (l & m1 & m2 & H1 & H2 & Hcm).
    destruct (He t u l m1 m2 Hne) as [-> ->].
    - rewrite Ect. exact H1.
    - rewrite Ecu. exact H2.
    - discriminate.
  Qed.

  (* a thread standing at an access holds every lock of the node it is in; in particular
     two threads inside scopes whose lock sets exclude each other never coexist *)
  Theorem mutual_exclusion_l : forall c, reachable tbl c ->
    forall t u l m m', t <> u -> In (l, m) (held (c t)) -> In (l, m') (held (c u)) -> m = Shared /\ m' = Shared.
  Proof. intros c Hr. destruct (reachable_inv c Hr) as (_ & _ & He). exact He. Qed.

  (* ---------------- theorem: no deadlock ---------------- *)
  Definition lock_bound : N :=
    N.succ (fold_right N.max 0%N (flat_map (fun n : node => map fst (fst n)) (all_nodes tbl))).

  Lemma fold_max_ge l x : In x l -> (x <= fold_right N.max 0 l)%N.
  Proof. induction l as [|y l IH]; simpl; [contradiction|]. intros [->|H]; [lia|]. specialize (IH H). lia. Qed.

  Lemma lock_bounded h a l m : In (h, a) (all_nodes tbl) -> In (l, m) h -> (l < lock_bound)%N.
  Proof.
    intros Hn Hl. unfold lock_bound. apply N.lt_succ_r. apply fold_max_ge.
    apply in_flat_map. exists (h, a). split; [assumption|]. simpl. apply in_map_iff. exists (l, m). auto.
  Qed.

  Definition wants (c : config) (t : nat) (l : lockid) : Prop :=
    exists f st pre k post m u m',
      c t = f :: st /\ frest f = pre ++ k :: post /\ scope_lock k = Some (l, m) /\
      u <> t /\ In (l, m') (held (c u)) /\ mode_compat m m' = false.

  Lemma waiting_wants c t : waiting c t <-> exists l, wants c t l.
  Proof.
    unfold waiting, wants. split.
    - intros (f & st & pre & k & post & l & m & u & m' & H). exists l, f, st, pre, k, post, m, u, m'. exact H.
    - intros (l & f & st & pre & k & post & m & u & m' & H). exists f, st, pre, k, post, l, m, u, m'. exact H.
  Qed.

  Lemma no_chain (Ho : ordered tbl = true) c (Hr : reachable tbl c)
        (Hall : forall t, c t <> [] -> waiting c t) :
    forall n t l, (N.to_nat (lock_bound - l) <= n)%nat -> wants c t l -> False.
  Proof.
    destruct (reachable_inv c Hr) as (Hf & _ & _).
    induction n as [|n IH]; intros t l Hn (f & st & pre & k & post & m & u & m' & Hct & Hrest & Hlk & Hne & Hheld & Hcm).
    - (* l < bound contradicts bound - l = 0 *)
      assert (Hfo : frame_ok f) by (apply (Hf t); rewrite Hct; now left).
      destruct Hfo as (_ & Hnk & _).
      assert (Hk : In k (frest f)) by (rewrite Hrest; apply in_or_app; right; now left).
      specialize (Hnk k Hk). destruct k as [lk accs ks]. simpl in Hlk. subst lk. rewrite nodes_eq in Hnk.
      assert (In (push (Some (l, m)) (fheld f), accs) (all_nodes tbl)) as Hin by (apply Hnk; now left).
      pose proof (lock_bounded _ _ l m Hin (or_introl eq_refl)). lia.
    - (* the holder u is active, hence waiting for a larger lock *)
      destruct (c u) as [|fu stu] eqn:Ecu; [simpl in Hheld; contradiction|]. simpl in Hheld.
      assert (Hwu : waiting c u) by (apply Hall; rewrite Ecu; discriminate).
      apply waiting_wants in Hwu. destruct Hwu as (l' & Hw').
      assert (Hlt : (l < l')%N).
      { destruct Hw' as (f2 & st2 & pre2 & k2 & post2 & m2 & u2 & m2' & Hcu & Hrest2 & Hlk2 & _).
        rewrite Ecu in Hcu. inversion Hcu; subst f2 st2.
        assert (Hfo : frame_ok fu) by (apply (Hf u); rewrite Ecu; now left).
        destruct Hfo as (_ & _ & Hok).
        assert (Hk2 : In k2 (frest fu)) by (rewrite Hrest2; apply in_or_app; right; now left).
        specialize (Hok Ho k2 Hk2). destruct k2 as [lk2 accs2 ks2]. simpl in Hlk2. subst lk2.
        rewrite ordered_scope_eq in Hok. apply andb_true_iff in Hok. destruct Hok as [Hok _].
        rewrite forallb_forall in Hok. specialize (Hok (l, m') Hheld). simpl in Hok. now apply N.ltb_lt in Hok. }
      assert (Hb : (l' < lock_bound)%N).
      { destruct Hw' as (f2 & st2 & pre2 & k2 & post2 & m2 & u2 & m2' & Hcu & Hrest2 & Hlk2 & _).
        assert (Hfo : frame_ok f2) by (apply (Hf u); rewrite Hcu; now left).
        destruct Hfo as (_ & Hnk & _).
        assert (Hk2 : In k2 (frest f2)) by (rewrite Hrest2; apply in_or_app; right; now left).
        specialize (Hnk k2 Hk2). destruct k2 as [lk2 accs2 ks2]. simpl in Hlk2. subst lk2. rewrite nodes_eq in Hnk.
        assert (In (push (Some (l', m2)) (fheld f2), accs2) (all_nodes tbl)) as Hin by (apply Hnk; now left).
        apply (lock_bounded _ _ l' m2 Hin (or_introl eq_refl)). }
      apply (IH u l'); [lia|exact Hw'].
  Qed.

  Theorem deadlock_free_l : ordered tbl = true -> forall c, reachable tbl c ->
    (exists t, c t <> []) -> ~ (forall t, c t <> [] -> waiting c t).
  Proof.
    intros Ho c Hr (t0 & Ht0) Hall. pose proof (Hall t0 Ht0) as Hw. apply waiting_wants in Hw. destruct Hw as (l & Hw).
    eapply no_chain; eauto.
  Qed.

End Inv.
