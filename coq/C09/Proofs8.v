(* C09 proofs, part 8: alternative paths of a method (a complete call of another locked method made outside every
   lock and followed by return): the decidable check alt_paths_ok means what it says. *)
From CppcmsV Require Import Base.Tac C09.Defs.
From Coq Require Import String.

Lemma mode_eqb_eq a b : mode_eqb a b = true -> a = b.
Proof. destruct a, b; simpl; congruence. Qed.
Lemma rw_eqb_eq a b : rw_eqb a b = true -> a = b.
Proof. destruct a, b; simpl; congruence. Qed.
Lemma olock_eqb_eq a b : olock_eqb a b = true -> a = b.
Proof.
  destruct a as [[l1 m1]|], b as [[l2 m2]|]; simpl; try congruence.
  intros H. apply andb_true_iff in H. destruct H as [H1 H2].
  apply N.eqb_eq in H1. apply mode_eqb_eq in H2. subst. reflexivity.
Qed.
Lemma accs_eqb_eq a : forall b, accs_eqb a b = true -> a = b.
Proof.
  induction a as [|[f1 r1] a IH]; intros [|[f2 r2] b]; simpl; try congruence.
  intros H. apply andb_true_iff in H. destruct H as [H H3]. apply andb_true_iff in H. destruct H as [H1 H2].
  apply N.eqb_eq in H1. apply rw_eqb_eq in H2. apply IH in H3. subst. reflexivity.
Qed.

(* induction on the nesting depth of a scope *)
Fixpoint depth (s : scope) : nat :=
  match s with
  | Scope _ _ ks => S ((fix go (l : list scope) : nat := match l with [] => 0 | k :: l' => Nat.max (depth k) (go l') end) ks)
  end.
Definition depths (l : list scope) : nat := fold_right (fun k n => Nat.max (depth k) n) 0%nat l.
Lemma depth_eq lk a ks : depth (Scope lk a ks) = S (depths ks).
Proof. reflexivity. Qed.

Lemma scope_eqb_unfold l1 a1 k1 l2 a2 k2 :
  scope_eqb (Scope l1 a1 k1) (Scope l2 a2 k2) = olock_eqb l1 l2 && accs_eqb a1 a2 && scopes_eqb k1 k2.
Proof. reflexivity. Qed.

Lemma scope_eqb_eq_n n : forall a b, (depth a <= n)%nat -> scope_eqb a b = true -> a = b.
Proof.
  induction n as [|n IH]; intros [l1 a1 k1] [l2 a2 k2] Hd.
  - rewrite depth_eq in Hd. lia.
  - rewrite depth_eq in Hd. rewrite scope_eqb_unfold. intros H.
    apply andb_true_iff in H. destruct H as [H H3]. apply andb_true_iff in H. destruct H as [H1 H2].
    apply olock_eqb_eq in H1. apply accs_eqb_eq in H2. subst. f_equal.
    assert (Hk : (depths k1 <= n)%nat) by lia. clear Hd.
    revert k2 H3 Hk. induction k1 as [|p k1 IHk]; intros [|q k2]; simpl; try congruence.
    intros H Hk. apply andb_true_iff in H. destruct H as [Hp Hq].
    f_equal; [apply IH; [lia|exact Hp]|apply IHk; [exact Hq|lia]].
Qed.
Lemma scope_eqb_eq a b : scope_eqb a b = true -> a = b.
Proof. apply (scope_eqb_eq_n (depth a)). lia. Qed.
Lemma scopes_eqb_eq x : forall y, scopes_eqb x y = true -> x = y.
Proof.
  induction x as [|p x IH]; intros [|q y]; simpl; try congruence.
  intros H. apply andb_true_iff in H. destruct H as [Hp Hq]. f_equal; [now apply scope_eqb_eq|now apply IH].
Qed.
Lemma scope_eqb_refl_n n : forall a, (depth a <= n)%nat -> scope_eqb a a = true.
Proof.
  induction n as [|n IH]; intros [l a k] Hd; rewrite depth_eq in Hd; [lia|].
  rewrite scope_eqb_unfold. repeat (apply andb_true_iff; split).
  - destruct l as [[l m]|]; simpl; [|reflexivity]. rewrite N.eqb_refl. now destruct m.
  - clear. induction a as [|[f r] a IHa]; simpl; [reflexivity|]. rewrite N.eqb_refl, IHa. now destruct r.
  - assert (Hk : (depths k <= n)%nat) by lia. clear Hd. induction k as [|p k IHk]; simpl in *; [reflexivity|].
    rewrite IH by lia. apply IHk. lia.
Qed.

Lemma lookup_scope_in name tbl m : lookup_scope name tbl = Some m -> In (name, m) tbl.
Proof.
  induction tbl as [|[n s] tbl IH]; simpl; [congruence|].
  destruct (String.eqb_spec n name) as [->|Hne].
  - intros E. inversion E. now left.
  - intros E. right. now apply IH.
Qed.

(* what the check means: the path is an entry of the table under the caller's name (so every table theorem covers
   it), it takes no lock of its own at the root, and its critical sections are literally those of an entry of the
   callee *)
Theorem alt_paths_ok_sound_l : forall tbl alts, alt_paths_ok tbl alts = true ->
  forall caller callee p, In (caller, callee, p) alts ->
    In (caller, p) tbl /\ scope_lock p = None /\ exists m, In (callee, m) tbl /\ scope_kids p = scope_kids m.
Proof.
  intros tbl alts H caller callee p Hin. unfold alt_paths_ok in H. rewrite forallb_forall in H.
  specialize (H _ Hin). unfold alt_path_ok in H. apply andb_true_iff in H. destruct H as [H1 H2].
  apply existsb_exists in H1. destruct H1 as ([n s] & Hs & He). simpl in He.
  apply andb_true_iff in He. destruct He as [En Es]. apply String.eqb_eq in En. apply scope_eqb_eq in Es. subst.
  split; [exact Hs|].
  destruct (scope_lock p); [discriminate|]. split; [reflexivity|].
  destruct (lookup_scope callee tbl) as [m|] eqn:El; [|discriminate].
  exists m. split; [now apply lookup_scope_in|now apply scopes_eqb_eq].
Qed.

(* on such a path the whole call stands, at every moment, where a call of the callee could stand: the frames a thread can
   be in after entering the path are the frames of the callee (same locks held, same accesses, same nested scopes) *)
Lemma alt_path_frames p m : scope_lock p = None -> scope_kids p = scope_kids m -> scope_lock m = None ->
  forall h, frest (mkframe h p) = frest (mkframe h m) /\ fheld (mkframe h p) = fheld (mkframe h m).
Proof.
  destruct p as [lp ap kp], m as [lm am km]. simpl. intros -> -> ->. intros h. split; reflexivity.
Qed.
