(* C01: private/string_map.h string_map - the open-addressing hash map behind connection::env_ in which every
   front-end stores the CGI variables of a request (env_.add while the request is parsed, env_.get for every
   accessor, begin()/end() for request::getenv(), clear() between the requests of a kept-alive connection).
   data_ is the slot vector (None = key==0), first_/next_index the intrusive list of the occupied slots (modelled as
   the list of their positions, head = first_), total_ the number of entries.  Linear probing: pos = hash % size,
   then pos = (pos + 1) % size.  Growth: when total_*2 >= size a vector of twice the size is filled by walking the
   list from first_ (most recently inserted slot first).  The loops of insert() and get() have no bound in the
   code: the model gives them the fuel size and answers None when it runs out (= the real loop would not stop).
   All definitions are parametric in the hash function h; elf_hash is the one of private/hash_map.h.
   Definitions only. *)
From Coq Require Import NArith ZArith List Bool.
From CppcmsV Require Import C01.Defs.
Import ListNotations.

Notation entry := (bytes * bytes)%type.
Notation table := (list (option (bytes * bytes))).
Record smap := mksmap { tbl : table; chain : list nat; total : nat }.

(* string_hash::update_state on uint32_t *)
Definition elf_update (st c : N) : N :=
  (let v := ((st * 16) mod 4294967296 + c) mod 4294967296 in
   let high := N.land v 4026531840 in
   if high =? 0 then v else N.lxor (N.lxor v (N.shiftr high 24)) high)%N.
Definition elf_hash (k : bytes) : N := fold_left elf_update (cstr k) 0%N.

Fixpoint upd (t : table) (p : nat) (x : option entry) : table :=
  match t, p with
  | [], _ => []
  | _ :: r, O => x :: r
  | y :: r, S p' => y :: upd r p' x
  end.

(* (pos + 1) % size for pos < size *)
Definition nxt (n pos : nat) : nat := if Nat.eqb (S pos) n then O else S pos.

Definition slot_free (s : option entry) : bool := match s with None => true | Some _ => false end.
(* the loop condition of get: data_[pos].key && !(data_[pos] == e)  (== compares the hash and the key: the hash is a
   function of the key) *)
Definition slot_stop (k : bytes) (s : option entry) : bool :=
  match s with None => true | Some (k', _) => beqb k k' end.

Fixpoint probe (P : option entry -> bool) (t : table) (fuel pos : nat) : option nat :=
  match fuel with
  | O => None
  | S f => if P (nth pos t None) then Some pos else probe P t f (nxt (length t) pos)
  end.

Section WithHash.
Variable h : bytes -> N.

(* hash % size *)
Definition start (t : table) (k : bytes) : nat := N.to_nat (N.modulo (h k) (N.of_nat (length t))).

(* string_map::insert(d, e, first) *)
Definition insert (tc : table * list nat) (e : entry) : option (table * list nat) :=
  let (t, ch) := tc in
  match probe slot_free t (length t) (start t (fst e)) with
  | Some p => Some (upd t p (Some e), p :: ch)
  | None => None
  end.

Fixpoint insert_all (es : list entry) (tc : table * list nat) : option (table * list nat) :=
  match es with
  | [] => Some tc
  | e :: r => match insert tc e with Some tc' => insert_all r tc' | None => None end
  end.

(* for(iterator p = begin(); p != end(); ++p): the entries in list order *)
Definition entries_of (t : table) (ch : list nat) : list entry :=
  flat_map (fun i => match nth i t None with Some e => [e] | None => [] end) ch.

Definition sm_add (m : smap) (e : entry) : option smap :=
  let tc := if Nat.leb (length (tbl m)) (total m * 2)
            then insert_all (entries_of (tbl m) (chain m)) (repeat None (2 * length (tbl m)), [])
            else Some (tbl m, chain m) in
  match tc with
  | None => None
  | Some tc1 => match insert tc1 e with
                | Some (t, ch) => Some (mksmap t ch (S (total m)))
                | None => None
                end
  end.

(* get: None = the probe loop does not stop; Some None = null pointer (absent); Some (Some v) *)
Definition sm_get (m : smap) (k : bytes) : option (option bytes) :=
  match probe (slot_stop k) (tbl m) (length (tbl m)) (start (tbl m) k) with
  | None => None
  | Some p => Some (match nth p (tbl m) None with Some (_, v) => Some v | None => None end)
  end.

Definition smap0 : smap := mksmap (repeat None 64) [] 0.
Definition sm_clear (m : smap) : smap := smap0.

Fixpoint sm_adds (l : list entry) (m : smap) : option smap :=
  match l with
  | [] => Some m
  | e :: r => match sm_add m e with Some m' => sm_adds r m' | None => None end
  end.

(* trace for the correspondence harness *)
Inductive sop := SAdd (k v : bytes) | SGet (k : bytes) | SClear | SDump.
Inductive sres := RVal (v : option bytes) | RLoop | RDump (size total : nat) (keys : list (nat * bytes)).
Fixpoint sm_run (ops : list sop) (m : smap) : list sres :=
  match ops with
  | [] => []
  | SAdd k v :: r => match sm_add m (k, v) with Some m' => sm_run r m' | None => [RLoop] end
  | SGet k :: r => match sm_get m k with Some v => RVal v :: sm_run r m | None => [RLoop] end
  | SClear :: r => sm_run r (sm_clear m)
  | SDump :: r => RDump (length (tbl m)) (total m) (flat_map (fun i => match nth i (tbl m) None with Some e => [(i, fst e)] | None => [] end) (chain m)) :: sm_run r m
  end.
End WithHash.

Definition smap_run (ops : list sop) : list sres := sm_run elf_hash ops smap0.
