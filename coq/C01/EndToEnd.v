(* C01: cookie list -> Cookie header on the wire -> the cookies the application observes (composition of the header
   reader, the header glue and parse_cookies). *)
From CppcmsV Require Import Base.Tac C15.Defs C01.Defs C01.HttpSpec C01.Enc C01.HttpEnc C01.HttpEncProofs C01.HttpView C01.HttpUri
  C01.HttpFold C01.AgreeG C01.Cookies C01.CookiesProofs C01.Observe C01.ObserveProofs.
Import ListNotations.
Local Open Scope N_scope.

Definition text_fine (s : bytes) : Prop := plain s /\ no_byte 0 s.

Lemma tokens_fine t : tokens t -> text_fine t.
Proof.
  intros T. split; [apply token_plain; exact T|]. apply (token_no 0 t T). reflexivity.
Qed.

Lemma fine_app a b : text_fine a -> text_fine b -> text_fine (a ++ b).
Proof.
  intros (P1 & Z1) (P2 & Z2). split; [apply plain_app; assumption|].
  intros I. apply in_app_or in I. destruct I; [exact (Z1 H)|exact (Z2 H)].
Qed.

Lemma fine_cons c s : plain_char c -> c <> 0 -> text_fine s -> text_fine (c :: s).
Proof.
  intros PC NZ (P & Z). split; [constructor; assumption|]. intros [E|I]; [congruence|exact (Z I)].
Qed.

Lemma enc_cookies_fine l : Forall cookie_ok l -> text_fine (enc_cookies l).
Proof.
  induction l as [|[k v] t IH]; intros OK; [split; [constructor|intros []]|].
  inversion OK as [|x y (Tk & _ & Tv) OKt]; subst. cbn [fst snd] in *. cbn [enc_cookies].
  apply fine_app; [apply tokens_fine; exact Tk|].
  apply fine_cons; [repeat split; discriminate|discriminate|].
  apply fine_app; [apply tokens_fine; exact Tv|].
  destruct t as [|kv t']; [split; [constructor|intros []]|].
  apply fine_cons; [repeat split; discriminate|discriminate|].
  apply fine_cons; [repeat split; discriminate|discriminate|]. apply IH. exact OKt.
Qed.

(* the value text " k1=v1; k2=v2; ..." of a Cookie header is delivered as "k1=v1; k2=v2; ..." *)
Lemma gvalue_cookie_text l : Forall cookie_ok l -> l <> [] ->
  gvalue_ok (32 :: enc_cookies l) /\ gvalue (32 :: enc_cookies l) = enc_cookies l.
Proof.
  intros OK NE. destruct (enc_cookies_fine l OK) as (P & Z).
  assert (plain (32 :: enc_cookies l)) as P2 by (constructor; [repeat split; discriminate|exact P]).
  destruct (plain_gvalue_ok _ P2) as (G & F). split; [exact G|]. unfold gvalue. rewrite F.
  destruct l as [|[k v] t]; [congruence|]. inversion OK as [|x y (Tk & (c & r & Ek & _) & Tv) OKt]; subst. cbn [fst snd] in *.
  assert (skip_ws (32 :: enc_cookies ((k, v) :: t)) = enc_cookies ((k, v) :: t)) as S.
  { change (skip_ws (32 :: enc_cookies ((k, v) :: t))) with (skip_ws (enc_cookies ((k, v) :: t))).
    cbn [enc_cookies]. apply skip_ws_tokens_app; [exact Tk|rewrite Ek; discriminate]. }
  rewrite S. apply cstr_id. exact Z.
Qed.

Theorem http_cookies_end_to_end names m u pr gs v n cs body :
  NoDup (names_of gs) -> In (n, 32 :: enc_cookies cs) gs -> map upper_name n = [67; 79; 79; 75; 73; 69] ->
  Forall cookie_ok cs -> cs <> [] -> NoDup (map fst cs) ->
  process_request names (fold_left add_hdr (map deliver gs) (http_req0 m u pr)) = POk v ->
  o_cookies (observe v body) = cs.
Proof.
  intros ND I UP OK NE NDc P.
  pose proof (http_cookie_delivered names m u pr gs v n _ ND I UP P) as E.
  rewrite (proj2 (gvalue_cookie_text cs OK NE)) in E.
  unfold observe. cbn [o_cookies]. unfold cookies_of_env, env_or_empty. rewrite E. apply parse_cookies_enc; assumption.
Qed.
