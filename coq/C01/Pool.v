(* C01: private/string_map.h string_pool - the arena in which every front-end stores the environment strings of a
   request; clear() is called between the requests of a kept-alive connection.  Pages are malloc blocks; the model
   keeps their capacities (head of the list = head of the pages_ list), the index (counted from the tail, so that it is
   stable when pages are pushed at the head) of the page data_ points into, and free_space_.  Definitions only. *)
From Coq Require Import NArith ZArith List Bool.
Import ListNotations.
Local Open Scope N_scope.

Definition page_size : N := 2048.
Record pool := mkpool { pages : list N; cur : nat; free : N }.
Definition pool0 : pool := mkpool [page_size] 0 page_size.      (* constructor: add_page() *)

(* allocate_space(size): (page index from the tail, offset in the page) and the new state *)
Definition alloc (n : N) (p : pool) : (nat * N) * pool :=
  if page_size <? n * 2 then ((length (pages p), 0), mkpool (n :: pages p) (cur p) (free p))
  else if free p <? n then ((length (pages p), 0), mkpool (page_size :: pages p) (length (pages p)) (page_size - n))
  else ((cur p, page_size - free p), mkpool (pages p) (cur p) (free p - n)).

(* clear(): free every page but the last of the list; data_ = its data; free_space_ = page_size_ *)
Definition clear (p : pool) : pool := mkpool [last (pages p) page_size] 0 page_size.

Inductive op := OAlloc (n : N) | OClear.

(* capacity of the page with index i from the tail *)
Definition cap_of (i : nat) (p : pool) : N := nth i (rev (pages p)) 0.

(* trace: for every allocation (page, offset, size, capacity of that page at that moment) *)
Fixpoint pool_run (ops : list op) (p : pool) : list (nat * N * N * N) :=
  match ops with
  | [] => []
  | OClear :: r => pool_run r (clear p)
  | OAlloc n :: r => let '((i, off), p') := alloc n p in (i, off, n, cap_of i p') :: pool_run r p'
  end.
