(* C01: keep-alive - k requests on one connection are each delivered exactly as if they were alone on a fresh
   connection, for every segmentation; the per-request state (string_pool, env_ map) is reset between requests. *)
From CppcmsV Require Import Base.Tac C15.Defs C01.Defs C01.HttpSpec C01.HttpSeg C01.Chunked C01.ChunkedProofs C01.Enc C01.EncProofs C01.EncProofs2
  C01.HttpEnc C01.HttpEncProofs C01.HttpView C01.HttpUri C01.Proofs C01.Conn C01.ConnProofs C01.EnvOk C01.HttpFold C01.AgreeG C01.Final
  C01.Pool C01.PoolProofs C01.SMap C01.SMapProofs.
Import ListNotations.
Local Open Scope N_scope.

(* ------------------------------------------------------------------ HTTP, header values of every lexical shape *)
Record hg := mkhg { g_m : bytes; g_u : bytes; g_pr : bytes; g_gs : list (bytes * bytes); g_body : bytes; g_v : view }.
Definition hg_wire (q : hg) : bytes := gwire (g_m q) (g_u q) (g_pr q) (g_gs q) ++ g_body q.
Definition hg_ok (names : list bytes) (q : hg) : Prop :=
  req_line_ok (g_m q) (g_u q) (g_pr q) /\ Forall gheader_ok (g_gs q) /\
  process_request names (fold_left add_hdr (map deliver (g_gs q)) (http_req0 (g_m q) (g_u q) (g_pr q))) = POk (g_v q) /\
  (0 <= v_clen (g_v q) <= cl_limit)%Z /\ Z.to_nat (v_clen (g_v q)) = length (g_body q) /\
  N.of_nat (length (gwire (g_m q) (g_u q) (g_pr q) (g_gs q))) <= 16385.

Lemma gwire_nonempty m u pr gs : gwire m u pr gs <> [].
Proof.
  unfold gwire, enc_head. cbn [flat_map]. intros H. apply app_eq_nil in H. destruct H as [_ H]. discriminate H.
Qed.

Theorem http_keepalive_general names : forall qs fuel,
  Forall (hg_ok names) qs -> qs <> [] -> (length qs <= fuel)%nat ->
  http_stream fuel names (flat_map hg_wire qs) = map (fun q => IReq (g_v q) (g_body q)) qs.
Proof.
  induction qs as [|q qs IH]; intros fuel OK NE F; [congruence|].
  destruct fuel as [|f]; [cbn in F; lia|].
  inversion OK as [|x y (RL & HS & P & CL & LB & CAP) OK']; subst.
  cbn [flat_map map]. unfold hg_wire at 1. rewrite <- app_assoc.
  pose proof (http_decode_general (g_m q) (g_u q) (g_pr q) (g_gs q) (g_body q ++ flat_map hg_wire qs) RL HS) as B.
  fold (gwire (g_m q) (g_u q) (g_pr q) (g_gs q)) in B.
  rewrite (http_stream_keepalive_lemma f names _ _ _ (g_v q) B); [| |exact P|exact CL|rewrite app_length; lia].
  2:{ unfold consumed. rewrite !app_length. lia. }
  rewrite LB, firstn_app_exact, skipn_app_exact. f_equal.
  destruct qs as [|q2 qs]; [reflexivity|].
  assert (http_stream f names (flat_map hg_wire (q2 :: qs)) = map (fun q => IReq (g_v q) (g_body q)) (q2 :: qs)) as IH2.
  { apply IH; [exact OK'|discriminate|cbn [length] in *; lia]. }
  clear IH. destruct (flat_map hg_wire (q2 :: qs)) as [|z zs] eqn:E; [|exact IH2].
  exfalso. cbn [flat_map] in E. apply app_eq_nil in E. destruct E as [E _]. unfold hg_wire in E.
  apply app_eq_nil in E. destruct E as [E _]. exact (gwire_nonempty _ _ _ _ E).
Qed.

Theorem http_all_segmentations_general names qs chunks fuel :
  Forall (hg_ok names) qs -> qs <> [] -> (length qs <= fuel)%nat ->
  concat chunks = flat_map hg_wire qs ->
  http_conn fuel names chunks = map (fun q => IReq (g_v q) (g_body q)) qs.
Proof.
  intros OK NE F C.
  pose proof (http_keepalive_general names qs fuel OK NE F) as K.
  rewrite http_conn_stream; rewrite C; [exact K|].
  rewrite K. intros I. apply in_map_iff in I. destruct I as (q & E & _). discriminate E.
Qed.

(* each request is delivered exactly as if it were sent alone, in one piece, on a fresh connection *)
Theorem http_keepalive_as_if_alone names qs chunks fuel :
  Forall (hg_ok names) qs -> qs <> [] -> (length qs <= fuel)%nat ->
  concat chunks = flat_map hg_wire qs ->
  http_conn fuel names chunks = flat_map (fun q => http_conn 1 names [hg_wire q]) qs.
Proof.
  intros OK NE F C. rewrite (http_all_segmentations_general names qs chunks fuel OK NE F C).
  clear NE F C chunks. induction OK as [|q qs Hq OK IH]; [reflexivity|]. cbn [map flat_map]. rewrite <- IH.
  rewrite (http_all_segmentations_general names [q] [hg_wire q] 1); [reflexivity|constructor; [exact Hq|constructor]|discriminate|cbn; lia|].
  cbn. rewrite !app_nil_r. reflexivity.
Qed.

(* FastCGI: k requests, each in its own record layout, any segmentation: each as if alone *)
Theorem fcgi_keepalive_as_if_alone qs chunks fuel :
  Forall freq_ok qs -> Forall (fun q => N.odd (q_flags q) = true) qs -> (length qs <= fuel)%nat -> qs <> [] ->
  concat chunks = flat_map enc_freq qs ->
  fcgi_conn_c fuel (cache_of chunks) = flat_map (fun q => fcgi_conn_c 1 (cache_of [enc_freq q])) qs.
Proof.
  intros OK KA F NE C. rewrite (fcgi_all_segmentations_lemma qs chunks fuel OK KA F NE C).
  clear NE F C chunks. induction OK as [|q qs Hq OK IH]; [reflexivity|]. inversion KA as [|? ? K1 KA']; subst.
  cbn [map flat_map]. rewrite <- (IH KA').
  rewrite (fcgi_all_segmentations_lemma [q] [enc_freq q] 1); [reflexivity|constructor; [exact Hq|constructor]|constructor; [exact K1|constructor]|cbn; lia|discriminate|].
  cbn. rewrite !app_nil_r. reflexivity.
Qed.

(* ------------------------------------------------------------------ the per-request state: string_pool and env_ *)
Fixpoint pool_end (ops : list op) (p : pool) : pool :=
  match ops with
  | [] => p
  | OClear :: r => pool_end r (clear p)
  | OAlloc n :: r => pool_end r (snd (alloc n p))
  end.

Lemma pool_end_inv ops : forall p, inv p -> inv (pool_end ops p).
Proof.
  induction ops as [|o ops IH]; intros p I; [exact I|]. destruct o as [n|]; cbn [pool_end].
  - apply IH. pose proof (alloc_inv n p I) as A. destruct (alloc n p) as [[i off] p']. cbn [snd]. tauto.
  - apply IH. apply clear_inv. exact I.
Qed.

(* storing the variables of a request: pool_.add(name) and pool_.add(value) (alloc of length + 1), env_.add(name, value) *)
Definition req_ops (vars : list (bytes * bytes)) : list op :=
  flat_map (fun kv => [OAlloc (N.of_nat (length (fst kv)) + 1); OAlloc (N.of_nat (length (snd kv)) + 1)]) vars.

Section WithHash.
Variable h : bytes -> N.

(* a kept connection: before every request reset_all() clears the pool and the map, then the variables are stored.
   Result per request: the allocation trace in the pool and the map the accessors read. *)
Fixpoint conn_state_run (reqs : list (list (bytes * bytes))) (p : pool) (m : smap)
  : list (list (nat * N * N * N) * option smap) :=
  match reqs with
  | [] => []
  | vars :: r =>
      let p1 := clear p in
      let m1 := sm_clear m in
      let m2 := sm_adds h vars m1 in
      (pool_run (req_ops vars) p1, m2)
      :: conn_state_run r (pool_end (req_ops vars) p1) (match m2 with Some m' => m' | None => m1 end)
  end.

Definition alone_state (vars : list (bytes * bytes)) : list (nat * N * N * N) * option smap :=
  (pool_run (req_ops vars) pool0, sm_adds h vars smap0).

Theorem keepalive_state_no_leak : forall reqs p m, inv p -> conn_state_run reqs p m = map alone_state reqs.
Proof.
  induction reqs as [|vars r IH]; intros p m I; [reflexivity|]. cbn [conn_state_run map].
  rewrite (clear_is_initial p I). unfold sm_clear. f_equal. apply IH. apply pool_end_inv. exact inv0.
Qed.

(* consequence: on a kept connection every request with distinct variable names reads back exactly its own
   variables, whatever the earlier requests stored *)
Theorem keepalive_env_own_variables : forall reqs p m, inv p -> Forall (fun vars => NoDup (map fst vars)) reqs ->
  Forall2 (fun vars out => exists m', snd out = Some m' /\ forall k, sm_get h m' k = Some (env_get k vars)) reqs (conn_state_run reqs p m).
Proof.
  intros reqs p m I ND. rewrite (keepalive_state_no_leak reqs p m I). clear I p m.
  induction ND as [|vars r N1 ND IH]; [constructor|]. cbn [map]. constructor; [|exact IH].
  destruct (smap_refines_env h vars N1) as (m' & E & _ & G & _). exists m'. split; [exact E|exact G].
Qed.
End WithHash.
