(* C01: header values in the parser's full lexical classes (LWS-folded continuation lines, quoted strings with
   escapes, nested comments) pushed through parse_single_header: what the application gets for a header
   "name:text" is cstr (skip_ws (fold_text text)), where fold_text is what parser::step leaves of the text
   (CRLF SP/HT -> the SP/HT only, everything else verbatim). *)
From CppcmsV Require Import Base.Tac C15.Defs C01.Defs C01.HttpSpec C01.HttpEnc C01.HttpEncProofs C01.HttpView C01.HttpUri.
Import ListNotations.
Local Open Scope N_scope.

(* the parser state with a longer header_ below what was pushed since *)
Definition ext (base : bytes) (p : pst) : pst := mkpst (st p) (brc p) (hdr p ++ base).
Definition depth_ok (p : pst) : Prop :=
  match st p with
  | SpaceOrOther => (2 <= length (hdr p))%nat
  | LfExpected => (1 <= length (hdr p))%nat
  | Idle => False          (* Idle clears header_ *)
  | _ => True
  end.

Lemma drop2_app h base : (2 <= length h)%nat -> drop2 (h ++ base) = drop2 h ++ base.
Proof. destruct h as [|a [|b h]]; cbn; intros; try lia; reflexivity. Qed.

Lemma pbyte_ext base p c p' : depth_ok p -> pbyte p c = inr p' -> pbyte (ext base p) c = inr (ext base p') /\ depth_ok p'.
Proof.
  destruct p as [s b h]. unfold depth_ok, ext, pbyte, classify_start, push. cbn [st brc hdr].
  intros D H. destruct s; cbn [st brc hdr] in *; try contradiction;
    repeat match type of H with context [if ?x then _ else _] => destruct x eqn:? end;
    try discriminate H; injection H as <-; cbn [st brc hdr app length]; try rewrite drop2_app by exact D; cbn [app];
    (split; [reflexivity|cbn; try exact I; try lia]).
Qed.

Lemma feed_ext base : forall l p p', depth_ok p -> feed p l = Some p' -> feed (ext base p) l = Some (ext base p').
Proof.
  induction l as [|c l IH]; intros p p' D H; cbn [feed] in *.
  - injection H as <-. reflexivity.
  - destruct (pbyte p c) as [x|p1] eqn:E; [discriminate|].
    destruct (pbyte_ext base p c p1 D E) as [E2 D2]. rewrite E2. apply IH; assumption.
Qed.

Lemma feed_app a : forall p b, feed p (a ++ b) = match feed p a with Some p1 => feed p1 b | None => None end.
Proof.
  induction a as [|c a IH]; intros p b; cbn [app feed]; [reflexivity|].
  destruct (pbyte p c); [reflexivity|apply IH].
Qed.

Lemma feed_hdr_len : forall l p p', feed p l = Some p' -> (length (hdr p') <= length (hdr p) + length l)%nat.
Proof.
  induction l as [|c l IH]; intros p p' H; cbn [feed] in H.
  - injection H as <-. cbn. lia.
  - destruct (pbyte p c) as [x|p1] eqn:E; [discriminate|]. specialize (IH p1 p' H).
    assert (length (hdr p1) <= S (length (hdr p)))%nat.
    { clear IH H. destruct p as [s b h]. unfold pbyte, classify_start, push in E. cbn [st brc hdr] in E.
      destruct s; repeat match type of E with context [if ?x then _ else _] => destruct x eqn:? end;
        try discriminate E; injection E as <-; cbn [hdr length]; try lia;
        destruct h as [|a1 [|a2 h]]; cbn; lia. }
    cbn [length]. lia.
Qed.

Definition io0 : pst := mkpst InputObserved 0 [].
Definition fold_text (w : bytes) : bytes := match feed io0 w with Some p' => rev (hdr p') | None => [] end.
(* a value text in the lexical classes of the parser: quoted strings and comments are closed, a CR only as part of
   CRLF followed by SP or HT *)
Definition gvalue_ok (w : bytes) : Prop := exists p', feed io0 w = Some p' /\ st p' = InputObserved /\ brc p' = 0.
Definition gline (nw : bytes * bytes) : bytes := fst nw ++ 58 :: snd nw.
Definition gvalue (w : bytes) : bytes := cstr (skip_ws (fold_text w)).
Definition gheader_ok (nw : bytes * bytes) : Prop := all_token (fst nw) /\ gvalue_ok (snd nw).
Definition deliver (nw : bytes * bytes) : bytes * bytes := (fst nw, gvalue (snd nw)).

Lemma feed_name n : all_token n -> feed idle0 (n ++ [58]) = Some (ext (rev (n ++ [58])) io0).
Proof.
  intros (NE & T). rewrite feed_plain_idle.
  - unfold ext, io0. cbn [st brc hdr app]. reflexivity.
  - destruct n; discriminate.
  - apply plain_app; [apply token_plain; exact T|repeat constructor; discriminate].
Qed.

Lemma gline_feed n w p' : all_token n -> feed io0 w = Some p' ->
  feed idle0 (gline (n, w)) = Some (ext (rev (n ++ [58])) p').
Proof.
  intros T F. unfold gline. cbn [fst snd]. change (n ++ 58 :: w) with (n ++ [58] ++ w). rewrite app_assoc, feed_app, (feed_name n T).
  apply feed_ext; [exact I|exact F].
Qed.

Lemma gline_ok nw : gheader_ok nw -> line_ok (gline nw) /\ line_hdr (gline nw) = fst nw ++ 58 :: fold_text (snd nw).
Proof.
  destruct nw as [n w]. intros (T & p' & F & S & B). cbn [fst snd] in *.
  pose proof (gline_feed n w p' T F) as G. split.
  - split.
    + destruct T as (NE & T). unfold gline. cbn [fst snd]. destruct n as [|c n]; [congruence|]. inversion T as [|x y Hc _]; subst.
      destruct (token_char_not_ws c Hc) as (A & A2 & _). cbn [app hd_not_ws]. split; apply N.eqb_neq; assumption.
    + eexists. split; [exact G|]. split; [exact S|exact B].
  - unfold line_hdr. rewrite G. unfold ext. cbn [hdr]. rewrite rev_app_distr, rev_involutive. unfold fold_text. rewrite F.
    rewrite <- app_assoc. reflexivity.
Qed.

Lemma on_header_gline nw r : first_seen r = true -> gheader_ok nw ->
  on_header (line_hdr (gline nw)) r = Some (add_hdr r (deliver nw)).
Proof.
  intros FS OK. rewrite (proj2 (gline_ok nw OK)). destruct OK as (T & _). destruct nw as [n w]. cbn [fst snd] in *.
  unfold on_header. rewrite FS. rewrite (parse_single_header_general n (fold_text w) T).
  unfold add_hdr, deliver, gvalue. cbn [fst snd].
  destruct (beqb (map upper_name n) s_CONTENT_LENGTH); [reflexivity|].
  destruct (beqb (map upper_name n) s_CONTENT_TYPE); reflexivity.
Qed.

Lemma apply_glines gs : forall r, first_seen r = true -> Forall gheader_ok gs ->
  apply_headers (map line_hdr (map gline gs)) r = Some (fold_left add_hdr (map deliver gs) r).
Proof.
  induction gs as [|nw gs IH]; intros r F OK; [reflexivity|].
  inversion OK as [|x y H OK']; subst. cbn [map apply_headers fold_left].
  rewrite (on_header_gline nw r F H). apply IH; [apply add_hdr_first_seen|exact OK'].
Qed.

(* request line + headers with values of every lexical shape: the reader delivers one CGI variable per header with
   the folded text as value *)
Theorem http_decode_general m u pr gs rest :
  req_line_ok m u pr -> Forall gheader_ok gs ->
  brun pst0 hreq0 (enc_head (req_line m u pr :: map gline gs) ++ rest)
  = BFinished (fold_left add_hdr (map deliver gs) (http_req0 m u pr)) rest.
Proof.
  intros RL GS.
  assert (Forall line_ok (req_line m u pr :: map gline gs)) as LO.
  { constructor; [apply (req_line_line_ok m u pr RL)|]. apply Forall_forall. intros l I.
    apply in_map_iff in I. destruct I as (nw & <- & I). rewrite Forall_forall in GS. apply (gline_ok nw (GS nw I)). }
  rewrite (brun_head _ pst0 hreq0 rest eq_refl eq_refl LO).
  cbn [map apply_headers]. rewrite (proj2 (req_line_line_ok m u pr RL)).
  destruct RL as ((NE & T) & _ & Su & Zu & _ & Zp & _).
  rewrite (on_header_req_line m u pr hreq0 eq_refl
             (token_no 32 m T eq_refl) Su (token_no 0 m T eq_refl) Zu Zp).
  cbn [hreq0 env clen ctype app].
  rewrite apply_glines; [reflexivity|reflexivity|exact GS].
Qed.

(* plain values are a special case: the text " v" of hdr_line is folded to itself *)
Lemma plain_gvalue_ok w : plain w -> gvalue_ok w /\ fold_text w = w.
Proof.
  intros P. pose proof (feed_plain w io0 eq_refl P) as F. cbn [io0 brc hdr] in F. rewrite app_nil_r in F. split.
  - eexists. split; [exact F|split; reflexivity].
  - unfold fold_text. rewrite F. cbn [hdr]. apply rev_involutive.
Qed.
