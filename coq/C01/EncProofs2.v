(* C01: SCGI netstring and urlencoded forms: decoders invert the encoders *)
From CppcmsV Require Import Base.Tac Base.Sweep C15.Defs C15.Proofs C01.Defs C01.Enc C01.EncProofs.
Local Open Scope N_scope.

Lemma split_at_app c a b : ~ In c a -> split_at c (a ++ c :: b) = (a, Some b).
Proof.
  induction a as [|x a IH]; intros H; cbn [app split_at].
  - rewrite N.eqb_refl. reflexivity.
  - destruct (N.eqb_spec x c) as [->|NE]; [destruct H; left; reflexivity|].
    rewrite IH; [reflexivity|]. intros I. apply H. right. exact I.
Qed.
Lemma split_at_none c a : ~ In c a -> split_at c a = (a, None).
Proof.
  induction a as [|x a IH]; intros H; cbn [split_at]; [reflexivity|].
  destruct (N.eqb_spec x c) as [->|NE]; [destruct H; left; reflexivity|].
  rewrite IH; [reflexivity|]. intros I. apply H. right. exact I.
Qed.

Lemma no_nul_not_in s : no_nul s -> ~ In 0 s.
Proof. unfold no_nul. rewrite Forall_forall. intros H I. exact (H 0 I eq_refl). Qed.

(* ------------------------------------------------------------------ SCGI *)
Definition scgi_env_ok (e : env_t) : Prop := Forall (fun kv => no_nul (fst kv) /\ no_nul (snd kv)) e.

Lemma scgi_pairs_blob fuel : forall e, (length e < fuel)%nat -> scgi_env_ok e -> scgi_pairs fuel (enc_scgi_blob e) = e.
Proof.
  induction fuel as [|f IH]; intros e F OK; [cbn in F; lia|].
  destruct e as [|[k v] e]; [reflexivity|].
  inversion OK as [|x y (Nk & Nv) OK']; subst. cbn [fst snd] in *.
  cbn [enc_scgi_blob flat_map]. unfold enc_scgi_pair at 1. cbn [fst snd]. rewrite <- !app_assoc. cbn [app].
  cbn [scgi_pairs].
  assert (k ++ 0 :: v ++ 0 :: flat_map enc_scgi_pair e <> []) as NE by (destruct k; discriminate).
  destruct (k ++ 0 :: v ++ 0 :: flat_map enc_scgi_pair e) as [|z zs] eqn:EQ; [congruence|]. rewrite <- EQ. clear z zs EQ NE.
  rewrite (split_at_app 0 k _ (no_nul_not_in k Nk)).
  assert (v ++ 0 :: flat_map enc_scgi_pair e <> []) as NE by (destruct v; discriminate).
  destruct (v ++ 0 :: flat_map enc_scgi_pair e) as [|z zs] eqn:EQ; [congruence|]. rewrite <- EQ. clear z zs EQ NE.
  rewrite (split_at_app 0 v _ (no_nul_not_in v Nv)).
  f_equal. apply IH; [cbn [length] in F; lia|exact OK'].
Qed.

Lemma enc_scgi_blob_length e : (length e <= length (enc_scgi_blob e))%nat.
Proof.
  induction e as [|kv e IH]; [cbn; lia|]. cbn [enc_scgi_blob flat_map length]. rewrite app_length.
  unfold enc_scgi_blob in IH. assert (1 <= length (enc_scgi_pair kv))%nat; [|lia].
  unfold enc_scgi_pair. rewrite !app_length. cbn [length]. lia.
Qed.

Theorem scgi_decode_enc num e body :
  ~ In 58 num -> (length num <= 15)%nat -> atoi num = Z.of_nat (length (enc_scgi_blob e)) ->
  N.of_nat (length (enc_scgi_blob e)) <= 16384 -> (16 < length num + 2 + length (enc_scgi_blob e))%nat ->
  scgi_env_ok e ->
  scgi_decode (enc_scgi num e body) = SOk e body.
Proof.
  intros N58 Ln At Lb Sz OK.
  set (blob := enc_scgi_blob e) in *.
  unfold scgi_decode, enc_scgi. fold blob.
  assert (length (num ++ [58] ++ blob ++ [44] ++ body) = (length num + 2 + length blob + length body)%nat) as LS.
  { rewrite !app_length. cbn [length]. lia. }
  destruct (Nat.ltb_spec (length (num ++ [58] ++ blob ++ [44] ++ body)) 16) as [X|X]; [lia|].
  assert (firstn 16 (num ++ [58] ++ blob ++ [44] ++ body) = num ++ 58 :: firstn (15 - length num) (blob ++ [44] ++ body)) as F16.
  { rewrite firstn_app. rewrite (firstn_all2 (n:=16) num) by lia. f_equal.
    replace (16 - length num)%nat with (S (15 - length num)) by lia. reflexivity. }
  rewrite F16, (split_at_app 58 num _ N58), At.
  destruct (Z.ltb_spec (Z.of_nat (length blob)) 0) as [Y|Y]; [lia|].
  destruct (Z.ltb_spec 16384 (Z.of_nat (length blob))) as [Y2|Y2]; [lia|].
  cbn [orb]. rewrite Nat2Z.id.
  destruct (Nat.leb_spec (length num + 2 + length blob) 16) as [Y3|Y3]; [lia|].
  destruct (Nat.ltb_spec (length (num ++ [58] ++ blob ++ [44] ++ body)) (length num + 2 + length blob)) as [Y4|Y4]; [lia|].
  assert (num ++ [58] ++ blob ++ [44] ++ body = (num ++ [58] ++ blob ++ [44]) ++ body) as AS
    by (rewrite <- !app_assoc; reflexivity).
  assert (length (num ++ [58] ++ blob ++ [44]) = (length num + 2 + length blob)%nat) as LB
    by (rewrite !app_length; cbn [length]; lia).
  rewrite AS, <- LB, firstn_app_exact, skipn_app_exact.
  assert (rev (num ++ [58] ++ blob ++ [44]) = 44 :: rev (num ++ [58] ++ blob)) as RV.
  { rewrite !app_assoc. rewrite rev_app_distr. reflexivity. }
  rewrite RV, LB.
  assert (skipn (length num + 1) (num ++ [58] ++ blob ++ [44]) = blob ++ [44]) as SK.
  { replace (length num + 1)%nat with (length (num ++ [58])) by (rewrite app_length; cbn; lia).
    rewrite (app_assoc num [58]). apply skipn_app_exact. }
  rewrite SK. replace (length num + 2 + length blob - 1 - (length num + 1))%nat with (length blob) by lia.
  rewrite firstn_app_exact. f_equal.
  apply scgi_pairs_blob; [pose proof (enc_scgi_blob_length e); fold blob in H; lia|exact OK].
Qed.

(* ------------------------------------------------------------------ urlencoded forms *)
Lemma urlencode_no c s : bytes_ok s -> urlenc_alphabet c = false -> ~ In c (urlencode s).
Proof.
  intros B A I. pose proof (urlencode_alphabet s B) as H. rewrite forallb_forall in H.
  specialize (H c I). congruence.
Qed.

Lemma urlencode_nonempty s : s <> [] -> urlencode s <> [].
Proof.
  destruct s as [|c s]; [congruence|]. intros _. cbn [urlencode flat_map]. unfold urlenc1.
  destruct (unreserved c); discriminate.
Qed.

Definition form_item_ok (kv : bytes * bytes) : Prop := fst kv <> [] /\ bytes_ok (fst kv) /\ bytes_ok (snd kv).

Lemma enc_form_item_no_amp kv : form_item_ok kv -> ~ In 38 (enc_form_item kv).
Proof.
  intros (_ & Bk & Bv) I. unfold enc_form_item in I. rewrite !in_app_iff in I.
  destruct I as [I|[I|I]].
  - exact (urlencode_no 38 _ Bk eq_refl I).
  - cbn in I. destruct I as [I|[]]. discriminate.
  - exact (urlencode_no 38 _ Bv eq_refl I).
Qed.

Lemma form_item_split kv : form_item_ok kv ->
  exists n0 n, urlencode (fst kv) = n0 :: n /\ split_at 61 (enc_form_item kv) = (n0 :: n, Some (urlencode (snd kv))).
Proof.
  intros (Ne & Bk & Bv). pose proof (urlencode_nonempty _ Ne) as NE.
  destruct (urlencode (fst kv)) as [|n0 n] eqn:E; [congruence|]. exists n0, n. split; [reflexivity|].
  unfold enc_form_item. rewrite E. apply (split_at_app 61 (n0 :: n)). rewrite <- E.
  exact (urlencode_no 61 _ Bk eq_refl).
Qed.

Lemma enc_form_cons kv r : r <> [] -> enc_form (kv :: r) = enc_form_item kv ++ 38 :: enc_form r.
Proof. destruct r; [congruence|reflexivity]. Qed.

Lemma enc_form_item_nonempty kv : form_item_ok kv -> enc_form_item kv <> [].
Proof.
  intros (Ne & _ & _). unfold enc_form_item. pose proof (urlencode_nonempty _ Ne).
  destruct (urlencode (fst kv)); [congruence|discriminate].
Qed.

Lemma form_pairs_enc fuel : forall l, (length l < fuel)%nat -> Forall form_item_ok l ->
  form_pairs fuel (enc_form l) = Some l /\ form_pairs_keep fuel (enc_form l) = l.
Proof.
  induction fuel as [|f IH]; intros l F OK; [cbn in F; lia|].
  destruct l as [|[k v] l]; [split; reflexivity|].
  inversion OK as [|x y Hkv OK']; subst.
  pose proof (enc_form_item_nonempty _ Hkv) as NE.
  pose proof (enc_form_item_no_amp _ Hkv) as NA.
  destruct (form_item_split _ Hkv) as (n0 & n & En & Sp). cbn [fst snd] in *.
  destruct Hkv as (_ & Bk & Bv). cbn [fst snd] in *.
  destruct l as [|kv2 l].
  - cbn [enc_form form_pairs form_pairs_keep].
    destruct (enc_form_item (k, v)) as [|z zs] eqn:EQ; [congruence|]. rewrite <- EQ in *.
    rewrite (split_at_none 38 _ NA), Sp.
    destruct f as [|f]; [cbn in F; lia|]. cbn [form_pairs form_pairs_keep].
    rewrite <- En, !urldecode_urlencode by assumption. split; reflexivity.
  - rewrite enc_form_cons by discriminate.
    cbn [form_pairs form_pairs_keep].
    destruct (enc_form_item (k, v) ++ 38 :: enc_form (kv2 :: l)) as [|z zs] eqn:EQ.
    { destruct (enc_form_item (k, v)); discriminate. }
    rewrite <- EQ. clear z zs EQ.
    rewrite (split_at_app 38 _ _ NA), Sp.
    destruct (IH (kv2 :: l)) as [I1 I2]; [cbn [length] in *; lia|exact OK'|].
    rewrite I1, I2, <- En, !urldecode_urlencode by assumption. split; reflexivity.
Qed.

Lemma enc_form_length l : Forall form_item_ok l -> (length l <= length (enc_form l))%nat.
Proof.
  induction 1 as [|kv l H _ IH]; [cbn; lia|].
  pose proof (enc_form_item_nonempty _ H) as NE.
  destruct l as [|kv2 l].
  - cbn [enc_form length]. destruct (enc_form_item kv); [congruence|cbn; lia].
  - rewrite enc_form_cons by discriminate. rewrite app_length. cbn [length] in *. lia.
Qed.

Theorem parse_form_roundtrip l : Forall form_item_ok l ->
  parse_form (enc_form l) = l /\ parse_post_form (enc_form l) = l.
Proof.
  intros OK. unfold parse_form, parse_post_form.
  destruct (form_pairs_enc (S (length (enc_form l))) l) as [A B];
    [pose proof (enc_form_length l OK); lia|exact OK|].
  rewrite A, B. split; reflexivity.
Qed.

(* boolean versions of the side conditions, for the concrete Examples *)
Definition piece_okb (x : bytes * N) : bool :=
  negb (match fst x with [] => true | _ => false end) && (N.of_nat (length (fst x)) <=? 65535) && (snd x <? 256).
Lemma layout_okb_ok (l : layout) : forallb piece_okb l = true -> layout_ok l.
Proof.
  intros H. unfold layout_ok. apply Forall_forall. intros x I. rewrite forallb_forall in H. specialize (H x I).
  unfold piece_okb in H. apply andb_true_iff in H. destruct H as [H H3]. apply andb_true_iff in H. destruct H as [H1 H2].
  unfold piece_ok. repeat split.
  - destruct (fst x); discriminate.
  - apply N.leb_le. exact H2.
  - apply N.ltb_lt. exact H3.
Qed.

Definition no_nulb (s : bytes) : bool := forallb (fun c => negb (c =? 0)) s.
Lemma no_nulb_ok s : no_nulb s = true -> no_nul s.
Proof.
  intros H. apply Forall_forall. intros c I. unfold no_nulb in H. rewrite forallb_forall in H. specialize (H c I).
  apply negb_true_iff in H. apply N.eqb_neq in H. exact H.
Qed.
Definition pair_okb (kv : bytes * bytes) : bool :=
  no_nulb (fst kv) && no_nulb (snd kv) && (N.of_nat (length (fst kv)) <? 2147483648) && (N.of_nat (length (snd kv)) <? 2147483648).
Lemma env_okb_ok e : forallb pair_okb e = true -> env_ok e.
Proof.
  intros H. apply Forall_forall. intros x I. rewrite forallb_forall in H. specialize (H x I). unfold pair_okb in H.
  apply andb_true_iff in H. destruct H as [H H4]. apply andb_true_iff in H. destruct H as [H H3].
  apply andb_true_iff in H. destruct H as [H1 H2].
  repeat split; [apply no_nulb_ok; exact H1|apply no_nulb_ok; exact H2|apply N.ltb_lt; exact H3|apply N.ltb_lt; exact H4].
Qed.
Lemma scgi_env_okb_ok e : forallb (fun kv => no_nulb (fst kv) && no_nulb (snd kv)) e = true -> scgi_env_ok e.
Proof.
  intros H. apply Forall_forall. intros x I. rewrite forallb_forall in H. specialize (H x I).
  apply andb_true_iff in H. destruct H as [H1 H2]. split; apply no_nulb_ok; assumption.
Qed.
Definition form_item_okb (kv : bytes * bytes) : bool :=
  negb (match fst kv with [] => true | _ => false end) && bytes_okb (fst kv) && bytes_okb (snd kv).
Lemma form_okb_ok l : forallb form_item_okb l = true -> Forall form_item_ok l.
Proof.
  intros H. apply Forall_forall. intros x I. rewrite forallb_forall in H. specialize (H x I). unfold form_item_okb in H.
  apply andb_true_iff in H. destruct H as [H H3]. apply andb_true_iff in H. destruct H as [H1 H2].
  repeat split; [destruct (fst x); discriminate|apply bytes_okb_spec; exact H2|apply bytes_okb_spec; exact H3].
Qed.
