(* C01/C02: executable model of the three request front-ends of cppcms
     - embedded HTTP server: private/http_parser.h (parser::getc/ungetc/step) and
       src/http_api.cpp (some_headers_data_read, parse_single_header, process_request, async_read_some)
     - SCGI: src/scgi_api.cpp (on_first_read, on_headers_chunk_read)
     - FastCGI: src/fastcgi_api.cpp (record reader over the cache_, BEGIN_REQUEST / PARAMS / STDIN handling,
       read_len, parse_pairs)
     - common: src/http_request.cpp (parse_form_urlencoded), src/util.cpp urldecode (from C15)
   Bytes are N, strings are list N.  No proofs in this file. *)
From Coq Require Import NArith ZArith List Bool.
From CppcmsV Require Import C15.Defs.
Import ListNotations.
Local Open Scope N_scope.

Definition bytes := list N.

(* ------------------------------------------------------------------ small string functions *)
Fixpoint beqb (a b : bytes) : bool :=
  match a, b with
  | [], [] => true
  | x :: a', y :: b' => (x =? y) && beqb a' b'
  | _, _ => false
  end.

(* a char* handed on as a C string ends at the first NUL *)
Fixpoint cstr (s : bytes) : bytes :=
  match s with
  | [] => []
  | c :: r => if c =? 0 then [] else c :: cstr r
  end.

(* split at the first occurrence of byte c: (before, Some after) or (all, None) *)
Fixpoint split_at (c : N) (s : bytes) : bytes * option bytes :=
  match s with
  | [] => ([], None)
  | x :: r => if x =? c then ([], Some r)
              else let (a, b) := split_at c r in (x :: a, b)
  end.

Fixpoint starts_with (p s : bytes) : bool :=
  match p, s with
  | [], _ => true
  | x :: p', y :: s' => (x =? y) && starts_with p' s'
  | _ :: _, [] => false
  end.

(* ------------------------------------------------------------------ private/http_protocol.h *)
Definition separator (c : N) : bool :=
  (c =? 40) || (c =? 41) || (c =? 60) || (c =? 62) || (c =? 64) || (c =? 44) || (c =? 59) || (c =? 58)
  || (c =? 92) || (c =? 34) || (c =? 47) || (c =? 91) || (c =? 93) || (c =? 63) || (c =? 61)
  || (c =? 123) || (c =? 125) || (c =? 32) || (c =? 9).
Definition token_char (c : N) : bool := (32 <=? c) && (c <=? 126) && negb (separator c).

(* tocken(begin,end): longest prefix of token characters -> (token, rest) *)
Fixpoint tocken (s : bytes) : bytes * bytes :=
  match s with
  | c :: r => if token_char c then let (t, rest) := tocken r in (c :: t, rest) else ([], s)
  | [] => ([], [])
  end.

(* skip_ws: SP, HT and LWS = CR LF (SP|HT) *)
Fixpoint skip_ws (s : bytes) : bytes :=
  match s with
  | c :: r =>
      if (c =? 32) || (c =? 9) then skip_ws r
      else if c =? 13 then
        match r with
        | 10 :: r2 => match r2 with
                      | d :: r3 => if (d =? 32) || (d =? 9) then skip_ws r3 else s
                      | [] => s
                      end
        | _ => s
        end
      else s
  | [] => []
  end.

(* ------------------------------------------------------------------ atoll (glibc): leading white space, sign,
   digits, saturating at the long long range *)
Definition isspace (c : N) : bool := (c =? 32) || ((9 <=? c) && (c <=? 13)).
Fixpoint skip_space (s : bytes) : bytes :=
  match s with c :: r => if isspace c then skip_space r else s | [] => [] end.
Fixpoint digits_val (acc : Z) (s : bytes) : Z :=
  match s with
  | c :: r => if (48 <=? c) && (c <=? 57) then digits_val (acc * 10 + Z.of_N (c - 48)) r else acc
  | [] => acc
  end.
Definition llmax : Z := 9223372036854775807%Z.
Definition atoll (s : bytes) : Z :=
  let s := skip_space s in
  match s with
  | 45 :: r => let v := digits_val 0 r in if Z.ltb llmax v then (- llmax - 1)%Z else (- v)%Z
  | 43 :: r => Z.min (digits_val 0 r) llmax
  | _ => Z.min (digits_val 0 s) llmax
  end.
(* atoi on the SCGI length: values beyond int wrap in glibc (strtol then truncation); the model keeps the
   exact value and only the range test of the caller matters; inputs with more than 9 digits are classified
   separately by the correspondence generator *)
Definition atoi (s : bytes) : Z :=
  let s := skip_space s in
  match s with
  | 45 :: r => (- digits_val 0 r)%Z
  | 43 :: r => digits_val 0 r
  | _ => digits_val 0 s
  end.

(* ------------------------------------------------------------------ the input device of the HTTP reader
   input_body_ (buf), input_body_ptr_ (ptr) and parser::ungot_ *)
Record dev := mkdev { buf : bytes; ptr : nat; ungot : list N }.

Definition getc (d : dev) : option N * dev :=
  match ungot d with
  | c :: u => (Some c, mkdev (buf d) (ptr d) u)
  | [] => match nth_error (buf d) (ptr d) with
          | Some c => (Some c, mkdev (buf d) (S (ptr d)) [])
          | None => (None, mkdev [] 0 [])           (* body_->clear(); *body_ptr_=0; return -1 *)
          end
  end.
Definition ungetc (c : N) (d : dev) : dev :=
  match ptr d with
  | S p => mkdev (buf d) p (ungot d)
  | O => mkdev (buf d) O (c :: ungot d)
  end.

Inductive pstate := Idle | InputObserved | LastLf | LfExpected | SpaceOrOther
                  | QuoteExpected | PassQuote | BracketExpected | PassBracket.
Inductive presult := MoreData | GotHeader | EndOfHeaders | ErrorObserved.

(* parser state: state_, bracket_counter_, header_ (kept reversed) *)
Record pst := mkpst { st : pstate; brc : N; hdr : bytes }.

(* one byte through the switch of parser::step.  Result:
     inl r      : step() returns r (with the new parser state); second component = byte to push back
     inr p'     : continue the for(;;) loop with state p' (the byte has been appended to header_) *)
Definition classify_start (c : N) (p : pst) : pst :=
  if c =? 13 then mkpst (match st p with Idle => LastLf | _ => LfExpected end) (brc p) (hdr p)
  else if c =? 34 then mkpst QuoteExpected (brc p) (hdr p)
  else if c =? 40 then mkpst BracketExpected (brc p + 1) (hdr p)
  else mkpst InputObserved (brc p) (hdr p).

Definition push (c : N) (p : pst) : pst := mkpst (st p) (brc p) (c :: hdr p).
Definition drop2 (h : bytes) : bytes := match h with _ :: _ :: r => r | _ => [] end.

Definition pbyte (p : pst) (c : N) : (presult * pst * option N) + pst :=
  match st p with
  | Idle => inr (push c (classify_start c (mkpst Idle (brc p) [])))
  | LastLf => if c =? 10 then inl (EndOfHeaders, mkpst LastLf (brc p) [], None)
              else inl (ErrorObserved, p, None)
  | LfExpected => if c =? 10 then inr (push c (mkpst SpaceOrOther (brc p) (hdr p)))
                  else inl (ErrorObserved, p, None)
  | SpaceOrOther =>
      if (c =? 32) || (c =? 9) then inr (push c (mkpst InputObserved (brc p) (drop2 (hdr p))))
      else inl (GotHeader, mkpst Idle (brc p) (drop2 (hdr p)), Some c)
  | InputObserved => inr (push c (classify_start c p))
  | QuoteExpected =>
      inr (push c (if c =? 34 then mkpst InputObserved (brc p) (hdr p)
                   else if c =? 92 then mkpst PassQuote (brc p) (hdr p) else p))
  | PassQuote => if 127 <=? c then inl (ErrorObserved, p, None)
                 else inr (push c (mkpst QuoteExpected (brc p) (hdr p)))
  | BracketExpected =>
      inr (push c (if c =? 41 then
                     (if brc p - 1 =? 0 then mkpst InputObserved (brc p - 1) (hdr p)
                      else mkpst BracketExpected (brc p - 1) (hdr p))
                   else if c =? 92 then mkpst PassBracket (brc p) (hdr p) else p))
  | PassBracket => if 127 <=? c then inl (ErrorObserved, p, None)
                   else inr (push c (mkpst BracketExpected (brc p) (hdr p)))
  end.

(* parser::step() over the device; fuel bounds the for(;;) loop (every iteration consumes a byte) *)
Inductive stepres := SR (r : presult) (p : pst) (d : dev) | SOutOfFuel.
Fixpoint pstep (fuel : nat) (p : pst) (d : dev) : stepres :=
  match fuel with
  | O => SOutOfFuel
  | S f =>
      match getc d with
      | (None, d') => SR MoreData p d'
      | (Some c, d') =>
          match pbyte p c with
          | inl (r, p', None) => SR r p' d'
          | inl (r, p', Some u) => SR r p' (ungetc u d')
          | inr p' => pstep f p' d'
          end
      end
  end.

(* ------------------------------------------------------------------ header handling of some_headers_data_read *)
Definition upper_name (c : N) : N :=
  if c =? 45 then 95 else if (97 <=? c) && (c <=? 122) then c - 32 else c.

(* parse_single_header: Some (NAME, value) *)
Definition parse_single_header (h : bytes) : option (bytes * bytes) :=
  let p := skip_ws h in
  let (name, p1) := tocken p in
  match name with
  | [] => None
  | _ =>
      match skip_ws p1 with
      | 58 :: p2 => Some (map upper_name name, cstr (skip_ws p2))
      | _ => None
      end
  end.

Definition env_t := list (bytes * bytes).
Fixpoint env_get (k : bytes) (e : env_t) : option bytes :=
  match e with
  | (k', v) :: r => if beqb k k' then Some v else env_get k r
  | [] => None
  end.

(* connection state filled while reading headers *)
Record hreq := mkhreq {
  first_seen : bool;
  meth : bytes; uri : bytes; proto : bytes;
  env : env_t;              (* in insertion order *)
  clen : Z;                 (* env_content_length_ *)
  ctype : bytes }.
Definition hreq0 : hreq := mkhreq false [] [] [] [] 0%Z [].

Definition s_CONTENT_LENGTH : bytes := [67;79;78;84;69;78;84;95;76;69;78;71;84;72].
Definition s_CONTENT_TYPE : bytes := [67;79;78;84;69;78;84;95;84;89;80;69].
Definition s_HTTP_ : bytes := [72;84;84;80;95].
Definition s_SERVER_PROTOCOL : bytes := [83;69;82;86;69;82;95;80;82;79;84;79;67;79;76].

(* got_header: first the request line, then ordinary headers. None = protocol violation *)
Definition on_header (h : bytes) (r : hreq) : option hreq :=
  if first_seen r then
    match parse_single_header h with
    | None => None
    | Some (name, value) =>
        if beqb name s_CONTENT_LENGTH then
          Some (mkhreq true (meth r) (uri r) (proto r) (env r ++ [(name, value)])
                       (match value with [] => 0%Z | _ => atoll value end) (ctype r))
        else if beqb name s_CONTENT_TYPE then
          Some (mkhreq true (meth r) (uri r) (proto r) (env r ++ [(name, value)]) (clen r) value)
        else
          Some (mkhreq true (meth r) (uri r) (proto r) (env r ++ [(s_HTTP_ ++ name, value)]) (clen r) (ctype r))
    end
  else
    match split_at 32 h with
    | (m, Some r1) =>
        match split_at 32 r1 with
        | (u, Some pr) =>
            Some (mkhreq true (cstr m) (cstr u) (cstr pr)
                         (env r ++ [(s_SERVER_PROTOCOL, cstr pr)]) (clen r) (ctype r))
        | _ => None
        end
    | _ => None
    end.

(* the loop of some_headers_data_read after a chunk has been placed in the buffer *)
Inductive hout :=
  | HNeedMore (p : pst) (d : dev) (r : hreq)
  | HDone (d : dev) (r : hreq)          (* end_of_headers: process_request is called *)
  | HError                               (* protocol_violation: connection is closed without reply *)
  | HOutOfFuel.

Fixpoint hloop (fuel : nat) (p : pst) (d : dev) (r : hreq) : hout :=
  match fuel with
  | O => HOutOfFuel
  | S f =>
      match pstep (S (length (buf d) + length (ungot d))) p d with
      | SOutOfFuel => HOutOfFuel
      | SR MoreData p' d' => HNeedMore p' d' r
      | SR GotHeader p' d' =>
          match on_header (rev (hdr p')) r with
          | None => HError
          | Some r' => hloop f p' d' r'
          end
      | SR EndOfHeaders p' d' => HDone d' r
      | SR ErrorObserved _ _ => HError
      end
  end.

(* connection-level reader: feed the read chunks one by one (each chunk = one read_some result, non-empty;
   an empty read is EOF).  total = total_read_; the 16384 cap is tested only when more data is needed. *)
Inductive conn_out :=
  | CNeedMore                       (* all chunks consumed, headers incomplete *)
  | CDone (r : hreq) (rest : bytes) (unread : list bytes)   (* rest = unread part of the current chunk *)
  | CError
  | COutOfFuel.

Fixpoint hread (p : pst) (r : hreq) (total : N) (chunks : list bytes) : conn_out :=
  match chunks with
  | [] => CNeedMore
  | c :: cs =>
      let total' := total + N.of_nat (length c) in
      match hloop (length c + 2) p (mkdev c 0 []) r with
      | HOutOfFuel => COutOfFuel
      | HError => CError
      | HDone d r' => CDone r' (skipn (ptr d) (buf d)) cs
      | HNeedMore p' _ r' => if 16384 <? total' then CError else hread p' r' total' cs
      end
  end.

Definition pst0 : pst := mkpst Idle 0 [].

(* ------------------------------------------------------------------ process_request *)
Fixpoint strip_script (names : list bytes) (path : bytes) : option (bytes * bytes) :=
  match names with
  | [] => None
  | n :: ns =>
      if starts_with n path &&
         (match skipn (length n) path with [] => true | c :: _ => c =? 47 end)
      then Some (n, skipn (length n) path)
      else strip_script ns path
  end.

Definition is_token (s : bytes) : bool :=
  match s with [] => false | _ => match tocken s with (_, []) => true | _ => false end end.

(* the request as the application observes it *)
Record view := mkview {
  v_method : bytes; v_script : bytes; v_path_info : bytes; v_query : bytes;
  v_ctype : bytes; v_clen : Z; v_env : env_t }.

Inductive preq := PBad400 | POk (v : view).

Definition s_REQUEST_METHOD : bytes := [82;69;81;85;69;83;84;95;77;69;84;72;79;68].
Definition s_QUERY_STRING : bytes := [81;85;69;82;89;95;83;84;82;73;78;71].
Definition s_SCRIPT_NAME : bytes := [83;67;82;73;80;84;95;78;65;77;69].
Definition s_PATH_INFO : bytes := [80;65;84;72;95;73;78;70;79].

Definition process_request (script_names : list bytes) (r : hreq) : preq :=
  if negb (is_token (meth r)) then PBad400
  else
    match uri r with
    | 47 :: _ =>
        let (path, q) := split_at 63 (uri r) in
        let e1 := env r ++ [(s_REQUEST_METHOD, meth r)] in
        let e2 := match q with Some qs => e1 ++ [(s_QUERY_STRING, qs)] | None => e1 end in
        let query := match q with Some qs => qs | None => [] end in
        match strip_script script_names path with
        | Some (n, rest) =>
            let pi := cstr (urldecode rest) in
            POk (mkview (meth r) n pi query (ctype r) (clen r)
                        (e2 ++ [(s_SCRIPT_NAME, n); (s_PATH_INFO, pi)]))
        | None =>
            let pi := cstr (urldecode path) in
            POk (mkview (meth r) [] pi query (ctype r) (clen r) (e2 ++ [(s_PATH_INFO, pi)]))
        end
    | _ => PBad400
    end.

(* ------------------------------------------------------------------ parse_form_urlencoded (http_request.cpp) *)
Fixpoint split_all (c : N) (fuel : nat) (s : bytes) : list bytes :=
  match fuel with
  | O => [s]
  | S f => match split_at c s with
           | (a, Some b) => a :: split_all c f b
           | (a, None) => [a]
           end
  end.

(* the for loop: p=begin; while p<end: e=find(&); ...; p=e+1.  A trailing & ends the loop (p == end). *)
Fixpoint form_pairs (fuel : nat) (s : bytes) : option (list (bytes * bytes)) :=
  match fuel with
  | O => Some []
  | S f =>
      match s with
      | [] => Some []
      | _ =>
          let (item, rest) := split_at 38 s in
          match split_at 61 item with
          | (_, None) => None
          | ([], Some _) => None
          | (n, Some v) =>
              match form_pairs f (match rest with Some r => r | None => [] end) with
              | Some l => Some ((urldecode n, urldecode v) :: l)
              | None => None
              end
          end
      end
  end.
(* request::prepare: a malformed query string yields an empty GET form.  Note: pairs parsed before the
   malformed item were already inserted and get_.clear() removes them. *)
Definition parse_form (s : bytes) : list (bytes * bytes) :=
  match form_pairs (S (length s)) s with Some l => l | None => [] end.
(* POST data: pairs before a malformed item stay (no clear) *)
Fixpoint form_pairs_keep (fuel : nat) (s : bytes) : list (bytes * bytes) :=
  match fuel with
  | O => []
  | S f =>
      match s with
      | [] => []
      | _ =>
          let (item, rest) := split_at 38 s in
          match split_at 61 item with
          | (_, None) => []
          | ([], Some _) => []
          | (n, Some v) => (urldecode n, urldecode v) :: form_pairs_keep f (match rest with Some r => r | None => [] end)
          end
      end
  end.
Definition parse_post_form (s : bytes) : list (bytes * bytes) := form_pairs_keep (S (length s)) s.

(* ------------------------------------------------------------------ SCGI (scgi_api.cpp) *)
Inductive scgi_out :=
  | SNeedMore
  | SError
  | SOk (e : env_t) (rest : bytes).      (* rest = bytes after the netstring (the body) *)

(* NUL separated pairs: key NUL value NUL ...; p walks while p < &buffer_.back() *)
Fixpoint scgi_pairs (fuel : nat) (s : bytes) : env_t :=
  match fuel with
  | O => []
  | S f =>
      match s with
      | [] => []
      | _ =>
          match split_at 0 s with
          | (k, Some r) =>
              match r with
              | [] => []
              | _ => match split_at 0 r with
                     | (v, Some r2) => (k, v) :: scgi_pairs f r2
                     | (v, None) => [(k, v)]
                     end
              end
          | (k, None) => []
          end
      end
  end.

Definition scgi_decode (stream : bytes) : scgi_out :=
  if Nat.ltb (length stream) 16 then SNeedMore
  else
    let first := firstn 16 stream in
    match split_at 58 first with
    | (_, None) => SError
    | (num, Some _) =>
        let sep := length num in
        let len := atoi num in
        if (Z.ltb len 0) || (Z.ltb 16384 len) then SError
        else
          let size := (sep + 2 + Z.to_nat len)%nat in
          if Nat.leb size 16 then SError
          else if Nat.ltb (length stream) size then SNeedMore
          else
            let block := firstn size stream in
            match rev block with
            | 44 :: _ =>
                (* header area is block[sep+1 .. size-1) *)
                let area := firstn (size - 1 - (sep + 1)) (skipn (sep + 1) block) in
                SOk (scgi_pairs (S (length area)) area) (skipn size stream)
            | _ => SError
            end
    end.

(* ------------------------------------------------------------------ FastCGI (fastcgi_api.cpp) *)
Record frec := mkrec { r_version : N; r_type : N; r_id : N; r_content : bytes; r_pad : N }.

Definition be16 (a b : N) : N := a * 256 + b.

(* read one record from the stream: None = not enough bytes *)
Definition read_record (s : bytes) : option (frec * bytes) :=
  match s with
  | v :: t :: i1 :: i0 :: c1 :: c0 :: pl :: _res :: r =>
      let cl := N.to_nat (be16 c1 c0) in
      let p := N.to_nat pl in
      if Nat.ltb (length r) (cl + p) then None
      else Some (mkrec v t (be16 i1 i0) (firstn cl r) pl, skipn (cl + p) r)
  | _ => None
  end.

(* read_len of name-value pairs: (value, rest) ; None = 0xFFFFFFFF (truncated) *)
Definition read_len (s : bytes) : option (N * bytes) :=
  match s with
  | b :: r => if b <? 128 then Some (b, r)
              else match s with
                   | b3 :: b2 :: b1 :: b0 :: r4 =>
                       Some ((b3 mod 128) * 16777216 + b2 * 65536 + b1 * 256 + b0, r4)
                   | _ => None
                   end
  | [] => None
  end.

(* parse_pairs: returns the pairs added before a malformed tail (the result flag is ignored by the caller) *)
Fixpoint parse_pairs (fuel : nat) (s : bytes) : env_t :=
  match fuel with
  | O => []
  | S f =>
      match s with
      | [] => []
      | _ =>
          match read_len s with
          | None => []
          | Some (nlen, s1) =>
              match read_len s1 with
              | None => []
              | Some (vlen, s2) =>
                  if N.of_nat (length s2) <? nlen then []
                  else
                    let name := firstn (N.to_nat nlen) s2 in
                    let s3 := skipn (N.to_nat nlen) s2 in
                    if N.of_nat (length s3) <? vlen then []
                    else (cstr name, cstr (firstn (N.to_nat vlen) s3))
                         :: parse_pairs f (skipn (N.to_nat vlen) s3)
              end
          end
      end
  end.

Definition fcgi_begin_request : N := 1.
Definition fcgi_params : N := 4.
Definition fcgi_stdin : N := 5.
Definition fcgi_get_values : N := 9.

Inductive fcgi_out :=
  | FNeedMore
  | FError                                    (* protocol_violation: connection dropped *)
  | FOther                                    (* management record / unknown role: answered without a request *)
  | FOk (keep : bool) (e : env_t) (body : bytes) (rest : bytes).

(* PARAMS accumulation until the empty record; body_ size test happens before reading the next record *)
Fixpoint fcgi_params_loop (fuel : nat) (rid : N) (acc : bytes) (s : bytes) : option (option (bytes * bytes)) :=
  (* None = need more; Some None = violation; Some (Some (params, rest)) *)
  match fuel with
  | O => None
  | S f =>
      match read_record s with
      | None => None
      | Some (r, s') =>
          if negb ((r_type r =? fcgi_params) && (r_id r =? rid)) then Some None
          else
            match r_content r with
            | [] => Some (Some (acc, s'))
            | c => let acc' := acc ++ c in
                   if N.of_nat (length acc') <? 16384 then fcgi_params_loop f rid acc' s'
                   else Some None
            end
      end
  end.

(* STDIN: content records until content_length bytes are delivered, then one empty STDIN record *)
Fixpoint fcgi_stdin_loop (fuel : nat) (rid : N) (need : nat) (acc : bytes) (s : bytes)
  : option (option (bytes * bytes)) :=
  match fuel with
  | O => None
  | S f =>
      match read_record s with
      | None => None
      | Some (r, s') =>
          if negb ((r_type r =? fcgi_stdin) && (r_id r =? rid)) then Some None
          else
            match need with
            | O => match r_content r with [] => Some (Some (acc, s')) | _ => Some None end
            | _ =>
                match r_content r with
                | [] => Some None
                | c =>
                    if Nat.leb (length c) need
                    then fcgi_stdin_loop f rid (need - length c) (acc ++ c) s'
                    else fcgi_stdin_loop f rid 0 (acc ++ firstn need c) s'
                         (* more data than declared: async_read_some hands out only the declared number of bytes, the
                            rest of the record stays in body_ and the end-of-stream record is expected next *)
                end
            end
      end
  end.

Definition fcgi_decode (s : bytes) : fcgi_out :=
  match read_record s with
  | None => FNeedMore
  | Some (r, s1) =>
      if negb (r_version r =? 1) then FError
      else if r_type r =? fcgi_get_values then FOther
      else if negb (r_type r =? fcgi_begin_request) then FOther
      else
        match r_content r with
        | [ro1; ro0; flags; _; _; _; _; _] =>
            if negb (be16 ro1 ro0 =? 1) then FOther
            else
              let keep := N.odd flags in
              let rid := r_id r in
              match fcgi_params_loop (S (length s1)) rid [] s1 with
              | None => FNeedMore
              | Some None => FError
              | Some (Some (params, s2)) =>
                  let e := parse_pairs (S (length params)) params in
                  let cl := match env_get s_CONTENT_LENGTH e with
                            | None => 0%Z | Some [] => 0%Z
                            | Some v => let x := atoll v in if Z.leb x 0 then 0%Z else x
                            end in
                  match fcgi_stdin_loop (S (length s2)) rid (Z.to_nat cl) [] s2 with
                  | None => FNeedMore
                  | Some None => FError
                  | Some (Some (body, s3)) => FOk keep e body s3
                  end
              end
        | _ => FError
        end
  end.

(* the record reader over the read-ahead cache (cache_, cache_start_, cache_end_) of async_read_from_socket:
   served = bytes handed out so far; the cache is refilled with whatever the socket delivers (one chunk per
   read).  read_exact n: Some (data, state') or None when the chunks run out. *)
Record cache := mkcache { cbytes : bytes (* cache_[cache_start_..cache_end_) *); pending : list bytes }.
Fixpoint read_exact (fuel : nat) (n : nat) (c : cache) : option (bytes * cache) :=
  match fuel with
  | O => None
  | S f =>
      if Nat.leb n (length (cbytes c)) then
        Some (firstn n (cbytes c), mkcache (skipn n (cbytes c)) (pending c))
      else
        match pending c with
        | [] => None
        | ch :: rest => read_exact f n (mkcache (cbytes c ++ ch) rest)   (* memmove + append at cache_end_ *)
        end
  end.

(* ------------------------------------------------------------------ content type (http_content_type.cpp, media type only) *)
Definition lower (c : N) : N := if (65 <=? c) && (c <=? 90) then c + 32 else c.
Definition media_type (ct : bytes) : option bytes :=
  let s := skip_ws ct in
  let (t, r) := tocken s in
  match t with
  | [] => None
  | _ => match r with
         | 47 :: r2 => let (st, _) := tocken r2 in
                       match st with [] => None | _ => Some (map lower t ++ [47] ++ map lower st) end
         | _ => None
         end
  end.
Definition s_urlencoded : bytes :=
  [97;112;112;108;105;99;97;116;105;111;110;47;120;45;119;119;119;45;102;111;114;109;45;117;114;108;101;110;99;111;100;101;100].
Definition is_urlencoded (ct : bytes) : bool :=
  match media_type ct with Some m => beqb m s_urlencoded | None => false end.

(* view of a request delivered through SCGI / FastCGI: everything is read back from the environment *)
Definition env_or_empty (k : bytes) (e : env_t) : bytes := match env_get k e with Some v => v | None => [] end.
Definition view_of_env (e : env_t) : view :=
  mkview (env_or_empty s_REQUEST_METHOD e) (env_or_empty s_SCRIPT_NAME e) (env_or_empty s_PATH_INFO e)
         (env_or_empty s_QUERY_STRING e) (env_or_empty s_CONTENT_TYPE e)
         (match env_get s_CONTENT_LENGTH e with None => 0%Z | Some [] => 0%Z | Some v => atoll v end) e.
