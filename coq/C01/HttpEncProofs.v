(* C01: the HTTP header reader inverts the request head encoder *)
From CppcmsV Require Import Base.Tac C15.Defs C01.Defs C01.HttpSpec C01.HttpSeg C01.HttpEnc C01.Enc C01.EncProofs C01.EncProofs2.
Local Open Scope N_scope.

Lemma feed_pscan l : forall p p' s, feed p l = Some p' -> pscan p (l ++ s) = pscan p' s.
Proof.
  induction l as [|c l IH]; intros p p' s H; cbn [feed] in H.
  - inversion H; subst. reflexivity.
  - cbn [app pscan]. destruct (pbyte p c) as [x|p1]; [discriminate|]. apply IH. exact H.
Qed.

Lemma pscan_line_end p' c rest : st p' = InputObserved -> c <> 32 -> c <> 9 ->
  pscan p' (13 :: 10 :: c :: rest) = ScRes GotHeader (mkpst Idle (brc p') (hdr p')) (c :: rest).
Proof.
  intros S C1 C2. destruct p' as [s b h]. cbn [st] in S. subst s.
  cbn [pscan]. unfold pbyte at 1. cbn [st]. unfold classify_start. cbn [N.eqb Pos.eqb st brc hdr push].
  unfold pbyte at 1. cbn [st N.eqb Pos.eqb push hdr brc].
  unfold pbyte at 1. cbn [st hdr brc drop2].
  destruct (N.eqb_spec c 32); [congruence|]. destruct (N.eqb_spec c 9); [congruence|]. reflexivity.
Qed.

Lemma feed_idle p l : st p = Idle -> brc p = 0 -> l <> [] -> feed p l = feed idle0 l.
Proof.
  intros S B NE. destruct l as [|c l]; [congruence|]. cbn [feed]. unfold pbyte. rewrite S, B. reflexivity.
Qed.

Lemma head_next t rest : Forall line_ok t -> exists c rest', enc_head t ++ rest = c :: rest' /\ c <> 32 /\ c <> 9.
Proof.
  intros OK. destruct t as [|l t].
  - exists 13, (10 :: rest). repeat split; [discriminate|discriminate].
  - inversion OK as [|x y (H & _) _]; subst. destruct l as [|c l]; [destruct H|].
    exists c. eexists. split; [reflexivity|exact H].
Qed.

Lemma line_ok_nonempty l : line_ok l -> l <> [].
Proof. intros (H & _). destruct l; [destruct H|discriminate]. Qed.

Theorem brun_head ls : forall p r rest, st p = Idle -> brc p = 0 -> Forall line_ok ls ->
  brun p r (enc_head ls ++ rest) =
  match apply_headers (map line_hdr ls) r with None => BError | Some r' => BFinished r' rest end.
Proof.
  induction ls as [|l t IH]; intros p r rest S B OK.
  - destruct p as [s b h]. cbn [st brc] in *. subst s b.
    cbn [enc_head flat_map app crlf map apply_headers brun]. unfold bbyte, pbyte. cbn. reflexivity.
  - inversion OK as [|x y Hl OK']; subst.
    destruct (head_next t rest OK') as (c & rest' & E & C1 & C2).
    pose proof (line_ok_nonempty l Hl) as NE.
    destruct Hl as (_ & p' & F & S' & B').
    assert (enc_head (l :: t) ++ rest = l ++ 13 :: 10 :: c :: rest') as E2.
    { unfold enc_head in *. cbn [flat_map]. rewrite <- !app_assoc. cbn [crlf app]. rewrite <- E. rewrite <- app_assoc. reflexivity. }
    rewrite E2, brun_pscan.
    rewrite (feed_pscan l p p'); [|rewrite (feed_idle p l S B NE); exact F].
    rewrite (pscan_line_end p' c rest' S' C1 C2). cbn [hdr map apply_headers].
    unfold line_hdr at 1. rewrite F.
    destruct (on_header (rev (hdr p')) r) as [r'|]; [|reflexivity].
    rewrite <- E. apply IH; [reflexivity|exact B'|exact OK'].
Qed.

(* ------------------------------------------------------------------ plain lines *)
Lemma pbyte_plain p c : st p = InputObserved -> plain_char c ->
  pbyte p c = inr (mkpst InputObserved (brc p) (c :: hdr p)).
Proof.
  intros S (C1 & C2 & C3). unfold pbyte. rewrite S. unfold classify_start, push. cbn [st brc hdr].
  destruct (N.eqb_spec c 13); [congruence|]. destruct (N.eqb_spec c 34); [congruence|].
  destruct (N.eqb_spec c 40); [congruence|]. reflexivity.
Qed.

Lemma feed_plain l : forall p, st p = InputObserved -> plain l ->
  feed p l = Some (mkpst InputObserved (brc p) (rev l ++ hdr p)).
Proof.
  induction l as [|c l IH]; intros p S P.
  - destruct p as [s b h]. cbn in *. subst. reflexivity.
  - inversion P as [|x y Pc Pl]; subst. cbn [feed]. rewrite (pbyte_plain p c S Pc).
    rewrite IH; [|reflexivity|exact Pl]. cbn [brc hdr rev]. rewrite <- app_assoc. reflexivity.
Qed.

Lemma feed_plain_idle l : l <> [] -> plain l -> feed idle0 l = Some (mkpst InputObserved 0 (rev l)).
Proof.
  intros NE P. destruct l as [|c l]; [congruence|]. inversion P as [|x y (C1 & C2 & C3) Pl]; subst.
  cbn [feed]. unfold pbyte, idle0. cbn [st brc]. unfold classify_start, push. cbn [st brc hdr].
  destruct (N.eqb_spec c 13); [congruence|]. destruct (N.eqb_spec c 34); [congruence|].
  destruct (N.eqb_spec c 40); [congruence|].
  rewrite feed_plain; [|reflexivity|exact Pl]. cbn [brc hdr rev]. reflexivity.
Qed.

Lemma plain_line_ok l : hd_not_ws l -> plain l -> line_ok l /\ line_hdr l = l.
Proof.
  intros H P. assert (l <> []) as NE by (destruct l; [destruct H|discriminate]).
  pose proof (feed_plain_idle l NE P) as F. split.
  - split; [exact H|]. eexists. split; [exact F|]. split; reflexivity.
  - unfold line_hdr. rewrite F. cbn [hdr]. apply rev_involutive.
Qed.

(* ------------------------------------------------------------------ the header glue on encoded lines *)
Lemma not_in_app {A} (x : A) a b : ~ In x (a ++ b) -> ~ In x a /\ ~ In x b.
Proof. intros H. split; intros I; apply H; apply in_or_app; auto. Qed.

Lemma cstr_id s : no_byte 0 s -> cstr s = s.
Proof.
  induction s as [|c s IH]; intros H; [reflexivity|]. cbn [cstr].
  destruct (N.eqb_spec c 0) as [->|NE]; [destruct H; left; reflexivity|].
  rewrite IH; [reflexivity|]. intros I. apply H. right. exact I.
Qed.

Lemma on_header_req_line m u pr r : first_seen r = false ->
  no_byte 32 m -> no_byte 32 u -> no_byte 0 m -> no_byte 0 u -> no_byte 0 pr ->
  on_header (req_line m u pr) r
  = Some (mkhreq true m u pr (env r ++ [(s_SERVER_PROTOCOL, pr)]) (clen r) (ctype r)).
Proof.
  intros F Sm Su Zm Zu Zp. unfold on_header, req_line. rewrite F. cbn [app].
  rewrite (split_at_app 32 m _ Sm). rewrite (split_at_app 32 u _ Su).
  rewrite !cstr_id by assumption. reflexivity.
Qed.

Lemma token_char_not_ws c : token_char c = true -> (c =? 32) = false /\ (c =? 9) = false /\ (c =? 13) = false.
Proof.
  intros H. repeat split; apply N.eqb_neq; intros ->; vm_compute in H; discriminate.
Qed.

Lemma skip_ws_id c r : (c =? 32) = false -> (c =? 9) = false -> (c =? 13) = false -> skip_ws (c :: r) = c :: r.
Proof. intros A B C. cbn [skip_ws]. rewrite A, B, C. reflexivity. Qed.

Lemma tocken_name n : forall x, Forall (fun c => token_char c = true) n -> tocken (n ++ 58 :: x) = (n, 58 :: x).
Proof.
  induction n as [|c n IH]; intros x H.
  - cbn [app tocken]. replace (token_char 58) with false by (vm_compute; reflexivity). reflexivity.
  - inversion H as [|y z Hc Hn]; subst. cbn [app tocken]. rewrite Hc, (IH x Hn). reflexivity.
Qed.

Lemma skip_ws_value v : value_ok v -> skip_ws v = v.
Proof.
  intros (P & _ & H). destruct v as [|c v]; [reflexivity|]. destruct H as [H1 H2].
  inversion P as [|x y (C1 & _) _]; subst.
  apply skip_ws_id; apply N.eqb_neq; assumption.
Qed.

Lemma parse_single_header_line n v : all_token n -> value_ok v ->
  parse_single_header (hdr_line (n, v)) = Some (map upper_name n, v).
Proof.
  intros (NE & T) V. unfold parse_single_header, hdr_line. cbn [fst snd app].
  destruct n as [|c n]; [congruence|]. inversion T as [|x y Hc Hn]; subst.
  destruct (token_char_not_ws c Hc) as (A & B & C).
  change ((c :: n) ++ 58 :: 32 :: v) with (c :: (n ++ 58 :: 32 :: v)).
  rewrite (skip_ws_id c _ A B C).
  change (c :: n ++ 58 :: 32 :: v) with ((c :: n) ++ 58 :: 32 :: v).
  rewrite (tocken_name (c :: n) (32 :: v) T).
  rewrite skip_ws_id by reflexivity.
  assert (skip_ws (32 :: v) = skip_ws v) as E by reflexivity. rewrite E, (skip_ws_value v V).
  destruct V as (_ & Z & _). rewrite (cstr_id v Z). reflexivity.
Qed.

(* the effect of one header on the request under construction *)
Definition add_hdr (r : hreq) (nv : bytes * bytes) : hreq :=
  let name := map upper_name (fst nv) in
  let value := snd nv in
  if beqb name s_CONTENT_LENGTH then
    mkhreq true (meth r) (uri r) (proto r) (env r ++ [(name, value)]) (match value with [] => 0%Z | _ => atoll value end) (ctype r)
  else if beqb name s_CONTENT_TYPE then
    mkhreq true (meth r) (uri r) (proto r) (env r ++ [(name, value)]) (clen r) value
  else
    mkhreq true (meth r) (uri r) (proto r) (env r ++ [(s_HTTP_ ++ name, value)]) (clen r) (ctype r).

Definition header_ok (nv : bytes * bytes) : Prop := all_token (fst nv) /\ value_ok (snd nv).

Lemma on_header_hdr_line nv r : first_seen r = true -> header_ok nv -> on_header (hdr_line nv) r = Some (add_hdr r nv).
Proof.
  intros F (T & V). destruct nv as [n v]. cbn [fst snd] in *. unfold on_header. rewrite F.
  rewrite (parse_single_header_line n v T V). unfold add_hdr. cbn [fst snd].
  destruct (beqb (map upper_name n) s_CONTENT_LENGTH); [reflexivity|].
  destruct (beqb (map upper_name n) s_CONTENT_TYPE); reflexivity.
Qed.

Lemma add_hdr_first_seen r nv : first_seen (add_hdr r nv) = true.
Proof. unfold add_hdr. destruct (beqb _ _); [reflexivity|]. destruct (beqb _ _); reflexivity. Qed.

Lemma apply_hdr_lines hs : forall r, first_seen r = true -> Forall header_ok hs ->
  apply_headers (map hdr_line hs) r = Some (fold_left add_hdr hs r).
Proof.
  induction hs as [|nv hs IH]; intros r F OK; [reflexivity|].
  inversion OK as [|x y H OK']; subst. cbn [map apply_headers fold_left].
  rewrite (on_header_hdr_line nv r F H). apply IH; [apply add_hdr_first_seen|exact OK'].
Qed.

(* header lines of the plain class are complete lines for the parser *)
Lemma plain_app a b : plain a -> plain b -> plain (a ++ b).
Proof. unfold plain. intros. apply Forall_app. auto. Qed.

Lemma token_plain n : Forall (fun c => token_char c = true) n -> plain n.
Proof.
  intros H. induction H as [|c n Hc _ IH]; constructor; [|exact IH].
  unfold plain_char. unfold token_char, separator in Hc.
  repeat split; intros ->; vm_compute in Hc; discriminate.
Qed.

Lemma hdr_line_ok nv : header_ok nv -> line_ok (hdr_line nv) /\ line_hdr (hdr_line nv) = hdr_line nv.
Proof.
  intros ((NE & T) & (P & _ & _)). destruct nv as [n v]. cbn [fst snd] in *. apply plain_line_ok.
  - unfold hdr_line. cbn [fst snd]. destruct n as [|c n]; [congruence|]. inversion T as [|x y Hc _]; subst.
    destruct (token_char_not_ws c Hc) as (A & B & _). cbn [app hd_not_ws]. split; apply N.eqb_neq; assumption.
  - unfold hdr_line. cbn [fst snd]. apply plain_app; [apply token_plain; exact T|].
    apply plain_app; [|exact P]. repeat constructor; discriminate.
Qed.

Definition req_line_ok (m u pr : bytes) : Prop :=
  all_token m /\ u <> [] /\ no_byte 32 u /\ no_byte 0 u /\ plain u /\ no_byte 0 pr /\ plain pr.

Lemma token_no c n : Forall (fun x => token_char x = true) n -> token_char c = false -> no_byte c n.
Proof.
  intros H F I. rewrite Forall_forall in H. specialize (H c I). congruence.
Qed.

Lemma req_line_line_ok m u pr : req_line_ok m u pr ->
  line_ok (req_line m u pr) /\ line_hdr (req_line m u pr) = req_line m u pr.
Proof.
  intros ((NE & T) & _ & _ & _ & Pu & _ & Pp). apply plain_line_ok.
  - unfold req_line. destruct m as [|c m]; [congruence|]. inversion T as [|x y Hc _]; subst.
    destruct (token_char_not_ws c Hc) as (A & B & _). cbn [app hd_not_ws]. split; apply N.eqb_neq; assumption.
  - unfold req_line. apply plain_app; [apply token_plain; exact T|].
    apply plain_app; [repeat constructor; discriminate|]. apply plain_app; [exact Pu|].
    apply plain_app; [repeat constructor; discriminate|exact Pp].
Qed.

(* the whole request head: request line + any number of header lines + empty line, followed by anything *)
Theorem http_decode_enc m u pr hs rest :
  req_line_ok m u pr -> Forall header_ok hs ->
  brun pst0 hreq0 (enc_head (req_line m u pr :: map hdr_line hs) ++ rest)
  = BFinished (fold_left add_hdr hs (mkhreq true m u pr [(s_SERVER_PROTOCOL, pr)] 0%Z [])) rest.
Proof.
  intros RL HS.
  assert (Forall line_ok (req_line m u pr :: map hdr_line hs)) as LO.
  { constructor; [apply (req_line_line_ok m u pr RL)|]. apply Forall_forall. intros l I.
    apply in_map_iff in I. destruct I as (nv & <- & I). rewrite Forall_forall in HS. apply (hdr_line_ok nv (HS nv I)). }
  rewrite (brun_head _ pst0 hreq0 rest eq_refl eq_refl LO).
  cbn [map apply_headers]. rewrite (proj2 (req_line_line_ok m u pr RL)).
  destruct RL as ((NE & T) & _ & Su & Zu & _ & Zp & _).
  rewrite (on_header_req_line m u pr hreq0 eq_refl
             (token_no 32 m T eq_refl) Su (token_no 0 m T eq_refl) Zu Zp).
  cbn [hreq0 env clen ctype app].
  replace (map line_hdr (map hdr_line hs)) with (map hdr_line hs).
  2:{ rewrite map_map. apply map_ext_in. intros nv I. rewrite Forall_forall in HS. symmetry. apply (hdr_line_ok nv (HS nv I)). }
  rewrite apply_hdr_lines; [reflexivity|reflexivity|exact HS].
Qed.

(* ------------------------------------------------------------------ boolean side conditions for concrete instances *)
Definition plain_charb (c : N) : bool := negb (c =? 13) && negb (c =? 34) && negb (c =? 40).
Lemma plainb_ok l : forallb plain_charb l = true -> plain l.
Proof.
  intros H. apply Forall_forall. intros c I. rewrite forallb_forall in H. specialize (H c I). unfold plain_charb in H.
  apply andb_true_iff in H. destruct H as [H H3]. apply andb_true_iff in H. destruct H as [H1 H2].
  apply negb_true_iff in H1, H2, H3. apply N.eqb_neq in H1, H2, H3. repeat split; assumption.
Qed.
Definition no_byteb (c : N) (s : bytes) : bool := forallb (fun x => negb (x =? c)) s.
Lemma no_byteb_ok c s : no_byteb c s = true -> no_byte c s.
Proof.
  intros H I. unfold no_byteb in H. rewrite forallb_forall in H. specialize (H c I). rewrite N.eqb_refl in H. discriminate.
Qed.
Definition all_tokenb (s : bytes) : bool := negb (match s with [] => true | _ => false end) && forallb token_char s.
Lemma all_tokenb_ok s : all_tokenb s = true -> all_token s.
Proof.
  unfold all_tokenb. intros H. apply andb_true_iff in H. destruct H as [H1 H2]. split.
  - destruct s; [discriminate|discriminate].
  - apply Forall_forall. rewrite forallb_forall in H2. exact H2.
Qed.
Definition value_okb (v : bytes) : bool :=
  forallb plain_charb v && no_byteb 0 v && match v with c :: _ => negb (c =? 32) && negb (c =? 9) | [] => true end.
Lemma value_okb_ok v : value_okb v = true -> value_ok v.
Proof.
  unfold value_okb. intros H. apply andb_true_iff in H. destruct H as [H H3]. apply andb_true_iff in H. destruct H as [H1 H2].
  split; [apply plainb_ok; exact H1|]. split; [apply no_byteb_ok; exact H2|].
  destruct v as [|c v]; [exact I|]. apply andb_true_iff in H3. destruct H3 as [A B].
  apply negb_true_iff in A, B. apply N.eqb_neq in A, B. split; assumption.
Qed.
Lemma headers_okb_ok hs : forallb (fun nv => all_tokenb (fst nv) && value_okb (snd nv)) hs = true -> Forall header_ok hs.
Proof.
  intros H. apply Forall_forall. intros nv I. rewrite forallb_forall in H. specialize (H nv I).
  apply andb_true_iff in H. destruct H as [A B]. split; [apply all_tokenb_ok; exact A|apply value_okb_ok; exact B].
Qed.
Definition req_line_okb (m u pr : bytes) : bool :=
  all_tokenb m && negb (match u with [] => true | _ => false end) && no_byteb 32 u && no_byteb 0 u && forallb plain_charb u
  && no_byteb 0 pr && forallb plain_charb pr.
Lemma req_line_okb_ok m u pr : req_line_okb m u pr = true -> req_line_ok m u pr.
Proof.
  unfold req_line_okb. intros H.
  apply andb_true_iff in H. destruct H as [H H7]. apply andb_true_iff in H. destruct H as [H H6].
  apply andb_true_iff in H. destruct H as [H H5]. apply andb_true_iff in H. destruct H as [H H4].
  apply andb_true_iff in H. destruct H as [H H3]. apply andb_true_iff in H. destruct H as [H1 H2].
  split; [apply all_tokenb_ok; exact H1|]. split; [destruct u; discriminate|].
  split; [apply no_byteb_ok; exact H3|]. split; [apply no_byteb_ok; exact H4|]. split; [apply plainb_ok; exact H5|].
  split; [apply no_byteb_ok; exact H6|apply plainb_ok; exact H7].
Qed.
Definition line_okb (l : bytes) : bool :=
  match l with c :: _ => negb (c =? 32) && negb (c =? 9) | [] => false end
  && match feed idle0 l with
     | Some p' => (match st p' with InputObserved => true | _ => false end) && (brc p' =? 0)
     | None => false
     end.
Lemma line_okb_ok l : line_okb l = true -> line_ok l.
Proof.
  unfold line_okb. intros H. apply andb_true_iff in H. destruct H as [H1 H2]. split.
  - destruct l as [|c l]; [discriminate|]. apply andb_true_iff in H1. destruct H1 as [A B].
    apply negb_true_iff in A, B. apply N.eqb_neq in A, B. split; assumption.
  - destruct (feed idle0 l) as [p'|]; [|discriminate]. exists p'. split; [reflexivity|].
    apply andb_true_iff in H2. destruct H2 as [A B]. apply N.eqb_eq in B. split; [|exact B].
    destruct (st p'); try discriminate. reflexivity.
Qed.
