(* C01: concrete instances used by the non-vacuity Examples of Props.v *)
From Coq Require Import Ascii String.
From CppcmsV Require Import Base.Tac C15.Defs C01.Defs C01.HttpSpec.
Local Open Scope N_scope.

Definition bs (s : string) : bytes := map N_of_ascii (list_ascii_of_string s).
Definition crlf : bytes := [13; 10].

(* GET /sync/a%20b?x=1 HTTP/1.1 CRLF Host: h CRLF X-Fold: a CRLF SP b CRLF Content-Length: 3 CRLF CRLF abc + 2 bytes of the next request *)
Definition ex_http : bytes :=
  bs "POST /sync/a%20b?x=1 HTTP/1.1" ++ crlf ++ bs "Host: h" ++ crlf ++ bs "X-Fold: a" ++ crlf ++ bs " b" ++ crlf
  ++ bs "Content-Length: 3" ++ crlf ++ crlf ++ bs "abcGE".
Definition ex_http_chunks : list bytes :=
  [firstn 5 ex_http; firstn 27 (skipn 5 ex_http); firstn 1 (skipn 32 ex_http); skipn 33 ex_http].
Definition ex_http_bytewise : list bytes := map (fun c => [c]) ex_http.

(* ------------------------------------------------------------------ FastCGI / SCGI instances *)
From CppcmsV Require Import C01.Chunked C01.Enc.
Definition ex_env : env_t :=
  [(bs "CONTENT_LENGTH", bs "3"); (bs "REQUEST_METHOD", bs "POST"); (bs "SCRIPT_NAME", bs "/sync");
   (bs "PATH_INFO", bs "/a b"); (bs "QUERY_STRING", bs "x=1"); (bs "HTTP_X_FOLD", bs "a b")].
Definition ex_body : bytes := bs "abc".
Definition ex_params : bytes := enc_pairs ex_env.
(* layout A: PARAMS in one record, STDIN in one record, no padding;
   layout B: PARAMS cut after 1 and 40 bytes with paddings 7, 0, 255; STDIN byte by byte, paddings 1,2,3 *)
Definition ex_plA : layout := [(ex_params, 0)].
Definition ex_slA : layout := [(ex_body, 0)].
Definition ex_plB : layout := [(firstn 1 ex_params, 7); (firstn 39 (skipn 1 ex_params), 0); (skipn 40 ex_params, 255)].
Definition ex_slB : layout := [([97], 1); ([98], 2); ([99], 3)].
Definition ex_fcgiA : bytes := enc_fcgi 1 1 0 ex_plA 0 ex_slA 0.
Definition ex_fcgiB : bytes := enc_fcgi 1 1 5 ex_plB 9 ex_slB 200.
Definition ex_next : bytes := [1; 1; 0].
Definition ex_fcgi_chunks : list bytes :=
  let s := ex_fcgiB ++ ex_next in [firstn 3 s; firstn 6 (skipn 3 s); firstn 100 (skipn 9 s); skipn 109 s].

Definition ex_scgi_env : env_t := (bs "CONTENT_LENGTH", bs "3") :: (bs "SCGI", bs "1") :: tl ex_env.
Definition ex_scgi : bytes := enc_scgi (bs "110") ex_scgi_env ex_body.
Definition ex_scgi_chunks : list bytes := [firstn 2 ex_scgi; firstn 15 (skipn 2 ex_scgi); skipn 17 ex_scgi].

(* two requests on one kept-alive HTTP connection; the second starts in the middle of a read *)
Definition ex_names : list bytes := [bs "/sync"; bs "/async"].
Definition ex_http2 : bytes :=
  firstn (length ex_http - 2) ex_http ++ bs "GET /async/z HTTP/1.1" ++ crlf ++ crlf.
Definition ex_http2_chunks : list bytes := [firstn 40 ex_http2; firstn 50 (skipn 40 ex_http2); skipn 90 ex_http2].

(* ------------------------------------------------------------------ HTTP encoder instances *)
From CppcmsV Require Import C01.HttpEnc.
Definition ex_hs : list (bytes * bytes) :=
  [(bs "Host", bs "h"); (bs "X-Fold", bs "a b"); (bs "Content-Type", bs "text/plain"); (bs "Content-Length", bs "3")].
Definition ex_head : bytes := enc_head (req_line (bs "POST") (bs "/sync/a%20b?x=1") (bs "HTTP/1.1") :: map hdr_line ex_hs).
(* a folded line (CRLF SP outside quotes is removed) with a quoted string and a comment (kept verbatim) *)
Definition ex_folded_line : bytes := bs "X-F: a" ++ crlf ++ bs " b ""q(x"" (c""d)".
Definition ex_folded_hdr : bytes := bs "X-F: a b ""q(x"" (c""d)".

(* the view of the example request, and a second request for the keep-alive instance *)
From CppcmsV Require Import C01.HttpEncProofs C01.HttpView C01.Conn.
Definition ex_dummy_view : view := mkview [] [] [] [] [] 0%Z [].
Definition view_of_req (m u pr : bytes) (hs : list (bytes * bytes)) : view :=
  match process_request ex_names (fold_left add_hdr hs (http_req0 m u pr)) with POk v => v | PBad400 => ex_dummy_view end.
Definition ex_v : view := view_of_req (bs "POST") (bs "/sync/a%20b?x=1") (bs "HTTP/1.1") ex_hs.
Definition ex_q1 : hq := mkhq (bs "POST") (bs "/sync/a%20b?x=1") (bs "HTTP/1.1") ex_hs (bs "abc") ex_v.
Definition ex_q2 : hq := mkhq (bs "GET") (bs "/async") (bs "HTTP/1.0") [(bs "Accept", bs "*/*")] []
                             (view_of_req (bs "GET") (bs "/async") (bs "HTTP/1.0") [(bs "Accept", bs "*/*")]).
