(* C01: the three front-ends agree for header values of every lexical shape (folded, quoted, commented). *)
From CppcmsV Require Import Base.Tac C15.Defs C01.Defs C01.HttpSpec C01.HttpSeg C01.Enc C01.EncProofs C01.EncProofs2 C01.HttpEnc C01.HttpEncProofs
  C01.HttpView C01.HttpUri C01.Proofs C01.Conn C01.ConnProofs C01.EnvOk C01.HttpFold.
Import ListNotations.
Local Open Scope N_scope.

Definition gwire (m u pr : bytes) (gs : list (bytes * bytes)) : bytes := enc_head (req_line m u pr :: map gline gs).

Lemma skip_ws_len_aux n : forall s, (length s <= n)%nat -> (length (skip_ws s) <= length s)%nat.
Proof.
  induction n as [|n IH]; intros s L; [destruct s; [cbn; lia|cbn in L; lia]|].
  destruct s as [|c r]; [cbn; lia|]. cbn [skip_ws].
  destruct ((c =? 32) || (c =? 9))%bool.
  - cbn in L. specialize (IH r). cbn [length]. lia.
  - destruct (c =? 13); [|lia]. destruct r as [|c1 r2]; [lia|].
    destruct c1 as [|p]; [lia|].
    repeat (match goal with p : positive |- _ => destruct p as [p|p|]; try (cbn [length]; lia) end).
    destruct r2 as [|d r3]; [lia|].
    destruct ((d =? 32) || (d =? 9))%bool; [|lia]. cbn in L. specialize (IH r3). cbn [length]. lia.
Qed.
Lemma skip_ws_len s : (length (skip_ws s) <= length s)%nat.
Proof. apply (skip_ws_len_aux (length s)). lia. Qed.

Lemma fold_text_len w : (length (fold_text w) <= length w)%nat.
Proof.
  unfold fold_text. destruct (feed io0 w) as [p'|] eqn:F; [|cbn; lia].
  rewrite rev_length. pose proof (feed_hdr_len w io0 p' F). cbn in H. lia.
Qed.

Lemma names_of_deliver gs : names_of (map deliver gs) = names_of gs.
Proof. unfold names_of. rewrite map_map. reflexivity. Qed.

Theorem http_env_ok_general names m u pr gs v :
  req_line_ok m u pr -> Forall gheader_ok gs ->
  process_request names (fold_left add_hdr (map deliver gs) (http_req0 m u pr)) = POk v ->
  N.of_nat (length (gwire m u pr gs)) <= 16385 ->
  env_ok (v_env v).
Proof.
  intros RL GS P CAP.
  remember (N.to_nat 16400) as B eqn:EB. assert (HBn : N.of_nat B = 16400) by (subst B; apply N2Nat.id). clear EB.
  unfold gwire in CAP.
  assert (forall nw, In nw gs -> (length (fst nw) + 1 + length (snd nw) <= length (enc_head (req_line m u pr :: map gline gs)))%nat) as LG.
  { intros nw I. pose proof (enc_head_len (gline nw) (req_line m u pr :: map gline gs)) as L.
    assert (length (gline nw) = length (fst nw) + 1 + length (snd nw))%nat as LH by (unfold gline; rewrite app_length; cbn [length]; lia).
    assert (In (gline nw) (req_line m u pr :: map gline gs)) as I2 by (right; apply in_map; exact I).
    specialize (L I2). lia. }
  assert (forall nw, In nw gs -> (length (gvalue (snd nw)) <= length (snd nw))%nat) as LV.
  { intros nw _. unfold gvalue. pose proof (cstr_good (length (skip_ws (fold_text (snd nw)))) (skip_ws (fold_text (snd nw))) (le_n _)) as (_ & C).
    pose proof (skip_ws_len (fold_text (snd nw))). pose proof (fold_text_len (snd nw)). lia. }
  apply (http_env_ok_core names m u pr (map deliver gs) v B HBn RL); [| | |exact P].
  - apply Forall_forall. intros nv I. apply in_map_iff in I. destruct I as (nw & <- & I).
    rewrite Forall_forall in GS. destruct (GS nw I) as ((_ & T) & _). unfold deliver. cbn [fst snd]. split; [exact T|].
    unfold gvalue. apply (cstr_good (length (skip_ws (fold_text (snd nw))))). lia.
  - apply Forall_forall. intros nv I. apply in_map_iff in I. destruct I as (nw & <- & I).
    unfold deliver, hdr_small. cbn [fst snd]. specialize (LG nw I). specialize (LV nw I). split; lia.
  - pose proof (enc_head_len (req_line m u pr) (req_line m u pr :: map gline gs) (or_introl eq_refl)). lia.
Qed.

Theorem frontends_agree_general names m u pr gs body v :
  req_line_ok m u pr -> Forall gheader_ok gs -> NoDup (names_of gs) ->
  process_request names (fold_left add_hdr (map deliver gs) (http_req0 m u pr)) = POk v ->
  (0 <= v_clen v <= cl_limit)%Z -> Z.to_nat (v_clen v) = length body ->
  N.of_nat (length (gwire m u pr gs)) <= 16385 ->
  env_ok (v_env v)
  /\ (forall f rest, http_stream (S f) names (gwire m u pr gs ++ body ++ rest)
                  = IReq v body :: match rest with [] => [] | l => http_stream f names l end)
  /\ view_of_env (v_env v) = v
  /\ (forall num, ~ In 58 num -> (length num <= 15)%nat -> atoi num = Z.of_nat (length (enc_scgi_blob (v_env v))) ->
                  N.of_nat (length (enc_scgi_blob (v_env v))) <= 16384 ->
                  (16 < length num + 2 + length (enc_scgi_blob (v_env v)))%nat ->
                  scgi_decode (enc_scgi num (v_env v) body) = SOk (v_env v) body)
  /\ (forall rid flags pad0 pl pend sl send rest,
        rid < 65536 -> pad0 < 256 -> pend < 256 -> send < 256 -> flags < 256 -> layout_ok pl -> layout_ok sl ->
        layout_data pl = enc_pairs (v_env v) -> N.of_nat (length (enc_pairs (v_env v))) < 16384 -> layout_data sl = body ->
        fcgi_decode (enc_fcgi rid flags pad0 pl pend sl send ++ rest) = FOk (N.odd flags) (v_env v) body rest).
Proof.
  intros RL GS ND P CL LB CAP.
  pose proof (http_env_ok_general names m u pr gs v RL GS P CAP) as EO.
  assert (view_of_env (v_env v) = v) as V.
  { apply (http_req_view names m u pr (map deliver gs) v); [rewrite names_of_deliver; exact ND|exact P]. }
  split; [exact EO|]. split; [|split; [exact V|split]].
  - intros f rest.
    pose proof (http_decode_general m u pr gs (body ++ rest) RL GS) as Bq. fold (gwire m u pr gs) in Bq.
    rewrite (http_stream_keepalive_lemma f names _ _ _ v Bq).
    + rewrite LB, firstn_app_exact, skipn_app_exact. destruct rest; reflexivity.
    + unfold consumed. rewrite !app_length. lia.
    + exact P.
    + exact CL.
    + rewrite app_length. lia.
  - intros num N58 Ln At Lb Sz. apply scgi_decode_enc; try assumption. apply env_ok_scgi. exact EO.
  - intros rid flags pad0 pl pend sl send rest R P0 PE SE FL OKp OKs Dp Le Ds.
    apply fcgi_decode_enc; try assumption.
    rewrite env_clen_view, V. rewrite Z.max_r by lia. exact LB.
Qed.

(* ------------------------------------------------------------------ boolean side conditions and an instance *)
Definition gvalue_okb (w : bytes) : bool :=
  match feed io0 w with
  | Some p' => (match st p' with InputObserved => true | _ => false end) && (brc p' =? 0)
  | None => false
  end.
Lemma gvalue_okb_ok w : gvalue_okb w = true -> gvalue_ok w.
Proof.
  unfold gvalue_okb. intros H. destruct (feed io0 w) as [p'|] eqn:F; [|discriminate]. exists p'. split; [exact F|].
  apply andb_true_iff in H. destruct H as [A B]. apply N.eqb_eq in B. split; [|exact B]. destruct (st p'); try discriminate. reflexivity.
Qed.
Lemma gheaders_okb_ok gs : forallb (fun nw => all_tokenb (fst nw) && gvalue_okb (snd nw)) gs = true -> Forall gheader_ok gs.
Proof.
  intros H. apply Forall_forall. intros nw I. rewrite forallb_forall in H. specialize (H nw I).
  apply andb_true_iff in H. destruct H as [A B]. split; [apply all_tokenb_ok; exact A|apply gvalue_okb_ok; exact B].
Qed.

From Coq Require Import String.
From CppcmsV Require Import C01.Examples.
(* a folded value (CRLF HT), a value with a quoted string containing an escaped quote and a nested comment, Content-Length *)
Definition ex_gs : list (bytes * bytes) :=
  [(bs "X-Fold", bs " a" ++ crlf ++ [9] ++ bs "b");
   (bs "X-Q", bs " ""q (x\"""" (c ""d"" (n)) z");
   (bs "Content-Length", bs " 3")].
Definition ex_gv : view :=
  match process_request ex_names (fold_left add_hdr (map deliver ex_gs) (http_req0 (bs "POST") (bs "/sync/a%20b?x=1") (bs "HTTP/1.1"))) with
  | POk v => v | PBad400 => ex_dummy_view end.
