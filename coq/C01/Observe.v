(* C01: everything the application observes of a delivered request - the view (method, script name, path info, query
   string, content type and length, environment), the raw body and the three maps request::prepare derives from them:
   GET form (parse_form_urlencoded of QUERY_STRING), POST form (of the body when the content type is
   application/x-www-form-urlencoded) and cookies (parse_cookies of HTTP_COOKIE).  Definitions only. *)
From Coq Require Import NArith ZArith List Bool.
From CppcmsV Require Import C15.Defs C01.Defs C01.Cookies.
Import ListNotations.

Record appobs := mkobs {
  o_view : view; o_body : bytes;
  o_get : list (bytes * bytes); o_post : list (bytes * bytes); o_cookies : list (bytes * bytes) }.

Definition observe (v : view) (body : bytes) : appobs :=
  mkobs v body (parse_form (v_query v))
        (if is_urlencoded (v_ctype v) then parse_post_form body else [])
        (cookies_of_env (v_env v)).

(* SCGI / FastCGI: the view is read back from the environment *)
Definition observe_env (e : env_t) (body : bytes) : appobs := observe (view_of_env e) body.
