(* C01: string_map (open addressing, linear probing, growth at load factor 1/2) refines the association list env_t,
   for every hash function. *)
From CppcmsV Require Import Base.Tac C01.Defs C01.HttpView C01.SMap.
Import ListNotations.

Lemma upd_length t : forall p x, length (upd t p x) = length t.
Proof. induction t as [|y r IH]; intros [|p] x; cbn; auto. Qed.

Lemma nth_upd_same t : forall p x, p < length t -> nth p (upd t p x) None = x.
Proof. induction t as [|y r IH]; intros [|p] x H; cbn in *; try lia; auto. apply IH. lia. Qed.

Lemma nth_upd_other t : forall p q x, p <> q -> nth q (upd t p x) None = nth q t None.
Proof. induction t as [|y r IH]; intros [|p] [|q] x H; cbn; auto; try congruence. Qed.

Fixpoint count_some (t : table) : nat :=
  match t with [] => 0 | None :: r => count_some r | Some _ :: r => S (count_some r) end.

Lemma count_free t : count_some t < length t -> exists q, q < length t /\ nth q t None = None.
Proof.
  induction t as [|[e|] r IH]; cbn; intros H.
  - lia.
  - destruct IH as (q & Hq & Hn); [lia|]. exists (S q). split; [lia|exact Hn].
  - exists 0. split; [lia|reflexivity].
Qed.

Lemma count_upd t : forall p e, p < length t -> nth p t None = None -> count_some (upd t p (Some e)) = S (count_some t).
Proof.
  induction t as [|y r IH]; intros [|p] e H Hn; cbn in *; try lia.
  - subst y. reflexivity.
  - destruct y; rewrite IH; auto; lia.
Qed.

Lemma count_repeat n : count_some (repeat None n) = 0.
Proof. induction n; cbn; auto. Qed.

Lemma nth_repeat_none n : forall i, nth i (repeat (@None entry) n) None = None.
Proof. induction n; intros [|i]; cbn; auto. Qed.

Lemma nth_some_lt (t : table) i e : nth i t None = Some e -> i < length t.
Proof. intros H. destruct (Nat.lt_ge_cases i (length t)) as [|G]; [assumption|]. rewrite nth_overflow in H by exact G. discriminate. Qed.

(* ------------------------------------------------------------------ the probe loop *)
Lemma nxt_lt n a : a < n -> nxt n a < n.
Proof. unfold nxt. intros H. destruct (Nat.eqb_spec (S a) n); lia. Qed.

Lemma probe_sound P t : forall f a i, probe P t f a = Some i -> P (nth i t None) = true.
Proof.
  induction f as [|f IH]; intros a i H; cbn in H; [discriminate|].
  destruct (P (nth a t None)) eqn:E; [injection H as <-; exact E|eapply IH; eauto].
Qed.

Lemma probe_lt P t : forall f a i, a < length t -> probe P t f a = Some i -> i < length t.
Proof.
  induction f as [|f IH]; intros a i Ha H; cbn in H; [discriminate|].
  destruct (P (nth a t None)) eqn:E; [injection H as <-; exact Ha|].
  eapply IH; [|exact H]. apply nxt_lt. exact Ha.
Qed.

Definition dist (n a q : nat) : nat := if Nat.leb a q then q - a else q + n - a.

Lemma dist_lt n a q : a < n -> q < n -> dist n a q < n.
Proof. unfold dist. intros. destruct (Nat.leb_spec a q); lia. Qed.

(* a slot with P somewhere in the table: the cyclic walk reaches one within size steps *)
Lemma probe_found P t q :
  q < length t -> P (nth q t None) = true ->
  forall d f a, a < length t -> dist (length t) a q = d -> d < f -> exists i, probe P t f a = Some i.
Proof.
  intros Hq HP. induction d as [|d IH]; intros f a Ha Hd Hf; (destruct f as [|f]; [lia|]); cbn [probe].
  - assert (a = q) by (unfold dist in Hd; destruct (Nat.leb_spec a q); lia). subst. rewrite HP. eauto.
  - destruct (P (nth a t None)) eqn:E; [eauto|].
    assert (a <> q) by (intros ->; congruence).
    apply IH; [apply nxt_lt; exact Ha| |lia].
    unfold dist, nxt in *.
    destruct (Nat.leb_spec a q); destruct (Nat.eqb_spec (S a) (length t)).
    + destruct (Nat.leb_spec 0 q); lia.
    + destruct (Nat.leb_spec (S a) q); lia.
    + destruct (Nat.leb_spec 0 q); lia.
    + destruct (Nat.leb_spec (S a) q); lia.
Qed.

Lemma probe_upd_other P t p x :
  P (nth p t None) = true ->
  forall f a i, probe P t f a = Some i -> p <> i -> probe P (upd t p x) f a = Some i.
Proof.
  intros HP. induction f as [|f IH]; intros a i H Hne; cbn [probe] in *; [discriminate|]. rewrite upd_length.
  destruct (P (nth a t None)) eqn:E; try rewrite E in H.
  - injection H as <-. rewrite nth_upd_other by exact Hne. rewrite E. reflexivity.
  - assert (p <> a) by (intros ->; congruence). rewrite nth_upd_other by assumption. rewrite E. apply IH; assumption.
Qed.

Lemma probe_new t k v :
  (forall i v', nth i t None <> Some (k, v')) ->
  forall f a p, p < length t -> probe slot_free t f a = Some p ->
  probe (slot_stop k) (upd t p (Some (k, v))) f a = Some p.
Proof.
  intros Hfresh. induction f as [|f IH]; intros a p Hp H; cbn [probe] in *; [discriminate|]. rewrite upd_length.
  destruct (slot_free (nth a t None)) eqn:E; try rewrite E in H.
  - injection H as <-. rewrite nth_upd_same by exact Hp. cbn. rewrite beqb_refl. reflexivity.
  - assert (p <> a). { intros ->. apply probe_sound in H. congruence. }
    rewrite nth_upd_other by assumption.
    destruct (nth a t None) as [[k1 v1]|] eqn:En; [|discriminate E]. cbn.
    rewrite beqb_false; [apply IH; auto|]. intros ->. eapply Hfresh; eauto.
Qed.

Section WithHash.
Variable h : bytes -> N.

Lemma start_lt t k : 0 < length t -> start h t k < length t.
Proof.
  intros H. unfold start. pose proof (N.mod_lt (h k) (N.of_nat (length t))) as M. lia.
Qed.

Lemma start_upd t p x k : start h (upd t p x) k = start h t k.
Proof. unfold start. rewrite upd_length. reflexivity. Qed.

(* every stored key is found by the probe loop of get at its own slot *)
Definition Inv (t : table) : Prop :=
  forall i k v, nth i t None = Some (k, v) -> probe (slot_stop k) t (length t) (start h t k) = Some i.

Definition has (t : table) (e : entry) : Prop := exists i, nth i t None = Some e.

Definition Rep (t : table) (ch : list nat) (l : list entry) : Prop :=
  Inv t /\ NoDup ch /\ (forall i, In i ch <-> exists e, nth i t None = Some e) /\
  (forall e, In e l <-> has t e) /\ count_some t = length l /\ length ch = length l.

Lemma Rep_empty n : Rep (repeat None n) [] [].
Proof.
  split; [intros i k v H; rewrite nth_repeat_none in H; discriminate|].
  split; [constructor|].
  split; [intros i; split; [intros []|intros [e H]; rewrite nth_repeat_none in H; discriminate]|].
  split; [intros e; split; [intros []|intros [i H]; rewrite nth_repeat_none in H; discriminate]|].
  split; [apply count_repeat|reflexivity].
Qed.

Lemma Inv_unique t i j k v w : Inv t -> nth i t None = Some (k, v) -> nth j t None = Some (k, w) -> i = j.
Proof. intros HI A B. apply HI in A. apply HI in B. congruence. Qed.

Lemma fresh_of l t k : (forall e, In e l <-> has t e) -> ~ In k (map fst l) -> forall i v', nth i t None <> Some (k, v').
Proof.
  intros Hc Hn i v' H. apply Hn. apply in_map_iff. exists (k, v'). split; [reflexivity|]. apply Hc. exists i. exact H.
Qed.

Lemma insert_ok t ch l k v :
  Rep t ch l -> length l < length t -> ~ In k (map fst l) ->
  exists t' ch', insert h (t, ch) (k, v) = Some (t', ch') /\ length t' = length t /\ Rep t' ch' ((k, v) :: l).
Proof.
  intros (HI & Hnd & Hch & Hc & Hcnt & Hlen) Hlt Hnk.
  pose proof (fresh_of l t k Hc Hnk) as Hf.
  destruct (count_free t) as (q & Hq & Hqn); [lia|].
  assert (Hs : start h t k < length t) by (apply start_lt; lia).
  destruct (probe_found slot_free t q Hq) with (d := dist (length t) (start h t k) q) (f := length t) (a := start h t k) as [p Hp];
    [rewrite Hqn; reflexivity|exact Hs|reflexivity|apply dist_lt; assumption|].
  pose proof (probe_sound _ _ _ _ _ Hp) as Hfree. pose proof (probe_lt _ _ _ _ _ Hs Hp) as Hplt.
  assert (Hpn : nth p t None = None) by (destruct (nth p t None); [discriminate|reflexivity]).
  exists (upd t p (Some (k, v))), (p :: ch).
  split; [unfold insert; cbn [fst]; rewrite Hp; reflexivity|].
  split; [apply upd_length|].
  assert (Hnin : ~ In p ch). { intros Hin. apply Hch in Hin. destruct Hin as [e He]. congruence. }
  repeat split.
  - intros i k0 v0 Hi. rewrite upd_length, start_upd.
    destruct (Nat.eq_dec i p) as [->|Hne].
    + rewrite nth_upd_same in Hi by exact Hplt. injection Hi as <- <-. apply probe_new; assumption.
    + rewrite nth_upd_other in Hi by auto. apply probe_upd_other; [rewrite Hpn; reflexivity|apply HI with v0; exact Hi|auto].
  - constructor; assumption.
  - intros [<-|Hin].
    + exists (k, v). apply nth_upd_same. exact Hplt.
    + apply Hch in Hin. destruct Hin as [e He]. exists e. rewrite nth_upd_other; [exact He|congruence].
  - intros [e He]. destruct (Nat.eq_dec p i) as [->|Hne]; [left; reflexivity|right].
    rewrite nth_upd_other in He by exact Hne. apply Hch. eauto.
  - intros [<-|Hin].
    + exists p. apply nth_upd_same. exact Hplt.
    + apply Hc in Hin. destruct Hin as [i Hi]. exists i. rewrite nth_upd_other; [exact Hi|congruence].
  - intros [i Hi]. destruct (Nat.eq_dec p i) as [->|Hne].
    + rewrite nth_upd_same in Hi by exact Hplt. left. congruence.
    + rewrite nth_upd_other in Hi by exact Hne. right. apply Hc. exists i. exact Hi.
  - rewrite count_upd by assumption. cbn. lia.
  - cbn. lia.
Qed.

Lemma insert_all_ok : forall es t ch l,
  Rep t ch l -> length l + length es < length t -> NoDup (map fst es) ->
  (forall e, In e es -> ~ In (fst e) (map fst l)) ->
  exists t' ch', insert_all h es (t, ch) = Some (t', ch') /\ length t' = length t /\ Rep t' ch' (rev es ++ l).
Proof.
  induction es as [|[k v] r IH]; intros t ch l HR Hlen Hnd Hfr; cbn [insert_all].
  - exists t, ch. auto.
  - cbn in Hlen, Hnd. inversion Hnd as [|? ? Hk Hnd']; subst.
    destruct (insert_ok t ch l k v HR) as (t1 & ch1 & E1 & L1 & R1); [lia|apply (Hfr (k, v)); left; reflexivity|].
    rewrite E1.
    destruct (IH t1 ch1 ((k, v) :: l) R1) as (t2 & ch2 & E2 & L2 & R2); [cbn; lia|exact Hnd'| |].
    + intros e He [Heq|Hin]; [cbn in Heq; apply Hk; rewrite Heq; apply in_map; exact He|].
      apply (Hfr e); [right; exact He|exact Hin].
    + exists t2, ch2. split; [exact E2|]. split; [congruence|]. cbn [rev]. rewrite <- app_assoc. exact R2.
Qed.

Lemma entries_in t ch e : In e (entries_of t ch) <-> exists i, In i ch /\ nth i t None = Some e.
Proof.
  unfold entries_of. rewrite in_flat_map. split; intros (i & Hi & H); exists i; (split; [exact Hi|]).
  - destruct (nth i t None); [destruct H as [<-|[]]; reflexivity|destruct H].
  - rewrite H. left. reflexivity.
Qed.

Lemma entries_length t : forall ch, (forall i, In i ch -> exists e, nth i t None = Some e) -> length (entries_of t ch) = length ch.
Proof.
  induction ch as [|i ch IH]; intros H; cbn; [reflexivity|].
  destruct (H i (or_introl eq_refl)) as [e He]. rewrite He. cbn. f_equal. apply IH. intros j Hj. apply H. right. exact Hj.
Qed.

Lemma entries_nodup t : Inv t -> forall ch, NoDup ch -> NoDup (map fst (entries_of t ch)).
Proof.
  intros HI. induction ch as [|i ch IH]; intros Hnd; cbn; [constructor|].
  inversion Hnd as [|? ? Hni Hnd']; subst.
  destruct (nth i t None) as [[k v]|] eqn:E; cbn; [|apply IH; exact Hnd'].
  constructor; [|apply IH; exact Hnd'].
  intros Hin. apply in_map_iff in Hin. destruct Hin as ([k' w] & Hk & Hin). cbn in Hk. subst k'.
  apply entries_in in Hin. destruct Hin as (j & Hj & Hjn).
  assert (i = j) by (eapply Inv_unique; eauto). subst. contradiction.
Qed.

(* ------------------------------------------------------------------ the map against the association list *)
Definition SInv (m : smap) (l : list entry) : Prop :=
  exists l', Rep (tbl m) (chain m) l' /\ (forall e, In e l' <-> In e l) /\ length l' = length l /\
             total m = length l /\ 2 <= length (tbl m) /\ total m * 2 <= length (tbl m) + 1.

Lemma SInv0 : SInv smap0 [].
Proof.
  exists []. split; [apply Rep_empty|]. split; [tauto|]. cbn. repeat split; lia.
Qed.

Lemma keys_same (l l' : list entry) k : (forall e, In e l' <-> In e l) -> ~ In k (map fst l) -> ~ In k (map fst l').
Proof.
  intros Hs Hn Hin. apply Hn. apply in_map_iff in Hin. destruct Hin as (e & He & Hin). apply in_map_iff. exists e. split; [exact He|apply Hs; exact Hin].
Qed.

Lemma sm_add_ok m l k v :
  SInv m l -> ~ In k (map fst l) -> exists m', sm_add h m (k, v) = Some m' /\ SInv m' ((k, v) :: l).
Proof.
  intros (l' & HR & Hs & Hl & Ht & H2 & Hb) Hnk. unfold sm_add.
  destruct (Nat.leb_spec (length (tbl m)) (total m * 2)) as [Hg|Hg].
  - (* growth *)
    pose proof HR as (HI & Hnd & Hch & Hc & Hcnt & Hlen).
    set (es := entries_of (tbl m) (chain m)).
    assert (Hesl : length es = length l').
    { unfold es. rewrite entries_length; [exact Hlen|]. intros i Hi. apply Hch. exact Hi. }
    destruct (insert_all_ok es (repeat None (2 * length (tbl m))) [] [] (Rep_empty _)) as (t1 & ch1 & E1 & L1 & R1).
    + rewrite repeat_length. cbn [length]. lia.
    + apply entries_nodup; assumption.
    + intros e _ [].
    + rewrite E1. rewrite app_nil_r in R1. rewrite repeat_length in L1.
      assert (Hs1 : forall e, In e (rev es) <-> In e l).
      { intros e. rewrite <- in_rev. unfold es. rewrite entries_in. rewrite <- Hs. rewrite Hc. split.
        - intros (i & _ & Hi). exists i. exact Hi.
        - intros (i & Hi). exists i. split; [apply Hch; eauto|exact Hi]. }
      destruct (insert_ok t1 ch1 (rev es) k v R1) as (t2 & ch2 & E2 & L2 & R2).
      * rewrite rev_length. lia.
      * eapply keys_same; [exact Hs1|exact Hnk].
      * rewrite E2. eexists. split; [reflexivity|].
        exists ((k, v) :: rev es). cbn [tbl chain total]. split; [exact R2|].
        split; [intros e; cbn; rewrite Hs1; tauto|]. cbn [length]. rewrite rev_length. repeat split; lia.
  - destruct (insert_ok (tbl m) (chain m) l' k v HR) as (t2 & ch2 & E2 & L2 & R2).
    + lia.
    + eapply keys_same; [exact Hs|exact Hnk].
    + rewrite E2. eexists. split; [reflexivity|].
      exists ((k, v) :: l'). cbn [tbl chain total]. split; [exact R2|].
      split; [intros e; cbn; rewrite Hs; tauto|]. cbn [length]. repeat split; lia.
Qed.

Lemma sm_adds_ok : forall r m l,
  SInv m l -> NoDup (map fst r) -> (forall e, In e r -> ~ In (fst e) (map fst l)) ->
  exists m', sm_adds h r m = Some m' /\ SInv m' (rev r ++ l).
Proof.
  induction r as [|[k v] r IH]; intros m l HS Hnd Hfr; cbn [sm_adds].
  - exists m. auto.
  - cbn in Hnd. inversion Hnd as [|? ? Hk Hnd']; subst.
    destruct (sm_add_ok m l k v HS) as (m1 & E1 & S1); [apply (Hfr (k, v)); left; reflexivity|].
    rewrite E1. destruct (IH m1 ((k, v) :: l) S1 Hnd') as (m2 & E2 & S2).
    + intros e He [Heq|Hin]; [cbn in Heq; apply Hk; rewrite Heq; apply in_map; exact He|].
      apply (Hfr e); [right; exact He|exact Hin].
    + exists m2. split; [exact E2|]. cbn [rev]. rewrite <- app_assoc. exact S2.
Qed.

Lemma sm_get_present m l k v : SInv m l -> In (k, v) l -> sm_get h m k = Some (Some v).
Proof.
  intros (l' & (HI & _ & _ & Hc & _) & Hs & _) Hin. apply Hs in Hin. apply Hc in Hin. destruct Hin as [i Hi].
  unfold sm_get. rewrite (HI i k v Hi). rewrite Hi. reflexivity.
Qed.

Lemma sm_get_absent m l k : SInv m l -> ~ In k (map fst l) -> sm_get h m k = Some None.
Proof.
  intros (l' & (HI & _ & _ & Hc & Hcnt & _) & Hs & Hl & Ht & H2 & Hb) Hnk.
  pose proof (fresh_of l' (tbl m) k Hc (keys_same l l' k Hs Hnk)) as Hf.
  destruct (count_free (tbl m)) as (q & Hq & Hqn); [lia|].
  assert (Hst : start h (tbl m) k < length (tbl m)) by (apply start_lt; lia).
  destruct (probe_found (slot_stop k) (tbl m) q Hq) with (d := dist (length (tbl m)) (start h (tbl m) k) q) (f := length (tbl m)) (a := start h (tbl m) k) as [p Hp];
    [rewrite Hqn; reflexivity|exact Hst|reflexivity|apply dist_lt; assumption|].
  unfold sm_get. rewrite Hp. pose proof (probe_sound _ _ _ _ _ Hp) as Hstop.
  destruct (nth p (tbl m) None) as [[k1 v1]|] eqn:E; [|reflexivity].
  cbn in Hstop. apply beqb_true in Hstop. subst k1. exfalso. eapply Hf; eauto.
Qed.

Lemma env_get_some k : forall l v, env_get k l = Some v -> In (k, v) l.
Proof.
  induction l as [|[k1 v1] l IH]; intros v H; cbn in H; [discriminate|].
  destruct (beqb k k1) eqn:E; [apply beqb_true in E; subst; injection H as <-; left; reflexivity|right; apply IH; exact H].
Qed.

Lemma env_get_none k : forall l, env_get k l = None -> ~ In k (map fst l).
Proof.
  induction l as [|[k1 v1] l IH]; intros H; cbn in *; [tauto|].
  destruct (beqb k k1) eqn:E; [discriminate|]. intros [->|Hin]; [rewrite beqb_refl in E; discriminate|apply IH; assumption].
Qed.

(* the theorem: any number of variables, any hash function *)
Lemma smap_refines_env l :
  NoDup (map fst l) ->
  exists m, sm_adds h l smap0 = Some m /\ total m = length l /\
            (forall k, sm_get h m k = Some (env_get k l)) /\
            (forall e, In e (entries_of (tbl m) (chain m)) <-> In e l).
Proof.
  intros Hnd. destruct (sm_adds_ok l smap0 [] SInv0 Hnd) as (m & E & S); [intros e _ []|].
  rewrite app_nil_r in S. exists m. split; [exact E|].
  split; [destruct S as (l' & _ & _ & _ & Ht & _); rewrite Ht; apply rev_length|].
  split.
  - intros k. destruct (env_get k l) as [v|] eqn:G.
    + apply sm_get_present with (l := rev l); [exact S|]. apply -> in_rev. apply env_get_some. exact G.
    + apply sm_get_absent with (l := rev l); [exact S|]. intros Hin. apply (env_get_none k l G).
      apply in_map_iff in Hin. destruct Hin as (e & He & Hin). apply in_map_iff. exists e. split; [exact He|apply in_rev; exact Hin].
  - intros e. destruct S as (l' & (HI & Hnd' & Hch & Hc & _) & Hs & _). rewrite entries_in. rewrite in_rev. rewrite <- Hs, Hc. split.
    + intros (i & _ & Hi). exists i. exact Hi.
    + intros (i & Hi). exists i. split; [apply Hch; eauto|exact Hi].
Qed.

(* the add and get loops stop for every sequence of adds of distinct names, and a lookup of an absent name stops with null *)
Lemma smap_absent_terminates l k :
  NoDup (map fst l) -> ~ In k (map fst l) -> exists m, sm_adds h l smap0 = Some m /\ sm_get h m k = Some None.
Proof.
  intros Hnd Hk. destruct (smap_refines_env l Hnd) as (m & E & _ & G & _). exists m. split; [exact E|].
  rewrite G. destruct (env_get k l) as [v|] eqn:Ev; [|reflexivity]. apply env_get_some in Ev. exfalso. apply Hk. apply in_map_iff. exists (k, v). auto.
Qed.

(* clear() between kept-alive requests: the next request starts on the initial map *)
Lemma smap_clear_initial m : sm_clear m = smap0.
Proof. reflexivity. Qed.
End WithHash.
