(* C01: the environment the HTTP front-end builds for a well-formed request is env_ok (no NUL in names and values,
   lengths below 2^31) - derived from the request's well-formedness, so that frontends_agree needs no such premise. *)
From CppcmsV Require Import Base.Tac C15.Defs C15.Proofs C01.Defs C01.HttpSpec C01.Enc C01.EncProofs C01.HttpEnc C01.HttpEncProofs
  C01.HttpView C01.HttpUri C01.Proofs C01.Conn C01.EncProofs2.
Import ListNotations.
Local Open Scope N_scope.

Definition good (B : nat) (s : bytes) : Prop := no_nul s /\ (length s <= B)%nat.
Definition pairs_good (B : nat) (e : env_t) : Prop := Forall (fun kv => good B (fst kv) /\ good B (snd kv)) e.

Lemma good_mono B B' s : (B <= B')%nat -> good B s -> good B' s.
Proof. intros L (A & H). split; [exact A|lia]. Qed.

Lemma pairs_good_env_ok B e : N.of_nat B < 2147483648 -> pairs_good B e -> env_ok e.
Proof.
  intros HB H. unfold env_ok. eapply Forall_impl; [|exact H]. intros kv ((A & LA) & (C & LC)).
  repeat split; try assumption; lia.
Qed.

Lemma no_byte0_no_nul s : no_byte 0 s -> no_nul s.
Proof.
  unfold no_byte, no_nul. intros H. apply Forall_forall. intros c I E. subst. exact (H I).
Qed.

Lemma no_nul_app a b : no_nul a -> no_nul b -> no_nul (a ++ b).
Proof. unfold no_nul. intros. apply Forall_app. auto. Qed.

Lemma no_nul_app_l a b : no_nul (a ++ b) -> no_nul a.
Proof. unfold no_nul. intros H. apply Forall_app in H. tauto. Qed.
Lemma no_nul_app_r a b : no_nul (a ++ b) -> no_nul b.
Proof. unfold no_nul. intros H. apply Forall_app in H. tauto. Qed.

Lemma token_no_nul n : Forall (fun c => token_char c = true) n -> no_nul n.
Proof.
  unfold no_nul. intros H. eapply Forall_impl; [|exact H]. intros c Hc E. subst. vm_compute in Hc. discriminate.
Qed.

Lemma upper_no_nul n : Forall (fun c => token_char c = true) n -> no_nul (map upper_name n).
Proof.
  unfold no_nul. intros H. apply Forall_forall. intros c I. apply in_map_iff in I. destruct I as (x & <- & I).
  rewrite Forall_forall in H. specialize (H x I). unfold upper_name.
  destruct (N.eqb_spec x 45); [discriminate|].
  destruct ((97 <=? x) && (x <=? 122))%bool eqn:E.
  - apply andb_true_iff in E. destruct E as [E1 E2]. apply N.leb_le in E1. lia.
  - intros ->. vm_compute in H. discriminate.
Qed.

Lemma cstr_good B s : (length s <= B)%nat -> good B (cstr s).
Proof.
  intros L. split.
  - pose proof (cstr_no_nul s) as H. unfold no_nul. apply Forall_forall. intros c I E. subst.
    rewrite forallb_forall in H. specialize (H 0 I). discriminate.
  - revert L. revert B. induction s as [|c s IH]; intros B L; cbn; [lia|].
    destruct (c =? 0); cbn; [lia|]. cbn in L. destruct B; [lia|]. specialize (IH B). lia.
Qed.

Lemma split_at_eq c : forall s a b, split_at c s = (a, b) -> s = a ++ match b with Some r => c :: r | None => [] end.
Proof.
  induction s as [|x s IH]; intros a b H; cbn in H.
  - injection H as <- <-. reflexivity.
  - destruct (N.eqb_spec x c).
    + injection H as <- <-. subst. reflexivity.
    + destruct (split_at c s) as [a' b'] eqn:E. injection H as <- <-. cbn. f_equal. apply IH. reflexivity.
Qed.

Lemma starts_with_eq : forall n p, starts_with n p = true -> p = n ++ skipn (length n) p.
Proof.
  induction n as [|x n IH]; intros p H; [reflexivity|]. destruct p as [|y p]; [discriminate|]. cbn in H.
  apply andb_true_iff in H. destruct H as [E H]. apply N.eqb_eq in E. subst. cbn. f_equal. apply IH. exact H.
Qed.

Lemma strip_script_eq : forall names path n rest, strip_script names path = Some (n, rest) -> path = n ++ rest.
Proof.
  induction names as [|x names IH]; intros path n rest H; cbn in H; [discriminate|].
  destruct (starts_with x path && match skipn (length x) path with [] => true | c :: _ => c =? 47 end)%bool eqn:E.
  - injection H as <- <-. apply andb_true_iff in E. destruct E as [E _]. apply starts_with_eq. exact E.
  - apply IH. exact H.
Qed.

(* ------------------------------------------------------------------ the header fold *)
Lemma add_hdr_env2 r (nv : bytes * bytes) :
  exists k, (k = map upper_name (fst nv) \/ k = s_HTTP_ ++ map upper_name (fst nv)) /\ env (add_hdr r nv) = env r ++ [(k, snd nv)].
Proof.
  unfold add_hdr. cbv zeta. destruct (beqb (map upper_name (fst nv)) s_CONTENT_LENGTH); [eexists; split; [left; reflexivity|reflexivity]|].
  destruct (beqb (map upper_name (fst nv)) s_CONTENT_TYPE); eexists; (split; [|reflexivity]); [left|right]; reflexivity.
Qed.

Definition hdr_small (B : nat) (nv : bytes * bytes) : Prop := (length (fst nv) + 5 <= B)%nat /\ (length (snd nv) <= B)%nat.

Definition hdr_fine (nv : bytes * bytes) : Prop := Forall (fun c => token_char c = true) (fst nv) /\ no_nul (snd nv).

Lemma fold_pairs_good B hs : forall r,
  pairs_good B (env r) -> Forall hdr_fine hs -> Forall (hdr_small B) hs -> pairs_good B (env (fold_left add_hdr hs r)).
Proof.
  induction hs as [|nv hs IH]; intros r G OK SM; [exact G|].
  inversion OK as [|x y (T & Z) OK']; subst. inversion SM as [|x y (L1 & L2) SM']; subst.
  cbn [fold_left]. apply IH; [|exact OK'|exact SM'].
  destruct (add_hdr_env2 r nv) as (k & Hk & E). rewrite E. apply Forall_app. split; [exact G|].
  constructor; [|constructor]. cbn [fst snd]. split.
  - destruct Hk as [-> | ->]; split.
    + apply upper_no_nul. exact T.
    + rewrite map_length. lia.
    + apply no_nul_app; [repeat constructor; discriminate|apply upper_no_nul; exact T].
    + rewrite app_length, map_length. cbn. lia.
  - split; [exact Z|exact L2].
Qed.

(* ------------------------------------------------------------------ process_request *)
Lemma const_good B k : (15 <= B)%nat ->
  k = s_REQUEST_METHOD \/ k = s_QUERY_STRING \/ k = s_SCRIPT_NAME \/ k = s_PATH_INFO \/ k = s_SERVER_PROTOCOL -> good B k.
Proof.
  intros HB [-> | [-> | [-> | [-> | ->]]]]; (split; [repeat constructor; discriminate|cbn; lia]).
Qed.

Lemma process_request_uri47 names r v : process_request names r = POk v -> exists u', uri r = 47 :: u'.
Proof.
  unfold process_request. destruct (negb _); [discriminate|]. destruct (uri r) as [|c0 u']; [discriminate|]. intros P.
  destruct c0 as [|p]; [discriminate|].
  repeat (match goal with p : positive |- _ => destruct p as [p|p|]; try discriminate end). eauto.
Qed.

Lemma process_request_good B names r v :
  (15 <= B)%nat -> pairs_good B (env r) -> good B (meth r) -> good B (uri r) ->
  process_request names r = POk v -> pairs_good B (v_env v).
Proof.
  intros HB G GM (UZ & UL) P. destruct (process_request_uri47 names r v P) as [u' EU].
  unfold process_request in P. destruct (negb (is_token (meth r))); [discriminate|].
  rewrite EU in *. set (U := 47 :: u') in *. change (match U with 47 :: _ => ?a | _ => ?b end) with a in P. cbv beta in P.
  destruct (split_at 63 U) as [path q] eqn:SP. apply split_at_eq in SP.
  assert (GP : good B path). { rewrite SP in UZ, UL. split; [exact (no_nul_app_l _ _ UZ)|rewrite app_length in UL; lia]. }
  assert (GQ : forall qs, q = Some qs -> good B qs).
  { intros qs ->. rewrite SP in UZ, UL. apply no_nul_app_r in UZ. inversion UZ; subst. split; [assumption|rewrite app_length in UL; cbn in UL; lia]. }
  assert (G1 : pairs_good B (env r ++ [(s_REQUEST_METHOD, meth r)])).
  { apply Forall_app. split; [exact G|]. constructor; [|constructor]. split; [apply const_good; auto|exact GM]. }
  assert (G2 : pairs_good B (match q with Some qs => (env r ++ [(s_REQUEST_METHOD, meth r)]) ++ [(s_QUERY_STRING, qs)] | None => env r ++ [(s_REQUEST_METHOD, meth r)] end)).
  { destruct q as [qs|]; [|exact G1]. apply Forall_app. split; [exact G1|]. constructor; [|constructor].
    split; [apply const_good; auto|apply GQ; reflexivity]. }
  destruct GP as (PZ & PL).
  destruct (strip_script names path) as [[n rest]|] eqn:SS.
  - apply strip_script_eq in SS. injection P as <-. cbn [v_env].
    apply Forall_app. split; [exact G2|]. rewrite SS in PZ, PL. rewrite app_length in PL.
    constructor; [|constructor; [|constructor]]; cbn [fst snd].
    + split; [apply const_good; auto 6|]. split; [exact (no_nul_app_l _ _ PZ)|lia].
    + split; [apply const_good; auto 6|]. apply cstr_good. pose proof (urldecode_length rest). lia.
  - injection P as <-. cbn [v_env]. apply Forall_app. split; [exact G2|].
    constructor; [|constructor]. cbn [fst snd]. split; [apply const_good; auto 6|]. apply cstr_good. pose proof (urldecode_length path). lia.
Qed.

(* ------------------------------------------------------------------ sizes from the wire length *)
Lemma enc_head_len l ls : In l ls -> (length l <= length (enc_head ls))%nat.
Proof.
  unfold enc_head. rewrite app_length. induction ls as [|x ls IH]; [intros []|].
  intros [->|I]; cbn [flat_map]; rewrite !app_length.
  - lia.
  - specialize (IH I). lia.
Qed.

Lemma http_env_ok_core names m u pr hs v B :
  N.of_nat B = 16400 -> req_line_ok m u pr -> Forall hdr_fine hs -> Forall (hdr_small B) hs ->
  N.of_nat (length (req_line m u pr)) <= 16385 ->
  process_request names (fold_left add_hdr hs (http_req0 m u pr)) = POk v ->
  env_ok (v_env v).
Proof.
  intros HBn ((NE & T) & _ & _ & Zu & _ & Zp & _) HS SM LR P.
  apply (pairs_good_env_ok B); [lia|].
  unfold req_line in LR. rewrite !app_length in LR. cbn [length] in LR.
  destruct (fold_add_hdr_meth_uri hs (http_req0 m u pr)) as [EM EU].
  apply (process_request_good B names (fold_left add_hdr hs (http_req0 m u pr)) v); [lia| | | |exact P].
  - apply fold_pairs_good; [|exact HS|exact SM].
    unfold http_req0. cbn [env]. constructor; [|constructor]. cbn [fst snd].
    split; [apply const_good; [lia|auto 6]|]. split; [apply no_byte0_no_nul; exact Zp|lia].
  - rewrite EM. cbn [http_req0 meth]. split; [apply token_no_nul; exact T|lia].
  - rewrite EU. cbn [http_req0 uri]. split; [apply no_byte0_no_nul; exact Zu|lia].
Qed.

Theorem http_env_ok names m u pr hs v :
  req_line_ok m u pr -> Forall header_ok hs ->
  process_request names (fold_left add_hdr hs (http_req0 m u pr)) = POk v ->
  N.of_nat (length (http_wire m u pr hs)) <= 16385 ->
  env_ok (v_env v).
Proof.
  intros RL HS P CAP.
  remember (N.to_nat 16400) as B eqn:EB. assert (HBn : N.of_nat B = 16400) by (subst B; apply N2Nat.id). clear EB.
  unfold http_wire in CAP.
  apply (http_env_ok_core names m u pr hs v B HBn RL); [| | |exact P].
  - eapply Forall_impl; [|exact HS]. intros nv ((_ & T) & (_ & Z & _)). split; [exact T|apply no_byte0_no_nul; exact Z].
  - apply Forall_forall. intros nv I.
    pose proof (enc_head_len (hdr_line nv) (req_line m u pr :: map hdr_line hs)) as L.
    assert (length (hdr_line nv) = length (fst nv) + 2 + length (snd nv))%nat as LH by (unfold hdr_line; rewrite !app_length; cbn [length]; lia).
    assert (In (hdr_line nv) (req_line m u pr :: map hdr_line hs)) as I2 by (right; apply in_map; exact I).
    specialize (L I2). split; lia.
  - pose proof (enc_head_len (req_line m u pr) (req_line m u pr :: map hdr_line hs) (or_introl eq_refl)). lia.
Qed.

(* frontends_agree without the env_ok premise *)
Theorem frontends_agree_derived names m u pr hs body v :
  req_line_ok m u pr -> Forall header_ok hs -> NoDup (names_of hs) ->
  process_request names (fold_left add_hdr hs (http_req0 m u pr)) = POk v ->
  (0 <= v_clen v <= cl_limit)%Z -> Z.to_nat (v_clen v) = length body ->
  N.of_nat (length (http_wire m u pr hs)) <= 16385 ->
  env_ok (v_env v)
  /\ (forall f rest, http_stream (S f) names (http_wire m u pr hs ++ body ++ rest)
                  = IReq v body :: match rest with [] => [] | l => http_stream f names l end)
  /\ view_of_env (v_env v) = v
  /\ (forall num, ~ In 58 num -> (length num <= 15)%nat -> atoi num = Z.of_nat (length (enc_scgi_blob (v_env v))) ->
                  N.of_nat (length (enc_scgi_blob (v_env v))) <= 16384 ->
                  (16 < length num + 2 + length (enc_scgi_blob (v_env v)))%nat ->
                  scgi_decode (enc_scgi num (v_env v) body) = SOk (v_env v) body)
  /\ (forall rid flags pad0 pl pend sl send rest,
        rid < 65536 -> pad0 < 256 -> pend < 256 -> send < 256 -> flags < 256 -> layout_ok pl -> layout_ok sl ->
        layout_data pl = enc_pairs (v_env v) -> N.of_nat (length (enc_pairs (v_env v))) < 16384 -> layout_data sl = body ->
        fcgi_decode (enc_fcgi rid flags pad0 pl pend sl send ++ rest) = FOk (N.odd flags) (v_env v) body rest).
Proof.
  intros RL HS ND P CL LB CAP.
  pose proof (http_env_ok names m u pr hs v RL HS P CAP) as EO.
  split; [exact EO|]. exact (frontends_agree_lemma names m u pr hs body v RL HS ND P CL LB CAP EO).
Qed.
