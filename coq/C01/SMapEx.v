(* C01: instances for the string_map non-vacuity Examples *)
From Coq Require Import NArith List.
From CppcmsV Require Import C01.Defs C01.SMap.
Import ListNotations.
Local Open Scope N_scope.

Definition ex_key (i : nat) : bytes :=
  let n := N.of_nat i in s_HTTP_ ++ [88; 95; 48 + n / 100; 48 + (n / 10) mod 10; 48 + n mod 10].
Definition ex_val (i : nat) : bytes := [118; 48 + N.of_nat i mod 10; 48 + (N.of_nat i / 10) mod 10].
Definition ex_vars (n : nat) : list (bytes * bytes) := map (fun i => (ex_key i, ex_val i)) (seq 0 n).
Definition ex_dup_key : bytes := [68; 85; 80].
(* the same name twice, then n more variables *)
Definition ex_dups (n : nat) : list (bytes * bytes) := (ex_dup_key, [49]) :: (ex_dup_key, [50]) :: ex_vars n.
Definition get_after (l : list (bytes * bytes)) (k : bytes) : option (option bytes) :=
  match sm_adds elf_hash l smap0 with Some m => sm_get elf_hash m k | None => None end.
Definition size_after (l : list (bytes * bytes)) : option (nat * nat) :=
  match sm_adds elf_hash l smap0 with Some m => Some (length (tbl m), total m) | None => None end.
