(* C01: GET / POST form fields and cookies are delivered as encoded, and identically by the three front-ends. *)
From CppcmsV Require Import Base.Tac C15.Defs C15.Proofs C01.Defs C01.HttpSpec C01.HttpSeg C01.Enc C01.EncProofs C01.EncProofs2 C01.HttpEnc C01.HttpEncProofs
  C01.HttpView C01.HttpUri C01.Proofs C01.Conn C01.ConnProofs C01.EnvOk C01.HttpFold C01.AgreeG C01.Cookies C01.CookiesProofs C01.Observe.
Import ListNotations.
Local Open Scope N_scope.

(* parse (encode fields) = fields, for every field list; parse_cookies (encode cookies) = cookies *)
Theorem observe_roundtrip v body gets posts cs :
  v_query v = enc_form gets -> Forall form_item_ok gets ->
  is_urlencoded (v_ctype v) = true -> body = enc_form posts -> Forall form_item_ok posts ->
  env_get s_HTTP_COOKIE (v_env v) = Some (enc_cookies cs) -> Forall cookie_ok cs -> NoDup (map fst cs) ->
  o_get (observe v body) = gets /\ o_post (observe v body) = posts /\ o_cookies (observe v body) = cs.
Proof.
  intros Q G U B P C CO ND. unfold observe. cbn [o_get o_post o_cookies]. rewrite Q, U, B.
  split; [apply (parse_form_roundtrip gets G)|]. split; [apply (parse_form_roundtrip posts P)|].
  unfold cookies_of_env, env_or_empty. rewrite C. apply parse_cookies_enc; assumption.
Qed.

(* the environment of the HTTP front-end starts with the variables of the header reader *)
Lemma process_request_env names r v : process_request names r = POk v -> exists tail, v_env v = env r ++ tail.
Proof.
  intros P. destruct (process_request_uri47 names r v P) as [u' EU].
  unfold process_request in P. destruct (negb (is_token (meth r))); [discriminate|].
  rewrite EU in *. set (U := 47 :: u') in *. change (match U with 47 :: _ => ?a | _ => ?b end) with a in P. cbv beta in P.
  destruct (split_at 63 U) as [path q]. destruct (strip_script names path) as [[n rest]|]; injection P as <-; cbn [v_env];
    destruct q; rewrite <- ?app_assoc; eexists; reflexivity.
Qed.

Definition key_of (n : bytes) : bytes :=
  let name := map upper_name n in
  if beqb name s_CONTENT_LENGTH then name else if beqb name s_CONTENT_TYPE then name else s_HTTP_ ++ name.

Lemma add_hdr_env_key r (nv : bytes * bytes) : env (add_hdr r nv) = env r ++ [(key_of (fst nv), snd nv)].
Proof.
  unfold add_hdr, key_of. cbv zeta. destruct (beqb (map upper_name (fst nv)) s_CONTENT_LENGTH); [reflexivity|].
  destruct (beqb (map upper_name (fst nv)) s_CONTENT_TYPE); reflexivity.
Qed.

Lemma fold_env hs : forall r, env (fold_left add_hdr hs r) = env r ++ map (fun nv => (key_of (fst nv), snd nv)) hs.
Proof.
  induction hs as [|nv hs IH]; intros r; cbn [fold_left map]; [rewrite app_nil_r; reflexivity|].
  rewrite IH, add_hdr_env_key, <- app_assoc. reflexivity.
Qed.

Lemma app_inv_head_bytes (a x y : bytes) : a ++ x = a ++ y -> x = y.
Proof. apply app_inv_head. Qed.

Lemma key_of_inj a b : key_of a = key_of b -> map upper_name a = map upper_name b.
Proof.
  unfold key_of. cbv zeta.
  destruct (beqb (map upper_name a) s_CONTENT_LENGTH) eqn:A1; destruct (beqb (map upper_name b) s_CONTENT_LENGTH) eqn:B1;
  try (destruct (beqb (map upper_name a) s_CONTENT_TYPE) eqn:A2); try (destruct (beqb (map upper_name b) s_CONTENT_TYPE) eqn:B2);
  try apply beqb_true in A1; try apply beqb_true in B1; try apply beqb_true in A2; try apply beqb_true in B2;
  intros H; try congruence;
  try (rewrite ?A1, ?A2, ?B1, ?B2 in H; try discriminate H; fail);
  try (apply app_inv_head_bytes in H; exact H).
Qed.

(* with unique header names a header is found under its key with its delivered value *)
Lemma env_get_headers hs : forall n w, NoDup (names_of hs) -> In (n, w) hs ->
  env_get (key_of n) (map (fun nv => (key_of (fst nv), snd nv)) hs) = Some w.
Proof.
  induction hs as [|[n1 w1] hs IH]; intros n w ND I; [destruct I|].
  cbn [map fst snd env_get]. cbn in ND. inversion ND as [|? ? NI ND']; subst.
  destruct I as [E|I].
  - injection E as <- <-. rewrite beqb_refl. reflexivity.
  - destruct (beqb (key_of n) (key_of n1)) eqn:E.
    + apply beqb_true in E. apply key_of_inj in E. exfalso. apply NI. rewrite <- E.
      unfold names_of. apply in_map_iff. exists (n, w). split; [reflexivity|exact I].
    + apply IH; assumption.
Qed.

Lemma http_header_in_env names m u pr hs v n w :
  NoDup (names_of hs) -> In (n, w) hs -> beqb (key_of n) s_SERVER_PROTOCOL = false ->
  process_request names (fold_left add_hdr hs (http_req0 m u pr)) = POk v ->
  env_get (key_of n) (v_env v) = Some w.
Proof.
  intros ND I NS P. destruct (process_request_env names _ v P) as [tail ->].
  apply env_get_app_some. rewrite fold_env. unfold http_req0. cbn [env app env_get]. rewrite NS.
  apply env_get_headers; assumption.
Qed.

(* a Cookie header is delivered to parse_cookies: its CGI variable is HTTP_COOKIE *)
Theorem http_cookie_delivered names m u pr gs v n w :
  NoDup (names_of gs) -> In (n, w) gs -> map upper_name n = [67; 79; 79; 75; 73; 69] ->
  process_request names (fold_left add_hdr (map deliver gs) (http_req0 m u pr)) = POk v ->
  env_get s_HTTP_COOKIE (v_env v) = Some (gvalue w).
Proof.
  intros ND I UP P.
  assert (key_of n = s_HTTP_COOKIE) as K by (unfold key_of; rewrite UP; reflexivity).
  rewrite <- K. apply (http_header_in_env names m u pr (map deliver gs) v n (gvalue w)); [rewrite names_of_deliver; exact ND| | |exact P].
  - apply in_map_iff. exists (n, w). split; [reflexivity|exact I].
  - rewrite K. reflexivity.
Qed.

(* the three front-ends deliver the same GET form, POST form and cookies: an SCGI or FastCGI peer sending the
   environment of the HTTP request makes the application observe exactly what it observes over HTTP *)
Theorem frontends_same_observation names m u pr gs body v :
  req_line_ok m u pr -> Forall gheader_ok gs -> NoDup (names_of gs) ->
  process_request names (fold_left add_hdr (map deliver gs) (http_req0 m u pr)) = POk v ->
  (0 <= v_clen v <= cl_limit)%Z -> Z.to_nat (v_clen v) = length body ->
  N.of_nat (length (gwire m u pr gs)) <= 16385 ->
  (forall f rest, http_stream (S f) names (gwire m u pr gs ++ body ++ rest)
                  = IReq v body :: match rest with [] => [] | l => http_stream f names l end)
  /\ (forall num, ~ In 58 num -> (length num <= 15)%nat -> atoi num = Z.of_nat (length (enc_scgi_blob (v_env v))) ->
                  N.of_nat (length (enc_scgi_blob (v_env v))) <= 16384 ->
                  (16 < length num + 2 + length (enc_scgi_blob (v_env v)))%nat ->
                  exists e b, scgi_decode (enc_scgi num (v_env v) body) = SOk e b /\ observe_env e b = observe v body)
  /\ (forall rid flags pad0 pl pend sl send rest,
        rid < 65536 -> pad0 < 256 -> pend < 256 -> send < 256 -> flags < 256 -> layout_ok pl -> layout_ok sl ->
        layout_data pl = enc_pairs (v_env v) -> N.of_nat (length (enc_pairs (v_env v))) < 16384 -> layout_data sl = body ->
        exists e b, fcgi_decode (enc_fcgi rid flags pad0 pl pend sl send ++ rest) = FOk (N.odd flags) e b rest /\
                    observe_env e b = observe v body).
Proof.
  intros RL GS ND P CL LB CAP.
  destruct (frontends_agree_general names m u pr gs body v RL GS ND P CL LB CAP) as (_ & H & V & S & F).
  split; [exact H|]. split.
  - intros num A1 A2 A3 A4 A5. exists (v_env v), body. split; [apply S; assumption|]. unfold observe_env. rewrite V. reflexivity.
  - intros rid flags pad0 pl pend sl send rest A1 A2 A3 A4 A5 A6 A7 A8 A9 A10. exists (v_env v), body.
    split; [apply F; assumption|]. unfold observe_env. rewrite V. reflexivity.
Qed.

(* ------------------------------------------------------------------ an instance *)
From Coq Require Import String.
From CppcmsV Require Import C01.Examples.
Definition ex_gets : list (bytes * bytes) := [(bs "a b", bs "1&2=3"); (bs "k", [])].
Definition ex_posts : list (bytes * bytes) := [(bs "name", [228; 32; 43]); (bs "x", bs "y")].
Definition ex_cs : list (bytes * bytes) := [(bs "sid", bs "a1-b2.c3"); (bs "theme", bs "dark")].
Definition ex_u2 : bytes := bs "/sync/p" ++ [63] ++ enc_form ex_gets.
Definition ex_body2 : bytes := enc_form ex_posts.
Definition ex_gs2 : list (bytes * bytes) :=
  [(bs "Cookie", [32] ++ enc_cookies ex_cs);
   (bs "Content-Type", bs " application/x-www-form-urlencoded; charset=UTF-8");
   (bs "X-Fold", bs " a" ++ crlf ++ [9] ++ bs "b");
   (bs "Content-Length", bs " 18")].
Definition ex_v2 : view :=
  match process_request ex_names (fold_left add_hdr (map deliver ex_gs2) (http_req0 (bs "POST") ex_u2 (bs "HTTP/1.1"))) with
  | POk v => v | PBad400 => ex_dummy_view end.
