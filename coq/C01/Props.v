(* C01 -- property theorems only. *)
From CppcmsV Require Import Base.Tac Base.Sweep C15.Defs C01.Defs C01.Proofs.
Local Open Scope N_scope.

Theorem env_values_are_c_strings : forall s, forallb (fun c => negb (c =? 0)) (cstr s) = true.
Proof. exact cstr_no_nul. Qed.
Print Assumptions env_values_are_c_strings.
