(* C01 -- property theorems only. *)
From Coq Require Import String.
From CppcmsV Require Import Base.Tac Base.Sweep C15.Defs C01.Defs C01.HttpSpec C01.HttpSeg C01.Chunked C01.ChunkedProofs C01.Enc C01.EncProofs C01.EncProofs2 C01.Conn C01.ConnProofs C01.HttpEnc C01.HttpEncProofs C01.HttpView C01.HttpUri C01.EnvOk C01.HttpFold C01.AgreeG C01.Final C01.Cookies C01.CookiesProofs C01.Observe C01.ObserveProofs C01.EndToEnd C01.EndToEnd2 C01.KeepAlive C01.Pool C01.PoolProofs C01.SMap C01.SMapProofs C01.SMapEx C01.Examples C01.Proofs Base.CSem C01.Link gen.Gen_C01.
Local Open Scope N_scope.

(* ---------------------------------------------------------------------------------------------------------
   1. HTTP: the chunk-level reader (one read_some result at a time in the device buffer, parser::step over
      getc/ungetc with push-back, 16384 byte cap tested when more data is needed) computes exactly what the
      byte-level machine brun computes on the concatenation of the reads - for EVERY list of reads. *)
Theorem http_chunk_reader_refines_byte_machine :
  forall chunks p r total, within_cap total (concat chunks) p r ->
  obs (hread p r total chunks) =
  match brun p r (concat chunks) with
  | BNeedMore _ _ => ONeedMore
  | BFinished r' rest => ODone r' rest
  | BError => OError
  end.
Proof. exact hread_spec. Qed.
Print Assumptions http_chunk_reader_refines_byte_machine.

(* segmentation independence: two segmentations of the same byte stream give the same request and leave the same
   unread bytes for the body reader / the next kept-alive request *)
Theorem http_seg_indep :
  forall chunks1 chunks2 p r total,
  concat chunks1 = concat chunks2 -> within_cap total (concat chunks1) p r ->
  obs (hread p r total chunks1) = obs (hread p r total chunks2).
Proof. exact http_seg_indep_lemma. Qed.
Print Assumptions http_seg_indep.

(* a stream the byte machine rejects is rejected under every segmentation, with or without the cap *)
Theorem http_error_seg_indep :
  forall chunks p r total, brun p r (concat chunks) = BError -> hread p r total chunks = CError.
Proof. exact hread_error. Qed.
Print Assumptions http_error_seg_indep.

(* the loop fuel of the model is never exhausted: the model never answers with its artificial constructor *)
Theorem http_model_fuel_unreachable : forall chunks p r total, hread p r total chunks <> COutOfFuel.
Proof. exact hread_no_fuel. Qed.
Print Assumptions http_model_fuel_unreachable.

Example http_seg_indep_nonvacuous :
  concat ex_http_chunks = concat ex_http_bytewise /\ concat ex_http_chunks = ex_http /\
  within_cap 0 (concat ex_http_chunks) pst0 hreq0 /\
  exists r, obs (hread pst0 hreq0 0 ex_http_chunks) = ODone r (bs "abcGE"%string) /\
            obs (hread pst0 hreq0 0 ex_http_bytewise) = ODone r (bs "abcGE"%string) /\
            meth r = bs "POST"%string /\ uri r = bs "/sync/a%20b?x=1"%string /\ clen r = 3%Z /\
            env_get (bs "HTTP_X_FOLD"%string) (env r) = Some (bs "a b"%string).
Proof.
  split; [vm_compute; reflexivity|]. split; [vm_compute; reflexivity|]. split; [vm_compute; intros H; discriminate H|].
  eexists. split; [vm_compute; reflexivity|]. repeat split; vm_compute; reflexivity.
Qed.

(* ---------------------------------------------------------------------------------------------------------
   2. FastCGI: the reader that takes every byte through the read-ahead cache (read_exact = async_read_from_socket /
      peek_bytes + read_bytes: serve from the cache, else compact and append the next read_some result) computes
      the stream-level decoder on the concatenation of the cache content and all future reads. *)
Theorem fcgi_chunk_reader_refines_stream_decoder :
  forall c, fcgi_abs (fcgi_decode_c c) = fcgi_decode (stream_of c).
Proof. exact fcgi_decode_c_spec. Qed.
Print Assumptions fcgi_chunk_reader_refines_stream_decoder.

Theorem fcgi_seg_indep :
  forall c1 c2, stream_of c1 = stream_of c2 -> fcgi_abs (fcgi_decode_c c1) = fcgi_abs (fcgi_decode_c c2).
Proof. exact fcgi_seg_indep_lemma. Qed.
Print Assumptions fcgi_seg_indep.

(* a read of exactly n bytes through the cache returns the next n bytes of the stream and leaves the rest, for every
   cache content and every segmentation of the future reads (the buffer hand-over cache_start_/cache_end_) *)
Theorem fcgi_cache_read_exact :
  forall n c, (n <= length (stream_of c))%nat ->
  exists c', read_exact (cfuel c) n c = Some (firstn n (stream_of c), c') /\ stream_of c' = skipn n (stream_of c).
Proof. exact read_exact_some. Qed.
Print Assumptions fcgi_cache_read_exact.

(* FastCGI decode inverts encode for EVERY record layout: PARAMS and STDIN cut anywhere into records of 1..65535
   bytes, every padding 0..255, any request id; rest = the bytes of the next request on a kept connection. *)
Theorem fcgi_decode_encode :
  forall rid flags pad0 pl pend sl send e body rest,
  rid < 65536 -> pad0 < 256 -> pend < 256 -> send < 256 -> flags < 256 ->
  layout_ok pl -> layout_ok sl ->
  layout_data pl = enc_pairs e -> env_ok e -> N.of_nat (length (enc_pairs e)) < 16384 ->
  layout_data sl = body -> Z.to_nat (env_clen e) = length body ->
  fcgi_decode (enc_fcgi rid flags pad0 pl pend sl send ++ rest) = FOk (N.odd flags) e body rest.
Proof. exact fcgi_decode_enc. Qed.
Print Assumptions fcgi_decode_encode.

Theorem fcgi_layout_indep :
  forall rid flags e body pad0 pl pend sl send pad0' pl' pend' sl' send' rest,
  rid < 65536 -> flags < 256 -> env_ok e -> N.of_nat (length (enc_pairs e)) < 16384 ->
  Z.to_nat (env_clen e) = length body ->
  pad0 < 256 -> pend < 256 -> send < 256 -> layout_ok pl -> layout_ok sl ->
  layout_data pl = enc_pairs e -> layout_data sl = body ->
  pad0' < 256 -> pend' < 256 -> send' < 256 -> layout_ok pl' -> layout_ok sl' ->
  layout_data pl' = enc_pairs e -> layout_data sl' = body ->
  fcgi_decode (enc_fcgi rid flags pad0 pl pend sl send ++ rest)
  = fcgi_decode (enc_fcgi rid flags pad0' pl' pend' sl' send' ++ rest).
Proof. exact fcgi_layout_indep_lemma. Qed.
Print Assumptions fcgi_layout_indep.

Theorem fcgi_pairs_roundtrip :
  forall e, env_ok e -> parse_pairs (S (length (enc_pairs e))) (enc_pairs e) = e.
Proof. exact parse_pairs_roundtrip. Qed.
Print Assumptions fcgi_pairs_roundtrip.

Example fcgi_nonvacuous :
  layout_ok ex_plA /\ layout_ok ex_plB /\ layout_ok ex_slA /\ layout_ok ex_slB /\
  layout_data ex_plA = enc_pairs ex_env /\ layout_data ex_plB = enc_pairs ex_env /\
  layout_data ex_slA = ex_body /\ layout_data ex_slB = ex_body /\
  env_ok ex_env /\ N.of_nat (length (enc_pairs ex_env)) < 16384 /\ Z.to_nat (env_clen ex_env) = length ex_body /\
  ex_fcgiA <> ex_fcgiB /\
  fcgi_decode (ex_fcgiA ++ ex_next) = FOk true ex_env ex_body ex_next /\
  fcgi_decode (ex_fcgiB ++ ex_next) = FOk true ex_env ex_body ex_next /\
  concat ex_fcgi_chunks = ex_fcgiB ++ ex_next /\
  fcgi_abs (fcgi_decode_c (cache_of ex_fcgi_chunks)) = FOk true ex_env ex_body ex_next.
Proof.
  do 4 (split; [apply layout_okb_ok; vm_compute; reflexivity|]).
  do 4 (split; [vm_compute; reflexivity|]).
  split; [apply env_okb_ok; vm_compute; reflexivity|].
  split; [vm_compute; reflexivity|]. split; [vm_compute; reflexivity|].
  split; [vm_compute; intros H; discriminate H|].
  split; [vm_compute; reflexivity|]. split; [vm_compute; reflexivity|]. split; vm_compute; reflexivity.
Qed.

(* ---------------------------------------------------------------------------------------------------------
   3. SCGI: reads of exactly 16 and then exactly size-16 bytes over any segmentation = the stream-level decoder;
      the decoder inverts the netstring encoder. *)
Theorem scgi_chunk_reader_refines_stream_decoder :
  forall c, scgi_abs (scgi_decode_c c) = scgi_decode (stream_of c).
Proof. exact scgi_decode_c_spec. Qed.
Print Assumptions scgi_chunk_reader_refines_stream_decoder.

Theorem scgi_seg_indep :
  forall c1 c2, stream_of c1 = stream_of c2 -> scgi_abs (scgi_decode_c c1) = scgi_abs (scgi_decode_c c2).
Proof. exact scgi_seg_indep_lemma. Qed.
Print Assumptions scgi_seg_indep.

(* num = the decimal length as written by the peer: any digit string without a colon that atoi reads as the
   length of the header block *)
Theorem scgi_decode_encode :
  forall num e body,
  ~ In 58 num -> (length num <= 15)%nat -> atoi num = Z.of_nat (length (enc_scgi_blob e)) ->
  N.of_nat (length (enc_scgi_blob e)) <= 16384 -> (16 < length num + 2 + length (enc_scgi_blob e))%nat ->
  scgi_env_ok e ->
  scgi_decode (enc_scgi num e body) = SOk e body.
Proof. exact scgi_decode_enc. Qed.
Print Assumptions scgi_decode_encode.

Example scgi_nonvacuous :
  ~ In 58 (bs "110"%string) /\ atoi (bs "110"%string) = Z.of_nat (length (enc_scgi_blob ex_scgi_env)) /\
  scgi_env_ok ex_scgi_env /\
  scgi_decode ex_scgi = SOk ex_scgi_env ex_body /\ concat ex_scgi_chunks = ex_scgi /\
  scgi_abs (scgi_decode_c (cache_of ex_scgi_chunks)) = SOk ex_scgi_env ex_body.
Proof.
  split; [vm_compute; intros [H|[H|[H|[]]]]; discriminate H|].
  split; [vm_compute; reflexivity|].
  split; [apply scgi_env_okb_ok; vm_compute; reflexivity|].
  split; [vm_compute; reflexivity|]. split; vm_compute; reflexivity.
Qed.

(* ---------------------------------------------------------------------------------------------------------
   4. GET / POST forms: parse_form_urlencoded inverts the urlencoded form encoder (names non-empty) *)
Theorem form_roundtrip :
  forall l, Forall form_item_ok l -> parse_form (enc_form l) = l /\ parse_post_form (enc_form l) = l.
Proof. exact parse_form_roundtrip. Qed.
Print Assumptions form_roundtrip.

Example form_nonvacuous :
  Forall form_item_ok [(bs "a b"%string, bs "1&2=3"%string); (bs "k"%string, []); ([255; 0], [37; 43])] /\
  enc_form [(bs "a b"%string, bs "1&2=3"%string); (bs "k"%string, [])] = bs "a%20b=1%262%3d3&k="%string.
Proof.
  split; [apply form_okb_ok; vm_compute; reflexivity|vm_compute; reflexivity].
Qed.

(* ---------------------------------------------------------------------------------------------------------
   5. Keep-alive.  HTTP: the connection model (header reader, process_request, body taken first from the read buffer
      then from further reads, next request starting on what is left in the buffer) equals the stream-level
      specification for every segmentation, as long as no request has more than 16385 header bytes (IOverCap marks
      the one situation in which the real reader depends on the segmentation: see docs/C01.md). *)
Theorem http_keepalive_conn_refines_stream :
  forall fuel names chunks,
  ~ In IOverCap (http_stream fuel names (concat chunks)) ->
  http_conn fuel names chunks = http_stream fuel names (concat chunks).
Proof. exact http_conn_stream. Qed.
Print Assumptions http_keepalive_conn_refines_stream.

Theorem http_keepalive_seg_indep :
  forall fuel names chunks1 chunks2,
  concat chunks1 = concat chunks2 ->
  ~ In IOverCap (http_stream fuel names (concat chunks1)) ->
  http_conn fuel names chunks1 = http_conn fuel names chunks2.
Proof. exact http_conn_seg_indep_lemma. Qed.
Print Assumptions http_keepalive_seg_indep.

(* hand-over: a delivered request is followed by the decoding of exactly the bytes after its body *)
Theorem http_keepalive_handover :
  forall f names s r rest v,
  brun pst0 hreq0 s = BFinished r rest -> consumed s rest <= 16385 ->
  process_request names r = POk v -> (0 <= v_clen v <= cl_limit)%Z ->
  (Z.to_nat (v_clen v) <= length rest)%nat ->
  http_stream (S f) names s =
  IReq v (firstn (Z.to_nat (v_clen v)) rest)
  :: match skipn (Z.to_nat (v_clen v)) rest with [] => [] | l => http_stream f names l end.
Proof. exact http_stream_keepalive_lemma. Qed.
Print Assumptions http_keepalive_handover.

Theorem http_conn_fuel_unreachable :
  forall fuel names s, (length s < fuel)%nat -> ~ In IFuel (http_stream fuel names s).
Proof. exact http_stream_fuel. Qed.
Print Assumptions http_conn_fuel_unreachable.

(* FastCGI: the chunk-level connection equals the stream-level one, and k requests sent back to back on one kept
   connection, each with its own record layout, paddings and request id, are all delivered as encoded *)
Theorem fcgi_keepalive_conn_refines_stream :
  forall fuel c, fcgi_conn_c fuel c = fcgi_conn fuel (stream_of c).
Proof. exact fcgi_conn_c_spec. Qed.
Print Assumptions fcgi_keepalive_conn_refines_stream.

Theorem fcgi_keepalive_faithful :
  forall qs fuel,
  Forall freq_ok qs -> Forall (fun q => N.odd (q_flags q) = true) qs -> (length qs <= fuel)%nat -> qs <> [] ->
  fcgi_conn fuel (flat_map enc_freq qs) = map (fun q => FIReq true (q_env q) (q_body q)) qs.
Proof. exact fcgi_keepalive_lemma. Qed.
Print Assumptions fcgi_keepalive_faithful.

Example keepalive_nonvacuous :
  (exists v1 v2, http_conn 10 ex_names ex_http2_chunks = [IReq v1 (bs "abc"%string); IReq v2 []] /\
                 v_path_info v1 = bs "/a b"%string /\ v_path_info v2 = bs "/z"%string /\
                 ~ In IOverCap (http_stream 10 ex_names (concat ex_http2_chunks))) /\
  fcgi_conn_c 5 (cache_of [ex_fcgiB; firstn 20 ex_fcgiA; skipn 20 ex_fcgiA])
  = [FIReq true ex_env ex_body; FIReq true ex_env ex_body].
Proof.
  split; [|vm_compute; reflexivity].
  eexists. eexists. split; [vm_compute; reflexivity|].
  split; [vm_compute; reflexivity|]. split; [vm_compute; reflexivity|].
  vm_compute. intros [H|[H|[]]]; discriminate H.
Qed.

(* ---------------------------------------------------------------------------------------------------------
   environment values handed to the application are C strings *)
Theorem env_values_are_c_strings : forall s, forallb (fun c => negb (c =? 0)) (cstr s) = true.
Proof. exact cstr_no_nul. Qed.
Print Assumptions env_values_are_c_strings.

(* ---------------------------------------------------------------------------------------------------------
   5b. HTTP decode inverts encode.  line_ok = a complete header line in the parser's own lexical classes (quoted strings
       and comments closed, LWS continuation lines allowed); the reader delivers exactly one header per line, in order,
       whatever follows the empty line is left unread. *)
Theorem http_head_lines :
  forall ls p r rest, st p = Idle -> brc p = 0 -> Forall line_ok ls ->
  brun p r (enc_head ls ++ rest) =
  match apply_headers (map line_hdr ls) r with None => BError | Some r' => BFinished r' rest end.
Proof. exact brun_head. Qed.
Print Assumptions http_head_lines.

(* lines without CR, double quote and opening parenthesis are delivered verbatim *)
Theorem http_plain_line_verbatim : forall l, hd_not_ws l -> plain l -> line_ok l /\ line_hdr l = l.
Proof. exact plain_line_ok. Qed.
Print Assumptions http_plain_line_verbatim.

(* request line + header lines (token names, plain values): method, URI, protocol and the CGI variables
   CONTENT_LENGTH / CONTENT_TYPE / HTTP_<NAME> are exactly those the peer encoded, in order *)
Theorem http_decode_encode :
  forall m u pr hs rest,
  req_line_ok m u pr -> Forall header_ok hs ->
  brun pst0 hreq0 (enc_head (req_line m u pr :: map hdr_line hs) ++ rest)
  = BFinished (fold_left add_hdr hs (mkhreq true m u pr [(s_SERVER_PROTOCOL, pr)] 0%Z [])) rest.
Proof. exact http_decode_enc. Qed.
Print Assumptions http_decode_encode.

Example http_decode_encode_nonvacuous :
  req_line_ok (bs "POST"%string) (bs "/sync/a%20b?x=1"%string) (bs "HTTP/1.1"%string) /\ Forall header_ok ex_hs /\
  (exists r, brun pst0 hreq0 (ex_head ++ bs "abcGE"%string) = BFinished r (bs "abcGE"%string) /\
             clen r = 3%Z /\ ctype r = bs "text/plain"%string /\ env_get (bs "HTTP_X_FOLD"%string) (env r) = Some (bs "a b"%string)) /\
  line_ok ex_folded_line /\ line_hdr ex_folded_line = ex_folded_hdr /\ ex_folded_line <> ex_folded_hdr.
Proof.
  split; [apply req_line_okb_ok; vm_compute; reflexivity|].
  split; [apply headers_okb_ok; vm_compute; reflexivity|].
  split; [eexists; split; [vm_compute; reflexivity|]; split; [vm_compute; reflexivity|]; split; vm_compute; reflexivity|].
  split; [apply line_okb_ok; vm_compute; reflexivity|].
  split; [vm_compute; reflexivity|vm_compute; intros H; discriminate H].
Qed.

(* ---------------------------------------------------------------------------------------------------------
   5c. The three front-ends agree.  For a well-formed HTTP request (token method and header names, plain values, unique
       header names, header block within the cap, Content-Length = |body|) the embedded server delivers the view v and
       the body; v is exactly the CGI view of its own environment E = v_env v (what getenv shows); and an SCGI or
       FastCGI peer that sends E (FastCGI: in any record layout) makes the application observe the same E, the same
       view and the same body.  E is env_ok (transportable) as a CONSEQUENCE of the request's well-formedness. *)
Theorem frontends_agree :
  forall names m u pr hs body v,
  req_line_ok m u pr -> Forall header_ok hs -> NoDup (names_of hs) ->
  process_request names (fold_left add_hdr hs (http_req0 m u pr)) = POk v ->
  (0 <= v_clen v <= cl_limit)%Z -> Z.to_nat (v_clen v) = length body ->
  N.of_nat (length (http_wire m u pr hs)) <= 16385 ->
  env_ok (v_env v)
  /\ (forall f rest, http_stream (S f) names (http_wire m u pr hs ++ body ++ rest)
                  = IReq v body :: match rest with [] => [] | l => http_stream f names l end)
  /\ view_of_env (v_env v) = v
  /\ (forall num, ~ In 58 num -> (length num <= 15)%nat -> atoi num = Z.of_nat (length (enc_scgi_blob (v_env v))) ->
                  N.of_nat (length (enc_scgi_blob (v_env v))) <= 16384 ->
                  (16 < length num + 2 + length (enc_scgi_blob (v_env v)))%nat ->
                  scgi_decode (enc_scgi num (v_env v) body) = SOk (v_env v) body)
  /\ (forall rid flags pad0 pl pend sl send rest,
        rid < 65536 -> pad0 < 256 -> pend < 256 -> send < 256 -> flags < 256 -> layout_ok pl -> layout_ok sl ->
        layout_data pl = enc_pairs (v_env v) -> N.of_nat (length (enc_pairs (v_env v))) < 16384 -> layout_data sl = body ->
        fcgi_decode (enc_fcgi rid flags pad0 pl pend sl send ++ rest) = FOk (N.odd flags) (v_env v) body rest).
Proof. exact frontends_agree_derived. Qed.

(* the environment of a well-formed HTTP request can be sent by an SCGI / FastCGI peer: no NUL in names and values, lengths
   below 2^31 - derived from the well-formedness of the request (used to be a premise of frontends_agree) *)
Theorem http_env_is_transportable :
  forall names m u pr hs v,
  req_line_ok m u pr -> Forall header_ok hs ->
  process_request names (fold_left add_hdr hs (http_req0 m u pr)) = POk v ->
  N.of_nat (length (http_wire m u pr hs)) <= 16385 -> env_ok (v_env v).
Proof. exact http_env_ok. Qed.
Print Assumptions http_env_is_transportable.
Print Assumptions frontends_agree.

(* ---------------------------------------------------------------------------------------------------------
   5c-bis. Header values of EVERY lexical shape pushed through parse_single_header.  A header is sent as name ":" text
       where text is any byte string in the lexical classes of the parser (gvalue_ok: started in plain input the parser
       consumes it and is back in plain input with every quoted string and comment closed; CR only as CRLF SP/HT
       continuation).  The application gets the CGI variable with value gvalue text = cstr (skip_ws (fold_text text)),
       fold_text = what parser::step leaves of the text (each CRLF SP/HT becomes the SP/HT, everything else - quotes,
       escapes, comments - verbatim).  The request is delivered with exactly one variable per header, and the three
       front-ends agree on it. *)
Theorem http_decode_encode_general :
  forall m u pr gs rest,
  req_line_ok m u pr -> Forall gheader_ok gs ->
  brun pst0 hreq0 (enc_head (req_line m u pr :: map gline gs) ++ rest)
  = BFinished (fold_left add_hdr (map deliver gs) (http_req0 m u pr)) rest.
Proof. exact http_decode_general. Qed.
Print Assumptions http_decode_encode_general.

Theorem frontends_agree_folded_quoted_values :
  forall names m u pr gs body v,
  req_line_ok m u pr -> Forall gheader_ok gs -> NoDup (names_of gs) ->
  process_request names (fold_left add_hdr (map deliver gs) (http_req0 m u pr)) = POk v ->
  (0 <= v_clen v <= cl_limit)%Z -> Z.to_nat (v_clen v) = length body ->
  N.of_nat (length (gwire m u pr gs)) <= 16385 ->
  env_ok (v_env v)
  /\ (forall f rest, http_stream (S f) names (gwire m u pr gs ++ body ++ rest)
                  = IReq v body :: match rest with [] => [] | l => http_stream f names l end)
  /\ view_of_env (v_env v) = v
  /\ (forall num, ~ In 58 num -> (length num <= 15)%nat -> atoi num = Z.of_nat (length (enc_scgi_blob (v_env v))) ->
                  N.of_nat (length (enc_scgi_blob (v_env v))) <= 16384 ->
                  (16 < length num + 2 + length (enc_scgi_blob (v_env v)))%nat ->
                  scgi_decode (enc_scgi num (v_env v) body) = SOk (v_env v) body)
  /\ (forall rid flags pad0 pl pend sl send rest,
        rid < 65536 -> pad0 < 256 -> pend < 256 -> send < 256 -> flags < 256 -> layout_ok pl -> layout_ok sl ->
        layout_data pl = enc_pairs (v_env v) -> N.of_nat (length (enc_pairs (v_env v))) < 16384 -> layout_data sl = body ->
        fcgi_decode (enc_fcgi rid flags pad0 pl pend sl send ++ rest) = FOk (N.odd flags) (v_env v) body rest).
Proof. exact frontends_agree_general. Qed.
Print Assumptions frontends_agree_folded_quoted_values.

(* plain texts (no CR, double quote, opening parenthesis) are the special case in which nothing is folded *)
Theorem plain_value_is_general : forall w, plain w -> gvalue_ok w /\ fold_text w = w.
Proof. exact plain_gvalue_ok. Qed.
Print Assumptions plain_value_is_general.

Example frontends_agree_general_nonvacuous :
  Forall gheader_ok ex_gs /\ NoDup (names_of ex_gs) /\
  process_request ex_names (fold_left add_hdr (map deliver ex_gs) (http_req0 (bs "POST"%string) (bs "/sync/a%20b?x=1"%string) (bs "HTTP/1.1"%string))) = POk ex_gv /\
  (0 <= v_clen ex_gv <= cl_limit)%Z /\ v_clen ex_gv = 3%Z /\
  N.of_nat (length (gwire (bs "POST"%string) (bs "/sync/a%20b?x=1"%string) (bs "HTTP/1.1"%string) ex_gs)) <= 16385 /\
  env_get (bs "HTTP_X_FOLD"%string) (v_env ex_gv) = Some [97; 9; 98] /\
  env_get (bs "HTTP_X_Q"%string) (v_env ex_gv) = Some (bs """q (x\"""" (c ""d"" (n)) z"%string) /\
  ~ plain (bs " a"%string ++ crlf ++ [9] ++ bs "b"%string).
Proof.
  split; [apply gheaders_okb_ok; vm_compute; reflexivity|].
  split; [apply nodupb_ok; vm_compute; reflexivity|].
  split; [vm_compute; reflexivity|].
  split; [vm_compute; split; intros H; discriminate H|].
  split; [vm_compute; reflexivity|]. split; [vm_compute; intros H; discriminate H|].
  split; [vm_compute; reflexivity|]. split; [vm_compute; reflexivity|].
  intros H. inversion H as [|? ? _ H1]; subst. inversion H1 as [|? ? _ H2]; subst. inversion H2 as [|? ? (C & _) _]; subst. apply C. reflexivity.
Qed.

(* the accessors of the HTTP front-end (method, script name, path info, query string, content type and length) are
   those any front-end reads back from the environment, for every request the reader accepts with unique names *)
Theorem http_view_is_cgi_view :
  forall names m u pr hs v,
  NoDup (names_of hs) -> process_request names (fold_left add_hdr hs (http_req0 m u pr)) = POk v ->
  view_of_env (v_env v) = v.
Proof. exact http_req_view. Qed.
Print Assumptions http_view_is_cgi_view.

(* k well-formed requests back to back on one kept-alive HTTP connection are all delivered as encoded; together with
   http_keepalive_conn_refines_stream: under every segmentation *)
Theorem http_keepalive_faithful :
  forall names qs fuel,
  Forall (hq_ok names) qs -> qs <> [] -> (length qs <= fuel)%nat ->
  http_stream fuel names (flat_map hq_wire qs) = map (fun q => IReq (hq_v q) (hq_body q)) qs.
Proof. exact http_keepalive_lemma. Qed.
Print Assumptions http_keepalive_faithful.

Example frontends_agree_nonvacuous :
  NoDup (names_of ex_hs) /\
  process_request ex_names (fold_left add_hdr ex_hs (http_req0 (bs "POST"%string) (bs "/sync/a%20b?x=1"%string) (bs "HTTP/1.1"%string))) = POk ex_v /\
  (0 <= v_clen ex_v <= cl_limit)%Z /\ Z.to_nat (v_clen ex_v) = length (bs "abc"%string) /\
  N.of_nat (length (http_wire (bs "POST"%string) (bs "/sync/a%20b?x=1"%string) (bs "HTTP/1.1"%string) ex_hs)) <= 16385 /\
  env_ok (v_env ex_v) /\
  v_script ex_v = bs "/sync"%string /\ v_path_info ex_v = bs "/a b"%string /\ v_query ex_v = bs "x=1"%string /\
  v_ctype ex_v = bs "text/plain"%string /\
  hq_ok ex_names ex_q1 /\ hq_ok ex_names ex_q2 /\
  http_conn 5 ex_names [firstn 30 (hq_wire ex_q1 ++ hq_wire ex_q2); skipn 30 (hq_wire ex_q1 ++ hq_wire ex_q2)]
  = [IReq (hq_v ex_q1) (hq_body ex_q1); IReq (hq_v ex_q2) (hq_body ex_q2)].
Proof.
  split; [apply nodupb_ok; vm_compute; reflexivity|].
  split; [vm_compute; reflexivity|].
  split; [vm_compute; split; intros H; discriminate H|].
  split; [vm_compute; reflexivity|]. split; [vm_compute; intros H; discriminate H|].
  split; [apply env_okb_ok; vm_compute; reflexivity|].
  do 4 (split; [vm_compute; reflexivity|]).
  split.
  { split; [apply req_line_okb_ok; vm_compute; reflexivity|]. split; [apply headers_okb_ok; vm_compute; reflexivity|].
    split; [vm_compute; reflexivity|]. split; [vm_compute; split; intros H; discriminate H|].
    split; [vm_compute; reflexivity|vm_compute; intros H; discriminate H]. }
  split.
  { split; [apply req_line_okb_ok; vm_compute; reflexivity|]. split; [apply headers_okb_ok; vm_compute; reflexivity|].
    split; [vm_compute; reflexivity|]. split; [vm_compute; split; intros H; discriminate H|].
    split; [vm_compute; reflexivity|vm_compute; intros H; discriminate H]. }
  vm_compute. reflexivity.
Qed.

(* ---------------------------------------------------------------------------------------------------------
   5e. The property in its final form: all well-formed requests x all segmentations of the byte stream x all FastCGI
       record layouts x keep-alive sequences of k requests, for the models that are extracted and run against the
       real service (http_conn, fcgi_conn_c, scgi_decode_c). *)
Theorem http_all_segmentations :
  forall names qs chunks fuel,
  Forall (hq_ok names) qs -> qs <> [] -> (length qs <= fuel)%nat ->
  concat chunks = flat_map hq_wire qs ->
  http_conn fuel names chunks = map (fun q => IReq (hq_v q) (hq_body q)) qs.
Proof. exact http_all_segmentations_lemma. Qed.
Print Assumptions http_all_segmentations.

Theorem fcgi_all_segmentations :
  forall qs chunks fuel,
  Forall freq_ok qs -> Forall (fun q => N.odd (q_flags q) = true) qs -> (length qs <= fuel)%nat -> qs <> [] ->
  concat chunks = flat_map enc_freq qs ->
  fcgi_conn_c fuel (cache_of chunks) = map (fun q => FIReq true (q_env q) (q_body q)) qs.
Proof. exact fcgi_all_segmentations_lemma. Qed.
Print Assumptions fcgi_all_segmentations.

Theorem scgi_all_segmentations :
  forall num e body chunks,
  ~ In 58 num -> (length num <= 15)%nat -> atoi num = Z.of_nat (length (enc_scgi_blob e)) ->
  N.of_nat (length (enc_scgi_blob e)) <= 16384 -> (16 < length num + 2 + length (enc_scgi_blob e))%nat ->
  scgi_env_ok e ->
  concat chunks = enc_scgi num e body ->
  scgi_abs (scgi_decode_c (cache_of chunks)) = SOk e body.
Proof. exact scgi_all_segmentations_lemma. Qed.
Print Assumptions scgi_all_segmentations.

(* the HTTP view field by field: method as sent, SCRIPT_NAME = the first configured script name matching on a path
   component boundary, PATH_INFO = percent-decoded rest of the path (C string), QUERY_STRING verbatim (not decoded) *)
Theorem http_request_view :
  forall names m script path q pr hs,
  all_token m -> no_byte 63 script -> no_byte 63 path -> (exists s', script = 47 :: s') ->
  strip_script names (script ++ path) = Some (script, path) ->
  exists v,
    process_request names (fold_left add_hdr hs (http_req0 m (script ++ path ++ qpart q) pr)) = POk v /\
    v_method v = m /\ v_script v = script /\ v_path_info v = cstr (urldecode path) /\
    v_query v = (match q with Some qs => qs | None => [] end).
Proof. exact http_request_view_lemma. Qed.
Print Assumptions http_request_view.

Theorem script_name_first_match :
  forall before script after path,
  Forall (fun n => script_matches n (script ++ path) = false) before -> boundary path ->
  strip_script (before ++ script :: after) (script ++ path) = Some (script, path).
Proof. exact strip_script_hit. Qed.
Print Assumptions script_name_first_match.

(* the header glue on any delivered header text "token-name : anything" - with http_head_lines this covers folded
   lines, quoted strings and comments: the value is everything after the colon, leading LWS skipped, verbatim *)
Theorem http_header_glue_general :
  forall n x, all_token n -> parse_single_header (n ++ 58 :: x) = Some (map upper_name n, cstr (skip_ws x)).
Proof. exact parse_single_header_general. Qed.
Print Assumptions http_header_glue_general.

Example final_form_nonvacuous :
  Forall (hq_ok ex_names) [ex_q1; ex_q2] /\
  strip_script ex_names (bs "/async"%string ++ bs "/a%20b"%string) = Some (bs "/async"%string, bs "/a%20b"%string) /\
  Forall (fun n => script_matches n (bs "/async"%string ++ bs "/a%20b"%string) = false) [bs "/sync"%string] /\
  cstr (urldecode (bs "/a%20b"%string)) = bs "/a b"%string /\
  script_matches (bs "/sync"%string) (bs "/syncx/y"%string) = false.
Proof.
  destruct frontends_agree_nonvacuous as (_ & _ & _ & _ & _ & _ & _ & _ & _ & _ & H1 & H2 & _).
  split; [constructor; [exact H1|constructor; [exact H2|constructor]]|].
  split; [vm_compute; reflexivity|]. split; [constructor; [vm_compute; reflexivity|constructor]|]. split; vm_compute; reflexivity.
Qed.

(* ---------------------------------------------------------------------------------------------------------
   5f. Cookies: request::parse_cookies (read_key_value, unquote, the first cookie of a name wins) inverts the Cookie header
       encoder "k1=v1; k2=v2; ..." for token names not starting with $, token (possibly empty) values, unique names. *)
Theorem cookies_roundtrip :
  forall l, Forall cookie_ok l -> NoDup (map fst l) -> parse_cookies (enc_cookies l) = l.
Proof. exact parse_cookies_enc. Qed.
Print Assumptions cookies_roundtrip.

Example cookies_nonvacuous :
  Forall cookie_ok [(bs "sid"%string, bs "a1-b2.c3"%string); (bs "k"%string, []); (bs "theme"%string, bs "dark"%string)] /\
  enc_cookies [(bs "sid"%string, bs "a1-b2.c3"%string); (bs "k"%string, []); (bs "theme"%string, bs "dark"%string)]
  = bs "sid=a1-b2.c3; k=; theme=dark"%string /\
  parse_cookies (bs "$Version=1; a=""x y;,"" , b = 2;a=3"%string) = [(bs "a"%string, bs "x y;,"%string); (bs "b"%string, bs "2"%string)].
Proof.
  split; [apply cookies_okb_ok; vm_compute; reflexivity|]. split; vm_compute; reflexivity.
Qed.

(* ---------------------------------------------------------------------------------------------------------
   5f-bis. GET / POST form fields and cookies as the application observes them (observe = the view, the raw body and
       the three maps request::prepare derives: parse_form_urlencoded of QUERY_STRING, of the body when the content type
       is application/x-www-form-urlencoded, parse_cookies of HTTP_COOKIE; observe is what the extracted model prints).
       parse (encode fields) = fields for EVERY field list (names non-empty, all bytes) and every cookie list (token names
       and values, unique names). *)
Theorem forms_and_cookies_roundtrip :
  forall v body gets posts cs,
  v_query v = enc_form gets -> Forall form_item_ok gets ->
  is_urlencoded (v_ctype v) = true -> body = enc_form posts -> Forall form_item_ok posts ->
  env_get s_HTTP_COOKIE (v_env v) = Some (enc_cookies cs) -> Forall cookie_ok cs -> NoDup (map fst cs) ->
  o_get (observe v body) = gets /\ o_post (observe v body) = posts /\ o_cookies (observe v body) = cs.
Proof. exact observe_roundtrip. Qed.
Print Assumptions forms_and_cookies_roundtrip.

(* a Cookie header (any spelling of the name, value text of any lexical shape) reaches parse_cookies as HTTP_COOKIE *)
Theorem http_cookie_header_delivered :
  forall names m u pr gs v n w,
  NoDup (names_of gs) -> In (n, w) gs -> map upper_name n = [67; 79; 79; 75; 73; 69] ->
  process_request names (fold_left add_hdr (map deliver gs) (http_req0 m u pr)) = POk v ->
  env_get s_HTTP_COOKIE (v_env v) = Some (gvalue w).
Proof. exact http_cookie_delivered. Qed.
Print Assumptions http_cookie_header_delivered.

(* composition: a cookie list sent as the header "<any spelling of Cookie>: k1=v1; k2=v2; ..." among other headers of any
   shape is what request().cookies() shows (header reader + header glue + parse_cookies) *)
Theorem http_cookies_sent_are_cookies_observed :
  forall names m u pr gs v n cs body,
  NoDup (names_of gs) -> In (n, 32 :: enc_cookies cs) gs -> map upper_name n = [67; 79; 79; 75; 73; 69] ->
  Forall cookie_ok cs -> cs <> [] -> NoDup (map fst cs) ->
  process_request names (fold_left add_hdr (map deliver gs) (http_req0 m u pr)) = POk v ->
  o_cookies (observe v body) = cs.
Proof. exact http_cookies_end_to_end. Qed.
Print Assumptions http_cookies_sent_are_cookies_observed.

(* composition for the forms: a field list encoded after the question mark of the request URI is request().get(); a field
   list encoded in the body of a request whose Content-Type header (any spelling of the name, value of any lexical shape) names
   the urlencoded media type is request().post() *)
Theorem http_get_fields_sent_are_fields_observed :
  forall names m script path pr hs gets body,
  all_token m -> no_byte 63 script -> no_byte 63 path -> (exists s', script = 47 :: s') ->
  strip_script names (script ++ path) = Some (script, path) -> Forall form_item_ok gets ->
  exists v,
    process_request names (fold_left add_hdr hs (http_req0 m (script ++ path ++ qpart (Some (enc_form gets))) pr)) = POk v /\
    o_get (observe v body) = gets.
Proof. exact http_get_fields_end_to_end. Qed.
Print Assumptions http_get_fields_sent_are_fields_observed.

Theorem http_post_fields_sent_are_fields_observed :
  forall names m u pr gs v n w posts,
  NoDup (names_of gs) -> In (n, w) gs -> map upper_name n = s_CONTENT_TYPE -> is_urlencoded (gvalue w) = true ->
  process_request names (fold_left add_hdr (map deliver gs) (http_req0 m u pr)) = POk v ->
  Forall form_item_ok posts ->
  o_post (observe v (enc_form posts)) = posts.
Proof. exact http_post_fields_end_to_end. Qed.
Print Assumptions http_post_fields_sent_are_fields_observed.

(* the three front-ends deliver the same GET form, POST form and cookie maps (and view and body): an SCGI or FastCGI peer
   (any record layout) sending the environment of the HTTP request makes the application observe exactly what it
   observes over HTTP *)
Theorem frontends_same_forms_and_cookies :
  forall names m u pr gs body v,
  req_line_ok m u pr -> Forall gheader_ok gs -> NoDup (names_of gs) ->
  process_request names (fold_left add_hdr (map deliver gs) (http_req0 m u pr)) = POk v ->
  (0 <= v_clen v <= cl_limit)%Z -> Z.to_nat (v_clen v) = length body ->
  N.of_nat (length (gwire m u pr gs)) <= 16385 ->
  (forall f rest, http_stream (S f) names (gwire m u pr gs ++ body ++ rest)
                  = IReq v body :: match rest with [] => [] | l => http_stream f names l end)
  /\ (forall num, ~ In 58 num -> (length num <= 15)%nat -> atoi num = Z.of_nat (length (enc_scgi_blob (v_env v))) ->
                  N.of_nat (length (enc_scgi_blob (v_env v))) <= 16384 ->
                  (16 < length num + 2 + length (enc_scgi_blob (v_env v)))%nat ->
                  exists e b, scgi_decode (enc_scgi num (v_env v) body) = SOk e b /\ observe_env e b = observe v body)
  /\ (forall rid flags pad0 pl pend sl send rest,
        rid < 65536 -> pad0 < 256 -> pend < 256 -> send < 256 -> flags < 256 -> layout_ok pl -> layout_ok sl ->
        layout_data pl = enc_pairs (v_env v) -> N.of_nat (length (enc_pairs (v_env v))) < 16384 -> layout_data sl = body ->
        exists e b, fcgi_decode (enc_fcgi rid flags pad0 pl pend sl send ++ rest) = FOk (N.odd flags) e b rest /\
                    observe_env e b = observe v body).
Proof. exact frontends_same_observation. Qed.
Print Assumptions frontends_same_forms_and_cookies.

(* POST /sync/p?a%20b=1%262%3d3&k= with a Cookie header, an urlencoded body and a folded header: the application
   observes the field lists and cookies the peer encoded *)
Example forms_and_cookies_nonvacuous :
  Forall gheader_ok ex_gs2 /\ NoDup (names_of ex_gs2) /\ req_line_ok (bs "POST"%string) ex_u2 (bs "HTTP/1.1"%string) /\
  process_request ex_names (fold_left add_hdr (map deliver ex_gs2) (http_req0 (bs "POST"%string) ex_u2 (bs "HTTP/1.1"%string))) = POk ex_v2 /\
  Z.to_nat (v_clen ex_v2) = length ex_body2 /\
  Forall form_item_ok ex_gets /\ Forall form_item_ok ex_posts /\ Forall cookie_ok ex_cs /\ NoDup (map fst ex_cs) /\
  v_query ex_v2 = enc_form ex_gets /\ is_urlencoded (v_ctype ex_v2) = true /\
  env_get s_HTTP_COOKIE (v_env ex_v2) = Some (enc_cookies ex_cs) /\
  o_get (observe ex_v2 ex_body2) = ex_gets /\ o_post (observe ex_v2 ex_body2) = ex_posts /\ o_cookies (observe ex_v2 ex_body2) = ex_cs.
Proof.
  split; [apply gheaders_okb_ok; vm_compute; reflexivity|].
  split; [apply nodupb_ok; vm_compute; reflexivity|].
  split; [apply req_line_okb_ok; vm_compute; reflexivity|].
  split; [vm_compute; reflexivity|]. split; [vm_compute; reflexivity|].
  split; [apply form_okb_ok; vm_compute; reflexivity|]. split; [apply form_okb_ok; vm_compute; reflexivity|].
  split; [apply cookies_okb_ok; vm_compute; reflexivity|]. split; [apply nodupb_ok; vm_compute; reflexivity|].
  repeat split; vm_compute; reflexivity.
Qed.

(* ---------------------------------------------------------------------------------------------------------
   5d. string_pool (private/string_map.h), the arena of the environment strings: for EVERY sequence of alloc / add /
       clear every allocation lies inside the page it was carved from, and clear() (called between the requests of a
       kept-alive connection) returns the pool to its initial state. *)
Theorem pool_in_bounds :
  forall ops p, inv p -> Forall (fun t => let '(i, off, n, cap) := t in off + n <= cap) (pool_run ops p).
Proof. exact pool_in_bounds_lemma. Qed.
Print Assumptions pool_in_bounds.

Theorem pool_initial_invariant : inv pool0.
Proof. exact inv0. Qed.
Print Assumptions pool_initial_invariant.

Theorem pool_clear_is_initial : forall p, inv p -> clear p = pool0.
Proof. exact clear_is_initial. Qed.
Print Assumptions pool_clear_is_initial.

Example pool_nonvacuous :
  pool_run [OClear; OAlloc 10; OAlloc 10; OAlloc 1501; OClear; OAlloc 2000; OAlloc 1024; OAlloc 1024; OAlloc 1] pool0
  = [(0%nat, 0, 10, 2048); (0%nat, 10, 10, 2048); (1%nat, 0, 1501, 1501); (1%nat, 0, 2000, 2000);
     (0%nat, 0, 1024, 2048); (0%nat, 1024, 1024, 2048); (2%nat, 0, 1, 2048)].
Proof. vm_compute. reflexivity. Qed.

(* ---------------------------------------------------------------------------------------------------------
   5g. string_map (private/string_map.h), the open-addressing hash map behind connection::env_: linear probing from
       hash % size, growth to twice the size when total_*2 >= size (re-inserting the entries in list order), clear().
       For EVERY hash function h, EVERY number of variables with distinct names (across any number of growths):
       all add loops stop, total_ counts the variables, get returns for every name exactly what the association list
       env_t of the front-end models returns (the value added under that name; null for an absent name - that probe
       loop stops too), and the iteration begin()..end() visits exactly the added pairs.  This is what justifies
       modelling env_ as an association list in all theorems above. *)
Theorem env_map_refines_assoc_list :
  forall (h : bytes -> N) l, NoDup (map fst l) ->
  exists m, sm_adds h l smap0 = Some m /\ total m = length l /\
            (forall k, sm_get h m k = Some (env_get k l)) /\
            (forall e, In e (entries_of (tbl m) (chain m)) <-> In e l).
Proof. exact smap_refines_env. Qed.
Print Assumptions env_map_refines_assoc_list.

Theorem env_map_absent_lookup_terminates :
  forall (h : bytes -> N) l k, NoDup (map fst l) -> ~ In k (map fst l) ->
  exists m, sm_adds h l smap0 = Some m /\ sm_get h m k = Some None.
Proof. exact smap_absent_terminates. Qed.
Print Assumptions env_map_absent_lookup_terminates.

(* clear() between the requests of a kept-alive connection: the next request is parsed into the initial map *)
Theorem env_map_clear_is_initial : forall m, sm_clear m = smap0.
Proof. exact smap_clear_initial. Qed.
Print Assumptions env_map_clear_is_initial.

(* 140 variables (three growths: 64 -> 128 -> 256 -> 512 slots) with the hash function of private/hash_map.h; growth
   happens at the 33rd and 65th add.  Duplicate names are outside the theorem: the code returns the value added FIRST
   while the table has not grown since, the one added SECOND after one growth (the re-insertion walks the list from the
   most recent entry) and the first again after two growths - replayed on the real class by corpus/C01/smap.case. *)
Example env_map_nonvacuous :
  NoDup (map fst (ex_vars 140)) /\ size_after (ex_vars 140) = Some (512, 140)%nat /\
  get_after (ex_vars 140) (ex_key 77) = Some (Some (ex_val 77)) /\ get_after (ex_vars 140) (ex_key 140) = Some None /\
  size_after (ex_vars 32) = Some (64, 32)%nat /\ size_after (ex_vars 33) = Some (128, 33)%nat /\
  size_after (ex_vars 64) = Some (128, 64)%nat /\ size_after (ex_vars 65) = Some (256, 65)%nat /\
  get_after (ex_dups 30) ex_dup_key = Some (Some [49]) /\ get_after (ex_dups 31) ex_dup_key = Some (Some [50]) /\
  get_after (ex_dups 62) ex_dup_key = Some (Some [50]) /\ get_after (ex_dups 63) ex_dup_key = Some (Some [49]).
Proof.
  split; [apply nodupb_ok; vm_compute; reflexivity|].
  do 10 (split; [vm_compute; reflexivity|]). vm_compute; reflexivity.
Qed.

(* ---------------------------------------------------------------------------------------------------------
   5h. Keep-alive, final form: k requests on one connection (HTTP: header values of every lexical shape; FastCGI: every
       request in its own record layout), the byte stream cut into reads ANYWHERE: the connection delivers each request
       exactly as if it were sent alone, in one piece, on a fresh connection - nothing of the state carried between the
       requests (read-ahead buffer / cache_, parser state, total_read_) leaks.  SCGI serves one request per connection
       (scgi_all_segmentations).  The per-request state of the connection object - string_pool and env_ map - is
       cleared by reset_all(): allocation trace and map of every request are those of the request alone on a fresh
       connection, whatever state (satisfying the pool invariant) the earlier requests left. *)
Theorem http_keepalive_each_as_if_alone :
  forall names qs chunks fuel,
  Forall (hg_ok names) qs -> qs <> [] -> (length qs <= fuel)%nat ->
  concat chunks = flat_map hg_wire qs ->
  http_conn fuel names chunks = flat_map (fun q => http_conn 1 names [hg_wire q]) qs
  /\ http_conn fuel names chunks = map (fun q => IReq (g_v q) (g_body q)) qs.
Proof.
  intros names qs chunks fuel OK NE F C. split;
    [exact (http_keepalive_as_if_alone names qs chunks fuel OK NE F C)|exact (http_all_segmentations_general names qs chunks fuel OK NE F C)].
Qed.
Print Assumptions http_keepalive_each_as_if_alone.

Theorem fcgi_keepalive_each_as_if_alone :
  forall qs chunks fuel,
  Forall freq_ok qs -> Forall (fun q => N.odd (q_flags q) = true) qs -> (length qs <= fuel)%nat -> qs <> [] ->
  concat chunks = flat_map enc_freq qs ->
  fcgi_conn_c fuel (cache_of chunks) = flat_map (fun q => fcgi_conn_c 1 (cache_of [enc_freq q])) qs.
Proof. exact fcgi_keepalive_as_if_alone. Qed.
Print Assumptions fcgi_keepalive_each_as_if_alone.

Theorem keepalive_pool_and_env_do_not_leak :
  forall (h : bytes -> N) reqs p m, inv p -> conn_state_run h reqs p m = map (alone_state h) reqs.
Proof. exact keepalive_state_no_leak. Qed.
Print Assumptions keepalive_pool_and_env_do_not_leak.

Theorem keepalive_request_reads_its_own_variables :
  forall (h : bytes -> N) reqs p m, inv p -> Forall (fun vars => NoDup (map fst vars)) reqs ->
  Forall2 (fun vars out => exists m', snd out = Some m' /\ forall k, sm_get h m' k = Some (env_get k vars))
          reqs (conn_state_run h reqs p m).
Proof. exact keepalive_env_own_variables. Qed.
Print Assumptions keepalive_request_reads_its_own_variables.

Example keepalive_general_nonvacuous :
  let q1 := mkhg (bs "POST"%string) ex_u2 (bs "HTTP/1.1"%string) ex_gs2 ex_body2 ex_v2 in
  let q2 := mkhg (bs "POST"%string) (bs "/sync/a%20b?x=1"%string) (bs "HTTP/1.1"%string) ex_gs (bs "abc"%string) ex_gv in
  hg_ok ex_names q1 /\ hg_ok ex_names q2 /\
  http_conn 3 ex_names [firstn 37 (hg_wire q1 ++ hg_wire q2); skipn 37 (hg_wire q1 ++ hg_wire q2)]
  = [IReq ex_v2 ex_body2; IReq ex_gv (bs "abc"%string)] /\
  conn_state_run elf_hash [ex_vars 70; ex_vars 3] pool0 smap0 = [alone_state elf_hash (ex_vars 70); alone_state elf_hash (ex_vars 3)].
Proof.
  cbv zeta. split.
  { split; [apply req_line_okb_ok; vm_compute; reflexivity|]. split; [apply gheaders_okb_ok; vm_compute; reflexivity|].
    split; [vm_compute; reflexivity|]. split; [vm_compute; split; intros H; discriminate H|].
    split; [vm_compute; reflexivity|vm_compute; intros H; discriminate H]. }
  split.
  { split; [apply req_line_okb_ok; vm_compute; reflexivity|]. split; [apply gheaders_okb_ok; vm_compute; reflexivity|].
    split; [vm_compute; reflexivity|]. split; [vm_compute; split; intros H; discriminate H|].
    split; [vm_compute; reflexivity|vm_compute; intros H; discriminate H]. }
  split; vm_compute; reflexivity.
Qed.

(* ---------------------------------------------------------------------------------------------------------
   6. Tie to the source: leaf predicates regenerated from private/http_protocol.h by tools/cxx2v.py on every run
      equal the model's leafs on all 256 bytes (the char parameter is signed: wraps 8). *)
Theorem tie_separator : forall b, b < 256 -> g_separator (wraps 8 (Z.of_N b)) = separator b.
Proof. exact link_separator. Qed.
Print Assumptions tie_separator.
Theorem tie_token_char : forall b, b < 256 -> g_token_char (wraps 8 (Z.of_N b)) = token_char b.
Proof. exact link_token_char. Qed.
Print Assumptions tie_token_char.
Theorem tie_xdigit : forall b, b < 256 -> g_xdigit1 (wraps 8 (Z.of_N b)) = xdigit b.
Proof. exact link_xdigit. Qed.
Print Assumptions tie_xdigit.
Theorem tie_ascii_to_lower : forall b, b < 256 -> Z.to_N (wrapu 8 (g_ascii_to_lower (wraps 8 (Z.of_N b)))) = lower b.
Proof. exact link_lower. Qed.
Print Assumptions tie_ascii_to_lower.
