(* C01: the HTTP peer side - request head encoder - and the header lines as the parser delivers them.
   Definitions only. *)
From Coq Require Import NArith ZArith List Bool.
From CppcmsV Require Import C15.Defs C01.Defs C01.HttpSpec.
Import ListNotations.
Local Open Scope N_scope.

(* feed the bytes of one (possibly folded) line into the parser: all of them are consumed without a result *)
Fixpoint feed (p : pst) (l : bytes) : option pst :=
  match l with
  | [] => Some p
  | c :: r => match pbyte p c with inr p' => feed p' r | inl _ => None end
  end.

Definition idle0 : pst := mkpst Idle 0 [].

(* a complete header line as a peer may send it: the parser, started at the beginning of a line, consumes it and is
   back in plain input with every quoted string and comment closed; LWS continuation lines (CRLF SP/HT) inside it are
   allowed.  The first byte is not SP/HT (it would continue the previous line). *)
Definition hd_not_ws (l : bytes) : Prop := match l with c :: _ => c <> 32 /\ c <> 9 | [] => False end.
Definition line_ok (l : bytes) : Prop :=
  hd_not_ws l /\ exists p', feed idle0 l = Some p' /\ st p' = InputObserved /\ brc p' = 0.
(* what the parser hands to the header glue for such a line (LWS folding removes the CRLF) *)
Definition line_hdr (l : bytes) : bytes :=
  match feed idle0 l with Some p' => rev (hdr p') | None => [] end.

Definition crlf : bytes := [13; 10].
Definition enc_head (lines : list bytes) : bytes := flat_map (fun l => l ++ crlf) lines ++ crlf.

Fixpoint apply_headers (hs : list bytes) (r : hreq) : option hreq :=
  match hs with
  | [] => Some r
  | h :: t => match on_header h r with None => None | Some r' => apply_headers t r' end
  end.

(* plain lines: no CR, no double quote, no opening parenthesis - the common case, independent of the parser *)
Definition plain_char (c : N) : Prop := c <> 13 /\ c <> 34 /\ c <> 40.
Definition plain (l : bytes) : Prop := Forall plain_char l.

(* request line and header lines *)
Definition req_line (m u pr : bytes) : bytes := m ++ [32] ++ u ++ [32] ++ pr.
Definition hdr_line (nv : bytes * bytes) : bytes := fst nv ++ [58; 32] ++ snd nv.

Definition no_byte (c : N) (s : bytes) : Prop := ~ In c s.
Definition all_token (s : bytes) : Prop := s <> [] /\ Forall (fun c => token_char c = true) s.
Definition value_ok (v : bytes) : Prop :=
  plain v /\ no_byte 0 v /\ match v with c :: _ => c <> 32 /\ c <> 9 | [] => True end.
Definition other_name (n : bytes) : Prop :=
  beqb (map upper_name n) s_CONTENT_LENGTH = false /\ beqb (map upper_name n) s_CONTENT_TYPE = false.
