(* C01: byte-level specification machine of the HTTP header reader.
   The chunk-level model (Defs.hread: one read_some result at a time, placed in the device buffer, parser::step
   looping over getc/ungetc) is proved in HttpSeg.v to compute exactly what this machine computes on the
   concatenation of the chunks.  Definitions only. *)
From Coq Require Import NArith ZArith List Bool.
From CppcmsV Require Import C15.Defs C01.Defs.
Import ListNotations.
Local Open Scope N_scope.

(* parser::step() on an abstract byte stream: the result of step() together with the bytes that are still
   unread when it returns (a pushed back byte is unread again) *)
Inductive scanres := ScMore (p : pst) | ScRes (r : presult) (p : pst) (rest : bytes).

Fixpoint pscan (p : pst) (s : bytes) : scanres :=
  match s with
  | [] => ScMore p
  | c :: s' => match pbyte p c with
               | inr p' => pscan p' s'
               | inl (r, p', None) => ScRes r p' s'
               | inl (r, p', Some _) => ScRes r p' s
               end
  end.

(* the byte machine: state = parser state + request under construction; one transition per input byte.
   A header is completed by the first byte of the NEXT line: that byte finishes the header (on_header) and is then
   consumed as the first byte of the next header (parser state idle). *)
Inductive bst := BRun (p : pst) (r : hreq) | BDone (r : hreq) | BErr.

Definition bbyte (p : pst) (r : hreq) (c : N) : bst :=
  match pbyte p c with
  | inr p' => BRun p' r
  | inl (EndOfHeaders, _, _) => BDone r
  | inl (GotHeader, p', u) =>
      match on_header (rev (hdr p')) r with
      | None => BErr
      | Some r' => match u with
                   | None => BRun p' r'
                   | Some c' => match pbyte p' c' with inr p'' => BRun p'' r' | inl _ => BErr end
                   end
      end
  | inl (_, _, _) => BErr
  end.

Inductive bres := BNeedMore (p : pst) (r : hreq) | BFinished (r : hreq) (rest : bytes) | BError.

Fixpoint brun (p : pst) (r : hreq) (s : bytes) : bres :=
  match s with
  | [] => BNeedMore p r
  | c :: s' => match bbyte p r c with
               | BRun p' r' => brun p' r' s'
               | BDone r' => BFinished r' s'
               | BErr => BError
               end
  end.

(* number of stream bytes consumed when the headers are complete *)
Definition consumed (s rest : bytes) : N := N.of_nat (length s - length rest).

(* what a connection-level result means for the rest of the connection: the request and ALL bytes not yet
   consumed (rest of the current read buffer followed by the reads that have not been looked at) *)
Inductive cobs := ONeedMore | ODone (r : hreq) (unread : bytes) | OError | OFuel.
Definition obs (c : conn_out) : cobs :=
  match c with
  | CNeedMore => ONeedMore
  | CDone r rest unread => ODone r (rest ++ concat unread)
  | CError => OError
  | COutOfFuel => OFuel
  end.

Definition dev_rest (d : dev) : bytes := skipn (ptr d) (buf d).
Definition idle (p : pst) : bool := match st p with Idle => true | _ => false end.
