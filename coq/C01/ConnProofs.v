(* C01: keep-alive - the chunk-level connection model computes the stream-level specification *)
From CppcmsV Require Import Base.Tac C15.Defs C01.Defs C01.HttpSpec C01.HttpSeg C01.Conn.
Local Open Scope N_scope.

Lemma take_body_spec chunks : forall n,
  ((n <= length (concat chunks))%nat ->
     exists l, take_body chunks n = Some (firstn n (concat chunks), l) /\ concat l = skipn n (concat chunks))
  /\ ((length (concat chunks) < n)%nat -> take_body chunks n = None).
Proof.
  induction chunks as [|c cs IH]; intros n.
  - destruct n as [|n]; cbn [take_body concat length]; split; intros H; try lia; try reflexivity.
    exists []. split; reflexivity.
  - destruct n as [|n].
    + cbn [take_body]. split; [intros _|lia]. eexists. split; reflexivity.
    + cbn [take_body concat]. rewrite app_length.
      destruct (Nat.leb_spec (S n) (length c)) as [L|L].
      * split; [intros _|lia]. eexists. split.
        -- rewrite firstn_app. replace (S n - length c)%nat with 0%nat by lia. cbn [firstn]. rewrite app_nil_r. reflexivity.
        -- cbn [concat]. rewrite skipn_app. replace (S n - length c)%nat with 0%nat by lia. reflexivity.
      * destruct (IH (S n - length c)%nat) as [I1 I2]. split; intros H.
        -- destruct I1 as (l & E & Cl); [lia|]. rewrite E. exists l. split.
           ++ rewrite firstn_app, (firstn_all2 (n:=S n) c) by lia. reflexivity.
           ++ rewrite skipn_app, (skipn_all2 (n:=S n) c) by lia. exact Cl.
        -- rewrite I2 by lia. reflexivity.
Qed.

Lemma obs_done c r rest : obs c = ODone r rest ->
  exists rest' unread, c = CDone r rest' unread /\ rest' ++ concat unread = rest.
Proof. destruct c; cbn [obs]; intros H; inversion H; subst. eauto. Qed.

Theorem http_conn_stream fuel names : forall chunks,
  ~ In IOverCap (http_stream fuel names (concat chunks)) ->
  http_conn fuel names chunks = http_stream fuel names (concat chunks).
Proof.
  induction fuel as [|f IH]; intros chunks NC; [reflexivity|].
  cbn [http_conn http_stream] in *.
  destruct (brun pst0 hreq0 (concat chunks)) as [p' r'|r' rest|] eqn:E.
  - rewrite (hread_needmore _ _ _ _ _ _ E). unfold total_len. rewrite N.add_0_l.
    destruct (16384 <? N.of_nat (length (concat chunks))) eqn:C; [|reflexivity].
    destruct chunks as [|c cs]; [cbn in C; discriminate|reflexivity].
  - destruct (N.ltb_spec 16385 (consumed (concat chunks) rest)) as [C|C]; [destruct NC; left; reflexivity|].
    pose proof (hread_done chunks pst0 hreq0 0 r' rest E ltac:(lia)) as D.
    destruct (obs_done _ _ _ D) as (rest' & unread & H & Cr). rewrite H.
    destruct (process_request names r') as [|v]; [reflexivity|].
    destruct (Z.ltb (v_clen v) 0); [reflexivity|].
    destruct (Z.ltb cl_limit (v_clen v)); [reflexivity|].
    destruct (take_body_spec (rest' :: unread) (Z.to_nat (v_clen v))) as [T1 T2].
    cbn [concat] in T1, T2. rewrite Cr in T1, T2.
    destruct (Nat.ltb_spec (length rest) (Z.to_nat (v_clen v))) as [L|L].
    + rewrite T2 by lia. reflexivity.
    + destruct T1 as (l & T & Cl); [lia|]. rewrite T. f_equal. rewrite Cl.
      destruct (skipn (Z.to_nat (v_clen v)) rest) as [|x xs] eqn:SK; [reflexivity|].
      rewrite <- Cl. apply IH. rewrite Cl. intros I. apply NC. right. exact I.
  - rewrite (hread_error _ _ _ _ E). reflexivity.
Qed.

(* segmentation independence of a whole kept-alive connection *)
Theorem http_conn_seg_indep_lemma fuel names chunks1 chunks2 :
  concat chunks1 = concat chunks2 ->
  ~ In IOverCap (http_stream fuel names (concat chunks1)) ->
  http_conn fuel names chunks1 = http_conn fuel names chunks2.
Proof.
  intros C NC. rewrite (http_conn_stream fuel names chunks1 NC).
  rewrite C in NC. rewrite (http_conn_stream fuel names chunks2 NC). rewrite C. reflexivity.
Qed.

(* keep-alive hand-over: after a complete request the connection continues exactly on the bytes that follow its body *)
Theorem http_stream_keepalive_lemma f names s r rest v :
  brun pst0 hreq0 s = BFinished r rest -> consumed s rest <= 16385 ->
  process_request names r = POk v -> (0 <= v_clen v <= cl_limit)%Z ->
  (Z.to_nat (v_clen v) <= length rest)%nat ->
  http_stream (S f) names s =
  IReq v (firstn (Z.to_nat (v_clen v)) rest)
  :: match skipn (Z.to_nat (v_clen v)) rest with [] => [] | l => http_stream f names l end.
Proof.
  intros B C P [Z0 Z1] L. cbn [http_stream]. rewrite B.
  destruct (N.ltb_spec 16385 (consumed s rest)); [lia|]. rewrite P.
  destruct (Z.ltb_spec (v_clen v) 0); [lia|]. destruct (Z.ltb_spec cl_limit (v_clen v)); [lia|].
  destruct (Nat.ltb_spec (length rest) (Z.to_nat (v_clen v))); [lia|]. reflexivity.
Qed.

(* fuel: one unit per request is enough when fuel exceeds the stream length *)
Lemma http_stream_fuel fuel names : forall s, (length s < fuel)%nat -> ~ In IFuel (http_stream fuel names s).
Proof.
  induction fuel as [|f IH]; intros s F; [lia|].
  cbn [http_stream].
  destruct (brun pst0 hreq0 s) as [p' r'|r' rest|] eqn:E.
  - destruct (16384 <? _); intros [H|[]]; discriminate H.
  - destruct (16385 <? _); [intros [H|[]]; discriminate H|].
    destruct (process_request names r') as [|v]; [intros [H|[]]; discriminate H|].
    destruct (Z.ltb (v_clen v) 0); [intros [H|[]]; discriminate H|].
    destruct (Z.ltb cl_limit (v_clen v)); [intros [H|[]]; discriminate H|].
    destruct (Nat.ltb _ _); [intros [H|[]]; discriminate H|].
    pose proof (brun_rest_len _ _ _ _ _ E) as RL.
    destruct (skipn (Z.to_nat (v_clen v)) rest) as [|x xs] eqn:SK; [intros [H|[]]; discriminate H|].
    intros [H|H]; [discriminate H|]. revert H. apply IH.
    rewrite <- SK, skipn_length. lia.
  - intros [H|[]]; discriminate H.
Qed.

(* ------------------------------------------------------------------ FastCGI connection *)
From CppcmsV Require Import C01.Chunked C01.ChunkedProofs C01.Enc C01.EncProofs.

Theorem fcgi_conn_c_spec fuel : forall c, fcgi_conn_c fuel c = fcgi_conn fuel (stream_of c).
Proof.
  induction fuel as [|f IH]; intros c; [reflexivity|].
  cbn [fcgi_conn_c fcgi_conn]. rewrite <- fcgi_decode_c_spec.
  destruct (fcgi_decode_c c) as [| | |keep e body c']; cbn [fcgi_abs]; try reflexivity.
  destruct keep; [|reflexivity]. f_equal.
  destruct (stream_of c') eqn:E; [reflexivity|]. rewrite <- E. apply IH.
Qed.

Lemma enc_freq_nonempty q : enc_freq q <> [].
Proof. unfold enc_freq, enc_fcgi, enc_begin, enc_rec. cbn [app]. discriminate. Qed.

(* k requests on one kept connection, each with its own record layout and paddings: all are delivered *)
Theorem fcgi_keepalive_lemma : forall qs fuel,
  Forall freq_ok qs -> Forall (fun q => N.odd (q_flags q) = true) qs -> (length qs <= fuel)%nat -> qs <> [] ->
  fcgi_conn fuel (flat_map enc_freq qs) = map (fun q => FIReq true (q_env q) (q_body q)) qs.
Proof.
  induction qs as [|q qs IH]; intros fuel OK KA F NE; [congruence|].
  destruct fuel as [|f]; [cbn in F; lia|].
  inversion OK as [|x y Hq OK']; subst. inversion KA as [|x y Hk KA']; subst.
  destruct Hq as (H1 & H2 & H3 & H4 & H5 & H6 & H7 & H8 & H9 & H10 & H11 & H12).
  cbn [flat_map map fcgi_conn]. unfold enc_freq at 1.
  rewrite (fcgi_decode_enc _ _ _ _ _ _ _ (q_env q) (q_body q) _ H1 H2 H3 H4 H5 H6 H7 H8 H9 H10 H11 H12).
  rewrite Hk. f_equal.
  destruct qs as [|q2 qs]; [reflexivity|].
  assert (flat_map enc_freq (q2 :: qs) <> []) as NE2.
  { cbn [flat_map]. pose proof (enc_freq_nonempty q2). destruct (enc_freq q2); [congruence|discriminate]. }
  assert (fcgi_conn f (flat_map enc_freq (q2 :: qs)) = map (fun q => FIReq true (q_env q) (q_body q)) (q2 :: qs)) as IH2.
  { apply IH; [exact OK'|exact KA'|cbn [length] in *; lia|discriminate]. }
  clear IH. destruct (flat_map enc_freq (q2 :: qs)) as [|z zs]; [congruence|]. exact IH2.
Qed.
