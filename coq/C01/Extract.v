Require Extraction.
Require Import ExtrOcamlBasic.
From Coq Require Import NArith ZArith List.
From CppcmsV Require Import C15.Defs C01.Defs C01.Chunked C01.Conn C01.Pool C01.Cookies C01.SMap C01.Observe.
Definition keep_types : (N * Z * nat) := (0%N, 0%Z, 0%nat).
Extraction "c01m.ml" keep_types hread pst0 hreq0 process_request parse_form parse_post_form is_urlencoded
  scgi_decode fcgi_decode view_of_env read_exact cstr atoll
  scgi_decode_c fcgi_decode_c stream_of cache_of http_conn fcgi_conn_c pool_run pool0 cookies_of_env smap_run observe observe_env.
