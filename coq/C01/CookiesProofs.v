(* C01: parse_cookies inverts the Cookie header encoder (token names not starting with $, token values, unique names) *)
From CppcmsV Require Import Base.Tac C15.Defs C01.Defs C01.HttpSpec C01.HttpEnc C01.HttpEncProofs C01.HttpView C01.Cookies.
Local Open Scope N_scope.

Definition tokens (s : bytes) : Prop := Forall (fun c => token_char c = true) s.
Definition stops (x : bytes) : Prop := match x with [] => True | c :: _ => token_char c = false end.

Lemma tocken_app t : forall x, tokens t -> stops x -> tocken (t ++ x) = (t, x).
Proof.
  induction t as [|c t IH]; intros x T S.
  - cbn [app]. destruct x as [|d x]; [reflexivity|]. cbn in S. cbn [tocken]. rewrite S. reflexivity.
  - inversion T as [|y z Hc Ht]; subst. cbn [app tocken]. rewrite Hc, (IH x Ht S). reflexivity.
Qed.

Definition cookie_ok (kv : bytes * bytes) : Prop :=
  tokens (fst kv) /\ (exists c r, fst kv = c :: r /\ c <> 36) /\ tokens (snd kv).

Lemma skip_ws_tokens_app t x : tokens t -> t <> [] -> skip_ws (t ++ x) = t ++ x.
Proof.
  intros T NE. destruct t as [|c t]; [congruence|]. inversion T as [|y z Hc _]; subst.
  destruct (token_char_not_ws c Hc) as (A & B & C). apply skip_ws_id; assumption.
Qed.

(* one pair followed by the end or by "; " and the next pair *)
Lemma read_key_value_enc k v t : cookie_ok (k, v) -> Forall cookie_ok t ->
  read_key_value (enc_cookies ((k, v) :: t)) = KVOk k v (enc_cookies t).
Proof.
  intros (Tk & (c & r & Ek & Cd) & Tv) OKt. cbn [fst snd] in *.
  assert (k <> []) as NEk by (rewrite Ek; discriminate).
  cbn [enc_cookies]. set (tail := match t with [] => [] | _ :: _ => 59 :: 32 :: enc_cookies t end).
  assert (stops tail) as St by (unfold tail; destruct t; [exact I|reflexivity]).
  unfold read_key_value.
  rewrite (skip_ws_tokens_app k _ Tk NEk).
  rewrite (tocken_app k (61 :: v ++ tail) Tk eq_refl).
  rewrite Ek. rewrite <- Ek.
  assert (match k, k ++ 61 :: v ++ tail with [], _ :: _ => true | _, _ => false end = false) as M.
  { rewrite Ek. reflexivity. }
  destruct k as [|k0 k']; [congruence|]. cbn [app].
  rewrite skip_ws_id by reflexivity.
  change (negb (61 =? 61) && is_sep 61) with false. cbv iota.
  assert (kv_finish (k0 :: k') v tail = KVOk (k0 :: k') v (enc_cookies t)) as KF.
  { unfold kv_finish, tail. destruct t as [|[k2 v2] t2]; [reflexivity|].
    rewrite skip_ws_id by reflexivity. change (is_sep 59) with true. cbv iota.
    inversion OKt as [|y z (Tk2 & (c2 & r2 & Ek2 & _) & _) _]; subst. cbn [fst snd] in *.
    assert (skip_ws (32 :: enc_cookies ((k2, v2) :: t2)) = skip_ws (enc_cookies ((k2, v2) :: t2))) as E by reflexivity.
    rewrite E. cbn [enc_cookies]. rewrite skip_ws_tokens_app; [reflexivity|exact Tk2|rewrite Ek2; discriminate]. }
  destruct v as [|v0 v'].
  - cbn [app]. unfold tail in *. destruct t as [|[k2 v2] t2].
    + reflexivity.
    + rewrite skip_ws_id by reflexivity. change (59 =? 34) with false. cbv iota.
      cbn [tocken]. change (token_char 59) with false. cbv iota.
      change (is_sep 59) with true. cbv iota. exact KF.
  - inversion Tv as [|y z Hv0 Tv']; subst.
    destruct (token_char_not_ws v0 Hv0) as (A & B & C).
    change ((v0 :: v') ++ tail) with (v0 :: (v' ++ tail)). rewrite (skip_ws_id v0 _ A B C).
    assert ((v0 =? 34) = false) as Q.
    { apply N.eqb_neq. intros ->. vm_compute in Hv0. discriminate. }
    rewrite Q. change (v0 :: v' ++ tail) with ((v0 :: v') ++ tail).
    rewrite (tocken_app (v0 :: v') tail Tv St). exact KF.
Qed.

Definition flush (cur : bytes * bytes) (acc : list (bytes * bytes)) : list (bytes * bytes) :=
  match fst cur with [] => acc | _ => acc ++ [cur] end.

Lemma enc_cookies_nonempty kv t : cookie_ok kv -> enc_cookies (kv :: t) <> [].
Proof.
  intros (_ & (c & r & E & _) & _). destruct kv as [k v]. cbn [fst] in E. cbn [enc_cookies]. rewrite E. discriminate.
Qed.

Lemma cookies_loop_enc l : forall fuel cur acc, (length l < fuel)%nat -> Forall cookie_ok l ->
  cookies_loop fuel (enc_cookies l) cur acc = flush cur acc ++ l.
Proof.
  induction l as [|[k v] t IH]; intros fuel cur acc F OK; (destruct fuel as [|f]; [cbn in F; lia|]).
  - cbn [enc_cookies cookies_loop]. unfold flush. rewrite app_nil_r. reflexivity.
  - inversion OK as [|y z Hkv OKt]; subst.
    pose proof (enc_cookies_nonempty (k, v) t Hkv) as NE.
    pose proof (read_key_value_enc k v t Hkv OKt) as R.
    cbn [cookies_loop]. destruct (enc_cookies ((k, v) :: t)) as [|z zs] eqn:E; [congruence|]. rewrite <- E in *. rewrite R.
    destruct Hkv as (_ & (c & r & Ek & Cd) & _). cbn [fst] in Ek. rewrite Ek.
    destruct (N.eqb_spec c 36); [congruence|]. rewrite <- Ek.
    rewrite IH; [|cbn [length] in F; lia|exact OKt].
    unfold flush at 1. cbn [fst]. rewrite Ek. rewrite <- Ek. fold (flush cur acc). rewrite <- app_assoc. reflexivity.
Qed.

Lemma enc_cookies_length l : Forall cookie_ok l -> (length l <= length (enc_cookies l))%nat.
Proof.
  induction 1 as [|[k v] t H _ IH]; [cbn; lia|].
  destruct H as (_ & (c & r & E & _) & _). cbn [fst] in E. cbn [enc_cookies]. rewrite E.
  destruct t as [|kv2 t2]; cbn [app length] in *; rewrite ?app_length; cbn [length]; try lia.
  rewrite app_length. cbn [length]. lia.
Qed.

Lemma first_wins_nodup l : forall seen, NoDup (map fst l) -> (forall k, In k (map fst l) -> ~ In k seen) ->
  first_wins l seen = l.
Proof.
  induction l as [|[k v] l IH]; intros seen ND NS; [reflexivity|].
  cbn [first_wins map fst] in *. inversion ND as [|x y NI ND']; subst.
  assert (existsb (beqb k) seen = false) as E.
  { destruct (existsb (beqb k) seen) eqn:X; [|reflexivity]. apply existsb_exists in X. destruct X as (x & I & B).
    apply beqb_true in B. subst x. destruct (NS k (or_introl eq_refl) I). }
  rewrite E. f_equal. apply IH; [exact ND'|].
  intros k2 I2 [<-|I3]; [exact (NI I2)|exact (NS k2 (or_intror I2) I3)].
Qed.

Theorem parse_cookies_enc l : Forall cookie_ok l -> NoDup (map fst l) -> parse_cookies (enc_cookies l) = l.
Proof.
  intros OK ND. unfold parse_cookies.
  assert (skip_ws (enc_cookies l) = enc_cookies l) as S.
  { destruct l as [|[k v] t]; [reflexivity|]. inversion OK as [|y z (Tk & (c & r & E & _) & _) _]; subst. cbn [fst] in *.
    cbn [enc_cookies]. apply skip_ws_tokens_app; [exact Tk|rewrite E; discriminate]. }
  rewrite S, cookies_loop_enc; [|pose proof (enc_cookies_length l OK); lia|exact OK].
  unfold flush. cbn [fst app]. apply first_wins_nodup; [exact ND|intros k _ []].
Qed.

(* boolean side conditions for concrete instances *)
Definition cookie_okb (kv : bytes * bytes) : bool :=
  forallb token_char (fst kv) && (match fst kv with c :: _ => negb (c =? 36) | [] => false end) && forallb token_char (snd kv).
Lemma cookies_okb_ok l : forallb cookie_okb l = true -> Forall cookie_ok l.
Proof.
  intros H. apply Forall_forall. intros kv I. rewrite forallb_forall in H. specialize (H kv I). unfold cookie_okb in H.
  apply andb_true_iff in H. destruct H as [H H3]. apply andb_true_iff in H. destruct H as [H1 H2].
  split; [apply Forall_forall; rewrite forallb_forall in H1; exact H1|]. split.
  - destruct (fst kv) as [|c r]; [discriminate|]. exists c, r. split; [reflexivity|].
    apply negb_true_iff in H2. apply N.eqb_neq in H2. exact H2.
  - apply Forall_forall. rewrite forallb_forall in H3. exact H3.
Qed.
