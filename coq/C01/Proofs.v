From CppcmsV Require Import Base.Tac Base.Sweep C15.Defs C01.Defs.
Local Open Scope N_scope.

Lemma cstr_no_nul s : forallb (fun c => negb (c =? 0)) (cstr s) = true.
Proof.
  induction s as [|c r IH]; [reflexivity|].
  cbn [cstr]. destruct (N.eqb_spec c 0) as [->|H]; [reflexivity|].
  cbn [forallb]. rewrite IH, andb_true_r. apply negb_true_iff. apply N.eqb_neq. exact H.
Qed.
