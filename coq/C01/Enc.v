(* C01: the peer side - encoders of the three wire formats (specification, not extracted).
   FastCGI: the record layout (where the PARAMS and STDIN streams are cut into records, and every padding
   length) is a free parameter. *)
From Coq Require Import NArith ZArith List Bool.
From CppcmsV Require Import C15.Defs C01.Defs.
Import ListNotations.
Local Open Scope N_scope.

(* ------------------------------------------------------------------ FastCGI *)
Definition enc_len (n : N) : bytes :=
  if n <? 128 then [n]
  else [128 + n / 16777216; (n / 65536) mod 256; (n / 256) mod 256; n mod 256].

Definition enc_pair (kv : bytes * bytes) : bytes :=
  enc_len (N.of_nat (length (fst kv))) ++ enc_len (N.of_nat (length (snd kv))) ++ fst kv ++ snd kv.
Definition enc_pairs (e : env_t) : bytes := flat_map enc_pair e.

Definition enc_rec (typ rid : N) (content : bytes) (pad : N) : bytes :=
  let len := N.of_nat (length content) in
  [1; typ; rid / 256; rid mod 256; len / 256; len mod 256; pad; 0] ++ content ++ repeat 0 (N.to_nat pad).

(* a stream cut into records: pieces = (content, padding) of each record; then the empty end-of-stream record *)
Definition layout := list (bytes * N).
Definition enc_stream (typ rid : N) (l : layout) (endpad : N) : bytes :=
  flat_map (fun x => enc_rec typ rid (fst x) (snd x)) l ++ enc_rec typ rid [] endpad.
Definition layout_data (l : layout) : bytes := flat_map fst l.
Definition piece_ok (x : bytes * N) : Prop := fst x <> [] /\ N.of_nat (length (fst x)) <= 65535 /\ snd x < 256.
Definition layout_ok (l : layout) : Prop := Forall piece_ok l.

Definition enc_begin (rid flags pad : N) : bytes := enc_rec fcgi_begin_request rid [0; 1; flags; 0; 0; 0; 0; 0] pad.

Definition enc_fcgi (rid flags pad0 : N) (pl : layout) (pend : N) (sl : layout) (send : N) : bytes :=
  enc_begin rid flags pad0 ++ enc_stream fcgi_params rid pl pend ++ enc_stream fcgi_stdin rid sl send.

(* the content length the FastCGI front-end derives from the environment *)
Definition env_clen (e : env_t) : Z :=
  match env_get s_CONTENT_LENGTH e with
  | None => 0%Z | Some [] => 0%Z
  | Some v => let x := atoll v in if Z.leb x 0 then 0%Z else x
  end.

Definition no_nul (s : bytes) : Prop := Forall (fun c => c <> 0) s.
Definition pair_ok (kv : bytes * bytes) : Prop :=
  no_nul (fst kv) /\ no_nul (snd kv) /\ N.of_nat (length (fst kv)) < 2147483648 /\ N.of_nat (length (snd kv)) < 2147483648.
Definition env_ok (e : env_t) : Prop := Forall pair_ok e.

(* ------------------------------------------------------------------ SCGI *)
Definition enc_scgi_pair (kv : bytes * bytes) : bytes := fst kv ++ [0] ++ snd kv ++ [0].
Definition enc_scgi_blob (e : env_t) : bytes := flat_map enc_scgi_pair e.
(* num: the decimal length as the peer wrote it *)
Definition enc_scgi (num : bytes) (e : env_t) (body : bytes) : bytes :=
  num ++ [58] ++ enc_scgi_blob e ++ [44] ++ body.

(* ------------------------------------------------------------------ urlencoded forms *)
Definition enc_form_item (kv : bytes * bytes) : bytes := urlencode (fst kv) ++ [61] ++ urlencode (snd kv).
Fixpoint enc_form (l : list (bytes * bytes)) : bytes :=
  match l with
  | [] => []
  | [kv] => enc_form_item kv
  | kv :: r => enc_form_item kv ++ [38] ++ enc_form r
  end.
