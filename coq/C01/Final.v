(* C01: the property in its final form - all segmentations x all layouts x k requests on one connection *)
From CppcmsV Require Import Base.Tac C15.Defs C01.Defs C01.HttpSpec C01.HttpSeg C01.Chunked C01.ChunkedProofs C01.Enc
  C01.EncProofs C01.Conn C01.ConnProofs C01.HttpEnc C01.HttpEncProofs C01.HttpView.
Local Open Scope N_scope.

(* FastCGI: k requests, each in its own record layout, cut into reads anywhere *)
Theorem fcgi_all_segmentations_lemma qs chunks fuel :
  Forall freq_ok qs -> Forall (fun q => N.odd (q_flags q) = true) qs -> (length qs <= fuel)%nat -> qs <> [] ->
  concat chunks = flat_map enc_freq qs ->
  fcgi_conn_c fuel (cache_of chunks) = map (fun q => FIReq true (q_env q) (q_body q)) qs.
Proof.
  intros OK KA F NE C. rewrite fcgi_conn_c_spec, stream_of_cache_of, C. apply fcgi_keepalive_lemma; assumption.
Qed.

(* HTTP: k well-formed requests on one kept-alive connection, cut into reads anywhere *)
Theorem http_all_segmentations_lemma names qs chunks fuel :
  Forall (hq_ok names) qs -> qs <> [] -> (length qs <= fuel)%nat ->
  concat chunks = flat_map hq_wire qs ->
  http_conn fuel names chunks = map (fun q => IReq (hq_v q) (hq_body q)) qs.
Proof.
  intros OK NE F C.
  pose proof (http_keepalive_lemma names qs fuel OK NE F) as K.
  rewrite http_conn_stream; rewrite C; [exact K|].
  rewrite K. intros I. apply in_map_iff in I. destruct I as (q & E & _). discriminate E.
Qed.

(* SCGI: one request, cut into reads anywhere *)
Theorem scgi_all_segmentations_lemma num e body chunks :
  ~ In 58 num -> (length num <= 15)%nat -> atoi num = Z.of_nat (length (enc_scgi_blob e)) ->
  N.of_nat (length (enc_scgi_blob e)) <= 16384 -> (16 < length num + 2 + length (enc_scgi_blob e))%nat ->
  EncProofs2.scgi_env_ok e ->
  concat chunks = enc_scgi num e body ->
  scgi_abs (scgi_decode_c (cache_of chunks)) = SOk e body.
Proof.
  intros. rewrite scgi_decode_c_spec, stream_of_cache_of, H5. apply EncProofs2.scgi_decode_enc; assumption.
Qed.
