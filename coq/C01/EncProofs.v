(* C01: decoders invert the encoders - FastCGI for every record layout and padding, name-value pairs, SCGI, forms *)
From CppcmsV Require Import Base.Tac Base.Sweep C15.Defs C15.Proofs C01.Defs C01.Enc.
Local Open Scope N_scope.

(* ------------------------------------------------------------------ small list facts *)
Lemma firstn_app_exact {A} (a b : list A) : firstn (length a) (a ++ b) = a.
Proof. rewrite firstn_app, Nat.sub_diag, firstn_all. cbn. apply app_nil_r. Qed.
Lemma skipn_app_exact {A} (a b : list A) : skipn (length a) (a ++ b) = b.
Proof. rewrite skipn_app, Nat.sub_diag, skipn_all. reflexivity. Qed.

Lemma cstr_no_nul_id s : no_nul s -> cstr s = s.
Proof.
  induction 1 as [|c s H _ IH]; [reflexivity|]. cbn [cstr].
  destruct (N.eqb_spec c 0); [contradiction|]. rewrite IH. reflexivity.
Qed.

(* ------------------------------------------------------------------ name-value lengths *)
Lemma enc_len_nonempty n : exists b r, enc_len n = b :: r.
Proof. unfold enc_len. destruct (n <? 128); eauto. Qed.

Lemma read_len_enc_len n rest : n < 2147483648 -> read_len (enc_len n ++ rest) = Some (n, rest).
Proof.
  intros H. unfold enc_len. destruct (N.ltb_spec n 128) as [L|L].
  - cbn [app read_len]. destruct (N.ltb_spec n 128); [reflexivity|lia].
  - cbn [app read_len]. destruct (N.ltb_spec (128 + n / 16777216) 128) as [X|X]; [lia|].
    f_equal. f_equal. lia.
Qed.

Lemma enc_pair_length kv : (1 <= length (enc_pair kv))%nat.
Proof. unfold enc_pair. destruct (enc_len_nonempty (N.of_nat (length (fst kv)))) as (b & r & E). rewrite E. cbn. lia. Qed.

Lemma enc_pairs_length e : (length e <= length (enc_pairs e))%nat.
Proof.
  induction e as [|kv e IH]; [cbn; lia|]. cbn [enc_pairs flat_map length]. rewrite app_length.
  pose proof (enc_pair_length kv). unfold enc_pairs in IH. lia.
Qed.

Lemma parse_pairs_step f s : s <> [] ->
  parse_pairs (S f) s =
  match read_len s with
  | None => []
  | Some (nlen, s1) =>
      match read_len s1 with
      | None => []
      | Some (vlen, s2) =>
          if N.of_nat (length s2) <? nlen then []
          else
            let name := firstn (N.to_nat nlen) s2 in
            let s3 := skipn (N.to_nat nlen) s2 in
            if N.of_nat (length s3) <? vlen then []
            else (cstr name, cstr (firstn (N.to_nat vlen) s3)) :: parse_pairs f (skipn (N.to_nat vlen) s3)
      end
  end.
Proof. destruct s; [congruence|reflexivity]. Qed.

Lemma parse_pairs_enc fuel : forall e, (length e < fuel)%nat -> env_ok e -> parse_pairs fuel (enc_pairs e) = e.
Proof.
  induction fuel as [|f IH]; intros e F OK; [cbn in F; lia|].
  destruct e as [|[k v] e]; [reflexivity|].
  inversion OK as [|x y (Nk & Nv & Lk & Lv) OK']; subst. cbn [fst snd] in *.
  cbn [enc_pairs flat_map]. unfold enc_pair at 1. cbn [fst snd]. rewrite <- !app_assoc.
  rewrite parse_pairs_step.
  2:{ destruct (enc_len_nonempty (N.of_nat (length k))) as (b & r & E). rewrite E. discriminate. }
  rewrite read_len_enc_len by exact Lk. rewrite read_len_enc_len by exact Lv.
  destruct (N.ltb_spec (N.of_nat (length (k ++ v ++ flat_map enc_pair e))) (N.of_nat (length k))) as [X|X].
  { rewrite app_length in X. lia. }
  rewrite Nat2N.id, firstn_app_exact, skipn_app_exact. cbv zeta.
  destruct (N.ltb_spec (N.of_nat (length (v ++ flat_map enc_pair e))) (N.of_nat (length v))) as [Y|Y].
  { rewrite app_length in Y. lia. }
  rewrite Nat2N.id, firstn_app_exact, skipn_app_exact.
  rewrite (cstr_no_nul_id k Nk), (cstr_no_nul_id v Nv).
  f_equal. apply IH; [cbn [length] in F; lia|exact OK'].
Qed.

Theorem parse_pairs_roundtrip e : env_ok e -> parse_pairs (S (length (enc_pairs e))) (enc_pairs e) = e.
Proof. intros OK. apply parse_pairs_enc; [pose proof (enc_pairs_length e); lia|exact OK]. Qed.

(* ------------------------------------------------------------------ records *)
Lemma read_record_enc typ rid content pad rest :
  rid < 65536 -> N.of_nat (length content) <= 65535 -> pad < 256 ->
  read_record (enc_rec typ rid content pad ++ rest) = Some (mkrec 1 typ rid content pad, rest).
Proof.
  intros R L P. unfold enc_rec. cbn [app read_record].
  assert (be16 (N.of_nat (length content) / 256) (N.of_nat (length content) mod 256) = N.of_nat (length content)) as B1
    by (unfold be16; lia).
  assert (be16 (rid / 256) (rid mod 256) = rid) as B2 by (unfold be16; lia).
  rewrite B1, B2, Nat2N.id.
  rewrite <- app_assoc.
  destruct (Nat.ltb_spec (length (content ++ repeat 0 (N.to_nat pad) ++ rest)) (length content + N.to_nat pad)) as [X|X].
  { rewrite !app_length, repeat_length in X. lia. }
  rewrite firstn_app_exact.
  f_equal. f_equal.
  rewrite app_assoc.
  replace (length content + N.to_nat pad)%nat with (length (content ++ repeat 0 (N.to_nat pad)))
    by (rewrite app_length, repeat_length; reflexivity).
  apply skipn_app_exact.
Qed.

Lemma enc_rec_length typ rid content pad : (8 <= length (enc_rec typ rid content pad))%nat.
Proof. unfold enc_rec. cbn [app length]. lia. Qed.

Lemma layout_records_length typ rid (l : layout) :
  (length l <= length (flat_map (fun x => enc_rec typ rid (fst x) (snd x)) l))%nat.
Proof.
  induction l as [|x l IH]; [cbn; lia|]. cbn [flat_map length]. rewrite app_length.
  pose proof (enc_rec_length typ rid (fst x) (snd x)). lia.
Qed.

(* PARAMS: whatever the layout, the accumulated body_ is the concatenation of the record contents *)
Lemma params_loop_layout rid endpad rest : rid < 65536 -> endpad < 256 ->
  forall (l : layout) fuel acc, (length l < fuel)%nat -> layout_ok l ->
  N.of_nat (length (acc ++ layout_data l)) < 16384 ->
  fcgi_params_loop fuel rid acc (enc_stream fcgi_params rid l endpad ++ rest) = Some (Some (acc ++ layout_data l, rest)).
Proof.
  intros R E. induction l as [|[x pad] l IH]; intros fuel acc F OK B; (destruct fuel as [|f]; [cbn in F; lia|]).
  - unfold enc_stream. cbn [flat_map app fcgi_params_loop].
    rewrite read_record_enc by (cbn [length]; lia). cbn [r_type r_id r_content].
    rewrite !N.eqb_refl. cbn [andb negb]. unfold layout_data. cbn [flat_map]. rewrite app_nil_r. reflexivity.
  - inversion OK as [|y z (Ne & Lx & Lp) OK']; subst. cbn [fst snd] in *.
    unfold enc_stream. cbn [flat_map fst snd]. rewrite <- !app_assoc. cbn [fcgi_params_loop].
    rewrite read_record_enc by assumption. cbn [r_type r_id r_content].
    rewrite !N.eqb_refl. cbn [andb negb].
    destruct x as [|x0 xs]; [congruence|].
    unfold layout_data in *. cbn [flat_map fst] in B. rewrite app_assoc in B.
    destruct (N.ltb_spec (N.of_nat (length (acc ++ x0 :: xs))) 16384) as [Y|Y].
    2:{ rewrite app_length in B. lia. }
    replace (flat_map (fun x => enc_rec fcgi_params rid (fst x) (snd x)) l ++ enc_rec fcgi_params rid [] endpad ++ rest)
      with (enc_stream fcgi_params rid l endpad ++ rest) by (unfold enc_stream; rewrite <- app_assoc; reflexivity).
    rewrite (IH f (acc ++ x0 :: xs)); [|cbn [length] in F; lia|exact OK'|exact B].
    cbn [flat_map fst]. rewrite <- app_assoc. reflexivity.
Qed.

(* STDIN: content records of any layout, then the end-of-stream record *)
Lemma stdin_loop_layout rid endpad rest : rid < 65536 -> endpad < 256 ->
  forall (l : layout) fuel acc, (length l < fuel)%nat -> layout_ok l ->
  fcgi_stdin_loop fuel rid (length (layout_data l)) acc (enc_stream fcgi_stdin rid l endpad ++ rest)
  = Some (Some (acc ++ layout_data l, rest)).
Proof.
  intros R E. induction l as [|[x pad] l IH]; intros fuel acc F OK; (destruct fuel as [|f]; [cbn in F; lia|]).
  - unfold enc_stream. cbn [flat_map app fcgi_stdin_loop layout_data length].
    rewrite read_record_enc by (cbn [length]; lia). cbn [r_type r_id r_content].
    rewrite !N.eqb_refl. cbn [andb negb]. rewrite app_nil_r. reflexivity.
  - inversion OK as [|y z (Ne & Lx & Lp) OK']; subst. cbn [fst snd] in *.
    unfold enc_stream. cbn [flat_map fst snd]. rewrite <- !app_assoc. cbn [fcgi_stdin_loop].
    rewrite read_record_enc by assumption. cbn [r_type r_id r_content].
    rewrite !N.eqb_refl. cbn [andb negb].
    destruct x as [|x0 xs]; [congruence|].
    unfold layout_data. cbn [flat_map fst]. rewrite app_length.
    remember (length (x0 :: xs)) as n eqn:En. destruct n as [|n]; [cbn in En; lia|].
    cbn [Nat.add]. rewrite En.
    destruct (Nat.leb_spec (length (x0 :: xs)) (S (n + length (flat_map fst l)))) as [Y|Y]; [|lia].
    replace (S (n + length (flat_map fst l)) - length (x0 :: xs))%nat with (length (layout_data l))
      by (unfold layout_data; lia).
    replace (flat_map (fun x => enc_rec fcgi_stdin rid (fst x) (snd x)) l ++ enc_rec fcgi_stdin rid [] endpad ++ rest)
      with (enc_stream fcgi_stdin rid l endpad ++ rest) by (unfold enc_stream; rewrite <- app_assoc; reflexivity).
    rewrite (IH f (acc ++ x0 :: xs)); [|cbn [length] in F; lia|exact OK'].
    unfold layout_data. rewrite <- app_assoc. reflexivity.
Qed.

(* the whole request: BEGIN_REQUEST, PARAMS in any layout, STDIN in any layout; rest = bytes of the next request *)
Theorem fcgi_decode_enc rid flags pad0 pl pend sl send e body rest :
  rid < 65536 -> pad0 < 256 -> pend < 256 -> send < 256 -> flags < 256 ->
  layout_ok pl -> layout_ok sl ->
  layout_data pl = enc_pairs e -> env_ok e -> N.of_nat (length (enc_pairs e)) < 16384 ->
  layout_data sl = body -> Z.to_nat (env_clen e) = length body ->
  fcgi_decode (enc_fcgi rid flags pad0 pl pend sl send ++ rest) = FOk (N.odd flags) e body rest.
Proof.
  intros R P0 PE SE FL OKp OKs Dp Ee Le Ds CL.
  unfold enc_fcgi, enc_begin, fcgi_decode. rewrite <- !app_assoc.
  rewrite read_record_enc by (cbn [length]; lia).
  cbn [r_version r_type r_id r_content]. cbn [N.eqb Pos.eqb negb fcgi_begin_request fcgi_get_values].
  change (be16 0 1 =? 1) with true. cbn [negb].
  rewrite (params_loop_layout rid pend _ R PE pl _ []); [| |exact OKp|cbn [app]; rewrite Dp; exact Le].
  2:{ rewrite app_length. unfold enc_stream. rewrite app_length. pose proof (layout_records_length fcgi_params rid pl). lia. }
  cbn [app]. rewrite Dp, (parse_pairs_roundtrip e Ee).
  fold (env_clen e). rewrite CL, <- Ds.
  rewrite (stdin_loop_layout rid send rest R SE sl _ []); [reflexivity| |exact OKs].
  rewrite app_length. unfold enc_stream. rewrite app_length. pose proof (layout_records_length fcgi_stdin rid sl). lia.
Qed.

(* record-layout independence as an equation between two encodings of the same request *)
Theorem fcgi_layout_indep_lemma rid flags e body
        pad0 pl pend sl send pad0' pl' pend' sl' send' rest :
  rid < 65536 -> flags < 256 -> env_ok e -> N.of_nat (length (enc_pairs e)) < 16384 ->
  Z.to_nat (env_clen e) = length body ->
  pad0 < 256 -> pend < 256 -> send < 256 -> layout_ok pl -> layout_ok sl ->
  layout_data pl = enc_pairs e -> layout_data sl = body ->
  pad0' < 256 -> pend' < 256 -> send' < 256 -> layout_ok pl' -> layout_ok sl' ->
  layout_data pl' = enc_pairs e -> layout_data sl' = body ->
  fcgi_decode (enc_fcgi rid flags pad0 pl pend sl send ++ rest)
  = fcgi_decode (enc_fcgi rid flags pad0' pl' pend' sl' send' ++ rest).
Proof.
  intros. rewrite (fcgi_decode_enc rid flags pad0 pl pend sl send e body rest) by assumption.
  rewrite (fcgi_decode_enc rid flags pad0' pl' pend' sl' send' e body rest) by assumption. reflexivity.
Qed.
