(* C01: the leaf predicates regenerated from /repo's current private/http_protocol.h (coq/gen/Gen_C01.v) are the
   model's leaf functions.  A char parameter is signed: the byte b is passed as wraps 8 b. *)
From CppcmsV Require Import Base.Tac Base.CSem Base.CSemFacts Base.Sweep C15.Defs C01.Defs gen.Gen_C01.
Local Open Scope N_scope.

Lemma link_separator b : b < 256 -> g_separator (wraps 8 (Z.of_N b)) = separator b.
Proof.
  intros H. apply eqb_prop.
  apply (sweep256 (fun b => eqb (g_separator (wraps 8 (Z.of_N b))) (separator b))); [vm_compute; reflexivity|exact H].
Qed.

(* the loop condition of protocol::tocken: 0x20 <= c && c <= 0x7E && !separator(c) on a signed char *)
Definition g_token_char (c : Z) : bool := (Z.leb 32 c && Z.leb c 126 && negb (g_separator c))%bool.
Lemma link_token_char b : b < 256 -> g_token_char (wraps 8 (Z.of_N b)) = token_char b.
Proof.
  intros H. apply eqb_prop.
  apply (sweep256 (fun b => eqb (g_token_char (wraps 8 (Z.of_N b))) (token_char b))); [vm_compute; reflexivity|exact H].
Qed.

(* xdigit takes an int; urldecode passes the (signed) char *)
Lemma link_xdigit b : b < 256 -> g_xdigit1 (wraps 8 (Z.of_N b)) = xdigit b.
Proof.
  intros H. apply eqb_prop.
  apply (sweep256 (fun b => eqb (g_xdigit1 (wraps 8 (Z.of_N b))) (xdigit b))); [vm_compute; reflexivity|exact H].
Qed.

(* ascii_to_lower (content type comparison): the returned char, read back as a byte *)
Lemma link_lower b : b < 256 -> Z.to_N (wrapu 8 (g_ascii_to_lower (wraps 8 (Z.of_N b)))) = lower b.
Proof.
  intros H. apply N.eqb_eq.
  apply (sweep256 (fun b => Z.to_N (wrapu 8 (g_ascii_to_lower (wraps 8 (Z.of_N b)))) =? lower b)); [vm_compute; reflexivity|exact H].
Qed.
