(* C01: the chunk-level HTTP header reader refines the byte-level machine (segmentation independence). *)
From CppcmsV Require Import Base.Tac C15.Defs C01.Defs C01.HttpSpec.
Local Open Scope N_scope.

(* ------------------------------------------------------------------ facts about one parser byte *)
Lemma pbyte_idle p c : st p = Idle -> exists p', pbyte p c = inr p'.
Proof. intros H. unfold pbyte. rewrite H. eauto. Qed.

Lemma pbyte_inl p c r p' u : pbyte p c = inl (r, p', u) ->
  (r = GotHeader -> st p' = Idle) /\ (r <> MoreData) /\ (u <> None -> u = Some c /\ r = GotHeader).
Proof.
  unfold pbyte. intros H.
  destruct (st p) eqn:E;
    repeat match type of H with context [if ?b then _ else _] => destruct b end;
    inversion H; subst; cbn [st]; repeat split; try congruence; intros; try congruence; auto.
Qed.

(* ------------------------------------------------------------------ pscan *)
Lemma pscan_len s : forall p r p' rest, pscan p s = ScRes r p' rest ->
  (length rest <= length s)%nat /\ (st p = Idle -> (length rest < length s)%nat) /\ (r = GotHeader -> st p' = Idle).
Proof.
  induction s as [|c s IH]; intros p r p' rest H; cbn [pscan] in H; [discriminate|].
  destruct (pbyte p c) as [[[r0 p0] u]|p1] eqn:E.
  - destruct (pbyte_inl _ _ _ _ _ E) as (Hi & _ & _).
    assert (st p = Idle -> False) as NI.
    { intros Hs. destruct (pbyte_idle p c Hs) as [q Hq]. congruence. }
    destruct u; inversion H; subst; cbn [length]; repeat split; try lia; auto; intros Hs; destruct (NI Hs).
  - destruct (IH _ _ _ _ H) as (L & _ & G). cbn [length]. repeat split; try lia; auto.
Qed.

Lemma pscan_not_more s : forall p p' rest, pscan p s <> ScRes MoreData p' rest.
Proof.
  induction s as [|c s IH]; intros p p' rest H; cbn [pscan] in H; [discriminate|].
  destruct (pbyte p c) as [[[r0 p0] u]|p1] eqn:E.
  - destruct (pbyte_inl _ _ _ _ _ E) as (_ & Hm & _). destruct u; inversion H; congruence.
  - exact (IH _ _ _ H).
Qed.

Lemma pscan_app s1 : forall p s2,
  pscan p (s1 ++ s2) = match pscan p s1 with
                       | ScMore p' => pscan p' s2
                       | ScRes r p' rest => ScRes r p' (rest ++ s2)
                       end.
Proof.
  induction s1 as [|c s1 IH]; intros p s2; [reflexivity|].
  cbn [app pscan]. destruct (pbyte p c) as [[[r0 p0] [u|]]|p1]; auto.
Qed.

(* ------------------------------------------------------------------ brun in terms of pscan *)
Lemma brun_pscan s : forall p r,
  brun p r s = match pscan p s with
               | ScMore p' => BNeedMore p' r
               | ScRes EndOfHeaders _ rest => BFinished r rest
               | ScRes GotHeader p' rest =>
                   match on_header (rev (hdr p')) r with None => BError | Some r' => brun p' r' rest end
               | ScRes _ _ _ => BError
               end.
Proof.
  induction s as [|c s IH]; intros p r; [reflexivity|].
  cbn [brun pscan]. unfold bbyte.
  destruct (pbyte p c) as [[[r0 p0] u]|p1] eqn:E; [|apply IH].
  destruct (pbyte_inl _ _ _ _ _ E) as (Hi & Hm & Hu).
  destruct u as [u|].
  - assert (Some u <> None) as Hn by discriminate. destruct (Hu Hn) as [Hu1 Hr]. inversion Hu1; subst u r0.
    destruct (on_header (rev (hdr p0)) r) as [r'|]; [|reflexivity].
    destruct (pbyte_idle p0 c (Hi eq_refl)) as [q Hq]. rewrite Hq.
    cbn [brun]. unfold bbyte. rewrite Hq. reflexivity.
  - destruct r0; try reflexivity.
    destruct (on_header (rev (hdr p0)) r) as [r'|]; reflexivity.
Qed.

Lemma brun_app s1 : forall p r s2,
  brun p r (s1 ++ s2) = match brun p r s1 with
                        | BNeedMore p' r' => brun p' r' s2
                        | BFinished r' rest => BFinished r' (rest ++ s2)
                        | BError => BError
                        end.
Proof.
  induction s1 as [|c s1 IH]; intros p r s2; [reflexivity|].
  cbn [app brun]. destruct (bbyte p r c); auto.
Qed.

Lemma brun_rest_len s : forall p r r' rest, brun p r s = BFinished r' rest -> (length rest < length s)%nat.
Proof.
  induction s as [|c s IH]; intros p r r' rest H; cbn [brun] in H; [discriminate|].
  destruct (bbyte p r c).
  - apply IH in H. cbn [length]. lia.
  - inversion H; subst. cbn [length]. lia.
  - discriminate.
Qed.

(* ------------------------------------------------------------------ the device *)
Lemma skipn_cons_nth {A} k : forall (b : list A) c s, skipn k b = c :: s -> nth_error b k = Some c /\ skipn (S k) b = s.
Proof.
  induction k as [|k IH]; intros b c s H.
  - destruct b; cbn in *; [discriminate|]. inversion H; auto.
  - destruct b as [|x b]; [discriminate|]. cbn [skipn nth_error] in *. apply IH in H. exact H.
Qed.
Lemma skipn_nil_nth {A} k : forall (b : list A), skipn k b = [] -> nth_error b k = None.
Proof.
  induction k as [|k IH]; intros b H.
  - destruct b; [reflexivity|discriminate].
  - destruct b as [|x b]; [reflexivity|]. cbn [skipn nth_error] in *. auto.
Qed.

Lemma getc_nil d : ungot d = [] -> dev_rest d = [] -> getc d = (None, mkdev [] 0 []).
Proof.
  intros U R. unfold getc. rewrite U. unfold dev_rest in R. rewrite (skipn_nil_nth _ _ R). reflexivity.
Qed.
Lemma getc_cons d c s : ungot d = [] -> dev_rest d = c :: s ->
  getc d = (Some c, mkdev (buf d) (S (ptr d)) []) /\ dev_rest (mkdev (buf d) (S (ptr d)) []) = s.
Proof.
  intros U R. unfold getc. rewrite U. unfold dev_rest in *. destruct (skipn_cons_nth _ _ _ _ R) as [N1 N2].
  rewrite N1. cbn [buf ptr]. auto.
Qed.

Lemma pstep_pscan s : forall fuel p d, ungot d = [] -> dev_rest d = s -> (length s < fuel)%nat ->
  match pscan p s with
  | ScMore p' => pstep fuel p d = SR MoreData p' (mkdev [] 0 [])
  | ScRes r p' rest => exists d', pstep fuel p d = SR r p' d' /\ ungot d' = [] /\ dev_rest d' = rest
  end.
Proof.
  induction s as [|c s IH]; intros fuel p d U R F; (destruct fuel as [|f]; [cbn in F; lia|]); cbn [pstep pscan].
  - rewrite (getc_nil d U R). reflexivity.
  - destruct (getc_cons d c s U R) as [G R1]. rewrite G.
    destruct (pbyte p c) as [[[r0 p0] [u|]]|p1] eqn:E.
    + eexists. split; [reflexivity|]. unfold ungetc. cbn [ptr buf ungot]. split; [reflexivity|].
      unfold dev_rest. cbn [ptr buf]. exact R.
    + eexists. split; [reflexivity|]. split; [reflexivity|exact R1].
    + apply IH; [reflexivity|exact R1|cbn [length] in F; lia].
Qed.

Lemma dev_rest_len d : (length (dev_rest d) <= length (buf d))%nat.
Proof. unfold dev_rest. rewrite skipn_length. lia. Qed.

(* ------------------------------------------------------------------ hloop refines brun *)
Lemma hloop_brun fuel : forall p d r, ungot d = [] ->
  (length (dev_rest d) + (if idle p then 0 else 1) < fuel)%nat ->
  match brun p r (dev_rest d) with
  | BNeedMore p' r' => hloop fuel p d r = HNeedMore p' (mkdev [] 0 []) r'
  | BFinished r' rest => exists d', hloop fuel p d r = HDone d' r' /\ dev_rest d' = rest
  | BError => hloop fuel p d r = HError
  end.
Proof.
  induction fuel as [|f IH]; intros p d r U F; [lia|].
  cbn [hloop]. rewrite brun_pscan.
  assert (length (dev_rest d) < S (length (buf d) + length (ungot d)))%nat as F2.
  { pose proof (dev_rest_len d). lia. }
  pose proof (pstep_pscan (dev_rest d) _ p d U eq_refl F2) as P.
  destruct (pscan p (dev_rest d)) as [p'|r0 p' rest] eqn:E.
  - rewrite P. reflexivity.
  - destruct P as (d' & P & U' & R'). rewrite P.
    destruct (pscan_len _ _ _ _ _ E) as (L1 & L2 & L3).
    destruct r0.
    + destruct (pscan_not_more _ _ _ _ E).
    + destruct (on_header (rev (hdr p')) r) as [r'|]; [|reflexivity].
      rewrite <- R'. apply IH; [exact U'|].
      rewrite R'. unfold idle at 1. rewrite (L3 eq_refl).
      unfold idle in F. destruct (st p) eqn:Es; try lia; specialize (L2 eq_refl); lia.
    + exists d'. auto.
    + reflexivity.
Qed.

(* ------------------------------------------------------------------ the connection level reader *)
Definition total_len (chunks : list bytes) : N := N.of_nat (length (concat chunks)).

Lemma hloop_chunk c p r :
  match brun p r c with
  | BNeedMore p' r' => hloop (length c + 2) p (mkdev c 0 []) r = HNeedMore p' (mkdev [] 0 []) r'
  | BFinished r' rest => exists d', hloop (length c + 2) p (mkdev c 0 []) r = HDone d' r' /\ dev_rest d' = rest
  | BError => hloop (length c + 2) p (mkdev c 0 []) r = HError
  end.
Proof.
  pose proof (hloop_brun (length c + 2) p (mkdev c 0 []) r eq_refl) as H.
  unfold dev_rest in H at 1 2. cbn [ptr buf skipn] in H. apply H. destruct (idle p); lia.
Qed.

(* error in the byte machine: the connection is dropped whatever the chunking *)
Lemma hread_error chunks : forall p r total,
  brun p r (concat chunks) = BError -> hread p r total chunks = CError.
Proof.
  induction chunks as [|c cs IH]; intros p r total H; [discriminate|].
  cbn [concat] in H. rewrite brun_app in H. cbn [hread].
  pose proof (hloop_chunk c p r) as L.
  destruct (brun p r c) as [p' r'|r' rest|].
  - rewrite L. destruct (16384 <? total + N.of_nat (length c)); [reflexivity|]. apply IH. exact H.
  - discriminate.
  - rewrite L. reflexivity.
Qed.

(* headers incomplete: more data is awaited iff the 16384 byte cap has not been exceeded *)
Lemma hread_needmore chunks : forall p r total p' r',
  brun p r (concat chunks) = BNeedMore p' r' ->
  hread p r total chunks = if 16384 <? total + total_len chunks then (match chunks with [] => CNeedMore | _ => CError end) else CNeedMore.
Proof.
  induction chunks as [|c cs IH]; intros p r total p' r' H.
  - cbn [hread]. destruct (16384 <? _); reflexivity.
  - cbn [concat] in H. rewrite brun_app in H. cbn [hread].
    pose proof (hloop_chunk c p r) as L.
    destruct (brun p r c) as [p1 r1|r1 rest|]; try discriminate.
    rewrite L. unfold total_len. cbn [concat]. rewrite app_length, Nat2N.inj_add.
    destruct (N.ltb_spec 16384 (total + N.of_nat (length c))) as [B|B].
    + destruct (N.ltb_spec 16384 (total + (N.of_nat (length c) + N.of_nat (length (concat cs))))); [reflexivity|lia].
    + rewrite (IH _ _ _ _ _ H). unfold total_len. rewrite N.add_assoc.
      destruct (16384 <? total + N.of_nat (length c) + N.of_nat (length (concat cs))) eqn:E2; [|reflexivity].
      destruct cs as [|c2 cs]; [|reflexivity].
      cbn [concat length] in E2. rewrite N.add_0_r in E2. apply N.ltb_lt in E2. lia.
Qed.

(* headers complete within the cap: the request and the unread rest of the connection, whatever the chunking *)
Lemma hread_done chunks : forall p r total r' rest,
  brun p r (concat chunks) = BFinished r' rest ->
  total + consumed (concat chunks) rest <= 16385 ->
  obs (hread p r total chunks) = ODone r' rest.
Proof.
  induction chunks as [|c cs IH]; intros p r total r' rest H B; [discriminate|].
  cbn [concat] in H. rewrite brun_app in H. cbn [hread].
  pose proof (hloop_chunk c p r) as L.
  destruct (brun p r c) as [p1 r1|r1 rest1|] eqn:E; try discriminate.
  - rewrite L.
    pose proof (brun_rest_len _ _ _ _ _ H) as RL.
    unfold consumed in B. cbn [concat] in B. rewrite app_length in B.
    destruct (N.ltb_spec 16384 (total + N.of_nat (length c))) as [B2|B2]; [lia|].
    apply IH; [exact H|]. unfold consumed. lia.
  - destruct L as (d' & L & R'). rewrite L. inversion H; subst. reflexivity.
Qed.

(* ------------------------------------------------------------------ segmentation independence *)
Definition within_cap (total : N) (s : bytes) (p : pst) (r : hreq) : Prop :=
  match brun p r s with
  | BFinished _ rest => total + consumed s rest <= 16385
  | BNeedMore _ _ => total + N.of_nat (length s) <= 16384
  | BError => True
  end.

Theorem hread_spec chunks p r total : within_cap total (concat chunks) p r ->
  obs (hread p r total chunks) =
  match brun p r (concat chunks) with
  | BNeedMore _ _ => ONeedMore
  | BFinished r' rest => ODone r' rest
  | BError => OError
  end.
Proof.
  unfold within_cap. intros W. destruct (brun p r (concat chunks)) as [p' r'|r' rest|] eqn:E.
  - rewrite (hread_needmore _ _ _ _ _ _ E). unfold total_len.
    destruct (N.ltb_spec 16384 (total + N.of_nat (length (concat chunks)))); [lia|reflexivity].
  - apply hread_done; assumption.
  - rewrite (hread_error _ _ _ _ E). reflexivity.
Qed.

Theorem http_seg_indep_lemma chunks1 chunks2 p r total :
  concat chunks1 = concat chunks2 -> within_cap total (concat chunks1) p r ->
  obs (hread p r total chunks1) = obs (hread p r total chunks2).
Proof.
  intros C W. rewrite (hread_spec chunks1) by exact W. rewrite (hread_spec chunks2) by (rewrite <- C; exact W).
  rewrite C. reflexivity.
Qed.

(* the fuel of the model loops is never exhausted *)
Theorem hread_no_fuel chunks : forall p r total, hread p r total chunks <> COutOfFuel.
Proof.
  induction chunks as [|c cs IH]; intros p r total; cbn [hread]; [discriminate|].
  pose proof (hloop_chunk c p r) as L.
  destruct (brun p r c) as [p1 r1|r1 rest1|].
  - rewrite L. destruct (16384 <? _); [discriminate|apply IH].
  - destruct L as (d' & L & _). rewrite L. discriminate.
  - rewrite L. discriminate.
Qed.
