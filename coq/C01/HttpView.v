(* C01: the CGI view the embedded HTTP server derives is the one SCGI / FastCGI deliver for the same environment *)
From CppcmsV Require Import Base.Tac C15.Defs C01.Defs C01.HttpSpec C01.HttpEnc C01.HttpEncProofs C01.Enc.
Local Open Scope N_scope.

Lemma beqb_true a : forall b, beqb a b = true <-> a = b.
Proof.
  induction a as [|x a IH]; intros [|y b]; cbn [beqb]; split; intros H; try discriminate; try reflexivity.
  - apply andb_true_iff in H. destruct H as [H1 H2]. apply N.eqb_eq in H1. apply IH in H2. subst. reflexivity.
  - inversion H; subst. rewrite N.eqb_refl. cbn. apply IH. reflexivity.
Qed.
Lemma beqb_refl a : beqb a a = true.
Proof. apply beqb_true. reflexivity. Qed.
Lemma beqb_false a b : a <> b -> beqb a b = false.
Proof. intros H. destruct (beqb a b) eqn:E; [apply beqb_true in E; contradiction|reflexivity]. Qed.

Lemma env_get_snoc k e k' v :
  env_get k (e ++ [(k', v)]) = match env_get k e with Some x => Some x | None => if beqb k k' then Some v else None end.
Proof.
  induction e as [|[k0 v0] e IH]; cbn [app env_get]; [reflexivity|].
  destruct (beqb k k0); [reflexivity|exact IH].
Qed.

Definition clen_of_env (e : env_t) : Z :=
  match env_get s_CONTENT_LENGTH e with None => 0%Z | Some [] => 0%Z | Some v => atoll v end.
Definition hinv (r : hreq) : Prop :=
  ctype r = env_or_empty s_CONTENT_TYPE (env r) /\ clen r = clen_of_env (env r).
Definition names_of (hs : list (bytes * bytes)) : list bytes := map (fun nv => map upper_name (fst nv)) hs.

(* keys the header reader can create *)
Definition hkey (k : bytes) : Prop :=
  k = s_CONTENT_LENGTH \/ k = s_CONTENT_TYPE \/ k = s_SERVER_PROTOCOL \/ exists x, k = s_HTTP_ ++ x.
Definition keys_ok (e : env_t) : Prop := Forall (fun kv => hkey (fst kv)) e.

Lemma hkey_not K : K = s_REQUEST_METHOD \/ K = s_QUERY_STRING \/ K = s_SCRIPT_NAME \/ K = s_PATH_INFO ->
  forall k, hkey k -> beqb K k = false.
Proof.
  intros HK k [-> | [-> | [-> | [x ->]]]]; destruct HK as [-> | [-> | [-> | ->]]]; reflexivity.
Qed.

Lemma env_get_keys_none K e : K = s_REQUEST_METHOD \/ K = s_QUERY_STRING \/ K = s_SCRIPT_NAME \/ K = s_PATH_INFO ->
  keys_ok e -> env_get K e = None.
Proof.
  intros HK OK. induction OK as [|[k v] e Hk _ IH]; [reflexivity|]. cbn [env_get fst] in *.
  rewrite (hkey_not K HK k Hk). exact IH.
Qed.

Lemma add_hdr_env r nv : exists k, hkey k /\ env (add_hdr r nv) = env r ++ [(k, snd nv)].
Proof.
  unfold add_hdr. destruct (beqb (map upper_name (fst nv)) s_CONTENT_LENGTH) eqn:E1.
  - apply beqb_true in E1. rewrite E1. exists s_CONTENT_LENGTH. split; [left; reflexivity|reflexivity].
  - destruct (beqb (map upper_name (fst nv)) s_CONTENT_TYPE) eqn:E2.
    + apply beqb_true in E2. rewrite E2. exists s_CONTENT_TYPE. split; [right; left; reflexivity|reflexivity].
    + eexists. split; [right; right; right; eexists; reflexivity|reflexivity].
Qed.

Lemma fold_keys_ok hs : forall r, keys_ok (env r) -> keys_ok (env (fold_left add_hdr hs r)).
Proof.
  induction hs as [|nv hs IH]; intros r OK; [exact OK|]. cbn [fold_left]. apply IH.
  destruct (add_hdr_env r nv) as (k & Hk & E). rewrite E. apply Forall_app. split; [exact OK|].
  constructor; [exact Hk|constructor].
Qed.

(* invariant of the header fold when header names are unique *)
Definition hinv2 (hs : list (bytes * bytes)) (r : hreq) : Prop :=
  hinv r /\ (env_get s_CONTENT_TYPE (env r) <> None -> In s_CONTENT_TYPE (names_of hs))
         /\ (env_get s_CONTENT_LENGTH (env r) <> None -> In s_CONTENT_LENGTH (names_of hs)).

Lemma fold_left_snoc {A B} (f : A -> B -> A) l x a : fold_left f (l ++ [x]) a = f (fold_left f l a) x.
Proof. rewrite fold_left_app. reflexivity. Qed.

Lemma http_prefix_neq x : beqb s_CONTENT_TYPE (s_HTTP_ ++ x) = false /\ beqb s_CONTENT_LENGTH (s_HTTP_ ++ x) = false.
Proof. split; reflexivity. Qed.

Lemma fold_hinv r0 : hinv r0 -> env_get s_CONTENT_TYPE (env r0) = None -> env_get s_CONTENT_LENGTH (env r0) = None ->
  forall hs, NoDup (names_of hs) -> hinv2 hs (fold_left add_hdr hs r0).
Proof.
  intros I0 T0 L0 hs. induction hs as [|nv hs IH] using rev_ind; intros ND.
  - cbn [fold_left]. split; [exact I0|]. split; intros H; congruence.
  - unfold names_of in ND. rewrite map_app in ND. cbn [map] in ND.
    apply NoDup_remove in ND. destruct ND as [ND NI]. rewrite app_nil_r in ND, NI.
    fold (names_of hs) in ND, NI.
    specialize (IH ND). destruct IH as ((Ict & Icl) & Jt & Jl).
    rewrite fold_left_snoc. set (r := fold_left add_hdr hs r0) in *.
    unfold hinv2, names_of. rewrite map_app. cbn [map]. fold (names_of hs).
    unfold add_hdr. set (name := map upper_name (fst nv)) in *.
    destruct (beqb name s_CONTENT_LENGTH) eqn:E1.
    + apply beqb_true in E1.
      assert (env_get s_CONTENT_LENGTH (env r) = None) as N1.
      { destruct (env_get s_CONTENT_LENGTH (env r)) eqn:G; [|reflexivity].
        destruct NI. change (In name (names_of hs)). rewrite E1. apply Jl. congruence. }
      split; [split|split]; cbn [env ctype clen].
      * unfold env_or_empty. rewrite env_get_snoc. rewrite E1.
        replace (beqb s_CONTENT_TYPE s_CONTENT_LENGTH) with false by reflexivity.
        unfold env_or_empty in Ict. rewrite Ict. destruct (env_get s_CONTENT_TYPE (env r)); reflexivity.
      * unfold clen_of_env. rewrite env_get_snoc, N1, E1, beqb_refl. reflexivity.
      * intros H. rewrite env_get_snoc, E1 in H. replace (beqb s_CONTENT_TYPE s_CONTENT_LENGTH) with false in H by reflexivity.
        apply in_or_app. left. apply Jt. destruct (env_get s_CONTENT_TYPE (env r)); congruence.
      * intros _. apply in_or_app. right. left. exact E1.
    + destruct (beqb name s_CONTENT_TYPE) eqn:E2.
      * apply beqb_true in E2.
        assert (env_get s_CONTENT_TYPE (env r) = None) as N1.
        { destruct (env_get s_CONTENT_TYPE (env r)) eqn:G; [|reflexivity].
          destruct NI. change (In name (names_of hs)). rewrite E2. apply Jt. congruence. }
        split; [split|split]; cbn [env ctype clen].
        -- unfold env_or_empty. rewrite env_get_snoc, N1, E2, beqb_refl. reflexivity.
        -- unfold clen_of_env. rewrite env_get_snoc, E2.
           replace (beqb s_CONTENT_LENGTH s_CONTENT_TYPE) with false by reflexivity.
           unfold clen_of_env in Icl. rewrite Icl. destruct (env_get s_CONTENT_LENGTH (env r)); reflexivity.
        -- intros _. apply in_or_app. right. left. exact E2.
        -- intros H. rewrite env_get_snoc, E2 in H. replace (beqb s_CONTENT_LENGTH s_CONTENT_TYPE) with false in H by reflexivity.
           apply in_or_app. left. apply Jl. destruct (env_get s_CONTENT_LENGTH (env r)); congruence.
      * destruct (http_prefix_neq name) as [P1 P2].
        split; [split|split]; cbn [env ctype clen].
        -- unfold env_or_empty. rewrite env_get_snoc, P1. unfold env_or_empty in Ict. rewrite Ict.
           destruct (env_get s_CONTENT_TYPE (env r)); reflexivity.
        -- unfold clen_of_env. rewrite env_get_snoc, P2. unfold clen_of_env in Icl. rewrite Icl.
           destruct (env_get s_CONTENT_LENGTH (env r)); reflexivity.
        -- intros H. rewrite env_get_snoc, P1 in H. apply in_or_app. left. apply Jt.
           destruct (env_get s_CONTENT_TYPE (env r)); congruence.
        -- intros H. rewrite env_get_snoc, P2 in H. apply in_or_app. left. apply Jl.
           destruct (env_get s_CONTENT_LENGTH (env r)); congruence.
Qed.

(* ------------------------------------------------------------------ process_request: the application's accessors agree
   with the environment it can read through getenv *)
Lemma env_get_app_none k a b : env_get k a = None -> env_get k (a ++ b) = env_get k b.
Proof.
  induction a as [|[k0 v0] a IH]; intros H; [reflexivity|]. cbn [app env_get] in *.
  destruct (beqb k k0); [discriminate|]. apply IH. exact H.
Qed.
Lemma env_get_app_some k a b v : env_get k a = Some v -> env_get k (a ++ b) = Some v.
Proof.
  induction a as [|[k0 v0] a IH]; intros H; [discriminate|]. cbn [app env_get] in *.
  destruct (beqb k k0); [exact H|]. apply IH. exact H.
Qed.

Theorem view_of_http_env names r v :
  process_request names r = POk v -> hinv r -> keys_ok (env r) -> view_of_env (v_env v) = v.
Proof.
  intros P (Ict & Icl) K.
  pose proof (env_get_keys_none s_REQUEST_METHOD (env r) ltac:(auto) K) as N1.
  pose proof (env_get_keys_none s_QUERY_STRING (env r) ltac:(auto) K) as N2.
  pose proof (env_get_keys_none s_SCRIPT_NAME (env r) ltac:(auto) K) as N3.
  pose proof (env_get_keys_none s_PATH_INFO (env r) ltac:(auto 6) K) as N4.
  unfold process_request in P.
  destruct (negb (is_token (meth r))); [discriminate|].
  destruct (uri r) as [|c u]; [discriminate|].
  destruct c as [|c]; [discriminate|]. destruct (Pos.eq_dec c 47) as [->|NE].
  2:{ exfalso. revert P. clear -NE.
      destruct c as [[[[[[?|?|]|[?|?|]|]|[[?|?|]|[?|?|]|]|]|[[[?|?|]|[?|?|]|]|[[?|?|]|[?|?|]|]|]|]|[[[[?|?|]|[?|?|]|]|[[?|?|]|[?|?|]|]|]|[[[?|?|]|[?|?|]|]|[[?|?|]|[?|?|]|]|]|]|]|[[[[[?|?|]|[?|?|]|]|[[?|?|]|[?|?|]|]|]|[[[?|?|]|[?|?|]|]|[[?|?|]|[?|?|]|]|]|]|[[[[?|?|]|[?|?|]|]|[[?|?|]|[?|?|]|]|]|[[[?|?|]|[?|?|]|]|[[?|?|]|[?|?|]|]|]|]|]|]; try discriminate; congruence. }
  destruct (split_at 63 (47 :: u)) as [path q].
  set (e1 := env r ++ [(s_REQUEST_METHOD, meth r)]) in *.
  assert (forall k, beqb k s_REQUEST_METHOD = false -> env_get k e1 = env_get k (env r)) as G1.
  { intros k H. unfold e1. rewrite env_get_snoc, H. destruct (env_get k (env r)); reflexivity. }
  assert (env_get s_REQUEST_METHOD e1 = Some (meth r)) as M1.
  { unfold e1. rewrite env_get_snoc, N1, beqb_refl. reflexivity. }
  set (e2 := match q with Some qs => e1 ++ [(s_QUERY_STRING, qs)] | None => e1 end) in *.
  assert (env_get s_REQUEST_METHOD e2 = Some (meth r)) as M2.
  { unfold e2. destruct q; [apply env_get_app_some|]; exact M1. }
  assert (env_get s_QUERY_STRING e2 = q) as Q2.
  { unfold e2. destruct q as [qs|].
    - rewrite env_get_snoc, (G1 s_QUERY_STRING eq_refl), N2, beqb_refl. reflexivity.
    - rewrite (G1 s_QUERY_STRING eq_refl). exact N2. }
  assert (forall k, beqb k s_REQUEST_METHOD = false -> beqb k s_QUERY_STRING = false -> env_get k e2 = env_get k (env r)) as G2.
  { intros k H1 H2. unfold e2. destruct q as [qs|]; [rewrite env_get_snoc, H2|]; rewrite (G1 k H1);
      destruct (env_get k (env r)); reflexivity. }
  destruct (strip_script names path) as [[n rest]|]; inversion P; subst v; clear P;
    unfold view_of_env; cbn [v_env v_method v_script v_path_info v_query v_ctype v_clen]; unfold env_or_empty.
  - rewrite (env_get_app_some _ _ _ _ M2).
    rewrite (env_get_app_none s_SCRIPT_NAME e2) by (rewrite (G2 s_SCRIPT_NAME eq_refl eq_refl); exact N3).
    rewrite (env_get_app_none s_PATH_INFO e2) by (rewrite (G2 s_PATH_INFO eq_refl eq_refl); exact N4).
    cbn [env_get]. rewrite !beqb_refl. replace (beqb s_PATH_INFO s_SCRIPT_NAME) with false by reflexivity.
    assert (env_get s_QUERY_STRING (e2 ++ [(s_SCRIPT_NAME, n); (s_PATH_INFO, cstr (urldecode rest))]) = q) as Q3.
    { destruct q as [qs|]; [apply env_get_app_some; exact Q2|rewrite env_get_app_none by exact Q2; reflexivity]. }
    rewrite Q3.
    assert (forall k, beqb k s_REQUEST_METHOD = false -> beqb k s_QUERY_STRING = false -> beqb k s_SCRIPT_NAME = false ->
                      beqb k s_PATH_INFO = false ->
                      env_get k (e2 ++ [(s_SCRIPT_NAME, n); (s_PATH_INFO, cstr (urldecode rest))]) = env_get k (env r)) as G3.
    { intros k H1 H2 H3 H4. destruct (env_get k e2) eqn:E.
      - rewrite (env_get_app_some _ _ _ _ E), <- (G2 k H1 H2). symmetry. exact E.
      - rewrite (env_get_app_none _ _ _ E). cbn [env_get]. rewrite H3, H4, <- (G2 k H1 H2). symmetry. exact E. }
    rewrite (G3 s_CONTENT_TYPE eq_refl eq_refl eq_refl eq_refl), (G3 s_CONTENT_LENGTH eq_refl eq_refl eq_refl eq_refl).
    unfold env_or_empty in Ict. unfold clen_of_env in Icl. rewrite <- Ict, <- Icl.
    destruct q; reflexivity.
  - rewrite (env_get_app_some _ _ _ _ M2).
    assert (env_get s_SCRIPT_NAME (e2 ++ [(s_PATH_INFO, cstr (urldecode path))]) = None) as S3.
    { rewrite env_get_app_none by (rewrite (G2 s_SCRIPT_NAME eq_refl eq_refl); exact N3). reflexivity. }
    rewrite S3.
    rewrite (env_get_app_none s_PATH_INFO e2) by (rewrite (G2 s_PATH_INFO eq_refl eq_refl); exact N4).
    cbn [env_get]. rewrite !beqb_refl.
    assert (env_get s_QUERY_STRING (e2 ++ [(s_PATH_INFO, cstr (urldecode path))]) = q) as Q3.
    { destruct q as [qs|]; [apply env_get_app_some; exact Q2|rewrite env_get_app_none by exact Q2; reflexivity]. }
    rewrite Q3.
    assert (forall k, beqb k s_REQUEST_METHOD = false -> beqb k s_QUERY_STRING = false ->
                      beqb k s_PATH_INFO = false ->
                      env_get k (e2 ++ [(s_PATH_INFO, cstr (urldecode path))]) = env_get k (env r)) as G3.
    { intros k H1 H2 H4. destruct (env_get k e2) eqn:E.
      - rewrite (env_get_app_some _ _ _ _ E), <- (G2 k H1 H2). symmetry. exact E.
      - rewrite (env_get_app_none _ _ _ E). cbn [env_get]. rewrite H4, <- (G2 k H1 H2). symmetry. exact E. }
    rewrite (G3 s_CONTENT_TYPE eq_refl eq_refl eq_refl), (G3 s_CONTENT_LENGTH eq_refl eq_refl eq_refl).
    unfold env_or_empty in Ict. unfold clen_of_env in Icl. rewrite <- Ict, <- Icl.
    destruct q; reflexivity.
Qed.

(* ------------------------------------------------------------------ the three front-ends agree *)
From CppcmsV Require Import C01.HttpSeg C01.Conn C01.ConnProofs C01.EncProofs C01.EncProofs2.

Lemma env_clen_view e : env_clen e = Z.max 0 (v_clen (view_of_env e)).
Proof.
  unfold env_clen, view_of_env. cbn [v_clen].
  destruct (env_get s_CONTENT_LENGTH e) as [[|c v]|]; try reflexivity.
  cbv zeta. destruct (Z.leb_spec (atoll (c :: v)) 0); lia.
Qed.

Lemma env_ok_scgi e : env_ok e -> scgi_env_ok e.
Proof.
  unfold env_ok, scgi_env_ok. intros H. eapply Forall_impl; [|exact H]. intros kv (A & B & _). split; assumption.
Qed.

Definition http_req0 (m u pr : bytes) : hreq := mkhreq true m u pr [(s_SERVER_PROTOCOL, pr)] 0%Z [].
Definition http_wire (m u pr : bytes) (hs : list (bytes * bytes)) : bytes := enc_head (req_line m u pr :: map hdr_line hs).

Lemma http_req_view names m u pr hs v :
  NoDup (names_of hs) -> process_request names (fold_left add_hdr hs (http_req0 m u pr)) = POk v ->
  view_of_env (v_env v) = v.
Proof.
  intros ND P. apply (view_of_http_env names _ v P).
  - apply (fold_hinv (http_req0 m u pr)); [split; reflexivity|reflexivity|reflexivity|exact ND].
  - apply fold_keys_ok. unfold http_req0, keys_ok. cbn [env]. constructor; [|constructor].
    right. right. left. reflexivity.
Qed.

Theorem frontends_agree_lemma names m u pr hs body v :
  req_line_ok m u pr -> Forall header_ok hs -> NoDup (names_of hs) ->
  process_request names (fold_left add_hdr hs (http_req0 m u pr)) = POk v ->
  (0 <= v_clen v <= cl_limit)%Z -> Z.to_nat (v_clen v) = length body ->
  N.of_nat (length (http_wire m u pr hs)) <= 16385 ->
  env_ok (v_env v) ->
  (* HTTP, followed by anything on a kept connection *)
  (forall f rest, http_stream (S f) names (http_wire m u pr hs ++ body ++ rest)
                  = IReq v body :: match rest with [] => [] | l => http_stream f names l end)
  (* the dedicated accessors are those of the CGI environment *)
  /\ view_of_env (v_env v) = v
  (* SCGI peer sending that environment *)
  /\ (forall num, ~ In 58 num -> (length num <= 15)%nat -> atoi num = Z.of_nat (length (enc_scgi_blob (v_env v))) ->
                  N.of_nat (length (enc_scgi_blob (v_env v))) <= 16384 ->
                  (16 < length num + 2 + length (enc_scgi_blob (v_env v)))%nat ->
                  scgi_decode (enc_scgi num (v_env v) body) = SOk (v_env v) body)
  (* FastCGI peer sending that environment in any record layout *)
  /\ (forall rid flags pad0 pl pend sl send rest,
        rid < 65536 -> pad0 < 256 -> pend < 256 -> send < 256 -> flags < 256 -> layout_ok pl -> layout_ok sl ->
        layout_data pl = enc_pairs (v_env v) -> N.of_nat (length (enc_pairs (v_env v))) < 16384 -> layout_data sl = body ->
        fcgi_decode (enc_fcgi rid flags pad0 pl pend sl send ++ rest) = FOk (N.odd flags) (v_env v) body rest).
Proof.
  intros RL HS ND P CL LB CAP EO.
  pose proof (http_req_view names m u pr hs v ND P) as V.
  split; [|split; [exact V|split]].
  - intros f rest.
    pose proof (http_decode_enc m u pr hs (body ++ rest) RL HS) as B. fold (http_wire m u pr hs) in B. fold (http_req0 m u pr) in B.
    rewrite (http_stream_keepalive_lemma f names _ _ _ v B).
    + rewrite LB, firstn_app_exact, skipn_app_exact. destruct rest; reflexivity.
    + unfold consumed. rewrite !app_length. lia.
    + exact P.
    + exact CL.
    + rewrite app_length. lia.
  - intros num N58 Ln At Lb Sz. apply scgi_decode_enc; try assumption. apply env_ok_scgi. exact EO.
  - intros rid flags pad0 pl pend sl send rest R P0 PE SE FL OKp OKs Dp Le Ds.
    apply fcgi_decode_enc; try assumption.
    rewrite env_clen_view, V. rewrite Z.max_r by lia. exact LB.
Qed.

(* ------------------------------------------------------------------ k requests on one kept-alive HTTP connection *)
Record hq := mkhq { hq_m : bytes; hq_u : bytes; hq_pr : bytes; hq_hs : list (bytes * bytes); hq_body : bytes; hq_v : view }.
Definition hq_wire (q : hq) : bytes := http_wire (hq_m q) (hq_u q) (hq_pr q) (hq_hs q) ++ hq_body q.
Definition hq_ok (names : list bytes) (q : hq) : Prop :=
  req_line_ok (hq_m q) (hq_u q) (hq_pr q) /\ Forall header_ok (hq_hs q) /\
  process_request names (fold_left add_hdr (hq_hs q) (http_req0 (hq_m q) (hq_u q) (hq_pr q))) = POk (hq_v q) /\
  (0 <= v_clen (hq_v q) <= cl_limit)%Z /\ Z.to_nat (v_clen (hq_v q)) = length (hq_body q) /\
  N.of_nat (length (http_wire (hq_m q) (hq_u q) (hq_pr q) (hq_hs q))) <= 16385.

Lemma http_wire_nonempty m u pr hs : http_wire m u pr hs <> [].
Proof.
  unfold http_wire, enc_head. cbn [flat_map]. intros H. apply app_eq_nil in H. destruct H as [_ H]. discriminate H.
Qed.

Theorem http_keepalive_lemma names : forall qs fuel,
  Forall (hq_ok names) qs -> qs <> [] -> (length qs <= fuel)%nat ->
  http_stream fuel names (flat_map hq_wire qs) = map (fun q => IReq (hq_v q) (hq_body q)) qs.
Proof.
  induction qs as [|q qs IH]; intros fuel OK NE F; [congruence|].
  destruct fuel as [|f]; [cbn in F; lia|].
  inversion OK as [|x y (RL & HS & P & CL & LB & CAP) OK']; subst.
  cbn [flat_map map]. unfold hq_wire at 1. rewrite <- app_assoc.
  pose proof (http_decode_enc (hq_m q) (hq_u q) (hq_pr q) (hq_hs q) (hq_body q ++ flat_map hq_wire qs) RL HS) as B.
  fold (http_wire (hq_m q) (hq_u q) (hq_pr q) (hq_hs q)) in B. fold (http_req0 (hq_m q) (hq_u q) (hq_pr q)) in B.
  rewrite (http_stream_keepalive_lemma f names _ _ _ (hq_v q) B); [| |exact P|exact CL|rewrite app_length; lia].
  2:{ unfold consumed. rewrite !app_length. lia. }
  rewrite LB, firstn_app_exact, skipn_app_exact. f_equal.
  destruct qs as [|q2 qs]; [reflexivity|].
  assert (http_stream f names (flat_map hq_wire (q2 :: qs)) = map (fun q => IReq (hq_v q) (hq_body q)) (q2 :: qs)) as IH2.
  { apply IH; [exact OK'|discriminate|cbn [length] in *; lia]. }
  clear IH. destruct (flat_map hq_wire (q2 :: qs)) as [|z zs] eqn:E; [|exact IH2].
  exfalso. cbn [flat_map] in E. apply app_eq_nil in E. destruct E as [E _]. unfold hq_wire in E.
  apply app_eq_nil in E. destruct E as [E _]. exact (http_wire_nonempty _ _ _ _ E).
Qed.

(* boolean NoDup for concrete instances *)
Fixpoint memb (x : bytes) (l : list bytes) : bool := match l with [] => false | y :: r => beqb x y || memb x r end.
Fixpoint nodupb (l : list bytes) : bool := match l with [] => true | x :: r => negb (memb x r) && nodupb r end.
Lemma memb_in x l : In x l -> memb x l = true.
Proof.
  induction l as [|y l IH]; intros H; [destruct H|]. cbn [memb]. destruct H as [->|H].
  - rewrite beqb_refl. reflexivity.
  - rewrite (IH H). apply orb_true_r.
Qed.
Lemma nodupb_ok l : nodupb l = true -> NoDup l.
Proof.
  induction l as [|x l IH]; intros H; [constructor|]. cbn [nodupb] in H. apply andb_true_iff in H. destruct H as [A B].
  constructor; [|apply IH; exact B]. intros I. rewrite (memb_in x l I) in A. discriminate.
Qed.
