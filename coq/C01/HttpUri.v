(* C01: process_request on a structured request URI: SCRIPT_NAME / PATH_INFO (percent-decoded) / QUERY_STRING (verbatim) *)
From CppcmsV Require Import Base.Tac C15.Defs C01.Defs C01.HttpSpec C01.HttpEnc C01.HttpEncProofs C01.Enc C01.EncProofs C01.EncProofs2 C01.HttpView.
Local Open Scope N_scope.

Lemma tocken_all s : Forall (fun c => token_char c = true) s -> tocken s = (s, []).
Proof.
  induction 1 as [|c s Hc _ IH]; [reflexivity|]. cbn [tocken]. rewrite Hc, IH. reflexivity.
Qed.

Lemma is_token_all s : all_token s -> is_token s = true.
Proof.
  intros (NE & T). unfold is_token. destruct s as [|c s]; [congruence|]. rewrite (tocken_all _ T). reflexivity.
Qed.

Lemma starts_with_app a b : starts_with a (a ++ b) = true.
Proof. induction a as [|x a IH]; [reflexivity|]. cbn [app starts_with]. rewrite N.eqb_refl, IH. reflexivity. Qed.

Definition boundary (path : bytes) : Prop := match path with [] => True | c :: _ => c = 47 end.
Definition script_matches (n p : bytes) : bool :=
  starts_with n p && (match skipn (length n) p with [] => true | c :: _ => c =? 47 end).

(* the first configured script name that matches on a component boundary wins *)
Lemma strip_script_hit before script after path :
  Forall (fun n => script_matches n (script ++ path) = false) before -> boundary path ->
  strip_script (before ++ script :: after) (script ++ path) = Some (script, path).
Proof.
  intros NB B. induction NB as [|n before Hn _ IH]; cbn [app strip_script].
  - rewrite starts_with_app, skipn_app_exact.
    destruct path as [|c path]; [reflexivity|]. cbn in B. subst c. reflexivity.
  - unfold script_matches in Hn. rewrite Hn. exact IH.
Qed.

Definition qpart (q : option bytes) : bytes := match q with None => [] | Some qs => 63 :: qs end.

Theorem process_request_uri names r script path q :
  is_token (meth r) = true -> uri r = script ++ path ++ qpart q ->
  no_byte 63 script -> no_byte 63 path -> (exists s', script = 47 :: s') ->
  strip_script names (script ++ path) = Some (script, path) ->
  process_request names r =
  POk (mkview (meth r) script (cstr (urldecode path)) (match q with Some qs => qs | None => [] end) (ctype r) (clen r)
         ((match q with
           | Some qs => (env r ++ [(s_REQUEST_METHOD, meth r)]) ++ [(s_QUERY_STRING, qs)]
           | None => env r ++ [(s_REQUEST_METHOD, meth r)]
           end) ++ [(s_SCRIPT_NAME, script); (s_PATH_INFO, cstr (urldecode path))])).
Proof.
  intros T U Ns Np (s' & Es) SS. unfold process_request. rewrite T. cbn [negb]. rewrite U.
  assert (split_at 63 (script ++ path ++ qpart q) = (script ++ path, q)) as SP.
  { destruct q as [qs|]; cbn [qpart].
    - rewrite app_assoc. apply split_at_app. intros I. apply in_app_or in I. destruct I; [exact (Ns H)|exact (Np H)].
    - rewrite app_nil_r. apply split_at_none. intros I. apply in_app_or in I. destruct I; [exact (Ns H)|exact (Np H)]. }
  rewrite Es in *. cbn [app] in *. rewrite SP, SS. destruct q; reflexivity.
Qed.

(* the request under construction keeps method and URI while headers are added *)
Lemma fold_add_hdr_meth_uri hs : forall r, meth (fold_left add_hdr hs r) = meth r /\ uri (fold_left add_hdr hs r) = uri r.
Proof.
  induction hs as [|nv hs IH]; intros r; [split; reflexivity|]. cbn [fold_left].
  destruct (IH (add_hdr r nv)) as [A B]. rewrite A, B. unfold add_hdr.
  destruct (beqb _ _); [split; reflexivity|]. destruct (beqb _ _); split; reflexivity.
Qed.

(* the application's view of a well-formed HTTP request, field by field *)
Theorem http_request_view_lemma names m script path q pr hs :
  all_token m -> no_byte 63 script -> no_byte 63 path -> (exists s', script = 47 :: s') ->
  strip_script names (script ++ path) = Some (script, path) ->
  exists v,
    process_request names (fold_left add_hdr hs (http_req0 m (script ++ path ++ qpart q) pr)) = POk v /\
    v_method v = m /\ v_script v = script /\ v_path_info v = cstr (urldecode path) /\
    v_query v = (match q with Some qs => qs | None => [] end).
Proof.
  intros T Ns Np Es SS.
  destruct (fold_add_hdr_meth_uri hs (http_req0 m (script ++ path ++ qpart q) pr)) as [Em Eu].
  cbn [http_req0 meth uri] in Em, Eu.
  eexists. split.
  - apply (process_request_uri names _ script path q); [rewrite Em; apply is_token_all; exact T|exact Eu|exact Ns|exact Np|exact Es|exact SS].
  - cbn [v_method v_script v_path_info v_query]. rewrite Em. repeat split; reflexivity.
Qed.

(* the header glue on ANY delivered header text that starts with a token name and a colon: the value is what follows,
   leading white space (incl. LWS) skipped, cut at the first NUL - quoted strings and comments stay verbatim *)
Theorem parse_single_header_general n x : all_token n ->
  parse_single_header (n ++ 58 :: x) = Some (map upper_name n, cstr (skip_ws x)).
Proof.
  intros (NE & T). unfold parse_single_header.
  destruct n as [|c n]; [congruence|]. inversion T as [|y z Hc Hn]; subst.
  destruct (token_char_not_ws c Hc) as (A & B & C).
  change ((c :: n) ++ 58 :: x) with (c :: (n ++ 58 :: x)).
  rewrite (skip_ws_id c _ A B C).
  change (c :: n ++ 58 :: x) with ((c :: n) ++ 58 :: x).
  rewrite (tocken_name (c :: n) x T).
  rewrite skip_ws_id by reflexivity. reflexivity.
Qed.
