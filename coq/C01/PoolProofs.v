(* C01: every string_pool allocation lies inside the page it was carved from, for every sequence of operations *)
From CppcmsV Require Import Base.Tac C01.Pool.
Local Open Scope N_scope.

Definition inv (p : pool) : Prop :=
  pages p <> [] /\ last (pages p) page_size = page_size /\ (cur p < length (pages p))%nat /\
  cap_of (cur p) p = page_size /\ free p <= page_size.

Lemma inv0 : inv pool0.
Proof. unfold inv, pool0, cap_of. cbn. repeat split; try lia; discriminate. Qed.

Lemma last_cons_ne {A} (x : A) l d : l <> [] -> last (x :: l) d = last l d.
Proof. destruct l; [congruence|reflexivity]. Qed.

Lemma nth_rev_cons_old {A} (x : A) l i d : (i < length l)%nat -> nth i (rev (x :: l)) d = nth i (rev l) d.
Proof. intros H. cbn [rev]. rewrite app_nth1 by (rewrite rev_length; exact H). reflexivity. Qed.
Lemma nth_rev_cons_new {A} (x : A) l d : nth (length l) (rev (x :: l)) d = x.
Proof. cbn [rev]. rewrite app_nth2 by (rewrite rev_length; lia). rewrite rev_length, Nat.sub_diag. reflexivity. Qed.

Lemma clear_inv p : inv p -> inv (clear p).
Proof.
  intros (NE & L & _). unfold inv, clear, cap_of. cbn [pages cur free last rev app nth length].
  rewrite L. repeat split; try lia; discriminate.
Qed.

Lemma alloc_inv n p : inv p ->
  let '((i, off), p') := alloc n p in inv p' /\ off + n <= cap_of i p' /\ (i < length (pages p'))%nat.
Proof.
  intros (NE & L & C & K & F). unfold alloc.
  destruct (N.ltb_spec page_size (n * 2)) as [B|B].
  - unfold inv, cap_of in *. cbn [pages cur free].
    rewrite (last_cons_ne n _ _ NE), (nth_rev_cons_old n _ _ _ C), nth_rev_cons_new. cbn [length].
    repeat split; try assumption; try lia; discriminate.
  - destruct (N.ltb_spec (free p) n) as [G|G].
    + unfold inv, cap_of in *. cbn [pages cur free].
      rewrite (last_cons_ne page_size _ _ NE), nth_rev_cons_new. cbn [length].
      unfold page_size in *. repeat split; try assumption; try lia; discriminate.
    + unfold inv, cap_of in *. cbn [pages cur free]. rewrite K.
      repeat split; try assumption; lia.
Qed.

Theorem pool_in_bounds_lemma ops : forall p, inv p ->
  Forall (fun t => let '(i, off, n, cap) := t in off + n <= cap) (pool_run ops p).
Proof.
  induction ops as [|o ops IH]; intros p I; [constructor|].
  destruct o as [n|]; cbn [pool_run].
  - pose proof (alloc_inv n p I) as A. destruct (alloc n p) as [[i off] p']. destruct A as (I' & B & _).
    constructor; [exact B|apply IH; exact I'].
  - apply IH. apply clear_inv. exact I.
Qed.

(* a live page never changes its capacity while it lives: an allocation that was in bounds stays in bounds until the
   next clear() *)
Lemma alloc_keeps_caps n p j : inv p -> (j < length (pages p))%nat ->
  cap_of j (snd (alloc n p)) = cap_of j p.
Proof.
  intros (NE & L & C & K & F) J. unfold alloc, cap_of.
  destruct (page_size <? n * 2); [cbn [snd pages]; apply nth_rev_cons_old; exact J|].
  destruct (free p <? n); [cbn [snd pages]; apply nth_rev_cons_old; exact J|reflexivity].
Qed.

(* after clear() the pool is in its initial state: the second and later requests of a kept-alive connection see a
   fresh arena *)
Theorem clear_is_initial p : inv p -> clear p = pool0.
Proof. intros (_ & L & _). unfold clear, pool0. rewrite L. reflexivity. Qed.
