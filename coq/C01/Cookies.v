(* C01: request::parse_cookies / read_key_value (src/http_request.cpp) with protocol::unquote, as the code is
   (including its quirks: any byte after the name that is not ; or , is treated like the equal sign; a $Path
   attribute seen before any cookie sets the cookie NAME).  Definitions only. *)
From Coq Require Import NArith ZArith List Bool.
From CppcmsV Require Import C15.Defs C01.Defs.
Import ListNotations.
Local Open Scope N_scope.

Definition is_sep (c : N) : bool := (c =? 59) || (c =? 44).      (* ; , *)

Fixpoint skip_after_period (s : bytes) : bytes :=
  match s with [] => [] | c :: r => if is_sep c then r else skip_after_period r end.

(* protocol::unquote after the opening quote: Some (text, rest after the closing quote); None = no closing quote *)
Fixpoint unquote_body (s : bytes) (acc : bytes) : option (bytes * bytes) :=
  match s with
  | [] => None
  | c :: r =>
      if c =? 34 then Some (rev acc, r)
      else if c =? 92 then
        match r with
        | d :: r2 => unquote_body r2 (d :: acc)
        | [] => None
        end
      else unquote_body r (c :: acc)
  end.

Inductive kv_res := KVFail (rest : bytes) | KVOk (k v rest : bytes).

Definition kv_finish (k v p : bytes) : kv_res :=
  match skip_ws p with
  | c :: r => if is_sep c then KVOk k v (skip_ws r) else KVOk k v (c :: r)
  | [] => KVOk k v []
  end.

Definition read_key_value (s : bytes) : kv_res :=
  let p := skip_ws s in
  let (key, p1) := tocken p in
  match key, p with
  | [], _ :: _ => KVFail (skip_after_period p)
  | _, _ =>
      match skip_ws p1 with
      | [] => KVOk key [] []
      | c :: r =>
          if negb (c =? 61) && is_sep c then KVOk key [] r
          else
            match skip_ws r with
            | [] => KVOk key [] []
            | c3 :: q =>
                if c3 =? 34 then
                  match unquote_body q [] with
                  | None => KVFail []
                  | Some (v, rest) => kv_finish key v rest
                  end
                else
                  let (v, p4) := tocken (c3 :: q) in
                  match v, p4 with
                  | [], d :: _ => if is_sep d then kv_finish key v p4 else KVFail (skip_after_period p4)
                  | _, _ => kv_finish key v p4
                  end
            end
      end
  end.

Definition s_dpath : bytes := [36; 112; 97; 116; 104].      (* $path, compared case-insensitively *)

(* cookie under construction: name and value *)
Fixpoint cookies_loop (fuel : nat) (s : bytes) (cur : bytes * bytes) (acc : list (bytes * bytes)) : list (bytes * bytes) :=
  let flush := match fst cur with [] => acc | _ => acc ++ [cur] end in
  match fuel with
  | O => flush
  | S f =>
      match s with
      | [] => flush
      | _ =>
          match read_key_value s with
          | KVFail rest => cookies_loop f rest ([], []) acc
          | KVOk k v rest =>
              if (match k with c :: _ => c =? 36 | [] => false end) then
                match fst cur with
                | [] => if beqb (map lower k) s_dpath then cookies_loop f rest (v, snd cur) acc
                        else cookies_loop f rest cur acc
                | _ => cookies_loop f rest cur acc
                end
              else cookies_loop f rest (k, v) flush
          end
      end
  end.

(* the cookies map: the first cookie of a name wins (std::map::insert) *)
Fixpoint first_wins (l : list (bytes * bytes)) (seen : list bytes) : list (bytes * bytes) :=
  match l with
  | [] => []
  | (k, v) :: r => if existsb (beqb k) seen then first_wins r seen else (k, v) :: first_wins r (k :: seen)
  end.

Definition parse_cookies (s : bytes) : list (bytes * bytes) :=
  let p := skip_ws s in first_wins (cookies_loop (S (length p)) p ([], []) []) [].

(* the peer side: name=value pairs separated by "; " *)
Fixpoint enc_cookies (l : list (bytes * bytes)) : bytes :=
  match l with
  | [] => []
  | (k, v) :: t => k ++ 61 :: v ++ match t with [] => [] | _ => 59 :: 32 :: enc_cookies t end
  end.

Definition s_HTTP_COOKIE : bytes := [72; 84; 84; 80; 95; 67; 79; 79; 75; 73; 69].
Definition cookies_of_env (e : env_t) : list (bytes * bytes) := parse_cookies (env_or_empty s_HTTP_COOKIE e).
