(* C01: GET and POST field lists -> wire -> the form maps the application observes. *)
From CppcmsV Require Import Base.Tac C15.Defs C01.Defs C01.HttpSpec C01.Enc C01.EncProofs2 C01.HttpEnc C01.HttpEncProofs C01.HttpView C01.HttpUri
  C01.HttpFold C01.AgreeG C01.Cookies C01.Observe C01.ObserveProofs.
Import ListNotations.
Local Open Scope N_scope.

(* GET: the field list encoded after the question mark of the request URI *)
Theorem http_get_fields_end_to_end names m script path pr hs gets body :
  all_token m -> no_byte 63 script -> no_byte 63 path -> (exists s', script = 47 :: s') ->
  strip_script names (script ++ path) = Some (script, path) -> Forall form_item_ok gets ->
  exists v,
    process_request names (fold_left add_hdr hs (http_req0 m (script ++ path ++ qpart (Some (enc_form gets))) pr)) = POk v /\
    o_get (observe v body) = gets.
Proof.
  intros T Ns Np Hs SS G.
  destruct (http_request_view_lemma names m script path (Some (enc_form gets)) pr hs T Ns Np Hs SS) as (v & P & _ & _ & _ & Q).
  exists v. split; [exact P|]. unfold observe. cbn [o_get]. rewrite Q. apply (parse_form_roundtrip gets G).
Qed.

(* POST: the field list encoded in the body of a request whose Content-Type header (any spelling, any lexical shape of
   the value) names the urlencoded media type *)
Theorem http_post_fields_end_to_end names m u pr gs v n w posts :
  NoDup (names_of gs) -> In (n, w) gs -> map upper_name n = s_CONTENT_TYPE -> is_urlencoded (gvalue w) = true ->
  process_request names (fold_left add_hdr (map deliver gs) (http_req0 m u pr)) = POk v ->
  Forall form_item_ok posts ->
  o_post (observe v (enc_form posts)) = posts.
Proof.
  intros ND I UP U P G.
  assert (key_of n = s_CONTENT_TYPE) as K by (unfold key_of; rewrite UP; reflexivity).
  assert (env_get s_CONTENT_TYPE (v_env v) = Some (gvalue w)) as E.
  { rewrite <- K. apply (http_header_in_env names m u pr (map deliver gs) v n (gvalue w)); [rewrite names_of_deliver; exact ND| | |exact P].
    - apply in_map_iff. exists (n, w). split; [reflexivity|exact I].
    - rewrite K. reflexivity. }
  assert (view_of_env (v_env v) = v) as V.
  { apply (http_req_view names m u pr (map deliver gs) v); [rewrite names_of_deliver; exact ND|exact P]. }
  assert (v_ctype v = gvalue w) as C.
  { rewrite <- V. unfold view_of_env. cbn [v_ctype]. unfold env_or_empty. rewrite E. reflexivity. }
  unfold observe. cbn [o_post]. rewrite C, U. apply (parse_form_roundtrip posts G).
Qed.
