(* C01: chunk-level (read-by-read) models of the SCGI and FastCGI readers.  Every byte the FastCGI front-end looks
   at goes through async_read_from_socket / peek_bytes+read_bytes over the read-ahead cache (Defs.read_exact);
   the SCGI front-end uses socket_.async_read for exactly 16 and then exactly size-16 bytes, the kernel socket
   buffer playing the role of the cache.  pending = the results of the future read_some calls.  Definitions only. *)
From Coq Require Import NArith ZArith List Bool.
From CppcmsV Require Import C15.Defs C01.Defs.
Import ListNotations.
Local Open Scope N_scope.

Definition stream_of (c : cache) : bytes := cbytes c ++ concat (pending c).
Definition cfuel (c : cache) : nat := S (length (pending c)).

(* async_read_record / non_blocking_read_record: 8 byte header, then content + padding, padding dropped *)
Definition read_record_c (c : cache) : option (frec * cache) :=
  match read_exact (cfuel c) 8 c with
  | Some ([v; t; i1; i0; c1; c0; pl; _res], ca) =>
      let cl := N.to_nat (be16 c1 c0) in
      let p := N.to_nat pl in
      match read_exact (cfuel ca) (cl + p) ca with
      | Some (data, cb) => Some (mkrec v t (be16 i1 i0) (firstn cl data) pl, cb)
      | None => None
      end
  | _ => None
  end.

Fixpoint fcgi_params_loop_c (fuel : nat) (rid : N) (acc : bytes) (c : cache) : option (option (bytes * cache)) :=
  match fuel with
  | O => None
  | S f =>
      match read_record_c c with
      | None => None
      | Some (r, c') =>
          if negb ((r_type r =? fcgi_params) && (r_id r =? rid)) then Some None
          else
            match r_content r with
            | [] => Some (Some (acc, c'))
            | x => let acc' := acc ++ x in
                   if N.of_nat (length acc') <? 16384 then fcgi_params_loop_c f rid acc' c'
                   else Some None
            end
      end
  end.

Fixpoint fcgi_stdin_loop_c (fuel : nat) (rid : N) (need : nat) (acc : bytes) (c : cache)
  : option (option (bytes * cache)) :=
  match fuel with
  | O => None
  | S f =>
      match read_record_c c with
      | None => None
      | Some (r, c') =>
          if negb ((r_type r =? fcgi_stdin) && (r_id r =? rid)) then Some None
          else
            match need with
            | O => match r_content r with [] => Some (Some (acc, c')) | _ => Some None end
            | _ =>
                match r_content r with
                | [] => Some None
                | x =>
                    if Nat.leb (length x) need
                    then fcgi_stdin_loop_c f rid (need - length x) (acc ++ x) c'
                    else fcgi_stdin_loop_c f rid 0 (acc ++ firstn need x) c'
                end
            end
      end
  end.

Inductive fcgi_out_c :=
  | FcNeedMore | FcError | FcOther
  | FcOk (keep : bool) (e : env_t) (body : bytes) (c : cache).

Definition fcgi_decode_c (c : cache) : fcgi_out_c :=
  match read_record_c c with
  | None => FcNeedMore
  | Some (r, c1) =>
      if negb (r_version r =? 1) then FcError
      else if r_type r =? fcgi_get_values then FcOther
      else if negb (r_type r =? fcgi_begin_request) then FcOther
      else
        match r_content r with
        | [ro1; ro0; flags; _; _; _; _; _] =>
            if negb (be16 ro1 ro0 =? 1) then FcOther
            else
              let keep := N.odd flags in
              let rid := r_id r in
              match fcgi_params_loop_c (S (length (stream_of c1))) rid [] c1 with
              | None => FcNeedMore
              | Some None => FcError
              | Some (Some (params, c2)) =>
                  let e := parse_pairs (S (length params)) params in
                  let cl := match env_get s_CONTENT_LENGTH e with
                            | None => 0%Z | Some [] => 0%Z
                            | Some v => let x := atoll v in if Z.leb x 0 then 0%Z else x
                            end in
                  match fcgi_stdin_loop_c (S (length (stream_of c2))) rid (Z.to_nat cl) [] c2 with
                  | None => FcNeedMore
                  | Some None => FcError
                  | Some (Some (body, c3)) => FcOk keep e body c3
                  end
              end
        | _ => FcError
        end
  end.

(* what the chunk-level result means at stream level *)
Definition fcgi_abs (o : fcgi_out_c) : fcgi_out :=
  match o with
  | FcNeedMore => FNeedMore | FcError => FError | FcOther => FOther
  | FcOk k e b c => FOk k e b (stream_of c)
  end.

(* ------------------------------------------------------------------ SCGI *)
Inductive scgi_out_c := ScNeedMore | ScError | ScOk (e : env_t) (c : cache).

Definition scgi_decode_c (c : cache) : scgi_out_c :=
  match read_exact (cfuel c) 16 c with
  | None => ScNeedMore
  | Some (first, c1) =>
      match split_at 58 first with
      | (_, None) => ScError
      | (num, Some _) =>
          let sep := length num in
          let len := atoi num in
          if (Z.ltb len 0) || (Z.ltb 16384 len) then ScError
          else
            let size := (sep + 2 + Z.to_nat len)%nat in
            if Nat.leb size 16 then ScError
            else
              match read_exact (cfuel c1) (size - 16) c1 with
              | None => ScNeedMore
              | Some (more, c2) =>
                  let block := first ++ more in
                  match rev block with
                  | 44 :: _ =>
                      let area := firstn (size - 1 - (sep + 1)) (skipn (sep + 1) block) in
                      ScOk (scgi_pairs (S (length area)) area) c2
                  | _ => ScError
                  end
              end
      end
  end.

Definition scgi_abs (o : scgi_out_c) : scgi_out :=
  match o with
  | ScNeedMore => SNeedMore | ScError => SError
  | ScOk e c => SOk e (stream_of c)
  end.

Definition cache_of (chunks : list bytes) : cache := mkcache [] chunks.
