(* C01: a whole HTTP connection - header reader, process_request, body hand-over (first from the read buffer, then
   from the socket), keep-alive: the next request starts with whatever is left in the buffer.  http_conn is the
   chunk-level model that is extracted and compared with the real service; http_stream is its specification on
   the byte stream.  Definitions only. *)
From Coq Require Import NArith ZArith List Bool.
From CppcmsV Require Import C15.Defs C01.Defs C01.HttpSpec.
Import ListNotations.
Local Open Scope N_scope.

Inductive item :=
  | IReq (v : view) (body : bytes)
  | IBad400 | INeg400 | IBig413 | IErr | INeedMore | INeedBody | IOverCap | IFuel.

(* connection::load_content over http::async_read_some: n bytes, first from what is left of the read buffer
   (head of the list), then from further reads; a read never takes more than the missing part of the body, so the
   tail of a partly used read is delivered by the next read *)
Fixpoint take_body (chunks : list bytes) (n : nat) : option (bytes * list bytes) :=
  match n with
  | O => Some ([], chunks)
  | _ => match chunks with
         | [] => None
         | c :: cs => if Nat.leb n (length c) then Some (firstn n c, skipn n c :: cs)
                      else match take_body cs (n - length c) with
                           | Some (b, l) => Some (c ++ b, l)
                           | None => None
                           end
         end
  end.

Definition cl_limit : Z := 1048576%Z.

Fixpoint http_conn (fuel : nat) (names : list bytes) (chunks : list bytes) : list item :=
  match fuel with
  | O => [IFuel]
  | S f =>
      match hread pst0 hreq0 0 chunks with
      | CNeedMore => [INeedMore]
      | CError => [IErr]
      | COutOfFuel => [IFuel]
      | CDone r rest unread =>
          match process_request names r with
          | PBad400 => [IBad400]
          | POk v =>
              if Z.ltb (v_clen v) 0 then [INeg400]
              else if Z.ltb cl_limit (v_clen v) then [IBig413]
              else match take_body (rest :: unread) (Z.to_nat (v_clen v)) with
                   | None => [INeedBody]
                   | Some (body, lft) =>
                       IReq v body :: match concat lft with [] => [] | _ => http_conn f names lft end
                   end
          end
      end
  end.

Fixpoint http_stream (fuel : nat) (names : list bytes) (s : bytes) : list item :=
  match fuel with
  | O => [IFuel]
  | S f =>
      match brun pst0 hreq0 s with
      | BNeedMore _ _ => if 16384 <? N.of_nat (length s) then [IErr] else [INeedMore]
      | BError => [IErr]
      | BFinished r rest =>
          if 16385 <? consumed s rest then [IOverCap]
          else
            match process_request names r with
            | PBad400 => [IBad400]
            | POk v =>
                if Z.ltb (v_clen v) 0 then [INeg400]
                else if Z.ltb cl_limit (v_clen v) then [IBig413]
                else
                  let n := Z.to_nat (v_clen v) in
                  if Nat.ltb (length rest) n then [INeedBody]
                  else IReq v (firstn n rest) :: match skipn n rest with [] => [] | l => http_stream f names l end
            end
      end
  end.

(* ------------------------------------------------------------------ a FastCGI connection (keep_conn) *)
From CppcmsV Require Import C01.Chunked C01.Enc.
Inductive fitem := FIReq (keep : bool) (e : env_t) (body : bytes) | FIErr | FIOther | FINeedMore | FIFuel.

Fixpoint fcgi_conn_c (fuel : nat) (c : cache) : list fitem :=
  match fuel with
  | O => [FIFuel]
  | S f =>
      match fcgi_decode_c c with
      | FcNeedMore => [FINeedMore]
      | FcError => [FIErr]
      | FcOther => [FIOther]
      | FcOk keep e body c' =>
          FIReq keep e body :: if keep then match stream_of c' with [] => [] | _ => fcgi_conn_c f c' end else []
      end
  end.

Fixpoint fcgi_conn (fuel : nat) (s : bytes) : list fitem :=
  match fuel with
  | O => [FIFuel]
  | S f =>
      match fcgi_decode s with
      | FNeedMore => [FINeedMore]
      | FError => [FIErr]
      | FOther => [FIOther]
      | FOk keep e body rest =>
          FIReq keep e body :: if keep then match rest with [] => [] | _ => fcgi_conn f rest end else []
      end
  end.

(* a request as the peer (web server) sends it, with its freely chosen record layout *)
Record freq := mkfreq {
  q_rid : N; q_flags : N; q_pad0 : N; q_pl : layout; q_pend : N; q_sl : layout; q_send : N;
  q_env : env_t; q_body : bytes }.
Definition enc_freq (q : freq) : bytes :=
  enc_fcgi (q_rid q) (q_flags q) (q_pad0 q) (q_pl q) (q_pend q) (q_sl q) (q_send q).
Definition freq_ok (q : freq) : Prop :=
  q_rid q < 65536 /\ q_pad0 q < 256 /\ q_pend q < 256 /\ q_send q < 256 /\ q_flags q < 256 /\
  layout_ok (q_pl q) /\ layout_ok (q_sl q) /\
  layout_data (q_pl q) = enc_pairs (q_env q) /\ env_ok (q_env q) /\ N.of_nat (length (enc_pairs (q_env q))) < 16384 /\
  layout_data (q_sl q) = q_body q /\ Z.to_nat (env_clen (q_env q)) = length (q_body q).
