(* C01: the chunk-level SCGI / FastCGI readers compute the stream-level decoders on the concatenation of the reads *)
From CppcmsV Require Import Base.Tac C15.Defs C01.Defs C01.Chunked.
Local Open Scope N_scope.

Lemma read_exact_spec n fuel : forall c, (length (pending c) < fuel)%nat ->
  ((n <= length (stream_of c))%nat ->
     exists c', read_exact fuel n c = Some (firstn n (stream_of c), c') /\ stream_of c' = skipn n (stream_of c))
  /\ ((length (stream_of c) < n)%nat -> read_exact fuel n c = None).
Proof.
  induction fuel as [|f IH]; intros c F; [lia|].
  cbn [read_exact]. destruct (Nat.leb_spec n (length (cbytes c))) as [L|L].
  - split; [intros _|intros H; unfold stream_of in H; rewrite app_length in H; lia].
    exists (mkcache (skipn n (cbytes c)) (pending c)). unfold stream_of. cbn [cbytes pending].
    rewrite firstn_app, skipn_app. replace (n - length (cbytes c))%nat with 0%nat by lia.
    cbn [firstn skipn]. rewrite app_nil_r. split; reflexivity.
  - destruct c as [cb [|ch rest]]; cbn [pending cbytes] in *.
    + unfold stream_of. cbn [cbytes pending concat]. rewrite app_nil_r. split; [lia|reflexivity].
    + assert (stream_of (mkcache cb (ch :: rest)) = stream_of (mkcache (cb ++ ch) rest)) as E.
      { unfold stream_of. cbn [cbytes pending concat]. rewrite app_assoc. reflexivity. }
      rewrite E. apply IH. cbn [pending length] in *. lia.
Qed.

Lemma read_exact_some n c : (n <= length (stream_of c))%nat ->
  exists c', read_exact (cfuel c) n c = Some (firstn n (stream_of c), c') /\ stream_of c' = skipn n (stream_of c).
Proof. intros H. apply (read_exact_spec n (cfuel c) c); [unfold cfuel; lia|exact H]. Qed.
Lemma read_exact_none n c : (length (stream_of c) < n)%nat -> read_exact (cfuel c) n c = None.
Proof. intros H. apply (read_exact_spec n (cfuel c) c); [unfold cfuel; lia|exact H]. Qed.

(* ------------------------------------------------------------------ FastCGI records *)
Lemma read_record_c_spec c :
  match read_record (stream_of c) with
  | None => read_record_c c = None
  | Some (r, s') => exists c', read_record_c c = Some (r, c') /\ stream_of c' = s'
  end.
Proof.
  unfold read_record_c.
  destruct (Nat.leb_spec 8 (length (stream_of c))) as [L|L].
  - destruct (read_exact_some 8 c L) as (ca & R & Sa). rewrite R.
    destruct (stream_of c) as [|v [|t [|i1 [|i0 [|c1 [|c0 [|pl [|res r]]]]]]]] eqn:E; cbn [length] in L; try lia.
    cbn [firstn skipn] in *. cbn [read_record].
    destruct (Nat.ltb_spec (length r) (N.to_nat (be16 c1 c0) + N.to_nat pl)) as [B|B].
    + rewrite read_exact_none; [reflexivity|rewrite Sa; exact B].
    + destruct (read_exact_some (N.to_nat (be16 c1 c0) + N.to_nat pl) ca) as (cb & R2 & Sb); [rewrite Sa; exact B|].
      rewrite R2. eexists. split; [|rewrite Sb, Sa; reflexivity].
      rewrite Sa, firstn_firstn. replace (Nat.min _ _) with (N.to_nat (be16 c1 c0)) by lia. reflexivity.
  - rewrite read_exact_none by lia.
    destruct (stream_of c) as [|v [|t [|i1 [|i0 [|c1 [|c0 [|pl [|res r]]]]]]]]; cbn [length] in L; try lia; reflexivity.
Qed.

Definition lift2 (o : option (option (bytes * cache))) : option (option (bytes * bytes)) :=
  match o with
  | None => None | Some None => Some None
  | Some (Some (a, c)) => Some (Some (a, stream_of c))
  end.

Lemma params_loop_c_spec fuel : forall rid acc c,
  lift2 (fcgi_params_loop_c fuel rid acc c) = fcgi_params_loop fuel rid acc (stream_of c).
Proof.
  induction fuel as [|f IH]; intros rid acc c; [reflexivity|].
  cbn [fcgi_params_loop_c fcgi_params_loop].
  pose proof (read_record_c_spec c) as R.
  destruct (read_record (stream_of c)) as [[r s']|].
  - destruct R as (c' & R & Sc). rewrite R.
    destruct (negb _); [reflexivity|].
    destruct (r_content r) as [|x xs]; [cbn [lift2]; rewrite Sc; reflexivity|].
    destruct (_ <? 16384); [|reflexivity]. rewrite IH, Sc. reflexivity.
  - rewrite R. reflexivity.
Qed.

Lemma stdin_loop_c_spec fuel : forall rid need acc c,
  lift2 (fcgi_stdin_loop_c fuel rid need acc c) = fcgi_stdin_loop fuel rid need acc (stream_of c).
Proof.
  induction fuel as [|f IH]; intros rid need acc c; [reflexivity|].
  cbn [fcgi_stdin_loop_c fcgi_stdin_loop].
  pose proof (read_record_c_spec c) as R.
  destruct (read_record (stream_of c)) as [[r s']|].
  - destruct R as (c' & R & Sc). rewrite R.
    destruct (negb _); [reflexivity|].
    destruct need as [|need].
    + destruct (r_content r); [cbn [lift2]; rewrite Sc; reflexivity|reflexivity].
    + destruct (r_content r) as [|x xs]; [reflexivity|].
      destruct (Nat.leb _ _); rewrite IH, Sc; reflexivity.
  - rewrite R. reflexivity.
Qed.

Theorem fcgi_decode_c_spec c : fcgi_abs (fcgi_decode_c c) = fcgi_decode (stream_of c).
Proof.
  unfold fcgi_decode_c, fcgi_decode.
  pose proof (read_record_c_spec c) as R.
  destruct (read_record (stream_of c)) as [[r s1]|]; [|rewrite R; reflexivity].
  destruct R as (c1 & R & S1). rewrite R.
  destruct (negb (r_version r =? 1)); [reflexivity|].
  destruct (r_type r =? fcgi_get_values); [reflexivity|].
  destruct (negb (r_type r =? fcgi_begin_request)); [reflexivity|].
  destruct (r_content r) as [|ro1 [|ro0 [|flags [|x3 [|x4 [|x5 [|x6 [|x7 [|x8 xs]]]]]]]]]; try reflexivity.
  destruct (negb (be16 ro1 ro0 =? 1)); [reflexivity|].
  pose proof (params_loop_c_spec (S (length (stream_of c1))) (r_id r) [] c1) as P.
  rewrite S1 in P. rewrite S1. rewrite <- P.
  destruct (fcgi_params_loop_c (S (length s1)) (r_id r) [] c1) as [[[params c2]|]|]; try reflexivity.
  cbn [lift2].
  set (e := parse_pairs (S (length params)) params).
  set (cl := match env_get s_CONTENT_LENGTH e with
             | None => 0%Z | Some [] => 0%Z
             | Some v => let x := atoll v in if Z.leb x 0 then 0%Z else x end).
  pose proof (stdin_loop_c_spec (S (length (stream_of c2))) (r_id r) (Z.to_nat cl) [] c2) as Q.
  rewrite <- Q.
  destruct (fcgi_stdin_loop_c (S (length (stream_of c2))) (r_id r) (Z.to_nat cl) [] c2) as [[[body c3]|]|]; reflexivity.
Qed.

Theorem fcgi_seg_indep_lemma c1 c2 : stream_of c1 = stream_of c2 ->
  fcgi_abs (fcgi_decode_c c1) = fcgi_abs (fcgi_decode_c c2).
Proof. intros H. rewrite !fcgi_decode_c_spec, H. reflexivity. Qed.

Lemma stream_of_cache_of chunks : stream_of (cache_of chunks) = concat chunks.
Proof. reflexivity. Qed.

(* ------------------------------------------------------------------ SCGI *)
Lemma firstn_add {A} a b (l : list A) : firstn (a + b) l = firstn a l ++ firstn b (skipn a l).
Proof.
  revert l. induction a as [|a IH]; intros l; [reflexivity|].
  destruct l as [|x l]; [cbn; rewrite firstn_nil; reflexivity|]. cbn [Nat.add firstn skipn app]. rewrite IH. reflexivity.
Qed.
Lemma skipn_add {A} a b (l : list A) : skipn (a + b) l = skipn b (skipn a l).
Proof.
  revert l. induction a as [|a IH]; intros l; [reflexivity|].
  destruct l as [|x l]; [cbn; rewrite skipn_nil; reflexivity|]. cbn [Nat.add skipn]. apply IH.
Qed.

Theorem scgi_decode_c_spec c : scgi_abs (scgi_decode_c c) = scgi_decode (stream_of c).
Proof.
  unfold scgi_decode_c, scgi_decode.
  destruct (Nat.ltb_spec (length (stream_of c)) 16) as [L|L].
  - rewrite read_exact_none by lia. reflexivity.
  - destruct (read_exact_some 16 c L) as (c1 & R & S1). rewrite R.
    destruct (split_at 58 (firstn 16 (stream_of c))) as [num [x|]]; [|reflexivity].
    destruct (_ || _); [reflexivity|].
    set (size := (length num + 2 + Z.to_nat (atoi num))%nat).
    destruct (Nat.leb_spec size 16) as [Z1|Z1]; [reflexivity|].
    assert (length (skipn 16 (stream_of c)) = length (stream_of c) - 16)%nat as SL by apply skipn_length.
    destruct (Nat.ltb_spec (length (stream_of c)) size) as [B|B].
    + rewrite read_exact_none by (rewrite S1; lia). reflexivity.
    + destruct (read_exact_some (size - 16) c1) as (c2 & R2 & S2); [rewrite S1; lia|].
      rewrite R2, S1.
      assert (firstn 16 (stream_of c) ++ firstn (size - 16) (skipn 16 (stream_of c)) = firstn size (stream_of c)) as E.
      { rewrite <- firstn_add. f_equal. lia. }
      rewrite E.
      assert (stream_of c2 = skipn size (stream_of c)) as E2.
      { rewrite S2, S1, <- skipn_add. f_equal. lia. }
      destruct (rev (firstn size (stream_of c))) as [|y ys]; [reflexivity|].
      destruct y as [|p]; [reflexivity|].
      destruct (Pos.eq_dec p 44) as [->|NE].
      * cbn [scgi_abs]. rewrite E2. reflexivity.
      * destruct p as [[[[[[p|p|]|[p|p|]|]|[[p|p|]|[p|p|]|]|]|[[[p|p|]|[p|p|]|]|[[p|p|]|[p|p|]|]|]|]|[[[[p|p|]|[p|p|]|]|[[p|p|]|[p|p|]|]|]|[[[p|p|]|[p|p|]|]|[[p|p|]|[p|p|]|]|]|]|]|[[[[[p|p|]|[p|p|]|]|[[p|p|]|[p|p|]|]|]|[[[p|p|]|[p|p|]|]|[[p|p|]|[p|p|]|]|]|]|[[[[p|p|]|[p|p|]|]|[[p|p|]|[p|p|]|]|]|[[[p|p|]|[p|p|]|]|[[p|p|]|[p|p|]|]|]|]|]|]; try reflexivity; congruence.
Qed.

Theorem scgi_seg_indep_lemma c1 c2 : stream_of c1 = stream_of c2 ->
  scgi_abs (scgi_decode_c c1) = scgi_abs (scgi_decode_c c2).
Proof. intros H. rewrite !scgi_decode_c_spec, H. reflexivity. Qed.
