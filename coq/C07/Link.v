(* C07: the leaf functions generated from the current source (coq/gen/Gen_C07_hash.v, from string_hash in
   private/hash_map.h) equal the leafs of the hash_map model (HashMap.v).  A source change that alters the hash
   breaks these lemmas. *)
From CppcmsV Require Import Base.Tac Base.CSem Base.CSemFacts C07.Defs C07.HashMap C07.Ifc gen.Gen_C07_hash gen.Gen_C07_iface.
Local Open Scope Z_scope.

Lemma wrapu8_wraps8 z : 0 <= z < 256 -> wrapu 8 (wraps 8 z) = z.
Proof.
  intros H. unfold wrapu, wraps. change (2 ^ 8) with 256. change (2 ^ (8 - 1)) with 128. lia.
Qed.

(* a char parameter is signed: the byte b arrives as wraps 8 b *)
Lemma link_hash_update h b : (b < 256)%N -> g_c07_hash_update h (wraps 8 (Z.of_N b)) = hash_update h b.
Proof.
  intros Hb. unfold g_c07_hash_update, hash_update. rewrite wrapu8_wraps8 by lia.
  unfold wrapu, w32. change (2 ^ 32) with 4294967296. reflexivity.
Qed.

Lemma link_hash_initial : g_c07_hash_initial = 0.
Proof. reflexivity. Qed.

(* the hash of a whole key: the loop of string_hash::operator() is a left fold of update_state from initial_state *)
Lemma link_string_hash k : Forall (fun b => (b < 256)%N) k ->
  fold_left (fun h b => g_c07_hash_update h (wraps 8 (Z.of_N b))) k g_c07_hash_initial = string_hash k.
Proof.
  unfold string_hash. rewrite link_hash_initial. generalize 0 as h.
  induction k as [|b k IH]; intros h Hk; [reflexivity|]. inversion Hk; subst.
  cbn [fold_left]. rewrite link_hash_update by assumption. apply IH; assumption.
Qed.

(* src/cache_interface.cpp: the constant infty and deadtime() as translated from the current source (coq/gen/Gen_C07_iface.v)
   are the ones of the interface model (Ifc.v).  g_c07_deadtime takes the value read from time() as its second argument;
   the Year-2038 branch (tmp+sec<tmp, which returns -1 in the lifted function where the source throws) is dead over Z:
   for sec >= 0 the sum is never smaller than tmp. *)
Lemma link_infty : g_c07_infty = infty.
Proof. vm_compute. reflexivity. Qed.

Lemma link_deadtime now sec : g_c07_deadtime sec now = deadtime now sec.
Proof.
  unfold g_c07_deadtime, deadtime. rewrite link_infty. cbv zeta.
  destruct (Z.ltb_spec sec 0); [reflexivity|]. destruct (Z.ltb_spec (now + sec) now); [lia|reflexivity].
Qed.
