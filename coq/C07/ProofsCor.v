(* C07: the clauses of the property text as statements about explicit histories, derived from the refinement
   theorems of ProofsSpec.v.  A history is   pre ++ Store k ... :: mid   followed by  Fetch k ; last_out is the answer
   to that final fetch; clock now hist is the value of the virtual clock after hist (the last Tick, else now). *)
From CppcmsV Require Import Base.Tac C07.Defs C07.Spec C07.Util C07.ProofsInv C07.MapSpec C07.ProofsSpec.
Local Open Scope N_scope.

Lemma m_fetch_none now k M : M k = None -> m_fetch now k M = OMiss.
Proof. unfold m_fetch. intros ->. reflexivity. Qed.

(* A. a fetch either misses or returns exactly value, trigger set and deadline (and generation, when one was given)
      of the most recent store under that key -- for every limit and every allocator behaviour *)
Theorem fetch_hit_is_latest_store_l lim now pre k v tin d g f nem mid :
  forallb (fun o => negb (stores_key k o)) mid = true ->
  let r := last_out (snd (run now ((pre ++ Store k v tin d g f nem :: mid) ++ [Fetch k]) (init lim))) in
  r = OMiss \/ exists g', (forall x, g = Some x -> g' = x) /\ r = OHit v (store_trigs k tin) d g'.
Proof.
  intros Hmid r.
  destruct (last_fetch_sound lim now (pre ++ Store k v tin d g f nem :: mid) k) as [H|H]; [left; exact H|]. fold r in H.
  destruct (spec_after_store now pre k v tin d g f nem mid Hmid) as (g' & Hg & [Hk|Hk] & _); unfold mk_of in Hk.
  - left. rewrite H. apply m_fetch_none; exact Hk.
  - rewrite H. unfold m_fetch. rewrite Hk. cbn [c_deadline c_data c_trigs c_gen].
    destruct (d <? _)%Z; [left; reflexivity|right; exists g'; split; [exact Hg|reflexivity]].
Qed.

(* B. it misses whenever, since that store, the key was removed, the cache was cleared, or any trigger attached to
      the entry (its own key included) was raised -- for every limit and allocator behaviour *)
Theorem fetch_miss_after_invalidation_l lim now pre k v tin d g f nem mid0 inv mid :
  forallb (fun o => negb (stores_key k o)) mid0 = true ->
  invalidates k (store_trigs k tin) inv = true -> stores_key k inv = false ->
  forallb (fun o => negb (stores_key k o)) mid = true ->
  last_out (snd (run now (((pre ++ Store k v tin d g f nem :: mid0) ++ inv :: mid) ++ [Fetch k]) (init lim))) = OMiss.
Proof.
  intros Hmid0 Hinv Hns Hmid.
  destruct (last_fetch_sound lim now ((pre ++ Store k v tin d g f nem :: mid0) ++ inv :: mid) k) as [H|H]; [exact H|].
  rewrite H. apply m_fetch_none.
  rewrite m_run_app, m_run_cons.
  destruct (spec_after_store now pre k v tin d g f nem mid0 Hmid0) as (g' & _ & Hk & _).
  apply m_run_stays_none; [exact Hmid|].
  apply (m_step_invalidates _ inv _ k (mkC v (store_trigs k tin) d g')); [exact Hns|exact Hinv|exact Hk].
Qed.

(* B2. remove and clear need no assumption on what was stored before *)
Theorem fetch_miss_after_remove_or_clear_l lim now pre k inv mid :
  invalidates_any k inv = true ->
  forallb (fun o => negb (stores_key k o)) mid = true ->
  last_out (snd (run now ((pre ++ inv :: mid) ++ [Fetch k]) (init lim))) = OMiss.
Proof.
  intros Hinv Hmid.
  destruct (last_fetch_sound lim now (pre ++ inv :: mid) k) as [H|H]; [exact H|]. rewrite H. apply m_fetch_none.
  rewrite m_run_app, m_run_cons. apply m_run_stays_none; [exact Hmid|]. apply m_step_invalidates_any; exact Hinv.
Qed.

(* C. it misses when the deadline of the most recent store has passed *)
Theorem fetch_miss_after_deadline_l lim now pre k v tin d g f nem mid :
  forallb (fun o => negb (stores_key k o)) mid = true ->
  (d < clock now (pre ++ Store k v tin d g f nem :: mid))%Z ->
  last_out (snd (run now ((pre ++ Store k v tin d g f nem :: mid) ++ [Fetch k]) (init lim))) = OMiss.
Proof.
  intros Hmid Hd.
  destruct (last_fetch_sound lim now (pre ++ Store k v tin d g f nem :: mid) k) as [H|H]; [exact H|]. rewrite H.
  destruct (spec_after_store now pre k v tin d g f nem mid Hmid) as (g' & _ & [Hk|Hk] & _); unfold mk_of in Hk.
  - apply m_fetch_none; exact Hk.
  - unfold m_fetch. rewrite Hk. cbn [c_deadline]. destruct (Z.ltb_spec d (clock now (pre ++ Store k v tin d g f nem :: mid))); [reflexivity|lia].
Qed.

(* D. when no size limit is in play (and the allocator does not fail) a live entry is always found *)
Theorem live_entry_found_l now pre k v tin d g mid :
  Forall op_no_fault (pre ++ Store k v tin d g FNone [] :: mid) ->
  forallb (fun o => negb (invalidates k (store_trigs k tin) o)) mid = true ->
  (clock now (pre ++ Store k v tin d g FNone [] :: mid) <= d)%Z ->
  exists g', (forall x, g = Some x -> g' = x) /\
    last_out (snd (run now ((pre ++ Store k v tin d g FNone [] :: mid) ++ [Fetch k]) (init 0))) = OHit v (store_trigs k tin) d g'.
Proof.
  intros Hops Hmid Hd.
  assert (Hmid' : forallb (fun o => negb (stores_key k o)) mid = true).
  { apply forallb_forall. intros o Ho. rewrite forallb_forall in Hmid. specialize (Hmid o Ho).
    destruct o; cbn [stores_key invalidates] in *; try reflexivity. exact Hmid. }
  destruct (spec_after_store now pre k v tin d g FNone [] mid Hmid') as (g' & Hg & _ & _ & Hk).
  assert (Hnf : Forall op_no_fault mid).
  { apply Forall_app in Hops. destruct Hops as [_ Hops]. inversion Hops; assumption. }
  specialize (Hk eq_refl Hnf Hmid). unfold mk_of in Hk.
  exists g'. split; [exact Hg|]. rewrite (last_fetch_exact now _ k Hops).
  unfold m_fetch. rewrite Hk. cbn [c_deadline c_data c_trigs c_gen].
  destruct (Z.ltb_spec d (clock now (pre ++ Store k v tin d g FNone [] :: mid))); [lia|reflexivity].
Qed.

(* E. a key that was never stored misses *)
Theorem fetch_miss_never_stored_l lim now hist k :
  forallb (fun o => negb (stores_key k o)) hist = true ->
  last_out (snd (run now (hist ++ [Fetch k]) (init lim))) = OMiss.
Proof.
  intros Hh. destruct (last_fetch_sound lim now hist k) as [H|H]; [exact H|]. rewrite H. apply m_fetch_none.
  apply (m_run_stays_none hist now m_init k Hh). reflexivity.
Qed.

(* E2. a store that cannot be carried out (the value cannot be copied into the shared segment, the size test fires,
       or the allocator fails while the entry is linked) leaves the key absent: every later fetch of it misses
       until the next store under that key -- the superseded entry is never served *)
Theorem fetch_miss_after_failed_store_l lim now pre k v tin d g f nem mid :
  f <> FNone ->
  forallb (fun o => negb (stores_key k o)) mid = true ->
  last_out (snd (run now ((pre ++ Store k v tin d g f nem :: mid) ++ [Fetch k]) (init lim))) = OMiss.
Proof.
  intros Hf Hmid.
  destruct (last_fetch_sound lim now (pre ++ Store k v tin d g f nem :: mid) k) as [H|H]; [exact H|]. rewrite H.
  apply m_fetch_none.
  destruct (spec_after_store now pre k v tin d g f nem mid Hmid) as (g' & _ & _ & Hk & _). exact (Hk Hf).
Qed.

(* F. rise t removes EVERY entry that carries t (every page that depended on it) and nothing else *)
Theorem rise_kills_exactly_l t s : Inv s -> forall k,
  pfind k (primary (rise t s)) =
  match pfind k (primary s) with Some c => if kmem t (c_trigs c) then None else Some c | None => None end.
Proof.
  intros I k. destruct (rise_ref t s I) as [_ E].
  change (primary (rise t s)) with (a_ent (abs (rise t s))). rewrite E. unfold a_rise; cbn [a_ent abs].
  rewrite pfind_filter by exact (inv_keys s I). destruct (pfind k (primary s)) as [c|]; [|reflexivity].
  unfold has_trig; cbn [snd]. destruct (kmem t (c_trigs c)); reflexivity.
Qed.
