Require Extraction.
Require Import ExtrOcamlBasic.
From Coq Require Import NArith ZArith List.
From CppcmsV Require Import C07.Defs C07.Ifc C07.HashMap.
Definition keep_types : (N * Z * nat) := (0%N, 0%Z, 0%nat).
Extraction "c07m.ml" keep_types N.add N.mul N.div_eucl run init step stats store fetch rise remove clear check_limits i_step i_run i_init h_run h_step h_empty string_hash.
