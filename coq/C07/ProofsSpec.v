(* C07: the abstract LRU cache (hence, by ProofsInv.run_ref, the four-index model) refines the map specification:
   exactly when no limit and no allocator fault is in play, soundly (every hit is the specification's hit, every
   counted entry is a binding of the specification map) in general. *)
From CppcmsV Require Import Base.Tac C07.Defs C07.Spec C07.Util C07.ProofsInv C07.MapSpec.
Local Open Scope N_scope.

Definition awf (a : astate) : Prop := NoDup (map fst (a_ent a)).
Definition sub (a : astate) (Mg : mspec * N) : Prop :=
  (forall k c, pfind k (a_ent a) = Some c -> fst Mg k = Some c) /\ a_gen a = snd Mg.
Definition exact (a : astate) (Mg : mspec * N) : Prop :=
  (forall k, pfind k (a_ent a) = fst Mg k) /\ a_gen a = snd Mg.

Lemma exact_sub a Mg : exact a Mg -> sub a Mg.
Proof. intros [H1 H2]. split; [|exact H2]. intros k c H. rewrite <- H1. exact H. Qed.

(* ---------- pfind on filtered lists ---------- *)
Lemma pfind_filter (P : key * container -> bool) k E : NoDup (map fst E) ->
  pfind k (filter P E) = match pfind k E with Some c => if P (k, c) then Some c else None | None => None end.
Proof.
  induction E as [|[k1 c1] E IH]; cbn [filter pfind map fst]; intros Hnd; [reflexivity|].
  inversion Hnd as [|? ? Hni Hnd']; subst.
  destruct (P (k1, c1)) eqn:EP; cbn [pfind].
  - destruct (key_eqb_spec k1 k) as [->|Hn]; [rewrite EP; reflexivity|apply IH; exact Hnd'].
  - destruct (key_eqb_spec k1 k) as [->|Hn]; [|apply IH; exact Hnd'].
    rewrite EP. rewrite (IH Hnd'). apply pfind_None in Hni. rewrite Hni. reflexivity.
Qed.

(* ---------- eviction ---------- *)
Lemma a_evict_sub fuel : forall now nem a k c,
  pfind k (a_ent (a_evict fuel now nem a)) = Some c -> pfind k (a_ent a) = Some c.
Proof.
  induction fuel as [|f IH]; intros now nem a k c; cbn [a_evict].
  - destruct (_ && _); auto.
  - destruct (_ && _); [|auto]. destruct (a_victim now a) as [v|]; [|auto].
    intros H. apply IH in H. unfold a_delete in H; cbn [a_ent] in H. rewrite pfind_premove in H.
    destruct (key_eqb k v); [discriminate|exact H].
Qed.
Lemma a_evict_nolimit fuel now a : a_lim a = 0 -> a_evict fuel now [] a = a.
Proof.
  intros H. destruct fuel; cbn [a_evict]; rewrite H; cbn [orb]; rewrite N.ltb_irrefl, !andb_false_r; reflexivity.
Qed.

(* ---------- one step of the abstract cache against one step of the map specification ---------- *)
Definition out_sound (x y : out) : Prop := x = OMiss \/ x = y.

Lemma a_fetch_sound now k a Mg : sub a Mg ->
  a_ent (fst (a_fetch now k a)) = a_ent a /\ a_gen (fst (a_fetch now k a)) = a_gen a /\
  a_lim (fst (a_fetch now k a)) = a_lim a /\ out_sound (snd (a_fetch now k a)) (m_fetch now k (fst Mg)).
Proof.
  intros [Hs _]. unfold a_fetch, m_fetch. destruct (pfind k (a_ent a)) as [c|] eqn:E.
  - rewrite (Hs k c E). destruct (c_deadline c <? now)%Z; cbn [fst snd a_ent a_gen a_lim]; repeat split; right; reflexivity.
  - cbn [fst snd]. repeat split. left; reflexivity.
Qed.
Lemma a_fetch_exact now k a Mg : exact a Mg -> snd (a_fetch now k a) = m_fetch now k (fst Mg).
Proof.
  intros [Hs _]. unfold a_fetch, m_fetch. rewrite <- Hs. destruct (pfind k (a_ent a)) as [c|]; [|reflexivity].
  destruct (c_deadline c <? now)%Z; reflexivity.
Qed.

Lemma a_store_nokey fuel now nem k a : pfind k (a_ent (a_evict fuel now nem (a_delete k a))) = None.
Proof.
  apply pfind_None. intros H. apply a_evict_keys in H. apply (a_delete_nokey k a); exact H.
Qed.

Lemma a_step_sound now o a M cur : awf a -> sub a (M, cur) ->
  fst (fst (a_step now o a)) = fst (m_step now o (M, cur)) /\
  sub (snd (fst (a_step now o a))) (snd (m_step now o (M, cur))) /\
  out_sound (snd (a_step now o a)) (m_out now o (M, cur)).
Proof.
  intros Hwf [Hs Hg]. cbn [fst snd] in Hs, Hg.
  destruct o as [k v tin d g f nem|k|t|k| |n]; cbn [a_step m_step m_out fst snd].
  - (* store *)
    split; [reflexivity|]. split; [|right; reflexivity].
    unfold a_store. destruct f as [| | |b].
    + (* FNone *)
      split; cbn [fst snd a_ent a_gen m_gen m_store]; [|rewrite Hg; reflexivity].
      intros k' c'. rewrite pfind_app. unfold m_upd.
      destruct (pfind k' (a_ent (a_evict _ now nem (a_delete k a)))) as [c2|] eqn:E2.
      * intros [= ->]. pose proof E2 as E3. apply a_evict_sub in E3. unfold a_delete in E3; cbn [a_ent] in E3.
        rewrite pfind_premove in E3. destruct (key_eqb k' k); [discriminate|]. apply Hs; exact E3.
      * cbn [pfind]. rewrite (key_eqb_sym k k'). destruct (key_eqb k' k); [|discriminate].
        intros [= <-]. rewrite Hg. reflexivity.
    + (* FDropBefore: remove(key) *)
      split; cbn [fst snd a_delete a_ent a_gen m_gen m_store]; [|exact Hg].
      intros k' c'. rewrite pfind_premove. unfold m_upd. destruct (key_eqb k' k); [discriminate|apply Hs].
    + (* FDropAfterDelete *)
      split; cbn [fst snd a_delete a_ent a_gen m_gen m_store]; [|exact Hg].
      intros k' c'. rewrite pfind_premove. unfold m_upd. destruct (key_eqb k' k); [discriminate|apply Hs].
    + (* FClear *)
      split; cbn [fst snd a_ent a_gen m_gen m_store]; [intros k' c'; discriminate|].
      destruct b; rewrite Hg; reflexivity.
  - (* fetch *)
    destruct (a_fetch_sound now k a (M, cur)) as (H1 & H2 & H3 & H4); [split; assumption|].
    destruct (a_fetch now k a) as [a' r]; cbn [fst snd] in *.
    split; [reflexivity|]. split; [|exact H4]. split; cbn [fst snd]; [rewrite H1; exact Hs|rewrite H2; exact Hg].
  - (* rise *)
    split; [reflexivity|]. split; [|right; reflexivity].
    split; cbn [fst snd a_rise a_ent a_gen]; [|exact Hg].
    intros k c. rewrite pfind_filter by exact Hwf. destruct (pfind k (a_ent a)) as [c0|] eqn:E; [|discriminate].
    unfold has_trig; cbn [snd]. unfold m_rise. rewrite (Hs k c0 E).
    destruct (kmem t (c_trigs c0)); cbn [negb]; [discriminate|auto].
  - (* remove *)
    split; [reflexivity|]. split; [|right; reflexivity].
    split; cbn [fst snd a_delete a_ent a_gen]; [|exact Hg].
    intros k' c'. rewrite pfind_premove. unfold m_upd. destruct (key_eqb k' k); [discriminate|apply Hs].
  - (* clear *)
    split; [reflexivity|]. split; [|right; reflexivity].
    split; cbn [fst snd a_clear a_ent a_gen]; [intros k c; discriminate|exact Hg].
  - (* tick *)
    split; [reflexivity|]. split; [|right; reflexivity]. split; assumption.
Qed.

Lemma a_step_exact now o a M cur : awf a -> a_lim a = 0 -> exact a (M, cur) -> op_no_fault o ->
  fst (fst (a_step now o a)) = fst (m_step now o (M, cur)) /\
  a_lim (snd (fst (a_step now o a))) = 0 /\
  exact (snd (fst (a_step now o a))) (snd (m_step now o (M, cur))) /\
  snd (a_step now o a) = m_out now o (M, cur).
Proof.
  intros Hwf Hlim [Hs Hg] Hop. cbn [fst snd] in Hs, Hg.
  destruct o as [k v tin d g f nem|k|t|k| |n]; cbn [a_step m_step m_out fst snd].
  - cbn [op_no_fault] in Hop. destruct Hop as [-> ->].
    split; [reflexivity|]. split; [exact Hlim|]. split; [|reflexivity].
    unfold a_store. rewrite a_evict_nolimit by exact Hlim.
    split; cbn [fst snd a_ent a_gen a_delete m_gen m_store]; [|rewrite Hg; reflexivity].
    intros k'. rewrite pfind_app, pfind_premove. unfold m_upd. cbn [pfind]. rewrite (key_eqb_sym k k').
    destruct (key_eqb k' k); [rewrite Hg; reflexivity|].
    rewrite <- Hs. destruct (pfind k' (a_ent a)); reflexivity.
  - pose proof (a_fetch_exact now k a (M, cur) (conj Hs Hg)) as Ho.
    destruct (a_fetch_sound now k a (M, cur)) as (H1 & H2 & H3 & _); [split; [intros k0 c0 H0; cbn [fst]; rewrite <- Hs; exact H0|exact Hg]|].
    destruct (a_fetch now k a) as [a' r]; cbn [fst snd] in *.
    split; [reflexivity|]. split; [rewrite H3; exact Hlim|]. split; [|exact Ho].
    split; cbn [fst snd]; [rewrite H1; exact Hs|rewrite H2; exact Hg].
  - split; [reflexivity|]. split; [exact Hlim|]. split; [|reflexivity].
    split; cbn [fst snd a_rise a_ent a_gen]; [|exact Hg].
    intros k. rewrite pfind_filter by exact Hwf. unfold m_rise. rewrite <- Hs.
    destruct (pfind k (a_ent a)) as [c0|]; [|reflexivity].
    unfold has_trig; cbn [snd]. destruct (kmem t (c_trigs c0)); reflexivity.
  - split; [reflexivity|]. split; [exact Hlim|]. split; [|reflexivity].
    split; cbn [fst snd a_delete a_ent a_gen]; [|exact Hg].
    intros k'. rewrite pfind_premove. unfold m_upd. destruct (key_eqb k' k); [reflexivity|apply Hs].
  - split; [reflexivity|]. split; [exact Hlim|]. split; [|reflexivity].
    split; cbn [fst snd a_clear a_ent a_gen]; [reflexivity|exact Hg].
  - split; [reflexivity|]. split; [exact Hlim|]. split; [|reflexivity]. split; assumption.
Qed.

(* ---------- whole runs of the four-index model ---------- *)
Lemma inv_awf s : Inv s -> awf (abs s).
Proof. intros I. exact (inv_keys s I). Qed.

Lemma run_sound_gen ops : forall now s Mg, Inv s -> sub (abs s) Mg ->
  Forall2 ans_sound (snd (run now ops s)) (m_trace now ops Mg).
Proof.
  induction ops as [|o ops IH]; intros now s [M cur] I Hs; [constructor|].
  cbn [run m_trace]. destruct (step_ref now o s I) as [I1 E1].
  destruct (a_step_sound now o (abs s) M cur (inv_awf s I) Hs) as (A1 & A2 & A3).
  rewrite <- E1 in A1, A2, A3.
  destruct (step now o s) as [[now1 s1] x]; cbn [fst snd] in *.
  specialize (IH now1 s1 (snd (m_step now o (M, cur))) I1 A2).
  destruct (run now1 ops s1) as [[now2 s2] l]; cbn [fst snd] in *.
  constructor; [|rewrite <- A1; exact IH].
  split; cbn [fst snd]; [exact A3|].
  exists (primary s1). split; [|rewrite (stats_abs s1 I1); reflexivity].
  split; [exact (inv_keys s1 I1)|exact (proj1 A2)].
Qed.

Lemma run_exact_gen ops : forall now s Mg, Inv s -> limit s = 0 -> exact (abs s) Mg -> Forall op_no_fault ops ->
  Forall2 ans_exact (snd (run now ops s)) (m_trace now ops Mg).
Proof.
  induction ops as [|o ops IH]; intros now s [M cur] I Hl Hs Hops; [constructor|].
  inversion Hops as [|? ? Ho Hops']; subst.
  cbn [run m_trace]. destruct (step_ref now o s I) as [I1 E1].
  destruct (a_step_exact now o (abs s) M cur (inv_awf s I) Hl Hs Ho) as (A1 & A2 & A3 & A4).
  rewrite <- E1 in A1, A2, A3, A4.
  destruct (step now o s) as [[now1 s1] x]; cbn [fst snd] in *.
  specialize (IH now1 s1 (snd (m_step now o (M, cur))) I1 A2 A3 Hops').
  destruct (run now1 ops s1) as [[now2 s2] l]; cbn [fst snd] in *.
  constructor; [|rewrite <- A1; exact IH].
  split; cbn [fst snd]; [exact A4|].
  exists (primary s1). split; [|rewrite (stats_abs s1 I1); reflexivity].
  split; [exact (inv_keys s1 I1)|exact (proj1 A3)].
Qed.

Lemma init_exact lim : exact (abs (init lim)) m_init.
Proof. split; reflexivity. Qed.

Theorem run_sound ops now lim :
  Forall2 ans_sound (snd (run now ops (init lim))) (m_trace now ops m_init).
Proof. apply run_sound_gen; [apply init_inv|apply exact_sub, init_exact]. Qed.

Theorem run_exact ops now : Forall op_no_fault ops ->
  Forall2 ans_exact (snd (run now ops (init 0))) (m_trace now ops m_init).
Proof. intros H. apply run_exact_gen; [apply init_inv|reflexivity|apply init_exact|exact H]. Qed.

(* two representations of one map count the same: stats are determined by the specification map *)
Lemma represents_In E M k c : represents E M -> (In (k, c) E <-> M k = Some c).
Proof.
  intros [Hnd Hf]. rewrite <- Hf. split; [apply In_pfind; exact Hnd|apply pfind_Some_In].
Qed.
Lemma sum_trigs_perm E1 E2 : Permutation.Permutation E1 E2 -> sum_trigs E1 = sum_trigs E2.
Proof. induction 1; cbn [sum_trigs]; lia. Qed.
Lemma NoDup_keys_NoDup (E : list (key * container)) : NoDup (map fst E) -> NoDup E.
Proof.
  induction E as [|e E IH]; cbn [map]; intros H; [constructor|]. inversion H as [|? ? Hni Hnd]; subst.
  constructor; [|apply IH; exact Hnd]. intros Hin; apply Hni. apply in_map; exact Hin.
Qed.
Lemma counts_unique M st1 st2 : counts M st1 -> counts M st2 -> st1 = st2.
Proof.
  intros (E1 & R1 & ->) (E2 & R2 & ->).
  assert (P : Permutation.Permutation E1 E2).
  { apply Permutation.NoDup_Permutation; [apply NoDup_keys_NoDup, R1|apply NoDup_keys_NoDup, R2|].
    intros [k c]. rewrite (represents_In E1 M k c R1), (represents_In E2 M k c R2). tauto. }
  rewrite (Permutation.Permutation_length P), (sum_trigs_perm _ _ P). reflexivity.
Qed.

(* ------------------------------------------------------------------------------------------ *)
(* facts about the specification itself, phrased over histories                                 *)
(* ------------------------------------------------------------------------------------------ *)
Definition clock (now : Z) (ops : list op) : Z :=
  fold_left (fun n o => match o with Tick n' => n' | _ => n end) ops now.

Lemma m_step_clock now o Mg : fst (m_step now o Mg) = match o with Tick n => n | _ => now end.
Proof. destruct Mg as [M cur]. destruct o; reflexivity. Qed.
Lemma m_run_cons now o r Mg : m_run now (o :: r) Mg = m_run (fst (m_step now o Mg)) r (snd (m_step now o Mg)).
Proof. cbn [m_run]. destruct (m_step now o Mg); reflexivity. Qed.
Lemma m_run_clock ops : forall now Mg, fst (m_run now ops Mg) = clock now ops.
Proof.
  induction ops as [|o r IH]; intros now Mg; [reflexivity|]. rewrite m_run_cons, IH, m_step_clock. reflexivity.
Qed.
Lemma m_run_app l1 : forall l2 now Mg,
  m_run now (l1 ++ l2) Mg = m_run (fst (m_run now l1 Mg)) l2 (snd (m_run now l1 Mg)).
Proof.
  induction l1 as [|o r IH]; intros l2 now Mg; [reflexivity|]. cbn [app]. rewrite !m_run_cons. apply IH.
Qed.
Lemma m_trace_app l1 : forall l2 now Mg,
  m_trace now (l1 ++ l2) Mg = m_trace now l1 Mg ++ m_trace (fst (m_run now l1 Mg)) l2 (snd (m_run now l1 Mg)).
Proof.
  induction l1 as [|o r IH]; intros l2 now Mg; [reflexivity|]. cbn [app m_trace]. rewrite m_run_cons, IH. reflexivity.
Qed.

Definition mk_of (Mg : mspec * N) (k : key) : option container := fst Mg k.

(* a store that goes through binds the key to the new entry; one that cannot be carried out unbinds it *)
Lemma m_step_store_binds now k v tin d g nem M cur :
  mk_of (snd (m_step now (Store k v tin d g FNone nem) (M, cur))) k
  = Some (mkC v (store_trigs k tin) d (match g with Some x => x | None => cur end)).
Proof. cbn [m_step snd mk_of fst m_store]. unfold m_upd. rewrite key_eqb_refl. reflexivity. Qed.
Lemma m_step_store_failed now k v tin d g f nem M cur : f <> FNone ->
  mk_of (snd (m_step now (Store k v tin d g f nem) (M, cur))) k = None.
Proof.
  intros Hf. destruct f as [| | |b]; [congruence| | |]; cbn [m_step snd mk_of fst m_store]; unfold m_upd, m_empty;
    rewrite ?key_eqb_refl; reflexivity.
Qed.
Lemma m_step_store_either now k v tin d g f nem M cur :
  mk_of (snd (m_step now (Store k v tin d g f nem) (M, cur))) k = None \/
  mk_of (snd (m_step now (Store k v tin d g f nem) (M, cur))) k
  = Some (mkC v (store_trigs k tin) d (match g with Some x => x | None => cur end)).
Proof.
  destruct f as [| | |b]; [right; apply m_step_store_binds| | |]; left; apply m_step_store_failed; discriminate.
Qed.

(* an entry survives every operation that does not invalidate it *)
Lemma m_step_keeps now o Mg k c : op_no_fault o -> mk_of Mg k = Some c -> invalidates k (c_trigs c) o = false ->
  mk_of (snd (m_step now o Mg)) k = Some c.
Proof.
  destruct Mg as [M cur]. unfold mk_of; cbn [fst]. intros Hop H Hi.
  destruct o as [k' v tin d g f nem|k'|t|k'| |n]; cbn [m_step snd fst invalidates] in *; try exact H.
  - cbn [op_no_fault] in Hop. destruct Hop as [-> _]. cbn [m_store]. unfold m_upd. rewrite (key_eqb_sym k k'), Hi. exact H.
  - unfold m_rise. rewrite H, Hi. reflexivity.
  - unfold m_upd. rewrite (key_eqb_sym k k'), Hi. exact H.
  - discriminate.
Qed.
Lemma m_run_keeps ops : forall now Mg k c, Forall op_no_fault ops -> mk_of Mg k = Some c ->
  forallb (fun o => negb (invalidates k (c_trigs c) o)) ops = true ->
  mk_of (snd (m_run now ops Mg)) k = Some c.
Proof.
  induction ops as [|o r IH]; intros now Mg k c Hnf H Hall; [exact H|].
  inversion Hnf as [|? ? Ho Hnf']; subst.
  cbn [forallb] in Hall. apply andb_true_iff in Hall. destruct Hall as [H1 H2].
  rewrite m_run_cons. apply IH; [exact Hnf'| |exact H2]. apply m_step_keeps; [exact Ho|exact H|].
  destruct (invalidates _ _ o); [discriminate|reflexivity].
Qed.

(* without a store under k the binding of k can only disappear *)
Lemma m_step_fades now o Mg k c0 : stores_key k o = false ->
  (mk_of Mg k = None \/ mk_of Mg k = Some c0) ->
  (mk_of (snd (m_step now o Mg)) k = None \/ mk_of (snd (m_step now o Mg)) k = Some c0).
Proof.
  destruct Mg as [M cur]. unfold mk_of; cbn [fst]. intros Hst H.
  destruct o as [k' v tin d g f nem|k'|t|k'| |n]; cbn [m_step snd fst stores_key] in *; try exact H.
  - destruct f as [| | |b]; cbn [m_store]; unfold m_upd, m_empty; rewrite ?(key_eqb_sym k k'), ?Hst;
      first [exact H|left; reflexivity].
  - unfold m_rise. destruct H as [-> | ->]; [left; reflexivity|]. destruct (kmem t (c_trigs c0)); [left|right]; reflexivity.
  - unfold m_upd. destruct (key_eqb k k'); [left; reflexivity|exact H].
  - left; reflexivity.
Qed.
Lemma m_run_fades ops : forall now Mg k c0, forallb (fun o => negb (stores_key k o)) ops = true ->
  (mk_of Mg k = None \/ mk_of Mg k = Some c0) ->
  (mk_of (snd (m_run now ops Mg)) k = None \/ mk_of (snd (m_run now ops Mg)) k = Some c0).
Proof.
  induction ops as [|o r IH]; intros now Mg k c0 Hall H; [exact H|].
  cbn [forallb] in Hall. apply andb_true_iff in Hall. destruct Hall as [H1 H2].
  rewrite m_run_cons. apply IH; [exact H2|]. apply m_step_fades; [|exact H]. destruct (stores_key k o); [discriminate|reflexivity].
Qed.
Lemma m_run_stays_none ops now Mg k : forallb (fun o => negb (stores_key k o)) ops = true ->
  mk_of Mg k = None -> mk_of (snd (m_run now ops Mg)) k = None.
Proof.
  intros Hall H. destruct (m_run_fades ops now Mg k (mkC [] [] 0 0) Hall (or_introl H)) as [H1|H1]; [exact H1|].
  (* the dummy container cannot appear: rerun with a different dummy *)
  destruct (m_run_fades ops now Mg k (mkC [] [] 1 0) Hall (or_introl H)) as [H2|H2]; [exact H2|].
  rewrite H1 in H2. discriminate.
Qed.

(* an invalidating operation (other than a new store) removes the binding *)
Lemma m_step_invalidates now o Mg k c0 : stores_key k o = false -> invalidates k (c_trigs c0) o = true ->
  (mk_of Mg k = None \/ mk_of Mg k = Some c0) -> mk_of (snd (m_step now o Mg)) k = None.
Proof.
  destruct Mg as [M cur]. unfold mk_of; cbn [fst]. intros Hst Hi H.
  destruct o as [k' v tin d g f nem|k'|t|k'| |n]; cbn [m_step snd fst stores_key invalidates] in *; try discriminate.
  - congruence.
  - unfold m_rise. destruct H as [-> | ->]; [reflexivity|]. rewrite Hi. reflexivity.
  - unfold m_upd. rewrite (key_eqb_sym k k'), Hi. reflexivity.
  - reflexivity.
Qed.
Definition invalidates_any (k : key) (o : op) : bool :=
  match o with Remove k' => key_eqb k' k | Clear => true | _ => false end.
Lemma m_step_invalidates_any now o Mg k : invalidates_any k o = true -> mk_of (snd (m_step now o Mg)) k = None.
Proof.
  destruct Mg as [M cur]. unfold mk_of. intros Hi.
  destruct o as [k' v tin d g f nem|k'|t|k'| |n]; cbn [m_step snd fst invalidates_any] in *; try discriminate.
  - unfold m_upd. rewrite (key_eqb_sym k k'), Hi. reflexivity.
  - reflexivity.
Qed.

(* ---------- the last answer of a run ---------- *)
Lemma Forall2_snoc_r {A B} (R : A -> B -> Prop) l tr x : Forall2 R l (tr ++ [x]) ->
  exists l0 a, l = l0 ++ [a] /\ R a x.
Proof.
  intros H. apply Forall2_app_inv_r in H. destruct H as (l1 & l2 & H1 & H2 & ->).
  inversion H2 as [|a ? l2' ? Ha Hn]; subst. inversion Hn; subst. exists l1, a. split; [reflexivity|exact Ha].
Qed.
Definition last_out (l : list answer) : out := last (map fst l) ONone.
Lemma last_out_snoc l a : last_out (l ++ [a]) = fst a.
Proof. unfold last_out. rewrite map_app. cbn [map]. apply last_last. Qed.

Lemma trace_last_fetch now hist k Mg :
  m_trace now (hist ++ [Fetch k]) Mg =
  m_trace now hist Mg ++ [(m_fetch (clock now hist) k (fst (snd (m_run now hist Mg))), fst (snd (m_run now hist Mg)))].
Proof.
  rewrite m_trace_app. f_equal. cbn [m_trace m_out]. rewrite m_run_clock.
  destruct (snd (m_run now hist Mg)) as [M cur]. reflexivity.
Qed.

(* the last answer of history ++ [Fetch k] against the specification state after history *)
Lemma last_fetch_sound lim now hist k :
  last_out (snd (run now (hist ++ [Fetch k]) (init lim))) = OMiss \/
  last_out (snd (run now (hist ++ [Fetch k]) (init lim))) = m_fetch (clock now hist) k (fst (snd (m_run now hist m_init))).
Proof.
  pose proof (run_sound (hist ++ [Fetch k]) now lim) as HS. rewrite trace_last_fetch in HS.
  apply Forall2_snoc_r in HS. destruct HS as (l0 & a & -> & [Ha _]). rewrite last_out_snoc. exact Ha.
Qed.
Lemma last_fetch_exact now hist k : Forall op_no_fault hist ->
  last_out (snd (run now (hist ++ [Fetch k]) (init 0))) = m_fetch (clock now hist) k (fst (snd (m_run now hist m_init))).
Proof.
  intros H. assert (H' : Forall op_no_fault (hist ++ [Fetch k])).
  { apply Forall_app. split; [exact H|constructor; [exact I|constructor]]. }
  pose proof (run_exact _ now H') as HS. rewrite trace_last_fetch in HS.
  apply Forall2_snoc_r in HS. destruct HS as (l0 & a & -> & [Ha _]). rewrite last_out_snoc. exact Ha.
Qed.

(* the specification state after  pre ++ Store k ... :: mid *)
Lemma spec_after_store now pre k v tin d g f nem mid :
  forallb (fun o => negb (stores_key k o)) mid = true ->
  exists g', (forall x, g = Some x -> g' = x) /\
    let c0 := mkC v (store_trigs k tin) d g' in
    (mk_of (snd (m_run now (pre ++ Store k v tin d g f nem :: mid) m_init)) k = None \/
     mk_of (snd (m_run now (pre ++ Store k v tin d g f nem :: mid) m_init)) k = Some c0) /\
    (f <> FNone -> mk_of (snd (m_run now (pre ++ Store k v tin d g f nem :: mid) m_init)) k = None) /\
    (f = FNone -> Forall op_no_fault mid ->
     forallb (fun o => negb (invalidates k (store_trigs k tin) o)) mid = true ->
     mk_of (snd (m_run now (pre ++ Store k v tin d g f nem :: mid) m_init)) k = Some c0).
Proof.
  intros Hmid. rewrite m_run_app, m_run_cons.
  destruct (snd (m_run now pre m_init)) as [M cur] eqn:E.
  exists (match g with Some x => x | None => cur end). split; [intros x ->; reflexivity|].
  cbn zeta. split; [|split].
  - apply m_run_fades; [exact Hmid|]. apply m_step_store_either.
  - intros Hf. apply m_run_stays_none; [exact Hmid|]. apply m_step_store_failed; exact Hf.
  - intros -> Hnf Hinv. apply m_run_keeps; [exact Hnf|apply m_step_store_binds|exact Hinv].
Qed.
