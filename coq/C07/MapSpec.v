(* C07: observable behaviour of the map specification of Spec.v (definitions only).
   m_trace lists, for every operation of a history, what the specification answers (the fetch result; ONone for
   the other operations) and the specification map after the operation.  The relations below compare one answer
   of the implementation model with one element of that trace. *)
From Coq Require Import NArith ZArith List Bool.
From CppcmsV Require Import C07.Defs C07.Spec.
Import ListNotations.
Local Open Scope N_scope.

Definition m_out (now : Z) (o : op) (Mg : mspec * N) : out :=
  match o with Fetch k => m_fetch now k (fst Mg) | _ => ONone end.

Fixpoint m_trace (now : Z) (ops : list op) (Mg : mspec * N) : list (out * mspec) :=
  match ops with
  | [] => []
  | o :: r => (m_out now o Mg, fst (snd (m_step now o Mg))) :: m_trace (fst (m_step now o Mg)) r (snd (m_step now o Mg))
  end.

(* a duplicate-free association list that holds exactly the bindings of M *)
Definition represents (E : list (key * container)) (M : mspec) : Prop :=
  NoDup (map fst E) /\ forall k, pfind k E = M k.
(* ... that holds only bindings of M *)
Definition represents_part (E : list (key * container)) (M : mspec) : Prop :=
  NoDup (map fst E) /\ forall k c, pfind k E = Some c -> M k = Some c.

(* stats() = (number of bindings of M, total number of triggers attached to them) *)
Definition counts (M : mspec) (st : N * N) : Prop :=
  exists E, represents E M /\ st = (N.of_nat (length E), N.of_nat (sum_trigs E)).
Definition counts_part (M : mspec) (st : N * N) : Prop :=
  exists E, represents_part E M /\ st = (N.of_nat (length E), N.of_nat (sum_trigs E)).

(* exact agreement: same fetch result, stats count the specification map *)
Definition ans_exact (a : answer) (sp : out * mspec) : Prop :=
  fst a = fst sp /\ counts (snd sp) (snd a).
(* soundness: a fetch either misses or returns what the specification returns; the entries counted by stats are
   bindings of the specification map *)
Definition ans_sound (a : answer) (sp : out * mspec) : Prop :=
  (fst a = OMiss \/ fst a = fst sp) /\ counts_part (snd sp) (snd a).

(* the initial specification state *)
Definition m_init : mspec * N := (m_empty, 0).

(* side conditions on the operations between two points of a history *)
Definition stores_key (k : key) (o : op) : bool :=
  match o with Store k' _ _ _ _ _ _ => key_eqb k' k | _ => false end.
(* o can invalidate an entry stored under k with trigger list ts *)
Definition invalidates (k : key) (ts : list key) (o : op) : bool :=
  match o with
  | Store k' _ _ _ _ _ _ => key_eqb k' k
  | Remove k' => key_eqb k' k
  | Clear => true
  | Rise t => kmem t ts
  | _ => false
  end.
