(* C07 -- placeholder while the proofs are being written *)
From CppcmsV Require Import Base.Tac C07.Defs.
Theorem placeholder : init 0 = init 0.
Proof. reflexivity. Qed.
Print Assumptions placeholder.
