(* C07 -- the cache never returns invalidated, expired or superseded data.
   Only property theorems here, each closed by `exact <lemma>`; the proofs are in ProofsInv.v (mirror
   consistency, refinement of the line-by-line model Defs.v to the abstract LRU cache of Spec.v), ProofsSpec.v
   (refinement of the abstract cache to the map specification m_step / m_fetch of Spec.v) and ProofsCor.v (the
   clauses of the property text over explicit histories). *)
From CppcmsV Require Import Base.Tac C07.Defs C07.Spec C07.Util C07.ProofsInv C07.MapSpec C07.ProofsSpec C07.ProofsCor C07.ProofsLim C07.Ifc C07.ProofsIfc C07.HashMap C07.ProofsHash C07.Link.
From CppcmsV Require Import Base.CSem gen.Gen_C07_hash gen.Gen_C07_iface.
Local Open Scope N_scope.

(* 1. Mirror consistency (Inv, Spec.v): primary, triggers, timeout and lru describe the same entry set,
      triggers[t] lists exactly the keys whose entry carries t, size = |primary|, triggers_count = sum of the
      trigger lists, timeout is the deadline-sorted image of primary, no duplicates, no loop ran out of fuel.
      It holds initially, is preserved by every operation under every clock value, limit and allocator
      behaviour, hence holds after every finite operation sequence. *)
Theorem inv_init : forall lim, Inv (init lim).
Proof. exact init_inv. Qed.
Print Assumptions inv_init.
Theorem inv_step : forall now o s, Inv s -> Inv (snd (fst (step now o s))).
Proof. intros now o s I. exact (proj1 (step_ref now o s I)). Qed.
Print Assumptions inv_step.
Theorem inv_run : forall ops now lim, Inv (snd (fst (run now ops (init lim)))).
Proof. intros ops now lim. exact (proj1 (run_ref ops now (init lim) (init_inv lim))). Qed.
Print Assumptions inv_run.
Theorem inv_reachable : forall lim now s, reachable lim now s -> Inv s /\ limit s = lim.
Proof. intros lim now s H. split; [exact (reachable_inv lim now s H)|exact (reachable_limit lim now s H)]. Qed.
Print Assumptions inv_reachable.

(* 2. Every answer (fetch result and stats after every operation) of the four-index model equals the answer of the
      abstract LRU cache (an entry list + a recency list, Spec.v), for all operation sequences, clock schedules,
      limits and allocator faults. *)
Theorem model_refines_abstract_cache : forall ops now lim,
  (fst (fst (run now ops (init lim))), abs (snd (fst (run now ops (init lim)))), snd (run now ops (init lim)))
  = a_run now ops (a_init lim).
Proof. intros ops now lim. exact (proj2 (run_ref ops now (init lim) (init_inv lim))). Qed.
Print Assumptions model_refines_abstract_cache.

Example inv_nonvacuous :
  let ops := [Store [97] [1] [[120]] 5 None FNone []; Store [98] [2] [[97]] 5 None FNone []; Fetch [98]; Rise [97]; Fetch [98]] in
  map fst (snd (run 0 ops (init 0))) = [ONone; ONone; OHit [2] [[98]; [97]] 5 1; ONone; OMiss].
Proof. vm_compute. reflexivity. Qed.

(* 3. refines_spec (DESIGN theorem 2): with no limit and no allocator fault, for EVERY operation sequence and clock
      schedule, every fetch answer equals the answer of the map specification (key -> latest store; rise t deletes every
      binding whose trigger list, own key included, contains t; remove, clear; hit iff bound and now <= deadline) and the
      stats after every operation count exactly the bindings of the specification map and their triggers
      (ans_exact, counts: MapSpec.v; counts_determined shows the numbers are a function of the map). *)
Theorem refines_spec : forall ops now, Forall op_no_fault ops ->
  Forall2 ans_exact (snd (run now ops (init 0))) (m_trace now ops m_init).
Proof. exact run_exact. Qed.
Print Assumptions refines_spec.
Theorem counts_determined : forall M st1 st2, counts M st1 -> counts M st2 -> st1 = st2.
Proof. exact counts_unique. Qed.
Print Assumptions counts_determined.

(* 3b. refines_spec_within_limit (DESIGN theorem 3, completeness half): the same exact agreement for a LIMITED cache
      whose limit is at least the number of distinct keys the history stores under (K: any duplicate-free list that
      contains them): check_limits never finds anything to evict, every live entry is found, stats are exact. *)
Theorem refines_spec_within_limit : forall ops now lim K,
  NoDup K -> incl (store_keys ops) K -> N.of_nat (length K) <= lim -> Forall op_no_fault ops ->
  Forall2 ans_exact (snd (run now ops (init lim))) (m_trace now ops m_init).
Proof. exact run_exact_within_limit. Qed.
Print Assumptions refines_spec_within_limit.

(* 4. refines_spec_limited (DESIGN theorem 3, soundness half): for every operation sequence, every limit, every
      memory-pressure pattern and every allocator fault, every fetch answer is a miss or equals the specification
      answer, and the entries counted by stats are bindings of the specification map: eviction can lose entries,
      nothing can make the cache return or keep anything but the latest store.  In the specification (m_store, Spec.v) a
      store that cannot be carried out - the value cannot be copied (FDropBefore: the catch block of mem_cache::store calls
      remove(key)), the size test fires, the allocator fails while linking - leaves the key unbound (the whole map, for
      FClear): the superseded entry is not a binding any more. *)
Theorem refines_spec_limited : forall ops now lim,
  Forall2 ans_sound (snd (run now ops (init lim))) (m_trace now ops m_init).
Proof. exact run_sound. Qed.
Print Assumptions refines_spec_limited.

(* 5. the clauses of the property text over explicit histories.  last_out = answer to the final Fetch k;
      clock now hist = value of the clock after hist; stores_key k o = o is a store under k;
      invalidates k ts o = o is a store under k, remove k, clear, or rise t with t in ts. *)
Theorem fetch_hit_is_latest_store : forall lim now pre k v tin d g f nem mid,
  forallb (fun o => negb (stores_key k o)) mid = true ->
  let r := last_out (snd (run now ((pre ++ Store k v tin d g f nem :: mid) ++ [Fetch k]) (init lim))) in
  r = OMiss \/ exists g', (forall x, g = Some x -> g' = x) /\ r = OHit v (store_trigs k tin) d g'.
Proof. exact fetch_hit_is_latest_store_l. Qed.
Print Assumptions fetch_hit_is_latest_store.
Theorem fetch_miss_after_invalidation : forall lim now pre k v tin d g f nem mid0 inv mid,
  forallb (fun o => negb (stores_key k o)) mid0 = true ->
  invalidates k (store_trigs k tin) inv = true -> stores_key k inv = false ->
  forallb (fun o => negb (stores_key k o)) mid = true ->
  last_out (snd (run now (((pre ++ Store k v tin d g f nem :: mid0) ++ inv :: mid) ++ [Fetch k]) (init lim))) = OMiss.
Proof. exact fetch_miss_after_invalidation_l. Qed.
Print Assumptions fetch_miss_after_invalidation.
Theorem fetch_miss_after_remove_or_clear : forall lim now pre k inv mid,
  invalidates_any k inv = true ->
  forallb (fun o => negb (stores_key k o)) mid = true ->
  last_out (snd (run now ((pre ++ inv :: mid) ++ [Fetch k]) (init lim))) = OMiss.
Proof. exact fetch_miss_after_remove_or_clear_l. Qed.
Print Assumptions fetch_miss_after_remove_or_clear.
Theorem fetch_miss_after_deadline : forall lim now pre k v tin d g f nem mid,
  forallb (fun o => negb (stores_key k o)) mid = true ->
  (d < clock now (pre ++ Store k v tin d g f nem :: mid))%Z ->
  last_out (snd (run now ((pre ++ Store k v tin d g f nem :: mid) ++ [Fetch k]) (init lim))) = OMiss.
Proof. exact fetch_miss_after_deadline_l. Qed.
Print Assumptions fetch_miss_after_deadline.
Theorem fetch_miss_never_stored : forall lim now hist k,
  forallb (fun o => negb (stores_key k o)) hist = true ->
  last_out (snd (run now (hist ++ [Fetch k]) (init lim))) = OMiss.
Proof. exact fetch_miss_never_stored_l. Qed.
Print Assumptions fetch_miss_never_stored.
Theorem fetch_miss_after_failed_store : forall lim now pre k v tin d g f nem mid,
  f <> FNone ->
  forallb (fun o => negb (stores_key k o)) mid = true ->
  last_out (snd (run now ((pre ++ Store k v tin d g f nem :: mid) ++ [Fetch k]) (init lim))) = OMiss.
Proof. exact fetch_miss_after_failed_store_l. Qed.
Print Assumptions fetch_miss_after_failed_store.
Theorem live_entry_found : forall now pre k v tin d g mid,
  Forall op_no_fault (pre ++ Store k v tin d g FNone [] :: mid) ->
  forallb (fun o => negb (invalidates k (store_trigs k tin) o)) mid = true ->
  (clock now (pre ++ Store k v tin d g FNone [] :: mid) <= d)%Z ->
  exists g', (forall x, g = Some x -> g' = x) /\
    last_out (snd (run now ((pre ++ Store k v tin d g FNone [] :: mid) ++ [Fetch k]) (init 0))) = OHit v (store_trigs k tin) d g'.
Proof. exact live_entry_found_l. Qed.
Print Assumptions live_entry_found.
Theorem live_entry_found_within_limit : forall now lim K pre k v tin d g mid,
  NoDup K -> incl (store_keys (pre ++ Store k v tin d g FNone [] :: mid)) K -> N.of_nat (length K) <= lim ->
  Forall op_no_fault (pre ++ Store k v tin d g FNone [] :: mid) ->
  forallb (fun o => negb (invalidates k (store_trigs k tin) o)) mid = true ->
  (clock now (pre ++ Store k v tin d g FNone [] :: mid) <= d)%Z ->
  exists g', (forall x, g = Some x -> g' = x) /\
    last_out (snd (run now ((pre ++ Store k v tin d g FNone [] :: mid) ++ [Fetch k]) (init lim))) = OHit v (store_trigs k tin) d g'.
Proof. exact live_entry_found_within_limit_l. Qed.
Print Assumptions live_entry_found_within_limit.
Theorem rise_kills_exactly : forall t s, Inv s -> forall k,
  pfind k (primary (rise t s)) =
  match pfind k (primary s) with Some c => if kmem t (c_trigs c) then None else Some c | None => None end.
Proof. exact rise_kills_exactly_l. Qed.
Print Assumptions rise_kills_exactly.

(* non-vacuity: a history that satisfies the hypotheses of fetch_miss_after_invalidation (rise of a trigger that is the
   key of another entry), one for live_entry_found with a limit-free cache, and a limited cache where the sound
   theorem applies but the exact one would not (the entry was evicted: miss although the specification still binds it) *)
Example spec_nonvacuous :
  let st := Store [98] [2] [[97]] 9 None FNone [] in
  let hist := ([Store [97] [1] [] 9 None FNone []] ++ st :: [Tick 3]) ++ Rise [97] :: [Fetch [97]] in
  invalidates [98] (store_trigs [98] [[97]]) (Rise [97]) = true /\
  last_out (snd (run 0 (hist ++ [Fetch [98]]) (init 0))) = OMiss /\
  last_out (snd (run 0 (([Store [97] [1] [] 9 None FNone []] ++ st :: [Tick 9]) ++ [Fetch [98]]) (init 0))) = OHit [2] [[98]; [97]] 9 1 /\
  last_out (snd (run 0 (([Store [97] [1] [] 9 None FNone []] ++ st :: [Tick 10]) ++ [Fetch [98]]) (init 0))) = OMiss /\
  last_out (snd (run 0 (([Store [97] [1] [] 9 None FNone []] ++ st :: [Tick 9]) ++ [Fetch [97]]) (init 1))) = OMiss /\
  m_fetch 9 [97] (fst (snd (m_run 0 ([Store [97] [1] [] 9 None FNone []] ++ st :: [Tick 9]) m_init))) = OHit [1] [[97]] 9 0.
Proof. vm_compute. repeat split; reflexivity. Qed.

(* non-vacuity of 3b: two keys, limit 2: re-stores and fetches never evict (both entries found, stats 2/..); with limit 1
   the hypothesis fails and so does the conclusion (a was evicted by the store of b) *)
Example within_limit_nonvacuous :
  let sa := Store [97] [1] [] 9 None FNone [] in let sb := Store [98] [2] [[97]] 9 None FNone [] in
  let ops := [sa; sb; sa; Fetch [98]; Fetch [97]] in
  NoDup [[97]; [98]] /\ incl (store_keys ops) [[97]; [98]] /\ Forall op_no_fault ops /\
  map fst (snd (run 0 ops (init 2))) = [ONone; ONone; ONone; OHit [2] [[98]; [97]] 9 1; OHit [1] [[97]] 9 2] /\
  map snd (snd (run 0 ops (init 2))) = [(1, 1); (2, 3); (2, 3); (2, 3); (2, 3)] /\
  map fst (snd (run 0 ops (init 1))) = [ONone; ONone; ONone; OMiss; OHit [1] [[97]] 9 2].
Proof.
  vm_compute. repeat split; try reflexivity.
  - repeat constructor; cbn; intuition discriminate.
  - intros x Hx. cbn in *. tauto.
  - repeat constructor.
Qed.

(* 6. interface_triggers (DESIGN theorem 4): cache_interface and triggers_recorder (model: Ifc.v).
      i_added now o st = the names handed to add_trigger while o runs (store: its triggers and its key unless notriggers;
      fetch hit: the trigger set of the fetched entry - inheritance - unless notriggers; add_trigger; store_page: the page key);
      i_log = all of them over a history, latest first.
   a. every interface operation is exactly one operation of the cache back end (i_base_op), so clock, cache state and stats
      of an interface history are those of the projected base history and theorems 1-5 apply to it;
   b. a recorder returns exactly the names added between its attach and its detach, however recorders are nested inside;
   c. the page trigger set holds every name added since the last reset;
   d. a page stored by store_page is gone (fetch_page misses) after raising any name recorded while it was built, any name
      that was already in the page set, or the page key - in particular a trigger inherited from a cached frame it fetched;
   e. the same for a frame stored through the interface and its own triggers;
   f. a frame whose value cannot be copied into the shared segment (IStoreFail: the back end removes the key) misses at the
      next fetch whatever was cached under its key before; being an ordinary operation of the model it is covered by a-d
      (its triggers are recorded, the run is a run of the cache back end). *)
Theorem interface_runs_are_cache_runs : forall ops now st,
  fst (fst (i_run now ops st)) = fst (fst (run now (i_project now ops st) (i_cache st))) /\
  i_cache (snd (fst (i_run now ops st))) = snd (fst (run now (i_project now ops st) (i_cache st))) /\
  map snd (snd (i_run now ops st)) = map snd (snd (run now (i_project now ops st) (i_cache st))).
Proof. exact i_run_project. Qed.
Print Assumptions interface_runs_are_cache_runs.
Theorem recorder_collects : forall now st ops,
  depth_ok 0 ops -> depth_after 0 ops = O ->
  let st1 := snd (fst (i_step now IAttach st)) in
  let r := i_run now ops st1 in
  snd (i_step (fst (fst r)) IDetach (snd (fst r))) = IRec (i_log now ops st1).
Proof. exact recorder_collects_l. Qed.
Print Assumptions recorder_collects.
Theorem page_collects : forall ops now st, forallb (fun o => negb (is_reset o)) ops = true ->
  i_page (snd (fst (i_run now ops st))) = i_log now ops st ++ i_page st.
Proof. exact page_collects_l. Qed.
Print Assumptions page_collects.
Theorem page_invalidated_by_recorded_trigger : forall now st ops k data secs t gz,
  Inv (i_cache st) -> forallb (fun o => negb (is_reset o)) ops = true ->
  let r := i_run now ops st in
  let now1 := fst (fst r) in
  In t (k :: i_log now ops st ++ i_page st) ->
  let st2 := snd (fst (i_step now1 (IStorePage k data secs) (snd (fst r)))) in
  let st3 := snd (fst (i_step now1 (IRise t) st2)) in
  gz = i_gz (snd (fst r)) ->
  snd (i_step now1 (IFetchPage k gz) st3) = IMiss.
Proof. exact page_invalidated_by_recorded_trigger_l. Qed.
Print Assumptions page_invalidated_by_recorded_trigger.
Theorem frame_invalidated_by_trigger : forall now st k v trigs secs notr t notr2,
  Inv (i_cache st) -> In t (k :: trigs) ->
  let st2 := snd (fst (i_step now (IStore k v trigs secs notr) st)) in
  let st3 := snd (fst (i_step now (IRise t) st2)) in
  snd (i_step now (IFetch k notr2) st3) = IMiss.
Proof. exact frame_invalidated_by_trigger_l. Qed.
Print Assumptions frame_invalidated_by_trigger.

Theorem failed_frame_store_misses : forall now st k trigs secs notr notr2,
  Inv (i_cache st) ->
  let st2 := snd (fst (i_step now (IStoreFail k trigs secs notr) st)) in
  snd (i_step now (IFetch k notr2) st2) = IMiss.
Proof. exact failed_frame_store_misses_l. Qed.
Print Assumptions failed_frame_store_misses.

(* g. tie: the deadline the interface hands to the back end.  infty and deadtime() as translated from the current
      src/cache_interface.cpp (the value read from time() is the second argument) equal the model's. *)
Theorem source_infty_is_model : g_c07_infty = infty.
Proof. exact link_infty. Qed.
Print Assumptions source_infty_is_model.
Theorem source_deadtime_is_model : forall now sec, g_c07_deadtime sec now = deadtime now sec.
Proof. exact link_deadtime. Qed.
Print Assumptions source_deadtime_is_model.

(* non-vacuity: a frame f with trigger t is cached; building a page: an outer recorder is attached, the frame is fetched
   (inheriting f and t), an inner recorder sees only the explicit trigger u; the page p is stored and found; raising the
   inherited trigger t makes fetch_page miss *)
Example interface_nonvacuous :
  let f := [102] in let t := [116] in let u := [117] in let p := [112] in
  let build := [IAttach; IFetch f false; IAttach; IAdd u; IDetach; IDetach] in
  let ops := [IStore f [1] [t] 10 true] ++ build ++ [IStorePage p [7] 10; IFetchPage p false; IRise t; IFetchPage p false; IFetch f false] in
  map fst (snd (i_run 0 ops (i_init 0))) =
    [INone; INone; IHit [1]; INone; INone; IRec [u]; IRec [u; t; f]; INone; IHit [7]; INone; IMiss; IMiss] /\
  depth_ok 0 [IFetch f false; IAttach; IAdd u; IDetach] /\
  i_page (snd (fst (i_run 0 ([IStore f [1] [t] 10 true] ++ build) (i_init 0)))) = [u; t; f].
Proof. vm_compute. repeat split. Qed.

(* a cached frame, then a store of the same frame that cannot be carried out inside a recorder: the recorder still gets the
   frame key and its trigger, the old value is gone, stats drop to 0/0 *)
Example interface_failed_store_nonvacuous :
  let f := [102] in let t := [116] in
  snd (i_run 0 [IStore f [1] [t] 10 true; IFetch f true; IAttach; IStoreFail f [t] 10 false; IDetach; IFetch f true] (i_init 0)) =
    [(INone, (1, 2)); (IHit [1], (1, 2)); (INone, (1, 2)); (INone, (0, 0)); (IRec [f; t], (0, 0)); (IMiss, (0, 0))].
Proof. vm_compute. reflexivity. Qed.

(* 7. regression: the history that used to be the counterexample of the hit clause (a was cached, then a store under a
      whose value cannot be copied into the shared segment - FDropBefore: std::bad_alloc in the first try block of
      mem_cache::store).  Before /repo commit 6978548 store() returned without touching the cache and the fetch served the
      SUPERSEDED value [1]; the catch block now calls remove(key), the faithful model deletes the entry, the fetch misses
      and the key stays absent (stats 0/0) until the next store that goes through.  Same history: corpus/C07/regression.case. *)
Example failed_store_regression :
  let old := Store [97] [1] [] 9%Z None FNone [] in
  let bad := Store [97] [2] [] 9%Z None FDropBefore [] in
  last_out (snd (run 0 (([old] ++ bad :: []) ++ [Fetch [97]]) (init 0))) = OMiss /\
  snd (run 0 [old; Fetch [97]; bad; Fetch [97]; Tick 1; Fetch [97]; Store [97] [3] [] 9%Z None FNone []; Fetch [97]] (init 0)) =
    [(ONone, (1, 1)); (OHit [1] [[97]] 9 0, (1, 1)); (ONone, (0, 0)); (OMiss, (0, 0)); (ONone, (0, 0)); (OMiss, (0, 0));
     (ONone, (1, 1)); (OHit [3] [[97]] 9 1, (1, 1))] /\
  (* the premises of fetch_miss_after_failed_store hold for it *)
  FDropBefore <> FNone /\ forallb (fun o => negb (stores_key [97] o)) [Tick 1] = true /\
  (* and the specification map has the key unbound after the failed store *)
  fst (snd (m_run 0 [old; bad] m_init)) [97] = None.
Proof. vm_compute. repeat split; try reflexivity. discriminate. Qed.

(* 8. private/hash_map.h (the container behind mem_cache::primary and mem_cache::triggers, which Defs.v treats as a finite
      map): the model HashMap.v of basic_map - one intrusive list, per-bucket (first,last) ranges, rehash that relinks every
      node, erase that repairs the range ends - refines a finite map.  HInv = the list is a concatenation of non-empty blocks,
      one per occupied bucket, every node in the block of its hash bucket, every table entry the (first,last) of its block,
      keys unique, size_ = number of nodes.
   a. find returns exactly the binding of the key (first match in the list = the unique one);
   b. for EVERY sequence of insert / find / erase / clear / rehash (rehash(0) only on an empty map, as nl_clear does) the
      results equal those of the finite map key -> value (insert does not overwrite), and after every operation
      size() = number of nodes and the keys are pairwise different;
   c. tie: string_hash::update_state / initial_state as translated from the current header equal the model hash, so the
      bucket of a key in the model is the bucket in the implementation. *)
Theorem hashmap_find_is_lookup : forall (V : Type) (h : @hmap V) k, HInv h -> h_find k h = lfind k (h_list h).
Proof. intros V h k H. exact (h_find_correct h k H). Qed.
Print Assumptions hashmap_find_is_lookup.
Theorem hashmap_step_refines_finite_map : forall (V : Type) o (h : @hmap V) M,
  represents_map h M -> match o with HRehash O => forall k, M k = None | _ => True end ->
  represents_map (fst (h_step o h)) (fst (f_step o M)) /\ snd (h_step o h) = snd (f_step o M).
Proof. intros V o h M. exact (h_step_refines o h M). Qed.
Print Assumptions hashmap_step_refines_finite_map.
Theorem hashmap_refines_finite_map : forall (V : Type) ops, hops_ok ops (fun _ : key => @None V) ->
  map fst (h_run ops (@h_empty V)) = f_run ops (fun _ => None) /\
  Forall (fun x => fst (snd x) = N.of_nat (length (snd (snd x))) /\ NoDup (map fst (snd (snd x)))) (h_run ops (@h_empty V)).
Proof. intros V ops H. exact (h_run_refines ops h_empty (fun _ => None) represents_empty H). Qed.
Print Assumptions hashmap_refines_finite_map.
Theorem source_hash_update_is_model : forall h b, (b < 256)%N -> g_c07_hash_update h (wraps 8 (Z.of_N b)) = hash_update h b.
Proof. exact link_hash_update. Qed.
Print Assumptions source_hash_update_is_model.
Theorem source_string_hash_is_model : forall k, Forall (fun b => (b < 256)%N) k ->
  fold_left (fun h b => g_c07_hash_update h (wraps 8 (Z.of_N b))) k g_c07_hash_initial = string_hash k.
Proof. exact link_string_hash. Qed.
Print Assumptions source_string_hash_is_model.

(* non-vacuity: keys a..e fall into 2 buckets of the 2-slot table the first insert creates; growth rehashes; erase of a
   first, a last and a middle node of a bucket; rehash to one bucket; clear.  hash(ab) = 97*16+98 *)
Example hashmap_nonvacuous :
  let ops := [HInsert [97] 1%N; HInsert [98] 2%N; HInsert [99] 3%N; HInsert [97] 9%N; HInsert [100] 4%N; HInsert [101] 5%N;
              HFind [99]; HErase [97]; HErase [101]; HErase [99]; HFind [97]; HFind [98]; HRehash 1; HFind [100]; HClear; HFind [98]] in
  map fst (h_run ops h_empty) =
    [HInserted true; HInserted true; HInserted true; HInserted false; HInserted true; HInserted true;
     HFound 3%N; HFound 1%N; HFound 5%N; HFound 3%N; HNotFound; HFound 2%N; HDone; HFound 4%N; HDone; HNotFound] /\
  hops_ok ops (fun _ => @None N) /\ string_hash [97; 98] = 1650%Z.
Proof. vm_compute. repeat split. Qed.
