(* C07 -- the cache never returns invalidated, expired or superseded data.
   Only property theorems here, each closed by `exact <lemma>`; the proofs are in ProofsInv.v (mirror
   consistency, refinement of the line-by-line model Defs.v to the abstract LRU cache of Spec.v). *)
From CppcmsV Require Import Base.Tac C07.Defs C07.Spec C07.Util C07.ProofsInv.
Local Open Scope N_scope.

(* 1. Mirror consistency (Inv, Spec.v): primary, triggers, timeout and lru describe the same entry set,
      triggers[t] lists exactly the keys whose entry carries t, size = |primary|, triggers_count = sum of the
      trigger lists, timeout is the deadline-sorted image of primary, no duplicates, no loop ran out of fuel.
      It holds initially, is preserved by every operation under every clock value, limit and allocator
      behaviour, hence holds after every finite operation sequence. *)
Theorem inv_init : forall lim, Inv (init lim).
Proof. exact init_inv. Qed.
Print Assumptions inv_init.
Theorem inv_step : forall now o s, Inv s -> Inv (snd (fst (step now o s))).
Proof. intros now o s I. exact (proj1 (step_ref now o s I)). Qed.
Print Assumptions inv_step.
Theorem inv_run : forall ops now lim, Inv (snd (fst (run now ops (init lim)))).
Proof. intros ops now lim. exact (proj1 (run_ref ops now (init lim) (init_inv lim))). Qed.
Print Assumptions inv_run.
Theorem inv_reachable : forall lim now s, reachable lim now s -> Inv s /\ limit s = lim.
Proof. intros lim now s H. split; [exact (reachable_inv lim now s H)|exact (reachable_limit lim now s H)]. Qed.
Print Assumptions inv_reachable.

(* 2. Every answer (fetch result and stats after every operation) of the four-index model equals the answer of the
      abstract LRU cache (an entry list + a recency list, Spec.v), for all operation sequences, clock schedules,
      limits and allocator faults. *)
Theorem model_refines_abstract_cache : forall ops now lim,
  (fst (fst (run now ops (init lim))), abs (snd (fst (run now ops (init lim)))), snd (run now ops (init lim)))
  = a_run now ops (a_init lim).
Proof. intros ops now lim. exact (proj2 (run_ref ops now (init lim) (init_inv lim))). Qed.
Print Assumptions model_refines_abstract_cache.

Example inv_nonvacuous :
  let ops := [Store [97] [1] [[120]] 5 None FNone []; Store [98] [2] [[97]] 5 None FNone []; Fetch [98]; Rise [97]; Fetch [98]] in
  map fst (snd (run 0 ops (init 0))) = [ONone; ONone; OHit [2] [[98]; [97]] 5 1; ONone; OMiss].
Proof. vm_compute. reflexivity. Qed.
