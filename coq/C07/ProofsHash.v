(* C07: private/hash_map.h model (HashMap.v) refines a finite map: the bucket ranges inside the one intrusive list stay
   consistent (HInv) under insert / erase / rehash / clear, and find returns exactly the binding of the key. *)
From CppcmsV Require Import Base.Tac C07.Defs C07.Spec C07.Util C07.HashMap.
Local Open Scope nat_scope.

Section HMP.
Context {V : Type}.
Notation node := (key * V)%type.

Fixpoint lfind (k : key) (l : list node) : option node :=
  match l with
  | [] => None
  | e :: r => if key_eqb (fst e) k then Some e else lfind k r
  end.

Definition keys (l : list node) : list key := map fst l.

Lemma lfind_None k l : lfind k l = None <-> ~ In k (keys l).
Proof.
  induction l as [|e l IH]; cbn [lfind keys map In]; [tauto|].
  destruct (key_eqb_spec (fst e) k) as [->|Hn]; [split; [discriminate|tauto]|].
  unfold keys in IH. rewrite IH. tauto.
Qed.
Lemma lfind_Some_key k l e : lfind k l = Some e -> fst e = k /\ In e l.
Proof.
  induction l as [|e0 l IH]; cbn [lfind]; [discriminate|].
  destruct (key_eqb_spec (fst e0) k) as [Hk|Hn].
  - intros [= <-]. split; [exact Hk|left; reflexivity].
  - intros H. destruct (IH H) as [H1 H2]. split; [exact H1|right; exact H2].
Qed.
Lemma lfind_app k l1 l2 : lfind k (l1 ++ l2) = match lfind k l1 with Some e => Some e | None => lfind k l2 end.
Proof.
  induction l1 as [|e l1 IH]; cbn [app lfind]; [reflexivity|]. destruct (key_eqb (fst e) k); [reflexivity|exact IH].
Qed.
Lemma lfind_notin k l : ~ In k (keys l) -> lfind k l = None.
Proof. apply lfind_None. Qed.

Lemma keys_app l1 l2 : keys (l1 ++ l2) = keys l1 ++ keys l2.
Proof. apply map_app. Qed.

(* ---------- l_from / walk ---------- *)
Lemma l_from_split f l1 e l2 : ~ In f (keys l1) -> fst e = f -> l_from f (l1 ++ e :: l2) = e :: l2.
Proof.
  induction l1 as [|e1 l1 IH]; cbn [app l_from keys map In]; intros Hn He.
  - rewrite He, key_eqb_refl. reflexivity.
  - destruct (key_eqb_spec (fst e1) f) as [Heq|Hne]; [tauto|]. apply IH; tauto.
Qed.

Definition last_key (seg : list node) (d : key) : key := last (keys seg) d.

Lemma walk_seg k seg : forall rest d, seg <> [] -> NoDup (keys seg) ->
  walk k (last_key seg d) (seg ++ rest) = lfind k seg.
Proof.
  induction seg as [|e seg IH]; intros rest d Hne Hnd; [congruence|].
  cbn [app walk lfind]. destruct (key_eqb_spec (fst e) k) as [Hk|Hnk]; [reflexivity|].
  destruct seg as [|e2 seg].
  - unfold last_key; cbn [keys map last]. rewrite key_eqb_refl. reflexivity.
  - assert (Hl : last_key (e :: e2 :: seg) d = last_key (e2 :: seg) d) by reflexivity.
    rewrite Hl. inversion Hnd as [|? ? Hni Hnd']; subst.
    assert (Hin : In (last_key (e2 :: seg) d) (keys (e2 :: seg))).
    { unfold last_key. destruct (exists_last (l := keys (e2 :: seg))) as (l' & a & Ha); [cbn; discriminate|].
      rewrite Ha, last_last. apply in_or_app; right; left; reflexivity. }
    destruct (key_eqb_spec (fst e) (last_key (e2 :: seg) d)) as [Heq|_].
    + exfalso. apply Hni. fold (keys (e2 :: seg)). rewrite Heq. exact Hin.
    + apply IH; [discriminate|exact Hnd'].
Qed.

(* ---------- the bucket structure: the list is a concatenation of non-empty blocks, one per occupied bucket ---------- *)
Definition blocks := list (nat * list node).
Definition flat (B : blocks) : list node := concat (map snd B).
Fixpoint bassoc (i : nat) (B : blocks) : option (list node) :=
  match B with
  | [] => None
  | b :: r => if Nat.eqb (fst b) i then Some (snd b) else bassoc i r
  end.
Definition range_of (seg : list node) : range :=
  match seg with [] => None | e :: _ => Some (fst e, last_key seg (fst e)) end.
Definition block_ok (n : nat) (b : nat * list node) : Prop :=
  snd b <> [] /\ (forall e, In e (snd b) -> bucket_of n (fst e) = fst b) /\ fst b < n.
Definition BInv (n : nat) (tab : list range) (l : list node) (B : blocks) : Prop :=
  length tab = n /\ l = flat B /\ Forall (block_ok n) B /\ NoDup (map fst B) /\ NoDup (keys l) /\
  (forall i, i < n -> tab_get tab i = match bassoc i B with Some seg => range_of seg | None => None end).

Lemma flat_app B1 B2 : flat (B1 ++ B2) = flat B1 ++ flat B2.
Proof. unfold flat. rewrite map_app, concat_app. reflexivity. Qed.
Lemma flat_cons b B : flat (b :: B) = snd b ++ flat B.
Proof. reflexivity. Qed.

Lemma bassoc_None i B : bassoc i B = None <-> ~ In i (map fst B).
Proof.
  induction B as [|b B IH]; cbn [bassoc map In]; [tauto|].
  destruct (Nat.eqb_spec (fst b) i) as [->|Hn]; [split; [discriminate|tauto]|]. rewrite IH. tauto.
Qed.
Lemma bassoc_split i B seg : bassoc i B = Some seg ->
  exists B1 B2, B = B1 ++ (i, seg) :: B2 /\ ~ In i (map fst B1).
Proof.
  induction B as [|b B IH]; cbn [bassoc]; [discriminate|].
  destruct (Nat.eqb_spec (fst b) i) as [Heq|Hn].
  - intros [= <-]. exists [], B. split; [destruct b; cbn in *; subst; reflexivity|intros []].
  - intros H. destruct (IH H) as (B1 & B2 & -> & Hni). exists (b :: B1), B2. split; [reflexivity|].
    cbn [map In]. tauto.
Qed.
Lemma bassoc_mid i B1 seg B2 : ~ In i (map fst B1) -> bassoc i (B1 ++ (i, seg) :: B2) = Some seg.
Proof.
  induction B1 as [|b B1 IH]; cbn [app bassoc map In fst snd]; intros H.
  - rewrite Nat.eqb_refl. reflexivity.
  - destruct (Nat.eqb_spec (fst b) i); [tauto|]. apply IH. tauto.
Qed.
Lemma bassoc_other i j B1 seg seg' B2 : i <> j ->
  bassoc i (B1 ++ (j, seg) :: B2) = bassoc i (B1 ++ (j, seg') :: B2).
Proof.
  intros Hn. induction B1 as [|b B1 IH]; cbn [app bassoc fst snd].
  - destruct (Nat.eqb_spec j i); [congruence|reflexivity].
  - destruct (Nat.eqb (fst b) i); [reflexivity|exact IH].
Qed.
Lemma bassoc_other_del i j B1 seg B2 : i <> j ->
  bassoc i (B1 ++ (j, seg) :: B2) = bassoc i (B1 ++ B2).
Proof.
  intros Hn. induction B1 as [|b B1 IH]; cbn [app bassoc fst snd].
  - destruct (Nat.eqb_spec j i); [congruence|reflexivity].
  - destruct (Nat.eqb (fst b) i); [reflexivity|exact IH].
Qed.

Lemma flat_bucket n B e : Forall (block_ok n) B -> In e (flat B) -> In (bucket_of n (fst e)) (map fst B).
Proof.
  induction B as [|b B IH]; intros HB Hin; [destruct Hin|].
  inversion HB as [|? ? Hb HB']; subst. rewrite flat_cons in Hin. apply in_app_or in Hin. cbn [map In].
  destruct Hin as [Hin|Hin]; [left; symmetry; apply Hb; exact Hin|right; apply IH; assumption].
Qed.
Lemma flat_notin n B k : Forall (block_ok n) B -> ~ In (bucket_of n k) (map fst B) -> ~ In k (keys (flat B)).
Proof.
  intros HB Hn Hin. unfold keys in Hin. apply in_map_iff in Hin. destruct Hin as (e & <- & He).
  apply Hn. eapply flat_bucket; eassumption.
Qed.

Lemma bucket_lt n k : 0 < n -> bucket_of n k < n.
Proof.
  intros Hn. unfold bucket_of.
  pose proof (Z.mod_pos_bound (string_hash k) (Z.of_nat n) ltac:(lia)). lia.
Qed.

Lemma BInv_zero tab l B : BInv 0 tab l B -> l = [].
Proof.
  intros (_ & -> & HB & _). destruct B as [|b B]; [reflexivity|]. inversion HB as [|? ? (_ & _ & Hlt) _]. lia.
Qed.

Lemma NoDup_app_inv {A} (l1 l2 : list A) : NoDup (l1 ++ l2) ->
  NoDup l1 /\ NoDup l2 /\ (forall x, In x l1 -> ~ In x l2).
Proof.
  induction l1 as [|a l1 IH]; cbn [app]; intros H; [repeat split; [constructor|exact H|intros x []]|].
  inversion H as [|? ? Hni Hnd]; subst. destruct (IH Hnd) as (H1 & H2 & H3).
  repeat split; [constructor; [intros Hin; apply Hni; apply in_or_app; left; exact Hin|exact H1]|exact H2|].
  intros x [<-|Hx]; [intros Hin; apply Hni; apply in_or_app; right; exact Hin|apply H3; exact Hx].
Qed.
Lemma NoDup_app_intro {A} (l1 l2 : list A) : NoDup l1 -> NoDup l2 -> (forall x, In x l1 -> ~ In x l2) -> NoDup (l1 ++ l2).
Proof.
  induction l1 as [|a l1 IH]; cbn [app]; intros H1 H2 H3; [exact H2|].
  inversion H1 as [|? ? Hni Hnd]; subst. constructor.
  - intros Hin. apply in_app_or in Hin. destruct Hin as [Hin|Hin]; [tauto|]. apply (H3 a); [left; reflexivity|exact Hin].
  - apply IH; [exact Hnd|exact H2|]. intros x Hx. apply H3. right; exact Hx.
Qed.
Lemma NoDup_keys_app_l l1 l2 : NoDup (keys (l1 ++ l2)) -> NoDup (keys l1).
Proof. rewrite keys_app. intros H. apply NoDup_app_inv in H. tauto. Qed.
Lemma NoDup_keys_app_r l1 l2 : NoDup (keys (l1 ++ l2)) -> NoDup (keys l2).
Proof. rewrite keys_app. intros H. apply NoDup_app_inv in H. tauto. Qed.

(* find returns exactly the binding of the key *)
Lemma find_correct n tab l B k : BInv n tab l B ->
  h_find k (mkH l tab (N.of_nat (length l))) = lfind k l.
Proof.
  intros HI. pose proof HI as (Hlen & Hl & HB & HndB & Hnd & Htab).
  unfold h_find; cbn [h_tab h_list].
  destruct (Nat.eq_dec n 0) as [Hn0|Hn0].
  - assert (El : l = []) by (rewrite Hn0 in HI; exact (BInv_zero _ _ _ HI)).
    destruct tab; [rewrite El; reflexivity|cbn in Hlen; lia].
  - destruct tab as [|r0 tab'] eqn:Et; [cbn in Hlen; lia|]. rewrite <- Et in *. clear Et r0 tab'. rewrite Hlen.
    assert (Hn : 0 < n) by lia.
    set (i := bucket_of n k). assert (Hi : i < n) by (apply bucket_lt; exact Hn).
    rewrite (Htab i Hi). destruct (bassoc i B) as [seg|] eqn:Eb.
    + destruct (bassoc_split i B seg Eb) as (B1 & B2 & -> & Hni).
      rewrite map_app in HndB. cbn [map fst] in HndB.
      assert (Hni2 : ~ In i (map fst B2)).
      { apply NoDup_remove_2 in HndB. intros H; apply HndB. apply in_or_app; right; exact H. }
      apply Forall_app in HB. destruct HB as [HB1 HB2]. inversion HB2 as [|? ? Hb HB2']; subst.
      destruct Hb as (Hne & Hbk & _). cbn [fst snd] in *.
      rewrite flat_app, flat_cons in *. cbn [snd] in *.
      destruct seg as [|e seg']; [congruence|]. cbn [range_of find_in_range].
      change ((e :: seg') ++ flat B2) with (e :: (seg' ++ flat B2)).
      rewrite l_from_split.
      * change (e :: seg' ++ flat B2) with ((e :: seg') ++ flat B2).
        rewrite walk_seg; [|discriminate|apply NoDup_keys_app_r in Hnd; apply NoDup_keys_app_l in Hnd; exact Hnd].
        rewrite lfind_app, (lfind_notin k (flat B1)) by (apply (flat_notin (length tab)); assumption).
        rewrite lfind_app. destruct (lfind k (e :: seg')); [reflexivity|].
        symmetry. apply lfind_notin. apply (flat_notin (length tab)); assumption.
      * apply (flat_notin (length tab)); [exact HB1|]. rewrite (Hbk e (or_introl eq_refl)). exact Hni.
      * reflexivity.
    + cbn [find_in_range]. symmetry. apply lfind_notin. rewrite Hl. apply (flat_notin n); [exact HB|].
      apply bassoc_None; exact Eb.
Qed.

(* ---------- table primitives ---------- *)
Lemma tab_set_length tab : forall i r, length (tab_set tab i r) = length tab.
Proof. induction tab as [|x tab IH]; intros [|i] r; cbn [tab_set length]; auto. Qed.
Lemma tab_get_set tab : forall i j r, i < length tab ->
  tab_get (tab_set tab i r) j = if Nat.eqb j i then r else tab_get tab j.
Proof.
  unfold tab_get. induction tab as [|x tab IH]; intros i j r Hi; [cbn in Hi; lia|].
  destruct i as [|i]; destruct j as [|j]; cbn [tab_set nth Nat.eqb length] in *; try reflexivity.
  apply IH. lia.
Qed.
Lemma tab_get_repeat n i : tab_get (repeat None n) i = None.
Proof.
  unfold tab_get. revert i; induction n as [|n IH]; intros [|i]; cbn [repeat nth]; auto.
Qed.

(* ---------- inserting a node somewhere into a duplicate-free list ---------- *)
Lemma lfind_insert k A x C : ~ In (fst x) (keys (A ++ C)) ->
  lfind k (A ++ x :: C) = if key_eqb (fst x) k then Some x else lfind k (A ++ C).
Proof.
  intros Hn. rewrite !lfind_app. cbn [lfind]. destruct (key_eqb_spec (fst x) k) as [Hk|Hk]; [|reflexivity].
  rewrite lfind_notin; [reflexivity|]. rewrite <- Hk. intros Hin. apply Hn. rewrite keys_app. apply in_or_app; left; exact Hin.
Qed.
Lemma NoDup_insert A x C : NoDup (keys (A ++ C)) -> ~ In (fst x) (keys (A ++ C)) -> NoDup (keys (A ++ x :: C)).
Proof.
  induction A as [|a A IH]; cbn [app keys map]; intros Hnd Hn.
  - constructor; assumption.
  - inversion Hnd as [|? ? Hni Hnd']; subst. constructor.
    + fold (keys (A ++ x :: C)). rewrite keys_app. cbn [keys map]. intros Hin. apply in_app_or in Hin.
      fold (keys (A ++ C)) in Hni. rewrite keys_app in Hni.
      destruct Hin as [Hin|[Hin|Hin]].
      * apply Hni. apply in_or_app; left; exact Hin.
      * apply Hn. left. symmetry. exact Hin.
      * apply Hni. apply in_or_app; right; exact Hin.
    + apply IH; [exact Hnd'|]. intros Hin. apply Hn. right. exact Hin.
Qed.
Lemma length_insert {A} (l1 : list A) x l2 : length (l1 ++ x :: l2) = S (length (l1 ++ l2)).
Proof. rewrite !app_length. cbn [length]. lia. Qed.

Lemma l_insert_after_mid x s l1 e l2 : ~ In s (keys l1) -> fst e = s ->
  l_insert_after x s (l1 ++ e :: l2) = l1 ++ e :: x :: l2.
Proof.
  induction l1 as [|e1 l1 IH]; cbn [app l_insert_after keys map In]; intros Hn He.
  - rewrite He, key_eqb_refl. reflexivity.
  - destruct (key_eqb_spec (fst e1) s) as [Heq|Hne]; [tauto|]. f_equal. apply IH; tauto.
Qed.

Lemma last_key_snoc seg e d : last_key (seg ++ [e]) d = fst e.
Proof. unfold last_key. rewrite keys_app. cbn [keys map]. apply last_last. Qed.
Lemma range_of_snoc seg e : seg <> [] -> range_of (seg ++ [e]) = match seg with e0 :: _ => Some (fst e0, fst e) | [] => None end.
Proof.
  destruct seg as [|e0 seg]; [congruence|]. intros _. cbn [app range_of].
  change (e0 :: seg ++ [e]) with ((e0 :: seg) ++ [e]). rewrite last_key_snoc. reflexivity.
Qed.

(* ---------- linking one node: the step of insert and of rehash ---------- *)
Lemma link_node_inv n tab l B x : BInv n tab l B -> 0 < n -> ~ In (fst x) (keys l) ->
  exists B', BInv n (fst (link_node x (tab, l))) (snd (link_node x (tab, l))) B' /\
    (forall k, lfind k (snd (link_node x (tab, l))) = if key_eqb (fst x) k then Some x else lfind k l) /\
    length (snd (link_node x (tab, l))) = S (length l).
Proof.
  intros (Hlen & Hl & HB & HndB & Hnd & Htab) Hn Hx. subst l.
  unfold link_node. rewrite Hlen. set (i := bucket_of n (fst x)).
  assert (Hi : i < n) by (apply bucket_lt; exact Hn).
  rewrite (Htab i Hi). destruct (bassoc i B) as [seg|] eqn:Eb.
  - (* the bucket is occupied: append to its block *)
    destruct (bassoc_split i B seg Eb) as (B1 & B2 & EB & Hni). subst B.
    apply Forall_app in HB. destruct HB as [HB1 HB2]. apply Forall_cons_iff in HB2. destruct HB2 as [Hb HB2'].
    destruct Hb as (Hne & Hbk & _). cbn [fst snd] in *.
    destruct (exists_last Hne) as (seg0 & e & Eseg). subst seg.
    assert (Er : range_of (seg0 ++ [e]) = Some (match seg0 with e0 :: _ => fst e0 | [] => fst e end, fst e)).
    { destruct seg0 as [|e0 seg0]; [reflexivity|]. rewrite range_of_snoc by discriminate. reflexivity. }
    rewrite Er. cbn [fst snd].
    set (f := match seg0 with e0 :: _ => fst e0 | [] => fst e end) in *.
    assert (El : flat (B1 ++ (i, seg0 ++ [e]) :: B2) = (flat B1 ++ seg0) ++ e :: flat B2).
    { rewrite flat_app, flat_cons. cbn [snd]. rewrite <- !app_assoc. reflexivity. }
    rewrite El in *.
    assert (Hs : ~ In (fst e) (keys (flat B1 ++ seg0))).
    { rewrite keys_app in Hnd. cbn [keys map] in Hnd. apply NoDup_remove_2 in Hnd.
      intros Hin. apply Hnd. apply in_or_app; left. exact Hin. }
    rewrite l_insert_after_mid by (exact Hs || reflexivity).
    exists (B1 ++ (i, (seg0 ++ [e]) ++ [x]) :: B2).
    assert (El' : flat (B1 ++ (i, (seg0 ++ [e]) ++ [x]) :: B2) = (flat B1 ++ seg0 ++ [e]) ++ x :: flat B2).
    { rewrite flat_app, flat_cons. cbn [snd]. rewrite <- !app_assoc. reflexivity. }
    assert (El2 : (flat B1 ++ seg0) ++ e :: x :: flat B2 = (flat B1 ++ seg0 ++ [e]) ++ x :: flat B2).
    { rewrite <- !app_assoc. reflexivity. }
    assert (El3 : (flat B1 ++ seg0) ++ e :: flat B2 = (flat B1 ++ seg0 ++ [e]) ++ flat B2).
    { rewrite <- !app_assoc. reflexivity. }
    rewrite El2. rewrite El3 in Hx, Hnd.
    split; [|split].
    + repeat split.
      * rewrite tab_set_length. exact Hlen.
      * symmetry. exact El'.
      * apply Forall_app. split; [exact HB1|]. constructor; [|exact HB2'].
        repeat split; cbn [fst snd]; [intros H; apply app_eq_nil in H; destruct H; discriminate| |exact Hi].
        intros e1 He1. apply in_app_or in He1. destruct He1 as [He1|[<-|[]]]; [apply Hbk; exact He1|reflexivity].
      * rewrite map_app in *. cbn [map fst] in *. exact HndB.
      * apply NoDup_insert; assumption.
      * intros j Hj. rewrite tab_get_set by lia. destruct (Nat.eqb_spec j i) as [->|Hji].
        -- rewrite bassoc_mid by exact Hni. rewrite range_of_snoc by (intros H; apply app_eq_nil in H; destruct H; discriminate).
           destruct seg0 as [|e0 seg0]; reflexivity.
        -- rewrite (Htab j Hj). rewrite (bassoc_other j i B1 (seg0 ++ [e]) ((seg0 ++ [e]) ++ [x]) B2 Hji). reflexivity.
    + intros k. rewrite lfind_insert by exact Hx. rewrite El3. reflexivity.
    + rewrite length_insert, El3. reflexivity.
  - (* empty bucket: new block at the end of the list *)
    cbn [fst snd]. exists (B ++ [(i, [x])]).
    assert (El' : flat (B ++ [(i, [x])]) = flat B ++ [x]).
    { rewrite flat_app, flat_cons. cbn [snd flat map concat]. reflexivity. }
    apply bassoc_None in Eb.
    split; [|split].
    + repeat split.
      * rewrite tab_set_length. exact Hlen.
      * rewrite El'. reflexivity.
      * apply Forall_app. split; [exact HB|]. constructor; [|constructor].
        repeat split; cbn [fst snd]; [discriminate| |exact Hi]. intros e1 [<-|[]]. reflexivity.
      * rewrite map_app. cbn [map fst]. apply NoDup_app_intro; [exact HndB|constructor; [intros []|constructor]|].
        intros j Hj [<-|[]]. exact (Eb Hj).
      * rewrite <- (app_nil_r (flat B)) in Hnd, Hx. apply NoDup_insert; assumption.
      * intros j Hj. rewrite tab_get_set by lia. destruct (Nat.eqb_spec j i) as [->|Hji].
        -- rewrite bassoc_mid by exact Eb. reflexivity.
        -- rewrite (Htab j Hj). rewrite (bassoc_other_del j i B [x] [] Hji), app_nil_r. reflexivity.
    + intros k. rewrite <- (app_nil_r (flat B)) in Hx. rewrite lfind_insert by exact Hx. rewrite app_nil_r. reflexivity.
    + rewrite app_length. cbn [length]. lia.
Qed.

(* ---------- the invariant of a whole map ---------- *)
Definition HInv (h : hmap) : Prop :=
  (exists B, BInv (length (h_tab h)) (h_tab h) (h_list h) B) /\ h_size h = N.of_nat (length (h_list h)).

Lemma h_find_correct h k : HInv h -> h_find k h = lfind k (h_list h).
Proof.
  intros [[B HB] _]. destruct h as [l tab sz]. cbn [h_tab h_list] in *.
  rewrite <- (find_correct (length tab) tab l B k HB). reflexivity.
Qed.

Lemma BInv_empty n : BInv n (repeat None n) [] [].
Proof.
  repeat split; [apply repeat_length|constructor|constructor|constructor|].
  intros i _. rewrite tab_get_repeat. reflexivity.
Qed.
Lemma h_empty_inv : HInv (@h_empty V).
Proof. split; [exists []; exact (BInv_empty 0)|reflexivity]. Qed.

(* ---------- rehash ---------- *)
Lemma fold_link_inv n : 0 < n -> forall old tab l B, BInv n tab l B -> NoDup (keys old) ->
  (forall k, In k (keys old) -> ~ In k (keys l)) ->
  let r := fold_left (fun tl x => link_node x tl) old (tab, l) in
  exists B', BInv n (fst r) (snd r) B' /\
    (forall k, lfind k (snd r) = match lfind k old with Some e => Some e | None => lfind k l end) /\
    length (snd r) = length l + length old.
Proof.
  intros Hn. induction old as [|x old IH]; intros tab l B HI Hnd Hdis; cbn [fold_left].
  - exists B. cbn [fst snd lfind length]. split; [exact HI|split; [intros k; reflexivity|lia]].
  - cbn [keys map] in Hnd. inversion Hnd as [|? ? Hni Hnd']; subst.
    destruct (link_node_inv n tab l B x HI Hn) as (B1 & HI1 & Hf1 & Hl1).
    { apply Hdis. left; reflexivity. }
    destruct (link_node x (tab, l)) as [tab1 l1] eqn:El. cbn [fst snd] in *.
    destruct (IH tab1 l1 B1 HI1 Hnd') as (B' & HI' & Hf' & Hl').
    { intros k Hk Hin.
      assert (Hk1 : lfind k l1 <> None).
      { intros Hc. apply lfind_None in Hc. exact (Hc Hin). }
      apply Hk1. rewrite Hf1. destruct (key_eqb_spec (fst x) k) as [Heq|Hne].
      - exfalso. apply Hni. rewrite Heq. exact Hk.
      - apply lfind_notin. apply Hdis. right; exact Hk. }
    exists B'. split; [exact HI'|]. split; [|rewrite Hl', Hl1; cbn [length]; lia].
    intros k. rewrite Hf', Hf1. cbn [lfind].
    destruct (key_eqb_spec (fst x) k) as [Heq|Hne]; [|reflexivity].
    rewrite lfind_notin; [reflexivity|]. rewrite <- Heq. exact Hni.
Qed.

Lemma HInv_nodup h : HInv h -> NoDup (keys (h_list h)).
Proof. intros [[B (_ & _ & _ & _ & H & _)] _]. exact H. Qed.

Lemma h_rehash_inv n h : HInv h -> (0 < n \/ h_list h = []) ->
  HInv (h_rehash n h) /\ (forall k, lfind k (h_list (h_rehash n h)) = lfind k (h_list h)) /\ length (h_tab (h_rehash n h)) = n.
Proof.
  intros HI Hn. unfold h_rehash. destruct Hn as [Hn|Hn].
  - destruct (fold_link_inv n Hn (h_list h) (repeat None n) [] [] (BInv_empty n) (HInv_nodup h HI)) as (B' & HI' & Hf' & Hl').
    { intros k _ []. }
    set (r := fold_left _ (h_list h) _) in *. clearbody r. destruct r as [tab l]. cbn [fst snd h_list h_tab h_size] in *.
    pose proof HI' as (Hlen & _).
    split; [|split; [|exact Hlen]].
    + split; cbn [h_list h_tab h_size]; [exists B'; rewrite Hlen; exact HI'|rewrite Hl'; cbn [length]; exact (proj2 HI)].
    + intros k. rewrite Hf'. cbn [lfind]. destruct (lfind k (h_list h)); reflexivity.
  - rewrite Hn. cbn [fold_left h_list h_tab h_size]. split; [|split; [intros k; reflexivity|apply repeat_length]].
    split; cbn [h_list h_tab h_size]; [exists []; rewrite repeat_length; apply BInv_empty|].
    destruct HI as [_ Hs]. rewrite Hs, Hn. reflexivity.
Qed.

(* ---------- insert ---------- *)
Lemma h_rehash_if_needed_inv h : HInv h ->
  HInv (h_rehash_if_needed h) /\ (forall k, lfind k (h_list (h_rehash_if_needed h)) = lfind k (h_list h)) /\
  0 < length (h_tab (h_rehash_if_needed h)).
Proof.
  intros HI. unfold h_rehash_if_needed. destruct (N.leb_spec (N.of_nat (length (h_tab h))) (h_size h + 1)) as [Hle|Hgt].
  - destruct (h_rehash_inv (N.to_nat ((1 + h_size h) * 2)) h HI) as (H1 & H2 & H3); [left; lia|].
    repeat split; [apply H1|exact (proj2 H1)|exact H2|rewrite H3; lia].
  - repeat split; [apply HI|exact (proj2 HI)|lia].
Qed.

Lemma h_insert_inv k v h : HInv h ->
  HInv (fst (h_insert k v h)) /\
  match lfind k (h_list h) with
  | Some _ => snd (h_insert k v h) = false /\ forall k', lfind k' (h_list (fst (h_insert k v h))) = lfind k' (h_list h)
  | None => snd (h_insert k v h) = true /\
            forall k', lfind k' (h_list (fst (h_insert k v h))) = if key_eqb k k' then Some (k, v) else lfind k' (h_list h)
  end.
Proof.
  intros HI. destruct (h_rehash_if_needed_inv h HI) as (HI1 & Hc1 & Hn1).
  unfold h_insert. set (h1 := h_rehash_if_needed h) in *.
  assert (Ef : find_in_range (tab_get (h_tab h1) (bucket_of (length (h_tab h1)) k)) k (h_list h1) = lfind k (h_list h)).
  { rewrite <- Hc1, <- (h_find_correct h1 k HI1). unfold h_find. destruct (h_tab h1); [cbn in Hn1; lia|reflexivity]. }
  rewrite Ef. destruct (lfind k (h_list h)) as [e|] eqn:El; cbn [fst snd].
  - split; [exact HI1|]. split; [reflexivity|exact Hc1].
  - destruct HI1 as [[B HB] Hs].
    destruct (link_node_inv (length (h_tab h1)) (h_tab h1) (h_list h1) B (k, v) HB Hn1) as (B' & HB' & Hf' & Hl').
    { cbn [fst]. apply lfind_None. rewrite Hc1. exact El. }
    destruct (link_node (k, v) (h_tab h1, h_list h1)) as [tab l]. cbn [fst snd h_list h_tab h_size] in *.
    pose proof HB' as (Hlen & _).
    split; [split; cbn [h_list h_tab h_size]; [exists B'; rewrite Hlen; exact HB'|rewrite Hl', Hs; lia]|].
    split; [reflexivity|]. intros k'. rewrite Hf', Hc1. reflexivity.
Qed.

(* ---------- erase ---------- *)
Lemma l_erase_app k (l1 l2 : list node) : l_erase k (l1 ++ l2) = l_erase k l1 ++ l_erase k l2.
Proof. apply filter_app. Qed.
Lemma l_erase_notin k (l : list node) : ~ In k (keys l) -> l_erase k l = l.
Proof.
  induction l as [|e l IH]; cbn [keys map In]; intros H; [reflexivity|]. unfold l_erase; cbn [filter].
  destruct (key_eqb_spec (fst e) k) as [Heq|Hne]; [tauto|]. cbn [negb]. f_equal. apply IH. tauto.
Qed.
Lemma l_erase_mid k (a : list node) e b : fst e = k -> ~ In k (keys a) -> ~ In k (keys b) -> l_erase k (a ++ e :: b) = a ++ b.
Proof.
  intros He Ha Hb. rewrite l_erase_app, (l_erase_notin k a Ha). unfold l_erase at 1; cbn [filter].
  rewrite He, key_eqb_refl. cbn [negb]. fold (l_erase k b). rewrite (l_erase_notin k b Hb). reflexivity.
Qed.
Lemma lfind_erase k k' (l : list node) : NoDup (keys l) -> lfind k' (l_erase k l) = if key_eqb k' k then None else lfind k' l.
Proof.
  induction l as [|e l IH]; cbn [keys map]; intros Hnd; [destruct (key_eqb k' k); reflexivity|].
  inversion Hnd as [|? ? Hni Hnd']; subst. unfold l_erase; cbn [filter]. fold (l_erase k l).
  destruct (key_eqb_spec (fst e) k) as [Heq|Hne]; cbn [negb lfind].
  - rewrite (IH Hnd'). destruct (key_eqb_spec k' k) as [->|Hn']; [reflexivity|].
    rewrite Heq. rewrite (key_eqb_neq k k') by congruence. reflexivity.
  - destruct (key_eqb_spec (fst e) k') as [Heq'|Hne'].
    + rewrite (key_eqb_neq k' k) by congruence. reflexivity.
    + apply IH; exact Hnd'.
Qed.
Lemma keys_erase_NoDup k (l : list node) : NoDup (keys l) -> NoDup (keys (l_erase k l)).
Proof.
  induction l as [|e l IH]; cbn [keys map]; intros Hnd; [constructor|].
  inversion Hnd as [|? ? Hni Hnd']; subst. unfold l_erase; cbn [filter]. fold (l_erase k l).
  destruct (negb (key_eqb (fst e) k)); [|apply IH; exact Hnd'].
  cbn [keys map]. constructor; [|apply IH; exact Hnd'].
  intros Hin. apply Hni. unfold keys, l_erase in Hin. apply in_map_iff in Hin. destruct Hin as (x & Hx & Hin).
  apply filter_In in Hin. apply in_map_iff. exists x. tauto.
Qed.
Lemma length_erase k (l : list node) e : NoDup (keys l) -> lfind k l = Some e -> length l = S (length (l_erase k l)).
Proof.
  induction l as [|e0 l IH]; cbn [keys map lfind]; intros Hnd Hf; [discriminate|].
  inversion Hnd as [|? ? Hni Hnd']; subst. unfold l_erase; cbn [filter]. fold (l_erase k l).
  destruct (key_eqb_spec (fst e0) k) as [Heq|Hne]; cbn [negb length].
  - rewrite l_erase_notin; [reflexivity|]. rewrite <- Heq. exact Hni.
  - rewrite (IH Hnd' Hf). reflexivity.
Qed.

Lemma l_next_mid k (l1 : list node) e e1 r : ~ In k (keys l1) -> fst e = k -> l_next k (l1 ++ e :: e1 :: r) = Some (fst e1).
Proof.
  induction l1 as [|x l1 IH]; cbn [app l_next keys map In]; intros Hn He.
  - rewrite He, key_eqb_refl. reflexivity.
  - destruct (key_eqb_spec (fst x) k); [tauto|]. apply IH; tauto.
Qed.
Lemma l_prev_aux_mid k : forall (l1 : list node) p ep e r, ~ In k (keys (l1 ++ [ep])) -> fst e = k ->
  l_prev_aux p k ((l1 ++ [ep]) ++ e :: r) = Some (fst ep).
Proof.
  induction l1 as [|x l1 IH]; intros p ep e r Hn He; cbn [app l_prev_aux keys map In] in *.
  - destruct (key_eqb_spec (fst ep) k); [tauto|]. rewrite He, key_eqb_refl. reflexivity.
  - destruct (key_eqb_spec (fst x) k); [tauto|]. apply IH; tauto.
Qed.

Lemma last_key_app (a b : list node) d d' : b <> [] -> last_key (a ++ b) d = last_key b d'.
Proof.
  intros Hb. destruct (exists_last Hb) as (b0 & e & ->). rewrite app_assoc, !last_key_snoc. reflexivity.
Qed.
Lemma range_of_cons (e : node) seg : range_of (e :: seg) = Some (fst e, last_key (e :: seg) (fst e)).
Proof. reflexivity. Qed.
Lemma range_of_first_last (a : list node) e b : range_of (a ++ e :: b) =
  Some (match a with x :: _ => fst x | [] => fst e end, match b with [] => fst e | _ => last_key b (fst e) end).
Proof.
  assert (Hl : forall d, last_key (a ++ e :: b) d = match b with [] => fst e | _ => last_key b (fst e) end).
  { intros d. destruct b as [|e1 b].
    - apply last_key_snoc.
    - change (a ++ e :: e1 :: b) with (a ++ [e] ++ (e1 :: b)). rewrite app_assoc. apply last_key_app. discriminate. }
  destruct a as [|x a]; cbn [app] in *; rewrite range_of_cons, Hl; reflexivity.
Qed.

Lemma last_key_In (seg : list node) d : seg <> [] -> In (last_key seg d) (keys seg).
Proof.
  intros Hne. destruct (exists_last Hne) as (s0 & e & ->). rewrite last_key_snoc, keys_app.
  apply in_or_app; right; left; reflexivity.
Qed.

Lemma in_split_key k (seg : list node) : In k (keys seg) -> exists a e b, seg = a ++ e :: b /\ fst e = k.
Proof.
  unfold keys. intros H. apply in_map_iff in H. destruct H as (e & He & Hin).
  apply in_split in Hin. destruct Hin as (a & b & ->). exists a, e, b. split; [reflexivity|exact He].
Qed.

Lemma h_erase_inv k h e : HInv h -> lfind k (h_list h) = Some e ->
  HInv (h_erase k h) /\ forall k', lfind k' (h_list (h_erase k h)) = if key_eqb k' k then None else lfind k' (h_list h).
Proof.
  intros HI Hf. pose proof (HInv_nodup h HI) as Hnd. destruct HI as [[B HB] Hs].
  assert (Hcontent : forall tab', forall k', lfind k' (h_list (mkH (l_erase k (h_list h)) tab' (N.pred (h_size h)))) =
                                       if key_eqb k' k then None else lfind k' (h_list h)).
  { intros tab' k'. cbn [h_list]. apply lfind_erase; exact Hnd. }
  assert (Hsz : N.pred (h_size h) = N.of_nat (length (l_erase k (h_list h)))).
  { rewrite Hs, (length_erase k (h_list h) e Hnd Hf). lia. }
  unfold h_erase.
  assert (Hne_tab : h_tab h <> []).
  { intros Et. rewrite Et in HB. pose proof (BInv_zero _ _ _ HB) as El. rewrite El in Hf. discriminate. }
  destruct (h_tab h) as [|r0 t0] eqn:Et; [congruence|]. rewrite <- Et in *. clear Et r0 t0 Hne_tab.
  set (n := length (h_tab h)) in *.
  pose proof HB as (Hlen & Hl & HBk & HndB & _ & Htab).
  assert (Hn : 0 < n).
  { destruct n; [|lia]. pose proof (BInv_zero _ _ _ HB) as El. rewrite El in Hf. discriminate. }
  set (i := bucket_of n k). assert (Hi : i < n) by (apply bucket_lt; exact Hn).
  assert (Hkin : In k (keys (h_list h))).
  { destruct (lfind_Some_key _ _ _ Hf) as [Hk Hin]. rewrite <- Hk. apply in_map. exact Hin. }
  rewrite (Htab i Hi).
  destruct (bassoc i B) as [seg|] eqn:Eb.
  2:{ exfalso. rewrite Hl in Hkin. apply (flat_notin n B k HBk); [apply bassoc_None; exact Eb|exact Hkin]. }
  destruct (bassoc_split i B seg Eb) as (B1 & B2 & EB & Hni). subst B.
  rewrite map_app in HndB. cbn [map fst] in HndB.
  assert (Hni2 : ~ In i (map fst B2)).
  { apply NoDup_remove_2 in HndB. intros H; apply HndB. apply in_or_app; right; exact H. }
  assert (HndB' : NoDup (map fst (B1 ++ B2))) by (rewrite map_app; apply NoDup_remove_1 in HndB; exact HndB).
  apply Forall_app in HBk. destruct HBk as [HB1 HB2]. apply Forall_cons_iff in HB2. destruct HB2 as [Hb HB2'].
  destruct Hb as (Hne & Hbk & _). cbn [fst snd] in *.
  rewrite flat_app, flat_cons in Hl. cbn [snd] in Hl.
  assert (Hk1 : ~ In k (keys (flat B1))) by (apply (flat_notin n); assumption).
  assert (Hk2 : ~ In k (keys (flat B2))) by (apply (flat_notin n); assumption).
  assert (Hkseg : In k (keys seg)).
  { rewrite Hl, !keys_app in Hkin. apply in_app_or in Hkin. destruct Hkin as [H|H]; [tauto|].
    apply in_app_or in H. destruct H as [H|H]; [exact H|tauto]. }
  destruct (in_split_key k seg Hkseg) as (a & ek & b & -> & Hek).
  assert (Hndseg : NoDup (keys (a ++ ek :: b))).
  { rewrite Hl in Hnd. apply NoDup_keys_app_r in Hnd. apply NoDup_keys_app_l in Hnd. exact Hnd. }
  assert (Hka : ~ In k (keys a) /\ ~ In k (keys b)).
  { rewrite keys_app in Hndseg. cbn [keys map] in Hndseg. rewrite Hek in Hndseg. apply NoDup_remove_2 in Hndseg.
    split; intros H; apply Hndseg; apply in_or_app; [left|right]; exact H. }
  destruct Hka as [Hka Hkb].
  assert (Eerase : l_erase k (h_list h) = flat B1 ++ (a ++ b) ++ flat B2).
  { rewrite Hl, l_erase_app, l_erase_app, (l_erase_notin k _ Hk1), (l_erase_notin k _ Hk2), (l_erase_mid k a ek b Hek Hka Hkb). reflexivity. }
  rewrite range_of_first_last.
  (* generic closing step: the new table satisfies the invariant with the block list B' *)
  assert (Hclose : forall tab' B', length tab' = n -> flat B' = flat B1 ++ (a ++ b) ++ flat B2 ->
            Forall (block_ok n) B' -> NoDup (map fst B') ->
            (forall j, j < n -> tab_get tab' j = match bassoc j B' with Some s => range_of s | None => None end) ->
            HInv (mkH (l_erase k (h_list h)) tab' (N.pred (h_size h)))).
  { intros tab' B' H1 H2 H3 H4 H5. split; cbn [h_list h_tab h_size]; [|exact Hsz].
    exists B'. rewrite H1. repeat split; try assumption; [rewrite Eerase; symmetry; exact H2|apply keys_erase_NoDup; exact Hnd]. }
  assert (Hbk' : forall e0, In e0 (a ++ b) -> bucket_of n (fst e0) = i).
  { intros e0 H0. apply Hbk. apply in_app_or in H0. apply in_or_app. destruct H0; [left|right; right]; assumption. }
  assert (Hblock : a ++ b <> [] -> Forall (block_ok n) (B1 ++ (i, a ++ b) :: B2)).
  { intros Hab. apply Forall_app. split; [exact HB1|]. constructor; [|exact HB2']. repeat split; cbn [fst snd]; assumption. }
  assert (Hflat : flat (B1 ++ (i, a ++ b) :: B2) = flat B1 ++ (a ++ b) ++ flat B2).
  { rewrite flat_app, flat_cons. reflexivity. }
  assert (HndBi : NoDup (map fst (B1 ++ (i, a ++ b) :: B2))) by (rewrite map_app; cbn [map fst]; exact HndB).
  destruct a as [|a0 a']; destruct b as [|b0 b'].
  - (* the only node of its bucket *)
    rewrite Hek, key_eqb_refl. split; [|apply Hcontent].
    apply (Hclose _ (B1 ++ B2)); [rewrite tab_set_length; exact Hlen|rewrite flat_app; reflexivity|apply Forall_app; split; assumption|exact HndB'|].
    intros j Hj. rewrite tab_get_set by lia. destruct (Nat.eqb_spec j i) as [->|Hji].
    + replace (bassoc i (B1 ++ B2)) with (@None (list node)); [reflexivity|].
      symmetry. apply bassoc_None. rewrite map_app. intros H. apply in_app_or in H. tauto.
    + rewrite (Htab j Hj). rewrite (bassoc_other_del j i B1 _ B2 Hji). reflexivity.
  - (* first node of the bucket: the range starts at its successor *)
    cbn [app] in *. rewrite Hek.
    assert (Hlast : last_key (b0 :: b') k <> k).
    { intros Hc. pose proof (last_key_In (b0 :: b') k ltac:(discriminate)) as Hin. rewrite Hc in Hin. exact (Hkb Hin). }
    rewrite (key_eqb_neq k _ (fun H => Hlast (eq_sym H))), key_eqb_refl.
    assert (Enext : l_next k (h_list h) = Some (fst b0)).
    { rewrite Hl. cbn [app]. apply l_next_mid; assumption. }
    rewrite Enext. split; [|apply Hcontent].
    apply (Hclose _ (B1 ++ (i, b0 :: b') :: B2)); [rewrite tab_set_length; exact Hlen|exact Hflat|apply Hblock; discriminate|exact HndBi|].
    intros j Hj. rewrite tab_get_set by lia. destruct (Nat.eqb_spec j i) as [->|Hji].
    + rewrite bassoc_mid by exact Hni. rewrite range_of_cons. f_equal. f_equal. apply (last_key_app [] (b0 :: b')). discriminate.
    + rewrite (Htab j Hj). apply f_equal with (f := fun o => match o with Some s => range_of s | None => None end).
      apply bassoc_other; exact Hji.
  - (* last node of the bucket: the range ends at its predecessor *)
    rewrite app_nil_r in *. rewrite Hek.
    assert (Hfirst : fst a0 <> k) by (intros Hc; apply Hka; left; exact Hc).
    rewrite (key_eqb_neq _ _ Hfirst), key_eqb_refl.
    destruct (exists_last (l := a0 :: a')) as (a1 & ep & Ea); [discriminate|].
    assert (Eprev : l_prev k (h_list h) = Some (fst ep)).
    { rewrite Hl, Ea. unfold l_prev. rewrite <- app_assoc. cbn [app]. rewrite app_assoc. rewrite app_assoc.
      apply l_prev_aux_mid; [|exact Hek]. rewrite <- app_assoc, keys_app. intros H. apply in_app_or in H.
      destruct H as [H|H]; [exact (Hk1 H)|]. rewrite <- Ea in H. exact (Hka H). }
    rewrite Eprev. split; [|apply Hcontent].
    apply (Hclose _ (B1 ++ (i, a0 :: a') :: B2)); [rewrite tab_set_length; exact Hlen|exact Hflat|apply Hblock; discriminate|exact HndBi|].
    intros j Hj. rewrite tab_get_set by lia. destruct (Nat.eqb_spec j i) as [->|Hji].
    + rewrite bassoc_mid by exact Hni. rewrite range_of_cons. f_equal. f_equal. rewrite Ea. symmetry. apply last_key_snoc.
    + rewrite (Htab j Hj). apply f_equal with (f := fun o => match o with Some s => range_of s | None => None end).
      apply bassoc_other; exact Hji.
  - (* a node in the middle: the range is unchanged *)
    assert (Hfirst : fst a0 <> k) by (intros Hc; apply Hka; left; exact Hc).
    assert (Hlast : last_key (b0 :: b') (fst ek) <> k).
    { intros Hc. pose proof (last_key_In (b0 :: b') (fst ek) ltac:(discriminate)) as Hin. rewrite Hc in Hin. exact (Hkb Hin). }
    assert (Hfl : fst a0 <> last_key (b0 :: b') (fst ek)).
    { intros Hc. rewrite keys_app in Hndseg. apply NoDup_app_inv in Hndseg. destruct Hndseg as (_ & _ & Hdis).
      apply (Hdis (fst a0)); [left; reflexivity|]. right. rewrite Hc. apply (last_key_In (b0 :: b')). discriminate. }
    rewrite (key_eqb_neq _ _ Hfl), (key_eqb_neq _ _ Hfirst), (key_eqb_neq _ _ Hlast).
    split; [|apply Hcontent].
    apply (Hclose _ (B1 ++ (i, (a0 :: a') ++ b0 :: b') :: B2)); [exact Hlen|exact Hflat|apply Hblock; discriminate|exact HndBi|].
    intros j Hj. rewrite (Htab j Hj). destruct (Nat.eq_dec j i) as [->|Hji].
    + rewrite !bassoc_mid by exact Hni. rewrite !range_of_first_last. f_equal. f_equal.
      destruct b' as [|b1 b']; [reflexivity|]. apply (last_key_app [b0] (b1 :: b')). discriminate.
    + apply f_equal with (f := fun o => match o with Some s => range_of s | None => None end).
      apply bassoc_other; exact Hji.
Qed.

(* ---------- clear ---------- *)
Definition clear_fold (l : list node) (tab : list range) : list range :=
  fold_left (fun tab e => tab_set tab (bucket_of (length tab) (fst e)) None) l tab.

Lemma clear_fold_length l : forall tab, length (clear_fold l tab) = length tab.
Proof.
  unfold clear_fold. induction l as [|e l IH]; intros tab; cbn [fold_left]; [reflexivity|].
  rewrite IH, tab_set_length. reflexivity.
Qed.
Lemma tab_get_set_none tab i j : tab_get tab j = None -> tab_get (tab_set tab i None) j = None.
Proof.
  unfold tab_get. revert i j. induction tab as [|x tab IH]; intros [|i] [|j]; cbn [tab_set nth]; auto.
Qed.
Lemma clear_fold_keeps_none l : forall tab j, tab_get tab j = None -> tab_get (clear_fold l tab) j = None.
Proof.
  unfold clear_fold. induction l as [|e l IH]; intros tab j H; cbn [fold_left]; [exact H|].
  apply IH. apply tab_get_set_none. exact H.
Qed.
Lemma clear_fold_resets l : forall tab e, 0 < length tab -> In e l ->
  tab_get (clear_fold l tab) (bucket_of (length tab) (fst e)) = None.
Proof.
  unfold clear_fold. induction l as [|e0 l IH]; intros tab e Hn Hin; [destruct Hin|]. cbn [fold_left].
  destruct Hin as [<-|Hin].
  - apply (clear_fold_keeps_none l). rewrite tab_get_set by (apply bucket_lt; exact Hn). rewrite Nat.eqb_refl. reflexivity.
  - pose proof (IH (tab_set tab (bucket_of (length tab) (fst e0)) None) e) as H. rewrite tab_set_length in H.
    apply H; assumption.
Qed.

Lemma h_clear_inv h : HInv h -> HInv (h_clear h) /\ h_list (h_clear h) = [].
Proof.
  intros [[B HB] Hs]. split; [|reflexivity]. split; [|reflexivity]. exists []. unfold h_clear. cbn [h_tab h_list].
  destruct (N.of_nat (length (h_tab h)) <=? h_size h / 4)%N.
  - rewrite repeat_length. apply BInv_empty.
  - fold (clear_fold (h_list h) (h_tab h)). rewrite clear_fold_length.
    pose proof HB as (Hlen & Hl & HBk & HndB & Hnd & Htab).
    repeat split; [apply clear_fold_length|constructor|constructor|constructor|].
    intros j Hj. cbn [bassoc]. destruct (bassoc j B) as [seg|] eqn:Eb.
    + destruct (bassoc_split j B seg Eb) as (B1 & B2 & -> & _).
      apply Forall_app in HBk. destruct HBk as [_ HB2]. apply Forall_cons_iff in HB2. destruct HB2 as [(Hne & Hbk & _) _].
      cbn [fst snd] in *. destruct seg as [|e seg]; [congruence|].
      rewrite <- (Hbk e (or_introl eq_refl)). apply clear_fold_resets; [lia|].
      rewrite Hl, flat_app, flat_cons. apply in_or_app; right. left; reflexivity.
    + apply clear_fold_keeps_none. rewrite (Htab j Hj), Eb. reflexivity.
Qed.

(* ---------- the reference: a finite map key -> value ---------- *)
Definition fmap := key -> option V.
Definition f_upd (M : fmap) (k : key) (v : option V) : fmap := fun k' => if key_eqb k' k then v else M k'.
Definition f_step (o : hop) (M : fmap) : fmap * hout :=
  match o with
  | HInsert k v => match M k with Some _ => (M, HInserted false) | None => (f_upd M k (Some v), HInserted true) end
  | HFind k => (M, match M k with Some v => HFound v | None => HNotFound end)
  | HErase k => match M k with Some v => (f_upd M k None, HFound v) | None => (M, HNotFound) end
  | HClear => (fun _ => None, HDone)
  | HRehash _ => (M, HDone)
  end.
Fixpoint f_run (ops : list hop) (M : fmap) : list hout :=
  match ops with
  | [] => []
  | o :: r => snd (f_step o M) :: f_run r (fst (f_step o M))
  end.
(* rehash(0) is only legal on an empty map (it is what nl_clear does after clear() when limit = 0) *)
Fixpoint hops_ok (ops : list hop) (M : fmap) : Prop :=
  match ops with
  | [] => True
  | o :: r => match o with HRehash O => forall k, M k = None | _ => True end /\ hops_ok r (fst (f_step o M))
  end.

Definition represents_map (h : hmap) (M : fmap) : Prop :=
  HInv h /\ forall k, lfind k (h_list h) = match M k with Some v => Some (k, v) | None => None end.

Lemma h_step_refines o h M : represents_map h M -> match o with HRehash O => forall k, M k = None | _ => True end ->
  represents_map (fst (h_step o h)) (fst (f_step o M)) /\ snd (h_step o h) = snd (f_step o M).
Proof.
  intros [HI HM] Hok. destruct o as [k v|k|k| |n]; cbn [h_step f_step].
  - destruct (h_insert_inv k v h HI) as [HI' Hc]. destruct (h_insert k v h) as [h' b]. cbn [fst snd] in *.
    rewrite (HM k) in Hc. destruct (M k) as [v0|] eqn:EM; destruct Hc as [-> Hc]; cbn [fst snd]; (split; [|reflexivity]); (split; [exact HI'|]).
    + intros k'. rewrite Hc. apply HM.
    + intros k'. rewrite Hc. unfold f_upd. rewrite (key_eqb_sym k' k).
      destruct (key_eqb_spec k k') as [->|Hn]; [reflexivity|apply HM].
  - rewrite (h_find_correct h k HI), (HM k). destruct (M k); (split; [split; assumption|reflexivity]).
  - rewrite (h_find_correct h k HI), (HM k). destruct (M k) as [v0|] eqn:EM; cbn [fst snd]; [|split; [split; assumption|reflexivity]].
    destruct (h_erase_inv k h (k, v0) HI) as [HI' Hc]; [rewrite (HM k), EM; reflexivity|].
    split; [|reflexivity]. split; [exact HI'|]. intros k'. rewrite Hc. unfold f_upd. destruct (key_eqb k' k); [reflexivity|apply HM].
  - destruct (h_clear_inv h HI) as [HI' El]. cbn [fst snd]. split; [|reflexivity]. split; [exact HI'|].
    intros k. rewrite El. reflexivity.
  - cbn [fst snd]. destruct (h_rehash_inv n h HI) as (HI' & Hc & _).
    { destruct n as [|n]; [right|left; lia]. destruct (h_list h) as [|e l] eqn:El; [reflexivity|].
      pose proof (HM (fst e)) as H. cbn [lfind] in H. rewrite key_eqb_refl, (Hok (fst e)) in H. discriminate. }
    split; [|reflexivity]. split; [exact HI'|]. intros k. rewrite Hc. apply HM.
Qed.

Theorem h_run_refines ops : forall h M, represents_map h M -> hops_ok ops M ->
  map fst (h_run ops h) = f_run ops M /\
  Forall (fun x => fst (snd x) = N.of_nat (length (snd (snd x))) /\ NoDup (keys (snd (snd x)))) (h_run ops h).
Proof.
  induction ops as [|o r IH]; intros h M HR Hok; [split; [reflexivity|constructor]|].
  cbn [hops_ok] in Hok. destruct Hok as [Hok1 Hok2].
  destruct (h_step_refines o h M HR Hok1) as [HR' Ho].
  cbn [h_run f_run]. destruct (h_step o h) as [h1 x]. cbn [fst snd map] in *.
  destruct (IH h1 (fst (f_step o M)) HR' Hok2) as [H1 H2].
  split; [rewrite Ho, H1; reflexivity|]. constructor; [|exact H2]. cbn [fst snd].
  split; [exact (proj2 (proj1 HR'))|exact (HInv_nodup h1 (proj1 HR'))].
Qed.

Lemma represents_empty : represents_map (@h_empty V) (fun _ => None).
Proof. split; [exact h_empty_inv|intros k; reflexivity]. Qed.

End HMP.
