(* C07: the completeness half for limited caches.  When the limit is at least the number of distinct keys a history
   ever stores, check_limits never finds anything to evict, so the four-index model answers exactly as the map
   specification (every live entry is found, stats are exact) - the clause "when no size limit is in play a live entry
   is always found" for limits that are large enough, not only for limit 0. *)
From CppcmsV Require Import Base.Tac C07.Defs C07.Spec C07.Util C07.ProofsInv C07.MapSpec C07.ProofsSpec C07.ProofsCor.
Local Open Scope N_scope.

(* the keys a history stores under *)
Definition store_keys (ops : list op) : list key :=
  flat_map (fun o => match o with Store k _ _ _ _ _ _ => [k] | _ => [] end) ops.

Lemma store_keys_app l1 l2 : store_keys (l1 ++ l2) = store_keys l1 ++ store_keys l2.
Proof. unfold store_keys. apply flat_map_app. Qed.

(* the eviction loop of this store finds nothing to do *)
Definition no_evict (now : Z) (o : op) (a : astate) : Prop :=
  match o with
  | Store k _ _ _ _ _ _ => a_evict (S (length (a_ent (a_delete k a)))) now [] (a_delete k a) = a_delete k a
  | _ => True
  end.

Lemma a_evict_room fuel now a : a_size a < a_lim a -> a_evict fuel now [] a = a.
Proof.
  intros H. destruct fuel; cbn [a_evict]; destruct (N.leb_spec (a_lim a) (a_size a)); try lia;
    cbn [orb andb]; rewrite andb_false_r; reflexivity.
Qed.

(* counting: the entries are pairwise different keys of K, and k is a key of K that is not among them any more *)
Lemma room_after_delete K k a : NoDup K -> awf a -> incl (map fst (a_ent a)) K -> In k K ->
  N.of_nat (length K) <= a_lim a -> a_size (a_delete k a) < a_lim (a_delete k a).
Proof.
  intros HK Hwf Hin Hk Hl. unfold a_size, a_delete; cbn [a_ent a_lim].
  assert (Hnd : NoDup (k :: map fst (premove k (a_ent a)))).
  { constructor; [rewrite keys_premove, kremove_In; tauto|apply premove_NoDup; exact Hwf]. }
  assert (Hi : incl (k :: map fst (premove k (a_ent a))) K).
  { intros x [<-|Hx]; [exact Hk|]. apply Hin. rewrite keys_premove, kremove_In in Hx. tauto. }
  pose proof (NoDup_incl_length Hnd Hi) as Hlen. cbn [length] in Hlen. rewrite map_length in Hlen. lia.
Qed.

Lemma no_evict_K K now o a : NoDup K -> awf a -> incl (map fst (a_ent a)) K -> incl (store_keys [o]) K ->
  N.of_nat (length K) <= a_lim a -> no_evict now o a.
Proof.
  intros HK Hwf Hin Ho Hl. destruct o as [k v tin d g f nem|k|t|k| |n]; cbn [no_evict]; try exact I.
  apply a_evict_room. apply (room_after_delete K); try assumption. apply Ho. left; reflexivity.
Qed.

(* one step, exact, with an idle eviction loop instead of limit 0 *)
Lemma a_step_exact_ne now o a M cur : awf a -> no_evict now o a -> exact a (M, cur) -> op_no_fault o ->
  fst (fst (a_step now o a)) = fst (m_step now o (M, cur)) /\
  a_lim (snd (fst (a_step now o a))) = a_lim a /\
  exact (snd (fst (a_step now o a))) (snd (m_step now o (M, cur))) /\
  snd (a_step now o a) = m_out now o (M, cur).
Proof.
  intros Hwf Hne [Hs Hg] Hop. cbn [fst snd] in Hs, Hg.
  destruct o as [k v tin d g f nem|k|t|k| |n]; cbn [a_step m_step m_out fst snd].
  - cbn [op_no_fault] in Hop. destruct Hop as [-> ->]. cbn [no_evict] in Hne.
    split; [reflexivity|]. split; [reflexivity|]. split; [|reflexivity].
    unfold a_store. rewrite Hne.
    split; cbn [fst snd a_ent a_gen a_delete m_gen m_store]; [|rewrite Hg; reflexivity].
    intros k'. rewrite pfind_app, pfind_premove. unfold m_upd. cbn [pfind]. rewrite (key_eqb_sym k k').
    destruct (key_eqb k' k); [rewrite Hg; reflexivity|].
    rewrite <- Hs. destruct (pfind k' (a_ent a)); reflexivity.
  - pose proof (a_fetch_exact now k a (M, cur) (conj Hs Hg)) as Ho.
    destruct (a_fetch_sound now k a (M, cur)) as (H1 & H2 & H3 & _); [split; [intros k0 c0 H0; cbn [fst]; rewrite <- Hs; exact H0|exact Hg]|].
    destruct (a_fetch now k a) as [a' r]; cbn [fst snd] in *.
    split; [reflexivity|]. split; [exact H3|]. split; [|exact Ho].
    split; cbn [fst snd]; [rewrite H1; exact Hs|rewrite H2; exact Hg].
  - split; [reflexivity|]. split; [reflexivity|]. split; [|reflexivity].
    split; cbn [fst snd a_rise a_ent a_gen]; [|exact Hg].
    intros k. rewrite pfind_filter by exact Hwf. unfold m_rise. rewrite <- Hs.
    destruct (pfind k (a_ent a)) as [c0|]; [|reflexivity].
    unfold has_trig; cbn [snd]. destruct (kmem t (c_trigs c0)); reflexivity.
  - split; [reflexivity|]. split; [reflexivity|]. split; [|reflexivity].
    split; cbn [fst snd a_delete a_ent a_gen]; [|exact Hg].
    intros k'. rewrite pfind_premove. unfold m_upd. destruct (key_eqb k' k); [reflexivity|apply Hs].
  - split; [reflexivity|]. split; [reflexivity|]. split; [|reflexivity].
    split; cbn [fst snd a_clear a_ent a_gen]; [reflexivity|exact Hg].
  - split; [reflexivity|]. split; [reflexivity|]. split; [|reflexivity]. split; assumption.
Qed.

(* the entry keys stay inside K *)
Lemma a_step_keys K now o a : no_evict now o a -> op_no_fault o ->
  incl (map fst (a_ent a)) K -> incl (store_keys [o]) K ->
  incl (map fst (a_ent (snd (fst (a_step now o a))))) K.
Proof.
  intros Hne Hop Hin Ho. destruct o as [k v tin d g f nem|k|t|k| |n]; cbn [a_step fst snd].
  - cbn [op_no_fault] in Hop. destruct Hop as [-> ->]. cbn [no_evict] in Hne. unfold a_store. rewrite Hne.
    cbn [a_ent a_delete]. rewrite map_app. cbn [map fst]. intros x Hx. apply in_app_or in Hx.
    destruct Hx as [Hx|[<-|[]]]; [|apply Ho; left; reflexivity].
    apply Hin. rewrite keys_premove, kremove_In in Hx. tauto.
  - unfold a_fetch. destruct (pfind k (a_ent a)); [destruct (_ <? _)%Z|]; cbn [fst a_ent]; exact Hin.
  - cbn [a_rise a_ent]. intros x Hx. apply Hin. apply in_map_iff in Hx. destruct Hx as (e & <- & He).
    apply filter_In in He. apply in_map. tauto.
  - cbn [a_delete a_ent]. intros x Hx. apply Hin. rewrite keys_premove, kremove_In in Hx. tauto.
  - cbn [a_clear a_ent map]. intros x [].
  - exact Hin.
Qed.

Lemma run_exact_K ops : forall now s Mg K, Inv s -> NoDup K -> N.of_nat (length K) <= limit s ->
  incl (map fst (primary s)) K -> incl (store_keys ops) K ->
  exact (abs s) Mg -> Forall op_no_fault ops ->
  Forall2 ans_exact (snd (run now ops s)) (m_trace now ops Mg).
Proof.
  induction ops as [|o ops IH]; intros now s [M cur] K I HK Hl Hin Hk Hs Hops; [constructor|].
  inversion Hops as [|? ? Ho Hops']; subst.
  assert (Hk1 : incl (store_keys [o]) K).
  { intros x Hx. apply Hk. change (o :: ops) with ([o] ++ ops). rewrite store_keys_app. apply in_or_app; left; exact Hx. }
  assert (Hk2 : incl (store_keys ops) K).
  { intros x Hx. apply Hk. change (o :: ops) with ([o] ++ ops). rewrite store_keys_app. apply in_or_app; right; exact Hx. }
  pose proof (no_evict_K K now o (abs s) HK (inv_awf s I) Hin Hk1 Hl) as Hne.
  cbn [run m_trace]. destruct (step_ref now o s I) as [I1 E1].
  destruct (a_step_exact_ne now o (abs s) M cur (inv_awf s I) Hne Hs Ho) as (A1 & A2 & A3 & A4).
  pose proof (a_step_keys K now o (abs s) Hne Ho Hin Hk1) as A5.
  rewrite <- E1 in A1, A2, A3, A4, A5.
  destruct (step now o s) as [[now1 s1] x]; cbn [fst snd] in *.
  assert (Hl1 : N.of_nat (length K) <= limit s1).
  { change (limit s1) with (a_lim (abs s1)). rewrite A2. exact Hl. }
  specialize (IH now1 s1 (snd (m_step now o (M, cur))) K I1 HK Hl1 A5 Hk2 A3 Hops').
  destruct (run now1 ops s1) as [[now2 s2] l]; cbn [fst snd] in *.
  constructor; [|rewrite <- A1; exact IH].
  split; cbn [fst snd]; [exact A4|].
  exists (primary s1). split; [|rewrite (stats_abs s1 I1); reflexivity].
  split; [exact (inv_keys s1 I1)|exact (proj1 A3)].
Qed.

(* DESIGN theorem 3, completeness half: a cache whose limit is at least the number of distinct keys ever stored
   behaves exactly as the map specification *)
Theorem run_exact_within_limit ops now lim K : NoDup K -> incl (store_keys ops) K -> N.of_nat (length K) <= lim ->
  Forall op_no_fault ops ->
  Forall2 ans_exact (snd (run now ops (init lim))) (m_trace now ops m_init).
Proof.
  intros HK Hk Hl H. apply (run_exact_K ops now (init lim) m_init K); try assumption.
  - apply init_inv.
  - intros x [].
  - apply init_exact.
Qed.

Lemma last_fetch_exact_K now lim K hist k : NoDup K -> incl (store_keys hist) K -> N.of_nat (length K) <= lim ->
  Forall op_no_fault hist ->
  last_out (snd (run now (hist ++ [Fetch k]) (init lim))) = m_fetch (clock now hist) k (fst (snd (m_run now hist m_init))).
Proof.
  intros HK Hk Hl H. assert (H' : Forall op_no_fault (hist ++ [Fetch k])).
  { apply Forall_app. split; [exact H|constructor; [exact I|constructor]]. }
  assert (Hk' : incl (store_keys (hist ++ [Fetch k])) K).
  { rewrite store_keys_app. cbn. rewrite app_nil_r. exact Hk. }
  pose proof (run_exact_within_limit _ now lim K HK Hk' Hl H') as HS. rewrite trace_last_fetch in HS.
  apply Forall2_snoc_r in HS. destruct HS as (l0 & a & -> & [Ha _]). rewrite last_out_snoc. exact Ha.
Qed.

(* D for limited caches: a live entry is always found when the limit is not smaller than the number of keys in use *)
Theorem live_entry_found_within_limit_l now lim K pre k v tin d g mid :
  NoDup K -> incl (store_keys (pre ++ Store k v tin d g FNone [] :: mid)) K -> N.of_nat (length K) <= lim ->
  Forall op_no_fault (pre ++ Store k v tin d g FNone [] :: mid) ->
  forallb (fun o => negb (invalidates k (store_trigs k tin) o)) mid = true ->
  (clock now (pre ++ Store k v tin d g FNone [] :: mid) <= d)%Z ->
  exists g', (forall x, g = Some x -> g' = x) /\
    last_out (snd (run now ((pre ++ Store k v tin d g FNone [] :: mid) ++ [Fetch k]) (init lim))) = OHit v (store_trigs k tin) d g'.
Proof.
  intros HK Hk Hl Hops Hmid Hd.
  assert (Hmid' : forallb (fun o => negb (stores_key k o)) mid = true).
  { apply forallb_forall. intros o Ho. rewrite forallb_forall in Hmid. specialize (Hmid o Ho).
    destruct o; cbn [stores_key invalidates] in *; try reflexivity. exact Hmid. }
  destruct (spec_after_store now pre k v tin d g FNone [] mid Hmid') as (g' & Hg & _ & _ & Hkk).
  assert (Hnf : Forall op_no_fault mid).
  { pose proof Hops as Hops2. apply Forall_app in Hops2. destruct Hops2 as [_ Hops2]. inversion Hops2; assumption. }
  specialize (Hkk eq_refl Hnf Hmid). unfold mk_of in Hkk.
  exists g'. split; [exact Hg|]. rewrite (last_fetch_exact_K now lim K _ k HK Hk Hl Hops).
  unfold m_fetch. rewrite Hkk. cbn [c_deadline c_data c_trigs c_gen].
  destruct (Z.ltb_spec d (clock now (pre ++ Store k v tin d g FNone [] :: mid))); [lia|reflexivity].
Qed.
