(* C07/C08: executable model of cppcms::impl::mem_cache<Setup> (src/cache_storage.cpp).
   Shared by C07 (no stale data) and C08 (limit / eviction order / stats).
   No proofs here: this file must keep compiling (and extracting) when a proof breaks.

   Representation.  C++ iterators and pointers into the four containers are modelled by the
   key of the entry they point at (the invariant Inv of Proofs.v shows keys are unique in every
   container, so erase-by-iterator and erase-by-key coincide).
     primary  : hash_map<string,container>       -> association list, insertion at the end
                                                    (iteration order of the hash map is not observable)
     triggers : hash_map<string,list<pointer>>   -> association list trigger -> entry keys (push_front)
     timeout  : multimap<time_t,pointer>         -> list sorted by deadline, equal deadlines in
                                                    insertion order (C++11 multimap::insert = upper bound)
     lru      : list<pointer>                    -> list of keys, head = most recently used
   Strings (keys, triggers, values) are byte lists; time_t is Z; counters are unbounded N
   (size-- / triggers_count-- are N.pred: they never underflow by Inv).
   Environment of the process-shared variant that is not a function of the cache state
   (not_enough_memory(), std::bad_alloc, the size_limit() test) enters as oracle arguments of store. *)
From Coq Require Import NArith ZArith List Bool.
Import ListNotations.
Local Open Scope N_scope.

Definition key := list N.

Fixpoint key_eqb (a b : key) : bool :=
  match a, b with
  | [], [] => true
  | x :: a', y :: b' => (x =? y) && key_eqb a' b'
  | _, _ => false
  end.

Fixpoint kmem (k : key) (l : list key) : bool :=
  match l with
  | [] => false
  | x :: r => key_eqb x k || kmem k r
  end.

(* std::set<std::string> built from a sequence: duplicates collapse (order is not observable) *)
Fixpoint dedup (l : list key) : list key :=
  match l with
  | [] => []
  | x :: r => if kmem x r then dedup r else x :: dedup r
  end.

Record container := mkC {
  c_data : list N;          (* string_type data *)
  c_trigs : list key;       (* triggers_list_type triggers : names of the triggers it is linked to *)
  c_deadline : Z;           (* timeout->first *)
  c_gen : N                 (* uint64_t generation *)
}.

Record state := mkS {
  primary : list (key * container);
  triggers : list (key * list key);
  timeout : list (Z * key);
  lru : list key;
  limit : N;
  size : N;
  tcount : N;               (* triggers_count *)
  gen : N;                  (* generation *)
  err : bool                (* model-only: set when a loop ran out of fuel; proved unreachable *)
}.

Definition set_lru (s : state) (l : list key) : state :=
  mkS (primary s) (triggers s) (timeout s) l (limit s) (size s) (tcount s) (gen s) (err s).
Definition set_gen (s : state) (g : N) : state :=
  mkS (primary s) (triggers s) (timeout s) (lru s) (limit s) (size s) (tcount s) g (err s).
Definition set_err (s : state) : state :=
  mkS (primary s) (triggers s) (timeout s) (lru s) (limit s) (size s) (tcount s) (gen s) true.

(* ---- container primitives ---- *)
Fixpoint pfind (k : key) (p : list (key * container)) : option container :=
  match p with
  | [] => None
  | (k', c) :: r => if key_eqb k' k then Some c else pfind k r
  end.
Definition premove (k : key) (p : list (key * container)) : list (key * container) :=
  filter (fun e => negb (key_eqb (fst e) k)) p.
Definition kremove (k : key) (l : list key) : list key :=
  filter (fun x => negb (key_eqb x k)) l.
Definition tremove (k : key) (l : list (Z * key)) : list (Z * key) :=
  filter (fun e => negb (key_eqb (snd e) k)) l.
(* multimap::insert: after every element whose deadline is <= d *)
Fixpoint tinsert (d : Z) (k : key) (l : list (Z * key)) : list (Z * key) :=
  match l with
  | [] => [(d, k)]
  | (d', k') :: r => if (d' <=? d)%Z then (d', k') :: tinsert d k r else (d, k) :: l
  end.
Fixpoint tfind (t : key) (trs : list (key * list key)) : option (list key) :=
  match trs with
  | [] => None
  | (t', l) :: r => if key_eqb t' t then Some l else tfind t r
  end.
(* i->first->second.erase(i->second); if(i->first->second.empty()) triggers.erase(i->first); *)
Fixpoint trig_unlink (k t : key) (trs : list (key * list key)) : list (key * list key) :=
  match trs with
  | [] => []
  | (t', l) :: r =>
      if key_eqb t' t then
        match kremove k l with
        | [] => r
        | l' => (t', l') :: r
        end
      else (t', l) :: trig_unlink k t r
  end.
(* add_trigger: triggers.insert(pair(key,empty list)) (keeps an existing one); push_front(p) *)
Fixpoint trig_link (k t : key) (trs : list (key * list key)) : list (key * list key) :=
  match trs with
  | [] => [(t, [k])]
  | (t', l) :: r => if key_eqb t' t then (t', k :: l) :: r else (t', l) :: trig_link k t r
  end.
Fixpoint last_opt (l : list key) : option key :=
  match l with
  | [] => None
  | [x] => Some x
  | _ :: r => last_opt r
  end.

(* ---- delete_node(p) ---- *)
Definition unlink_all (k : key) (ts : list key) (acc : list (key * list key) * N) : list (key * list key) * N :=
  fold_left (fun a t => (trig_unlink k t (fst a), N.pred (snd a))) ts acc.

Definition delete_node (k : key) (s : state) : state :=
  match pfind k (primary s) with
  | None => s                                            (* callers only pass valid pointers *)
  | Some c =>
      let '(trs, tc) := unlink_all k (c_trigs c) (triggers s, tcount s) in
      mkS (premove k (primary s)) trs (tremove k (timeout s)) (kremove k (lru s))
          (limit s) (N.pred (size s)) tc (gen s) (err s)
  end.

(* ---- fetch ---- *)
Inductive out :=
| OHit (v : list N) (trigs : list key) (d : Z) (g : N)
| OMiss
| ONone.

Definition fetch (now : Z) (k : key) (s : state) : state * out :=
  match pfind k (primary s) with
  | None => (s, OMiss)
  | Some c =>
      if (c_deadline c <? now)%Z then (s, OMiss)
      else (set_lru s (k :: kremove k (lru s)),
            OHit (c_data c) (c_trigs c) (c_deadline c) (c_gen c))
  end.

(* ---- rise ---- *)
Definition rise (t : key) (s : state) : state :=
  match tfind t (triggers s) with
  | None => s
  | Some kill_list => fold_left (fun s k => delete_node k s) kill_list s
  end.

(* ---- nl_clear / clear ---- *)
Definition clear (s : state) : state :=
  mkS [] [] [] [] (limit s) 0 0 (gen s) (err s).

(* ---- check_limits ----
   while(size > 0 && (not_enough_memory() || (size>=limit && limit>0)))
   nem : successive answers of not_enough_memory() (false once exhausted; always [] for thread_settings) *)
Fixpoint check_limits_loop (fuel : nat) (now : Z) (nem : list bool) (s : state) : state :=
  let pressure := match nem with b :: _ => b | [] => false end in
  if (0 <? size s) && (pressure || ((limit s <=? size s) && (0 <? limit s))) then
    match fuel with
    | O => set_err s
    | S f =>
        let lru_case :=
          match last_opt (lru s) with
          | Some k => check_limits_loop f now (tl nem) (delete_node k s)
          | None => s                                          (* break *)
          end in
        match timeout s with
        | (d, k) :: _ => if (d <? now)%Z then check_limits_loop f now (tl nem) (delete_node k s) else lru_case
        | [] => lru_case
        end
    end
  else s.
Definition check_limits (now : Z) (nem : list bool) (s : state) : state :=
  check_limits_loop (S (N.to_nat (size s))) now nem s.

(* ---- store ----
   fault: what the allocator does during this call.
     FNone             no std::bad_alloc, size <= size_limit()
     FDropBefore       bad_alloc while copying the value (first try block): the catch block calls
                       remove(key) and returns - the superseded entry goes, nothing is stored
     FDropAfterDelete  the test size > size_limit() fires after the old entry was deleted
     FClear b          bad_alloc inside the second try block: nl_clear(); b tells whether it was thrown
                       after the statement generation++ had been executed *)
Inductive fault := FNone | FDropBefore | FDropAfterDelete | FClear (bumped : bool).

Definition link_all (k : key) (ts : list key) (acc : list (key * list key) * N) : list (key * list key) * N :=
  fold_left (fun a t => (trig_link k t (fst a), N.succ (snd a))) ts acc.

Definition store_trigs (k : key) (tin : list key) : list key :=
  let ts := dedup tin in
  if kmem k ts then ts else k :: ts.

(* cont.generation = gen ? *gen : generation++ *)
Definition bump (g : option N) (n : N) : N := match g with Some _ => n | None => N.succ n end.

Definition store (now : Z) (k : key) (v : list N) (tin : list key) (d : Z) (g : option N)
                 (f : fault) (nem : list bool) (s : state) : state :=
  match f with
  | FDropBefore => delete_node k s                                (* catch(std::bad_alloc) { remove(key); return; } *)
  | _ =>
    let s1 := delete_node k s in                                  (* if(main!=primary.end()) delete_node(main) *)
    match f with
    | FDropAfterDelete => s1
    | FClear b => if b then set_gen (clear s1) (bump g (gen s1)) else clear s1
    | _ =>
      let s2 := check_limits now nem s1 in
      let ts := store_trigs k tin in
      let c := mkC v ts d (match g with Some x => x | None => gen s2 end) in
      let '(trs, tc) := link_all k ts (triggers s2, tcount s2) in
      mkS (primary s2 ++ [(k, c)]) trs (tinsert d k (timeout s2)) (k :: lru s2)
          (limit s2) (N.succ (size s2)) tc
          (bump g (gen s2)) (err s2)
    end
  end.

Definition remove (k : key) (s : state) : state := delete_node k s.

Definition init (lim : N) : state := mkS [] [] [] [] lim 0 0 0 false.

(* ---- operation sequences with a virtual clock ---- *)
Inductive op :=
| Store (k : key) (v : list N) (tin : list key) (d : Z) (g : option N) (f : fault) (nem : list bool)
| Fetch (k : key)
| Rise (t : key)
| Remove (k : key)
| Clear
| Tick (now : Z).

Definition step (now : Z) (o : op) (s : state) : Z * state * out :=
  match o with
  | Store k v tin d g f nem => (now, store now k v tin d g f nem s, ONone)
  | Fetch k => let (s', r) := fetch now k s in (now, s', r)
  | Rise t => (now, rise t s, ONone)
  | Remove k => (now, remove k s, ONone)
  | Clear => (now, clear s, ONone)
  | Tick n => (n, s, ONone)
  end.

(* the answer after every operation: fetch result and stats(keys,triggers) *)
Definition answer := (out * (N * N))%type.
Definition stats (s : state) : N * N := (size s, tcount s).

Fixpoint run (now : Z) (ops : list op) (s : state) : Z * state * list answer :=
  match ops with
  | [] => (now, s, [])
  | o :: r =>
      let '(now1, s1, a) := step now o s in
      let '(now2, s2, l) := run now1 r s1 in
      (now2, s2, (a, stats s1) :: l)
  end.
