(* C07: executable model of cppcms::cache_interface and cppcms::triggers_recorder (src/cache_interface.cpp) on top
   of the cache model of Defs.v.  Definitions only.
     triggers_   : std::set<std::string>              -> list of names (an unordered set: observations sort and dedup)
     recorders_  : std::set<triggers_recorder *>      -> list of the recorders' own sets, innermost (latest attached) first
     page_compression_used_                           -> i_gz
   add_trigger(t) inserts t into every attached recorder and into triggers_.
   One cache_interface object belongs to one request context: INewRequest models the next request (a fresh
   cache_interface over the same cache back end). *)
From Coq Require Import NArith ZArith List Bool.
From CppcmsV Require Import C07.Defs.
Import ListNotations.
Local Open Scope N_scope.

(* (sizeof(time_t)==4 ? 0x7FFFFFFF : 0x7FFFFFFFFFFFFFFF) - 3600*24  with a 64-bit time_t *)
Definition infty : Z := (9223372036854775807 - 86400)%Z.
(* deadtime(sec): sec < 0 means for ever (the Year-2038 overflow throw is not modelled: now + sec stays in range) *)
Definition deadtime (now sec : Z) : Z := if (sec <? 0)%Z then infty else (now + sec)%Z.

Record istate := mkI {
  i_cache : state;
  i_page : list key;            (* triggers_ *)
  i_recs : list (list key);     (* the sets of the attached recorders, innermost first *)
  i_gz : bool                   (* page_compression_used_ *)
}.

Definition i_init (lim : N) : istate := mkI (init lim) [] [] false.

(* cache_interface::add_trigger *)
Definition i_add (t : key) (st : istate) : istate :=
  mkI (i_cache st) (t :: i_page st) (map (cons t) (i_recs st)) (i_gz st).
Definition i_add_all (ts : list key) (st : istate) : istate := fold_left (fun st t => i_add t st) ts st.
Definition i_set_cache (st : istate) (c : state) : istate := mkI c (i_page st) (i_recs st) (i_gz st).

(* "_Z:" / "_U:" *)
Definition page_key (gz : bool) (k : key) : key := (if gz then [95; 90; 58] else [95; 85; 58]) ++ k.

Inductive iop :=
| IStore (k : key) (v : list N) (trigs : list key) (secs : Z) (notriggers : bool)   (* store / store_frame *)
| IFetch (k : key) (notriggers : bool)                                             (* fetch / fetch_frame *)
| IAdd (t : key)                                                                   (* add_trigger *)
| IRise (t : key)
| IClear
| IReset                                                                           (* reset() *)
| ITick (now : Z)
| IAttach                                                                          (* triggers_recorder r(cache) *)
| IDetach                                                                          (* innermost r.detach() *)
| IFetchPage (k : key) (gz : bool)              (* fetch_page(k); gz = response().need_gzip() of this request *)
| IStorePage (k : key) (data : list N) (secs : Z)                                   (* store_page(k,secs); data = copied_data() *)
| INewRequest                                                                      (* next request: fresh cache_interface *)
| IStoreFail (k : key) (trigs : list key) (secs : Z) (notriggers : bool).
    (* store / store_frame of a value that cannot be copied into the shared segment: the triggers are handed to
       add_trigger as usual (that happens before the back end is called), the back end removes the key (FDropBefore) *)

Inductive iout :=
| IHit (v : list N)
| IMiss
| IRec (ts : list key)       (* set returned by detach() *)
| INoRec                     (* detach without an attached recorder: not a C++ behaviour, the drivers never do it *)
| INone.

Definition i_step (now : Z) (o : iop) (st : istate) : Z * istate * iout :=
  match o with
  | IStore k v trigs secs notr =>
      let st1 := if notr then st else i_add k (i_add_all trigs st) in
      (now, i_set_cache st1 (store now k v trigs (deadtime now secs) None FNone [] (i_cache st1)), INone)
  | IFetch k notr =>
      match fetch now k (i_cache st) with
      | (c', OHit v trs _ _) =>
          let st1 := i_set_cache st c' in
          (now, (if notr then st1 else i_add_all trs st1), IHit v)
      | (c', _) => (now, i_set_cache st c', IMiss)
      end
  | IAdd t => (now, i_add t st, INone)
  | IRise t => (now, i_set_cache st (rise t (i_cache st)), INone)
  | IClear => (now, i_set_cache st (clear (i_cache st)), INone)
  | IReset => (now, mkI (i_cache st) [] (i_recs st) (i_gz st), INone)
  | ITick n => (n, st, INone)
  | IAttach => (now, mkI (i_cache st) (i_page st) ([] :: i_recs st) (i_gz st), INone)
  | IDetach =>
      match i_recs st with
      | r :: rest => (now, mkI (i_cache st) (i_page st) rest (i_gz st), IRec r)
      | [] => (now, st, INoRec)
      end
  | IFetchPage k gz =>
      let st1 := mkI (i_cache st) (i_page st) (i_recs st) gz in
      match fetch now (page_key gz k) (i_cache st) with
      | (c', OHit v _ _ _) => (now, i_set_cache st1 c', IHit v)
      | (c', _) => (now, i_set_cache st1 c', IMiss)
      end
  | IStorePage k data secs =>
      let st1 := i_add k st in
      (now, i_set_cache st1 (store now (page_key (i_gz st) k) data (i_page st1) (deadtime now secs) None FNone [] (i_cache st1)), INone)
  | INewRequest => (now, mkI (i_cache st) [] [] false, INone)
  | IStoreFail k trigs secs notr =>
      let st1 := if notr then st else i_add k (i_add_all trigs st) in
      (now, i_set_cache st1 (store now k [] trigs (deadtime now secs) None FDropBefore [] (i_cache st1)), INone)
  end.

Definition ianswer := (iout * (N * N))%type.

Fixpoint i_run (now : Z) (ops : list iop) (st : istate) : Z * istate * list ianswer :=
  match ops with
  | [] => (now, st, [])
  | o :: r =>
      let '(now1, st1, a) := i_step now o st in
      let '(now2, st2, l) := i_run now1 r st1 in
      (now2, st2, (a, stats (i_cache st1)) :: l)
  end.

(* ---- specification vocabulary for the theorems ---- *)
(* the operation of the cache back end that an interface operation performs (Tick when it performs none) *)
Definition i_base_op (now : Z) (o : iop) (st : istate) : op :=
  match o with
  | IStore k v trigs secs _ => Store k v trigs (deadtime now secs) None FNone []
  | IFetch k _ => Fetch k
  | IRise t => Rise t
  | IClear => Clear
  | ITick n => Tick n
  | IFetchPage k gz => Fetch (page_key gz k)
  | IStorePage k data secs => Store (page_key (i_gz st) k) data (k :: i_page st) (deadtime now secs) None FNone []
  | IStoreFail k trigs secs _ => Store k [] trigs (deadtime now secs) None FDropBefore []
  | _ => Tick now
  end.

(* the names handed to add_trigger while o runs in state st, latest first *)
Definition i_added (now : Z) (o : iop) (st : istate) : list key :=
  match o with
  | IStore k _ trigs _ false => k :: rev trigs
  | IFetch k false => match snd (fetch now k (i_cache st)) with OHit _ trs _ _ => rev trs | _ => [] end
  | IAdd t => [t]
  | IStorePage k _ _ => [k]
  | IStoreFail k trigs _ false => k :: rev trigs
  | _ => []
  end.

(* all names handed to add_trigger during ops, latest first *)
Fixpoint i_log (now : Z) (ops : list iop) (st : istate) : list key :=
  match ops with
  | [] => []
  | o :: r => i_log (fst (fst (i_step now o st))) r (snd (fst (i_step now o st))) ++ i_added now o st
  end.

(* recorder nesting: ops never detaches a recorder that was attached before ops started, d = currently open ones *)
Fixpoint depth_ok (d : nat) (ops : list iop) : Prop :=
  match ops with
  | [] => True
  | IAttach :: r => depth_ok (S d) r
  | IDetach :: r => match d with O => False | S d' => depth_ok d' r end
  | INewRequest :: _ => False
  | _ :: r => depth_ok d r
  end.
Fixpoint depth_after (d : nat) (ops : list iop) : nat :=
  match ops with
  | [] => d
  | IAttach :: r => depth_after (S d) r
  | IDetach :: r => depth_after (pred d) r
  | _ :: r => depth_after d r
  end.
Definition is_reset (o : iop) : bool := match o with IReset | INewRequest => true | _ => false end.
