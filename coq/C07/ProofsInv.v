(* C07/C08: the implementation model keeps its four indexes mirror-consistent (Inv) and refines the
   abstract LRU cache of Spec.v step by step. *)
From CppcmsV Require Import Base.Tac C07.Defs C07.Spec C07.Util.
From Coq Require Import Sorting.Sorted.
Local Open Scope N_scope.

(* ---------- trigger index ---------- *)
Definition onremove (k : key) (o : option (list key)) : option (list key) :=
  match o with None => None | Some l => ne (kremove k l) end.
Definition olist (o : option (list key)) : list key := match o with Some l => l | None => [] end.

Lemma onremove_ne k l : onremove k (ne l) = ne (kremove k l).
Proof. destruct l; reflexivity. Qed.
Lemma olist_ne l : olist (ne l) = l.
Proof. destruct l; reflexivity. Qed.

Lemma tfind_None t trs : tfind t trs = None <-> ~ In t (map fst trs).
Proof.
  induction trs as [|[t1 l] trs IH]; cbn [tfind map fst In]; [tauto|].
  destruct (key_eqb_spec t1 t) as [->|Hn]; [split; [discriminate|tauto]|]. rewrite IH; tauto.
Qed.
Lemma trig_unlink_names k t trs x : In x (map fst (trig_unlink k t trs)) -> In x (map fst trs).
Proof.
  induction trs as [|[t1 l] trs IH]; cbn [trig_unlink map fst In]; [tauto|].
  destruct (key_eqb t1 t).
  - destruct (kremove k l); cbn [map fst In]; tauto.
  - cbn [map fst In]. tauto.
Qed.
Lemma trig_unlink_NoDup k t trs : NoDup (map fst trs) -> NoDup (map fst (trig_unlink k t trs)).
Proof.
  induction trs as [|[t1 l] trs IH]; cbn [trig_unlink map fst]; [auto|].
  intros Hnd; inversion Hnd as [|? ? Hni Hnd']; subst.
  destruct (key_eqb t1 t).
  - destruct (kremove k l); cbn [map fst]; [exact Hnd'|constructor; assumption].
  - cbn [map fst]. constructor; [|auto]. intros H; apply Hni. eapply trig_unlink_names; exact H.
Qed.
Lemma tfind_unlink k t trs t' : NoDup (map fst trs) ->
  tfind t' (trig_unlink k t trs) = if key_eqb t' t then onremove k (tfind t trs) else tfind t' trs.
Proof.
  induction trs as [|[t1 l] trs IH]; cbn [trig_unlink tfind map fst]; intros Hnd.
  - destruct (key_eqb t' t); reflexivity.
  - inversion Hnd as [|? ? Hni Hnd']; subst.
    destruct (key_eqb_spec t1 t) as [->|Hn].
    + cbn [onremove]. destruct (kremove k l) as [|x l'] eqn:E.
      * destruct (key_eqb_spec t' t) as [Heq|Hn']; [subst t'; cbn [ne]; apply tfind_None; exact Hni|].
        rewrite key_eqb_neq by congruence. reflexivity.
      * cbn [tfind ne]. destruct (key_eqb_spec t' t) as [Heq|Hn']; [subst t'; rewrite key_eqb_refl; reflexivity|].
        rewrite key_eqb_neq by congruence. reflexivity.
    + cbn [tfind]. destruct (key_eqb_spec t1 t') as [->|Hn1].
      * rewrite key_eqb_neq by congruence. reflexivity.
      * apply IH; exact Hnd'.
Qed.

Lemma trig_link_names k t trs : map fst (trig_link k t trs) = if kmem t (map fst trs) then map fst trs else map fst trs ++ [t].
Proof.
  induction trs as [|[t1 l] trs IH]; cbn [trig_link map fst kmem]; [reflexivity|].
  destruct (key_eqb t1 t); cbn [orb map fst]; [reflexivity|]. rewrite IH. destruct (kmem t (map fst trs)); reflexivity.
Qed.
Lemma trig_link_NoDup k t trs : NoDup (map fst trs) -> NoDup (map fst (trig_link k t trs)).
Proof.
  intros H. rewrite trig_link_names. destruct (kmem t (map fst trs)) eqn:E; [exact H|].
  apply kmem_false in E. apply NoDup_app_remove_l with (l := []) || idtac.
  clear -H E. induction (map fst trs) as [|x l IH]; cbn [app]; [constructor; [tauto|constructor]|].
  inversion H; subst. constructor.
  - intros Hin. apply in_app_or in Hin. destruct Hin as [Hin|[Hin|[]]]; [tauto|subst; apply E; left; reflexivity].
  - apply IH; [assumption|]. intros Hin; apply E; right; exact Hin.
Qed.
Lemma tfind_link k t trs t' :
  tfind t' (trig_link k t trs) = if key_eqb t' t then Some (k :: olist (tfind t trs)) else tfind t' trs.
Proof.
  induction trs as [|[t1 l] trs IH]; cbn [trig_link tfind].
  - rewrite (key_eqb_sym t t'). destruct (key_eqb t' t); reflexivity.
  - destruct (key_eqb_spec t1 t) as [->|Hn]; cbn [tfind olist].
    + destruct (key_eqb_spec t t') as [->|Hn']; [rewrite key_eqb_refl; reflexivity|].
      rewrite (key_eqb_neq t' t) by congruence. reflexivity.
    + destruct (key_eqb_spec t1 t') as [->|Hn1]; [rewrite key_eqb_neq by congruence; reflexivity|exact IH].
Qed.

Lemma unlink_all_spec k ts : forall trs tc m, NoDup (map fst trs) -> NoDup ts -> tc = N.of_nat (length ts + m) ->
  NoDup (map fst (fst (unlink_all k ts (trs, tc)))) /\
  (forall t, tfind t (fst (unlink_all k ts (trs, tc))) = if kmem t ts then onremove k (tfind t trs) else tfind t trs) /\
  snd (unlink_all k ts (trs, tc)) = N.of_nat m.
Proof.
  induction ts as [|t0 ts IH]; intros trs tc m Hnd Hts Htc.
  - cbn. repeat split; [exact Hnd|exact Htc].
  - inversion Hts as [|? ? Hni Hts']; subst.
    unfold unlink_all; cbn [fold_left fst snd]. fold (unlink_all k ts (trig_unlink k t0 trs, N.pred (N.of_nat (length (t0 :: ts) + m)))).
    destruct (IH (trig_unlink k t0 trs) (N.pred (N.of_nat (length (t0 :: ts) + m))) m) as (H1 & H2 & H3);
      [apply trig_unlink_NoDup; exact Hnd|exact Hts'|cbn [length]; lia|].
    repeat split; [exact H1| |exact H3].
    intros t. rewrite H2, tfind_unlink by exact Hnd. cbn [kmem].
    destruct (key_eqb_spec t t0) as [->|Hn].
    + rewrite key_eqb_refl. cbn [orb]. replace (kmem t0 ts) with false; [reflexivity|].
      symmetry; apply kmem_false; exact Hni.
    + rewrite (key_eqb_neq t0 t) by congruence. reflexivity.
Qed.

Lemma link_all_spec k ts : forall trs tc, NoDup (map fst trs) -> NoDup ts ->
  NoDup (map fst (fst (link_all k ts (trs, tc)))) /\
  (forall t, tfind t (fst (link_all k ts (trs, tc))) = if kmem t ts then Some (k :: olist (tfind t trs)) else tfind t trs) /\
  snd (link_all k ts (trs, tc)) = tc + N.of_nat (length ts).
Proof.
  induction ts as [|t0 ts IH]; intros trs tc Hnd Hts.
  - cbn. repeat split; [exact Hnd|lia].
  - inversion Hts as [|? ? Hni Hts']; subst.
    unfold link_all; cbn [fold_left fst snd]. fold (link_all k ts (trig_link k t0 trs, N.succ tc)).
    destruct (IH (trig_link k t0 trs) (N.succ tc)) as (H1 & H2 & H3); [apply trig_link_NoDup; exact Hnd|exact Hts'|].
    repeat split; [exact H1| |rewrite H3; cbn [length]; lia].
    intros t. rewrite H2, tfind_link. cbn [kmem].
    destruct (key_eqb_spec t t0) as [->|Hn].
    + rewrite key_eqb_refl. cbn [orb]. replace (kmem t0 ts) with false; [reflexivity|].
      symmetry; apply kmem_false; exact Hni.
    + rewrite (key_eqb_neq t0 t) by congruence. reflexivity.
Qed.

(* ---------- trig_keys ---------- *)
Lemma trig_keys_premove t k E : trig_keys t (premove k E) = kremove k (trig_keys t E).
Proof.
  unfold trig_keys. rewrite kremove_rev. f_equal.
  unfold premove, kremove. induction E as [|[k1 c1] E IH]; cbn [filter map fst]; [reflexivity|].
  destruct (key_eqb k1 k) eqn:E1, (has_trig t (k1, c1)) eqn:E2; cbn [negb filter map fst]; rewrite ?E1, ?E2; cbn [negb map fst]; rewrite IH; reflexivity.
Qed.
Lemma trig_keys_In t k E : In k (trig_keys t E) <-> exists c, In (k, c) E /\ kmem t (c_trigs c) = true.
Proof.
  unfold trig_keys. rewrite <- in_rev, in_map_iff. split.
  - intros ([k1 c1] & H1 & H2). cbn [fst] in H1; subst. apply filter_In in H2. exists c1. exact H2.
  - intros (c & H1 & H2). exists (k, c). split; [reflexivity|]. apply filter_In. split; [exact H1|exact H2].
Qed.
Lemma trig_keys_snoc t E k c :
  trig_keys t (E ++ [(k, c)]) = if kmem t (c_trigs c) then k :: trig_keys t E else trig_keys t E.
Proof.
  unfold trig_keys. rewrite filter_app. cbn [filter]. unfold has_trig at 2. cbn [snd].
  destruct (kmem t (c_trigs c)); [|rewrite app_nil_r; reflexivity].
  rewrite map_app, rev_app_distr. reflexivity.
Qed.

(* ---------- delete_node ---------- *)
Lemma delete_node_ref k s : Inv s -> Inv (delete_node k s) /\ abs (delete_node k s) = a_delete k (abs s).
Proof.
  intros I. unfold delete_node. destruct (pfind k (primary s)) as [c|] eqn:Ef.
  - destruct (unlink_all k (c_trigs c) (triggers s, tcount s)) as [trs tc] eqn:Eu.
    assert (Hin : In (k, c) (primary s)) by (apply pfind_Some_In; exact Ef).
    destruct (inv_wf s I k c Hin) as [Hnd Hown].
    destruct (premove_len k c (primary s) (inv_keys s I) Ef) as [Hlen Hsum].
    destruct (unlink_all_spec k (c_trigs c) (triggers s) (tcount s) (sum_trigs (premove k (primary s))) (inv_trnames s I) Hnd) as (U1 & U2 & U3).
    { rewrite (inv_tcount s I), Hsum. reflexivity. }
    rewrite Eu in U1, U2, U3. cbn [fst snd] in U1, U2, U3.
    split; [|reflexivity].
    constructor; cbn [primary triggers timeout lru limit size tcount gen err].
    + apply premove_NoDup; exact (inv_keys s I).
    + rewrite (inv_timeout s I). apply tsort_premove.
    + exact U1.
    + intros t. rewrite U2, (inv_trig s I), trig_keys_premove, onremove_ne.
      destruct (kmem t (c_trigs c)) eqn:Et; [reflexivity|].
      rewrite kremove_notin; [reflexivity|].
      intros Hk. apply trig_keys_In in Hk. destruct Hk as (c' & Hc' & Ht).
      rewrite (In_pfind k c' _ (inv_keys s I) Hc') in Ef. inversion Ef; subst. congruence.
    + apply kremove_NoDup; exact (inv_lru_nodup s I).
    + intros x. rewrite kremove_In, keys_premove, kremove_In, (inv_lru s I). tauto.
    + rewrite (inv_size s I), Hlen. lia.
    + exact U3.
    + intros k1 c1 H1. apply premove_In in H1. apply (inv_wf s I); tauto.
    + exact (inv_err s I).
  - split; [exact I|]. apply pfind_None in Ef. unfold abs, a_delete; cbn [a_ent a_lru a_gen a_lim].
    rewrite premove_notin by exact Ef. rewrite kremove_notin; [reflexivity|]. rewrite (inv_lru s I); exact Ef.
Qed.
Lemma delete_node_inv k s : Inv s -> Inv (delete_node k s).
Proof. intros I; apply delete_node_ref; exact I. Qed.
Lemma delete_node_abs k s : Inv s -> abs (delete_node k s) = a_delete k (abs s).
Proof. intros I; apply delete_node_ref; exact I. Qed.
Lemma delete_node_limit k s : limit (delete_node k s) = limit s.
Proof.
  unfold delete_node. destruct (pfind k (primary s)); [|reflexivity]. destruct (unlink_all _ _ _); reflexivity.
Qed.

(* ---------- fetch ---------- *)
Lemma fetch_ref now k s : Inv s ->
  Inv (fst (fetch now k s)) /\ (abs (fst (fetch now k s)), snd (fetch now k s)) = a_fetch now k (abs s).
Proof.
  intros I. unfold fetch, a_fetch. cbn [abs a_ent a_lru]. destruct (pfind k (primary s)) as [c|] eqn:Ef; [|split; [exact I|reflexivity]].
  destruct (c_deadline c <? now)%Z; [split; [exact I|reflexivity]|]. cbn [fst snd].
  split; [|reflexivity].
  assert (Hk : In k (map fst (primary s))) by (apply pfind_Some_In in Ef; apply (in_map fst) in Ef; exact Ef).
  pose proof (inv_lru s I) as HL.
  constructor; cbn [set_lru primary triggers timeout lru limit size tcount gen err].
  - exact (inv_keys s I).
  - exact (inv_timeout s I).
  - exact (inv_trnames s I).
  - exact (inv_trig s I).
  - constructor; [rewrite kremove_In; tauto|apply kremove_NoDup; exact (inv_lru_nodup s I)].
  - intros x. cbn [In]. rewrite kremove_In, HL. split; [intros [<-|[H _]]; assumption|].
    intros H. destruct (key_eqb_spec k x); [left; assumption|right; split; [assumption|congruence]].
  - exact (inv_size s I).
  - exact (inv_tcount s I).
  - exact (inv_wf s I).
  - exact (inv_err s I).
Qed.

(* ---------- clear ---------- *)
Lemma clear_inv s : Inv s -> Inv (clear s).
Proof.
  intros I. constructor; cbn; try constructor; try reflexivity; try tauto. exact (inv_err s I).
Qed.

(* ---------- rise ---------- *)
Lemma fold_delete_ref l : forall s, Inv s ->
  Inv (fold_left (fun s k => delete_node k s) l s) /\
  abs (fold_left (fun s k => delete_node k s) l s) = fold_left (fun a k => a_delete k a) l (abs s).
Proof.
  induction l as [|k l IH]; intros s I; [split; [exact I|reflexivity]|].
  cbn [fold_left]. destruct (delete_node_ref k s I) as [I1 E1]. rewrite <- E1. apply IH; exact I1.
Qed.
Lemma fold_a_delete l : forall a,
  fold_left (fun a k => a_delete k a) l a =
  mkA (filter (fun e => negb (kmem (fst e) l)) (a_ent a)) (filter (fun x => negb (kmem x l)) (a_lru a)) (a_gen a) (a_lim a).
Proof.
  induction l as [|k l IH]; intros [E L g lim]; cbn [fold_left a_ent a_lru a_gen a_lim kmem].
  - cbn [negb]. rewrite !filter_true. reflexivity.
  - rewrite IH. unfold a_delete; cbn [a_ent a_lru a_gen a_lim]. unfold premove, kremove. f_equal.
    + induction E as [|e E IHE]; cbn [filter]; [reflexivity|].
      rewrite (key_eqb_sym k (fst e)). destruct (key_eqb (fst e) k); cbn [negb orb filter]; [exact IHE|]. destruct (negb (kmem (fst e) l)); [f_equal|]; exact IHE.
    + induction L as [|e L IHL]; cbn [filter]; [reflexivity|].
      rewrite (key_eqb_sym k e). destruct (key_eqb e k); cbn [negb orb filter]; [exact IHL|]. destruct (negb (kmem e l)); [f_equal|]; exact IHL.
Qed.
Lemma rise_ref t s : Inv s -> Inv (rise t s) /\ abs (rise t s) = a_rise t (abs s).
Proof.
  intros I. unfold rise. rewrite (inv_trig s I).
  assert (Hent : filter (fun e => negb (kmem (fst e) (trig_keys t (primary s)))) (primary s)
                 = filter (fun e => negb (has_trig t e)) (primary s)).
  { apply filter_ext_in. intros [k c] Hin. cbn [fst]. f_equal.
    destruct (kmem k (trig_keys t (primary s))) eqn:E1.
    - apply kmem_In, trig_keys_In in E1. destruct E1 as (c' & Hc' & Ht).
      rewrite <- (In_pfind k c _ (inv_keys s I) Hin) in Ht || idtac.
      assert (c' = c). { pose proof (In_pfind k c _ (inv_keys s I) Hin). pose proof (In_pfind k c' _ (inv_keys s I) Hc'). congruence. }
      subst. symmetry; exact Ht.
    - apply kmem_false in E1. unfold has_trig; cbn [snd]. destruct (kmem t (c_trigs c)) eqn:E2; [|reflexivity].
      exfalso; apply E1. apply trig_keys_In. exists c; split; assumption. }
  assert (Hlru : filter (fun x => negb (kmem x (trig_keys t (primary s)))) (lru s)
                 = filter (fun k => match pfind k (filter (fun e => negb (has_trig t e)) (primary s)) with Some _ => true | None => false end) (lru s)).
  { apply filter_ext_in. intros k Hin. apply (inv_lru s I) in Hin.
    destruct (pfind k (primary s)) as [c|] eqn:Ef; [|apply pfind_None in Ef; tauto].
    pose proof (pfind_Some_In _ _ _ Ef) as Hc.
    destruct (kmem k (trig_keys t (primary s))) eqn:E1; cbn [negb].
    - apply kmem_In, trig_keys_In in E1. destruct E1 as (c' & Hc' & Ht).
      assert (c' = c) by (pose proof (In_pfind k c' _ (inv_keys s I) Hc'); congruence). subst.
      destruct (pfind k (filter _ (primary s))) as [c2|] eqn:E2; [|reflexivity].
      apply pfind_Some_In, filter_In in E2. destruct E2 as [E2 E3].
      assert (c2 = c) by (pose proof (In_pfind k c2 _ (inv_keys s I) E2); congruence). subst.
      unfold has_trig in E3; cbn [snd] in E3. rewrite Ht in E3. discriminate.
    - apply kmem_false in E1.
      destruct (pfind k (filter _ (primary s))) as [c2|] eqn:E2; [reflexivity|].
      exfalso. apply pfind_None in E2. apply E2. apply in_map_iff. exists (k, c). split; [reflexivity|].
      apply filter_In. split; [exact Hc|]. unfold has_trig; cbn [snd]. destruct (kmem t (c_trigs c)) eqn:E3; [|reflexivity].
      exfalso; apply E1. apply trig_keys_In. exists c; split; assumption. }
  destruct (trig_keys t (primary s)) as [|k0 l0] eqn:Ek; cbn [ne].
  - split; [exact I|]. unfold a_rise, abs; cbn [a_ent a_lru a_gen a_lim].
    rewrite <- Hlru, <- Hent. cbn [kmem negb].
    rewrite !filter_true. reflexivity.
  - destruct (fold_delete_ref (k0 :: l0) s I) as [I1 E1]. split; [exact I1|].
    rewrite E1, fold_a_delete. unfold a_rise, abs; cbn [a_ent a_lru a_gen a_lim].
    rewrite <- Hlru, <- Hent. reflexivity.
Qed.

(* ---------- check_limits ---------- *)
Lemma inv_size_a s : Inv s -> size s = a_size (abs s).
Proof. intros I. exact (inv_size s I). Qed.
Lemma victim_in now s k : Inv s -> a_victim now (abs s) = Some k -> In k (map fst (primary s)).
Proof.
  intros I. unfold a_victim; cbn [abs a_ent a_lru].
  assert (Hl : last_opt (lru s) = Some k -> In k (map fst (primary s))).
  { intros H. apply (inv_lru s I). apply last_opt_In; exact H. }
  destruct (tsort (primary s)) as [|[d k1] r] eqn:E; [exact Hl|].
  destruct (d <? now)%Z; [|exact Hl]. intros [= ->].
  assert (Hin : In (d, k) (tsort (primary s))) by (rewrite E; left; reflexivity).
  apply tsort_In in Hin. destruct Hin as (c & Hc & _). apply (in_map fst) in Hc. exact Hc.
Qed.

Lemma check_limits_loop_ref fuel : forall now nem s, Inv s -> (length (primary s) < fuel)%nat ->
  Inv (check_limits_loop fuel now nem s) /\
  abs (check_limits_loop fuel now nem s) = a_evict fuel now nem (abs s).
Proof.
  induction fuel as [|f IH]; intros now nem s I Hf; [lia|].
  cbn [check_limits_loop a_evict]. rewrite <- (inv_size_a s I). cbn [abs a_lim].
  destruct ((0 <? size s) && ((match nem with b :: _ => b | [] => false end) || ((limit s <=? size s) && (0 <? limit s)))) eqn:Ec;
    [|split; [exact I|reflexivity]].
  assert (Hstep : forall k, In k (map fst (primary s)) ->
            Inv (check_limits_loop f now (tl nem) (delete_node k s)) /\
            abs (check_limits_loop f now (tl nem) (delete_node k s)) = a_evict f now (tl nem) (a_delete k (abs s))).
  { intros k Hk. destruct (delete_node_ref k s I) as [I1 E1]. rewrite <- E1. apply IH; [exact I1|].
    assert (Hp : primary (delete_node k s) = premove k (primary s)).
    { change (a_ent (abs (delete_node k s)) = premove k (primary s)). rewrite E1. reflexivity. }
    rewrite Hp. destruct (pfind k (primary s)) as [c|] eqn:Efk; [|apply pfind_None in Efk; tauto].
    destruct (premove_len k c _ (inv_keys s I) Efk) as [Hl _]. lia. }
  pose proof (victim_in now s) as Hv. unfold a_victim in *. cbn [abs a_ent a_lru] in *.
  rewrite <- (inv_timeout s I) in *.
  destruct (timeout s) as [|[d k] r].
  - destruct (last_opt (lru s)) as [k|] eqn:El; [apply Hstep; apply (Hv k I); reflexivity|split; [exact I|reflexivity]].
  - destruct (d <? now)%Z.
    + apply Hstep. apply (Hv k I); reflexivity.
    + destruct (last_opt (lru s)) as [k'|] eqn:El; [apply Hstep; apply (Hv k' I); reflexivity|split; [exact I|reflexivity]].
Qed.
Lemma check_limits_ref now nem s : Inv s ->
  Inv (check_limits now nem s) /\ abs (check_limits now nem s) = a_evict (S (length (primary s))) now nem (abs s).
Proof.
  intros I. unfold check_limits. rewrite (inv_size s I), Nat2N.id. apply check_limits_loop_ref; [exact I|lia].
Qed.

(* ---------- store ---------- *)
Lemma a_delete_nokey k a : ~ In k (map fst (a_ent (a_delete k a))).
Proof. unfold a_delete; cbn [a_ent]. rewrite keys_premove, kremove_In. tauto. Qed.
Lemma a_evict_keys fuel : forall now nem a k, In k (map fst (a_ent (a_evict fuel now nem a))) -> In k (map fst (a_ent a)).
Proof.
  induction fuel as [|f IH]; intros now nem a k; cbn [a_evict].
  - destruct (_ && _); auto.
  - destruct (_ && _); [|auto]. destruct (a_victim now a) as [v|]; [|auto].
    intros H. apply IH in H. unfold a_delete in H; cbn [a_ent] in H. rewrite keys_premove, kremove_In in H. tauto.
Qed.
Lemma a_evict_lim fuel : forall now nem a, a_lim (a_evict fuel now nem a) = a_lim a /\ a_gen (a_evict fuel now nem a) = a_gen a.
Proof.
  induction fuel as [|f IH]; intros now nem a; cbn [a_evict].
  - destruct (_ && _); auto.
  - destruct (_ && _); [|auto]. destruct (a_victim now a) as [v|]; [|auto].
    destruct (IH now (tl nem) (a_delete v a)) as [H1 H2]. rewrite H1, H2. split; reflexivity.
Qed.

Lemma store_ref now k v tin d g f nem s : Inv s ->
  Inv (store now k v tin d g f nem s) /\ abs (store now k v tin d g f nem s) = a_store now k v tin d g f nem (abs s).
Proof.
  intros I. destruct (delete_node_ref k s I) as [I1 E1].
  unfold store, a_store.
  destruct f as [| | |b]; [|split; [exact I1|exact E1]|split; [exact I1|exact E1]|].
  - (* FNone *)
    destruct (check_limits_ref now nem (delete_node k s) I1) as [I2 E2].
    set (s2 := check_limits now nem (delete_node k s)) in *.
    set (ts := store_trigs k tin).
    destruct (link_all k ts (triggers s2, tcount s2)) as [trs tc] eqn:El.
    destruct (link_all_spec k ts (triggers s2) (tcount s2) (inv_trnames s2 I2) (store_trigs_NoDup k tin)) as (L1 & L2 & L3).
    rewrite El in L1, L2, L3. cbn [fst snd] in L1, L2, L3.
    assert (Ep : primary (delete_node k s) = premove k (primary s)).
    { change (a_ent (abs (delete_node k s)) = premove k (primary s)). rewrite E1. reflexivity. }
    assert (Hnk : ~ In k (map fst (primary s2))).
    { change (~ In k (map fst (a_ent (abs s2)))). rewrite E2. intros H. apply a_evict_keys in H. rewrite E1 in H.
      apply (a_delete_nokey k (abs s)); exact H. }
    assert (Eg : gen s2 = gen s).
    { change (a_gen (abs s2) = a_gen (abs s)). rewrite E2. destruct (a_evict_lim (S (length (primary (delete_node k s)))) now nem (abs (delete_node k s))) as [_ ->].
      rewrite E1. reflexivity. }
    assert (Elim : limit s2 = limit s).
    { change (a_lim (abs s2) = a_lim (abs s)). rewrite E2. destruct (a_evict_lim (S (length (primary (delete_node k s)))) now nem (abs (delete_node k s))) as [-> _].
      rewrite E1. reflexivity. }
    split.
    + constructor; cbn [primary triggers timeout lru limit size tcount gen err].
      * rewrite map_app. cbn [map fst]. apply NoDup_app_intro || idtac.
        clear -Hnk I2. pose proof (inv_keys s2 I2) as H. induction (map fst (primary s2)) as [|x l IH]; cbn [app].
        -- constructor; [tauto|constructor].
        -- inversion H; subst. constructor.
           ++ intros Hin. apply in_app_or in Hin. destruct Hin as [Hin|[Hin|[]]]; [tauto|subst; apply Hnk; left; reflexivity].
           ++ apply IH; [intros Hin; apply Hnk; right; exact Hin|assumption].
      * rewrite tsort_snoc, (inv_timeout s2 I2). reflexivity.
      * exact L1.
      * intros t. rewrite L2, trig_keys_snoc, (inv_trig s2 I2), olist_ne. cbn [c_trigs]. fold ts.
        destruct (kmem t ts); reflexivity.
      * constructor; [rewrite (inv_lru s2 I2); exact Hnk|exact (inv_lru_nodup s2 I2)].
      * intros x. cbn [In]. rewrite map_app, in_app_iff, (inv_lru s2 I2). cbn [map fst In]. tauto.
      * rewrite (inv_size s2 I2), app_length. cbn [length]. lia.
      * rewrite L3, (inv_tcount s2 I2).
        assert (Hs : forall E e, sum_trigs (E ++ [e]) = (sum_trigs E + length (c_trigs (snd e)))%nat).
        { induction E as [|e0 E IHE]; intros e; cbn [app sum_trigs]; [lia|rewrite IHE; lia]. }
        rewrite Hs. cbn [snd c_trigs]. fold ts. lia.
      * intros k1 c1 Hin. apply in_app_or in Hin. destruct Hin as [Hin|[Hin|[]]]; [apply (inv_wf s2 I2); exact Hin|].
        inversion Hin; subst. cbn [c_trigs]. split; [apply store_trigs_NoDup|apply store_trigs_own].
      * exact (inv_err s2 I2).
    + unfold abs at 1. cbn [primary lru gen limit].
      change (primary s2) with (a_ent (abs s2)). change (lru s2) with (a_lru (abs s2)).
      rewrite E2, E1, Eg, Elim, Ep. cbn [abs a_ent a_gen a_lim]. reflexivity.
  - (* FClear *)
    assert (Eg : gen (delete_node k s) = gen s) by (change (a_gen (abs (delete_node k s)) = a_gen (abs s)); rewrite E1; reflexivity).
    assert (Elim : limit (delete_node k s) = limit s) by apply delete_node_limit.
    destruct b.
    + split.
      * pose proof (clear_inv _ I1) as Ic. destruct Ic. constructor; cbn in *; assumption.
      * unfold abs; cbn. rewrite Eg, Elim. reflexivity.
    + split; [apply clear_inv; exact I1|]. unfold abs; cbn. rewrite Eg, Elim. reflexivity.
Qed.

(* ---------- one step, whole runs ---------- *)
Lemma init_inv lim : Inv (init lim).
Proof. constructor; cbn; try constructor; try reflexivity; tauto. Qed.

Lemma step_ref now o s : Inv s ->
  Inv (snd (fst (step now o s))) /\
  (fst (fst (step now o s)), abs (snd (fst (step now o s))), snd (step now o s)) = a_step now o (abs s).
Proof.
  intros I. destruct o as [k v tin d g f nem|k|t|k| |n]; cbn [step a_step fst snd].
  - destruct (store_ref now k v tin d g f nem s I) as [I1 E1]. rewrite E1. split; [exact I1|reflexivity].
  - destruct (fetch_ref now k s I) as [I1 E1]. destruct (fetch now k s) as [s' r]; cbn [fst snd] in *.
    rewrite <- E1. split; [exact I1|reflexivity].
  - destruct (rise_ref t s I) as [I1 E1]. rewrite E1. split; [exact I1|reflexivity].
  - destruct (delete_node_ref k s I) as [I1 E1]. unfold remove. rewrite E1. split; [exact I1|reflexivity].
  - split; [apply clear_inv; exact I|reflexivity].
  - split; [exact I|reflexivity].
Qed.

Lemma stats_abs s : Inv s -> stats s = a_stats (abs s).
Proof. intros I. unfold stats, a_stats; cbn [abs a_ent]. rewrite (inv_size s I), (inv_tcount s I). reflexivity. Qed.

Lemma run_ref ops : forall now s, Inv s ->
  Inv (snd (fst (run now ops s))) /\
  (fst (fst (run now ops s)), abs (snd (fst (run now ops s))), snd (run now ops s)) = a_run now ops (abs s).
Proof.
  induction ops as [|o ops IH]; intros now s I; [split; [exact I|reflexivity]|].
  cbn [run a_run]. destruct (step_ref now o s I) as [I1 E1].
  destruct (step now o s) as [[now1 s1] x]; cbn [fst snd] in *. rewrite <- E1.
  destruct (IH now1 s1 I1) as [I2 E2].
  destruct (run now1 ops s1) as [[now2 s2] l]; cbn [fst snd] in *. rewrite <- E2.
  rewrite (stats_abs s1 I1). split; [exact I2|reflexivity].
Qed.

(* reachable states *)
Inductive reachable (lim : N) : Z -> state -> Prop :=
| reach_init now : reachable lim now (init lim)
| reach_step now s o : reachable lim now s -> reachable lim (fst (fst (step now o s))) (snd (fst (step now o s))).

Lemma reachable_inv lim now s : reachable lim now s -> Inv s.
Proof. induction 1; [apply init_inv|apply step_ref; assumption]. Qed.
Lemma reachable_limit lim now s : reachable lim now s -> limit s = lim.
Proof.
  induction 1 as [|now s o H IH]; [reflexivity|].
  pose proof (reachable_inv _ _ _ H) as I. destruct (step_ref now o s I) as [_ E].
  change (a_lim (abs (snd (fst (step now o s)))) = lim).
  replace (abs (snd (fst (step now o s)))) with (snd (fst (a_step now o (abs s)))) by (rewrite <- E; reflexivity).
  destruct o as [k v tin d g f nem|k|t|k| |n]; cbn [a_step fst snd]; try exact IH.
  - unfold a_store. destruct f; cbn [a_lim a_delete]; exact IH.
  - unfold a_fetch. destruct (pfind k (a_ent (abs s))); [destruct (_ <? _)%Z|]; cbn [fst a_lim]; exact IH.
Qed.
