(* C07: executable model of cppcms::impl::hash_map / details::basic_map / string_hash (private/hash_map.h).
   Definitions only.
     list_  : intrusive doubly linked list of nodes  -> list of (key, value) in list order; a node pointer is
              modelled by the key of the node (keys are unique: insert refuses duplicates)
     hash_  : vector<pair<node*,node*>>              -> list of option (first key, last key): the range of the bucket
     size_                                            -> h_size
   string_hash::update_state works on uint32_t: the model keeps the wrap-around explicit (mod 2^32). *)
From Coq Require Import NArith ZArith List Bool.
From CppcmsV Require Import C07.Defs.
Import ListNotations.
Local Open Scope Z_scope.

Definition w32 (z : Z) : Z := z mod 4294967296.

(* value = (value << 4) + (unsigned char)c; high = value & 0xF0000000; if(high) value = (value ^ (high >> 24)) ^ high *)
Definition hash_update (h : Z) (b : N) : Z :=
  let v := w32 (w32 (Z.shiftl h 4) + Z.of_N b) in
  let high := w32 (Z.land v 4026531840) in
  if negb (high =? 0) then w32 (Z.lxor (w32 (Z.lxor v (w32 (Z.shiftr high 24)))) high) else v.

Definition string_hash (k : key) : Z := fold_left hash_update k 0.

Section HM.
Context {V : Type}.

Definition range := option (key * key).

Record hmap := mkH {
  h_list : list (key * V);
  h_tab : list range;
  h_size : N
}.

Definition h_empty : hmap := mkH [] [] 0%N.

(* get(k): hash_[hf(k) % hash_.size()]   (never evaluated with an empty table by the callers) *)
Definition bucket_of (n : nat) (k : key) : nat := Z.to_nat (string_hash k mod Z.of_nat n).
Definition tab_get (tab : list range) (i : nat) : range := nth i tab None.
Fixpoint tab_set (tab : list range) (i : nat) (r : range) : list range :=
  match tab, i with
  | [], _ => []
  | _ :: t, O => r :: t
  | x :: t, S j => x :: tab_set t j r
  end.

(* ---- intrusive list primitives, nodes addressed by key ---- *)
Fixpoint l_from (first : key) (l : list (key * V)) : list (key * V) :=
  match l with
  | [] => []
  | e :: r => if key_eqb (fst e) first then l else l_from first r
  end.
Fixpoint l_insert_after (x : key * V) (after : key) (l : list (key * V)) : list (key * V) :=
  match l with
  | [] => []                                         (* after_me is always a node of the list *)
  | e :: r => if key_eqb (fst e) after then e :: x :: r else e :: l_insert_after x after r
  end.
Definition l_erase (k : key) (l : list (key * V)) : list (key * V) :=
  filter (fun e => negb (key_eqb (fst e) k)) l.
Fixpoint l_next (k : key) (l : list (key * V)) : option key :=
  match l with
  | [] => None
  | e :: r => if key_eqb (fst e) k then match r with e2 :: _ => Some (fst e2) | [] => None end else l_next k r
  end.
Fixpoint l_prev_aux (prev : option key) (k : key) (l : list (key * V)) : option key :=
  match l with
  | [] => None
  | e :: r => if key_eqb (fst e) k then prev else l_prev_aux (Some (fst e)) k r
  end.
Definition l_prev (k : key) (l : list (key * V)) : option key := l_prev_aux None k l.

(* find_in_range: for(p=r.first;p!=0;p=p->next) { if(equal(p->key,k)) return p; if(p==r.second) return 0; } *)
Fixpoint walk (k second : key) (l : list (key * V)) : option (key * V) :=
  match l with
  | [] => None
  | e :: r => if key_eqb (fst e) k then Some e else if key_eqb (fst e) second then None else walk k second r
  end.
Definition find_in_range (r : range) (k : key) (l : list (key * V)) : option (key * V) :=
  match r with
  | None => None
  | Some (f, s) => walk k s (l_from f l)
  end.

(* find *)
Definition h_find (k : key) (h : hmap) : option (key * V) :=
  match h_tab h with
  | [] => None
  | _ => find_in_range (tab_get (h_tab h) (bucket_of (length (h_tab h)) k)) k (h_list h)
  end.

(* the common part of insert and rehash: link node x into the bucket structure (tab, l) *)
Definition link_node (x : key * V) (tl : list range * list (key * V)) : list range * list (key * V) :=
  let (tab, l) := tl in
  let i := bucket_of (length tab) (fst x) in
  match tab_get tab i with
  | None => (tab_set tab i (Some (fst x, fst x)), l ++ [x])
  | Some (f, s) => (tab_set tab i (Some (f, fst x)), l_insert_after x s l)
  end.

(* rehash(new_size): moves every node, in list order, into a fresh table *)
Definition h_rehash (n : nat) (h : hmap) : hmap :=
  let (tab, l) := fold_left (fun tl x => link_node x tl) (h_list h) (repeat None n, []) in
  mkH l tab (h_size h).

(* rehash_if_needed: if(size_ + 1 >= table_size) rehash((1+size_)*2) *)
Definition h_rehash_if_needed (h : hmap) : hmap :=
  if (N.of_nat (length (h_tab h)) <=? h_size h + 1)%N then h_rehash (N.to_nat ((1 + h_size h) * 2)) h else h.

(* insert: (h', inserted?) *)
Definition h_insert (k : key) (v : V) (h : hmap) : hmap * bool :=
  let h1 := h_rehash_if_needed h in
  let i := bucket_of (length (h_tab h1)) k in
  match find_in_range (tab_get (h_tab h1) i) k (h_list h1) with
  | Some _ => (h1, false)
  | None =>
      let (tab, l) := link_node (k, v) (h_tab h1, h_list h1) in
      (mkH l tab (N.succ (h_size h1)), true)
  end.

(* erase(p), p = the node with key k (callers pass valid iterators) *)
Definition h_erase (k : key) (h : hmap) : hmap :=
  match h_tab h with
  | [] => h
  | _ =>
    let i := bucket_of (length (h_tab h)) k in
    let tab :=
      match tab_get (h_tab h) i with
      | Some (f, s) =>
          if key_eqb f s then tab_set (h_tab h) i None
          else if key_eqb f k then
            match l_next k (h_list h) with Some n => tab_set (h_tab h) i (Some (n, s)) | None => h_tab h end
          else if key_eqb s k then
            match l_prev k (h_list h) with Some p => tab_set (h_tab h) i (Some (f, p)) | None => h_tab h end
          else h_tab h
      | None => h_tab h
      end in
    mkH (l_erase k (h_list h)) tab (N.pred (h_size h))
  end.

(* clear: both branches reset the range of every node's bucket; the first one resets all buckets *)
Definition h_clear (h : hmap) : hmap :=
  let tab :=
    if (N.of_nat (length (h_tab h)) <=? h_size h / 4)%N then repeat None (length (h_tab h))
    else fold_left (fun tab e => tab_set tab (bucket_of (length tab) (fst e)) None) (h_list h) (h_tab h) in
  mkH [] tab 0%N.

(* ---- operation sequences ---- *)
Inductive hop :=
| HInsert (k : key) (v : V)
| HFind (k : key)
| HErase (k : key)         (* erase(find(k)) when found *)
| HClear
| HRehash (n : nat).       (* only issued on an empty map or with n > 0 *)

Inductive hout := HFound (v : V) | HNotFound | HInserted (b : bool) | HDone.

Definition h_step (o : hop) (h : hmap) : hmap * hout :=
  match o with
  | HInsert k v => let (h', b) := h_insert k v h in (h', HInserted b)
  | HFind k => (h, match h_find k h with Some e => HFound (snd e) | None => HNotFound end)
  | HErase k => match h_find k h with Some e => (h_erase k h, HFound (snd e)) | None => (h, HNotFound) end
  | HClear => (h_clear h, HDone)
  | HRehash n => (h_rehash n h, HDone)
  end.

End HM.

(* the whole run: outputs, and after every operation the size and the iteration order (list order) *)
Fixpoint h_run {V} (ops : list hop) (h : @hmap V) : list (hout * (N * list (key * V))) :=
  match ops with
  | [] => []
  | o :: r => let (h1, x) := h_step o h in (x, (h_size h1, h_list h1)) :: h_run r h1
  end.
