(* C07/C08: list / key lemmas used by the cache proofs *)
From CppcmsV Require Import Base.Tac C07.Defs C07.Spec.
From Coq Require Import Sorting.Sorted Permutation.
Local Open Scope N_scope.

(* ---------- keys ---------- *)
Lemma key_eqb_spec a b : reflect (a = b) (key_eqb a b).
Proof.
  revert b; induction a as [|x a IH]; intros [|y b]; cbn [key_eqb]; try (constructor; congruence).
  destruct (N.eqb_spec x y) as [->|Hn]; cbn [andb].
  - destruct (IH b) as [->|Hn]; constructor; congruence.
  - constructor; congruence.
Qed.
Lemma key_eqb_refl a : key_eqb a a = true.
Proof. destruct (key_eqb_spec a a); congruence. Qed.
Lemma key_eqb_sym a b : key_eqb a b = key_eqb b a.
Proof. destruct (key_eqb_spec a b), (key_eqb_spec b a); congruence. Qed.
Lemma key_eqb_neq a b : a <> b -> key_eqb a b = false.
Proof. destruct (key_eqb_spec a b); congruence. Qed.

Lemma kmem_In k l : kmem k l = true <-> In k l.
Proof.
  induction l as [|x l IH]; cbn [kmem In]; [split; [discriminate|tauto]|].
  destruct (key_eqb_spec x k) as [->|Hn]; cbn [orb]; [tauto|].
  rewrite IH; split; [tauto|intros [H|H]; [congruence|exact H]].
Qed.
Lemma kmem_false k l : kmem k l = false <-> ~ In k l.
Proof. rewrite <- kmem_In. destruct (kmem k l); split; congruence. Qed.

Lemma dedup_In k l : In k (dedup l) <-> In k l.
Proof.
  induction l as [|x l IH]; cbn [dedup]; [tauto|].
  destruct (kmem x l) eqn:E.
  - apply kmem_In in E. rewrite IH. cbn [In]. split; [tauto|intros [->|H]; tauto].
  - cbn [In]. rewrite IH. tauto.
Qed.
Lemma dedup_NoDup l : NoDup (dedup l).
Proof.
  induction l as [|x l IH]; cbn [dedup]; [constructor|].
  destruct (kmem x l) eqn:E; [exact IH|].
  constructor; [|exact IH]. rewrite dedup_In. apply kmem_false; exact E.
Qed.
Lemma store_trigs_NoDup k tin : NoDup (store_trigs k tin).
Proof.
  unfold store_trigs. destruct (kmem k (dedup tin)) eqn:E; [apply dedup_NoDup|].
  constructor; [apply kmem_false; exact E|apply dedup_NoDup].
Qed.
Lemma store_trigs_own k tin : In k (store_trigs k tin).
Proof.
  unfold store_trigs. destruct (kmem k (dedup tin)) eqn:E; [apply kmem_In; exact E|left; reflexivity].
Qed.
Lemma store_trigs_In k tin t : In t (store_trigs k tin) <-> t = k \/ In t tin.
Proof.
  unfold store_trigs. destruct (kmem k (dedup tin)) eqn:E.
  - apply kmem_In in E. rewrite dedup_In in *. split; [tauto|intros [->|H]; tauto].
  - cbn [In]. rewrite dedup_In. split; intros [H|H]; auto.
Qed.

(* ---------- kremove ---------- *)
Lemma kremove_In k x l : In x (kremove k l) <-> In x l /\ x <> k.
Proof.
  unfold kremove. rewrite filter_In. destruct (key_eqb_spec x k); cbn [negb]; split; intros [H1 H2]; split; congruence.
Qed.
Lemma kremove_NoDup k l : NoDup l -> NoDup (kremove k l).
Proof. apply NoDup_filter. Qed.
Lemma kremove_notin k l : ~ In k l -> kremove k l = l.
Proof.
  induction l as [|x l IH]; intros H; cbn; [reflexivity|].
  destruct (key_eqb_spec x k) as [->|Hn]; cbn [negb]; [exfalso; apply H; left; reflexivity|].
  f_equal. apply IH. intros H1; apply H; right; exact H1.
Qed.
Lemma kremove_idem k l : kremove k (kremove k l) = kremove k l.
Proof. apply kremove_notin. rewrite kremove_In. tauto. Qed.
Lemma kremove_rev k l : kremove k (rev l) = rev (kremove k l).
Proof.
  unfold kremove. induction l as [|x l IH]; cbn [rev filter]; [reflexivity|].
  rewrite filter_app, IH. cbn [filter]. destruct (negb (key_eqb x k)); cbn [rev]; [reflexivity|apply app_nil_r].
Qed.

(* ---------- primary ---------- *)
Lemma keys_premove k E : map fst (premove k E) = kremove k (map fst E).
Proof.
  unfold premove, kremove. induction E as [|[k' c] E IH]; cbn [map filter fst]; [reflexivity|].
  destruct (negb (key_eqb k' k)); cbn [map fst]; rewrite IH; reflexivity.
Qed.
Lemma pfind_None k E : pfind k E = None <-> ~ In k (map fst E).
Proof.
  induction E as [|[k' c] E IH]; cbn [pfind map fst In]; [tauto|].
  destruct (key_eqb_spec k' k) as [->|Hn]; [split; [discriminate|tauto]|].
  rewrite IH. tauto.
Qed.
Lemma pfind_Some_In k c E : pfind k E = Some c -> In (k, c) E.
Proof.
  induction E as [|[k' c'] E IH]; cbn [pfind]; [discriminate|].
  destruct (key_eqb_spec k' k) as [->|Hn]; [intros [= ->]; left; reflexivity|intros H; right; auto].
Qed.
Lemma In_pfind k c E : NoDup (map fst E) -> In (k, c) E -> pfind k E = Some c.
Proof.
  induction E as [|[k' c'] E IH]; cbn [pfind map fst]; [intros _ []|].
  intros Hnd [H|H]; inversion Hnd as [|? ? Hni Hnd']; subst.
  - inversion H; subst. rewrite key_eqb_refl; reflexivity.
  - destruct (key_eqb_spec k' k) as [->|Hn]; [|auto].
    exfalso; apply Hni. apply (in_map fst) in H; exact H.
Qed.
Lemma pfind_premove k' k E : pfind k' (premove k E) = if key_eqb k' k then None else pfind k' E.
Proof.
  unfold premove. induction E as [|[k1 c1] E IH]; cbn [filter pfind fst]; [destruct (key_eqb k' k); reflexivity|].
  destruct (key_eqb_spec k1 k) as [->|Hn]; cbn [negb pfind].
  - rewrite IH. destruct (key_eqb_spec k' k) as [->|Hn']; [reflexivity|]. rewrite key_eqb_neq by congruence. reflexivity.
  - destruct (key_eqb_spec k1 k') as [->|Hn1]; [rewrite key_eqb_neq by congruence; reflexivity|exact IH].
Qed.
Lemma pfind_app k E1 E2 : pfind k (E1 ++ E2) = match pfind k E1 with Some c => Some c | None => pfind k E2 end.
Proof.
  induction E1 as [|[k1 c1] E1 IH]; cbn [app pfind]; [reflexivity|]. destruct (key_eqb k1 k); [reflexivity|exact IH].
Qed.
Lemma premove_notin k E : ~ In k (map fst E) -> premove k E = E.
Proof.
  unfold premove. induction E as [|[k1 c1] E IH]; cbn [map fst In filter]; intros H; [reflexivity|].
  destruct (key_eqb_spec k1 k) as [->|Hn]; [tauto|]. cbn [negb]. f_equal. apply IH. tauto.
Qed.
Lemma premove_NoDup k E : NoDup (map fst E) -> NoDup (map fst (premove k E)).
Proof. rewrite keys_premove. apply kremove_NoDup. Qed.
Lemma premove_In e k E : In e (premove k E) <-> In e E /\ fst e <> k.
Proof.
  unfold premove. rewrite filter_In. destruct (key_eqb_spec (fst e) k); cbn [negb]; split; intros [H1 H2]; split; congruence.
Qed.
Lemma premove_len k c E : NoDup (map fst E) -> pfind k E = Some c ->
  length E = S (length (premove k E)) /\ sum_trigs E = (length (c_trigs c) + sum_trigs (premove k E))%nat.
Proof.
  induction E as [|[k1 c1] E IH]; cbn [pfind map fst]; [discriminate|].
  intros Hnd Hf. inversion Hnd as [|? ? Hni Hnd']; subst.
  unfold premove; cbn [filter fst]. fold (premove k E).
  destruct (key_eqb_spec k1 k) as [->|Hn]; cbn [negb].
  - inversion Hf; subst. rewrite premove_notin by exact Hni. cbn [length sum_trigs snd]. split; reflexivity.
  - destruct (IH Hnd' Hf) as [H1 H2]. cbn [length sum_trigs snd]. rewrite H1, H2. split; lia.
Qed.

(* ---------- timeout index ---------- *)
Definition tle (a b : Z * key) : Prop := (fst a <= fst b)%Z.

Lemma tinsert_In d k l e : In e (tinsert d k l) <-> e = (d, k) \/ In e l.
Proof.
  induction l as [|[d1 k1] l IH]; cbn [tinsert In]; [intuition congruence|].
  destruct (d1 <=? d)%Z; cbn [In]; [rewrite IH|]; intuition congruence.
Qed.
Lemma tinsert_sorted d k l : StronglySorted tle l -> StronglySorted tle (tinsert d k l).
Proof.
  induction l as [|[d1 k1] l IH]; cbn [tinsert]; intros Hs.
  - constructor; constructor.
  - inversion Hs as [|? ? Hs' Hall]; subst.
    destruct (Z.leb_spec d1 d).
    + constructor; [auto|]. apply Forall_forall. intros e He. apply tinsert_In in He. destruct He as [->|He].
      * unfold tle; cbn [fst]; lia.
      * rewrite Forall_forall in Hall; auto.
    + constructor; [exact Hs|]. constructor; [unfold tle; cbn [fst]; lia|].
      eapply Forall_impl; [|exact Hall]. intros a Ha. unfold tle in *; cbn [fst] in *. lia.
Qed.
Lemma tsort_snoc E e : tsort (E ++ [e]) = tinsert (c_deadline (snd e)) (fst e) (tsort E).
Proof. unfold tsort. rewrite fold_left_app. reflexivity. Qed.
Lemma tsort_sorted E : StronglySorted tle (tsort E).
Proof.
  induction E as [|e E IH] using rev_ind; [constructor|]. rewrite tsort_snoc. apply tinsert_sorted; exact IH.
Qed.
Lemma tsort_In E d k : In (d, k) (tsort E) <-> exists c, In (k, c) E /\ c_deadline c = d.
Proof.
  induction E as [|[k1 c1] E IH] using rev_ind.
  - cbn. split; [tauto|intros (c & [] & _)].
  - rewrite tsort_snoc, tinsert_In, IH. cbn [fst snd]. split.
    + intros [H|(c & H1 & H2)]; [inversion H; subst; exists c1; split; [apply in_or_app; right; left; reflexivity|reflexivity]|].
      exists c; split; [apply in_or_app; left; exact H1|exact H2].
    + intros (c & H1 & H2). apply in_app_or in H1. destruct H1 as [H1|[H1|[]]]; [right; exists c; auto|].
      inversion H1; subst. left; reflexivity.
Qed.

Lemma tinsert_head d k l : Forall (fun e => (d < fst e)%Z) l -> tinsert d k l = (d, k) :: l.
Proof.
  destruct l as [|[d1 k1] l]; cbn [tinsert]; [reflexivity|]. intros H. inversion H; subst. cbn [fst] in *.
  destruct (Z.leb_spec d1 d); [lia|reflexivity].
Qed.
(* filtering by a predicate on keys commutes with insertion into a sorted list *)
Lemma filter_tinsert (P : key -> bool) d k l : StronglySorted tle l ->
  filter (fun e => P (snd e)) (tinsert d k l) =
  if P k then tinsert d k (filter (fun e => P (snd e)) l) else filter (fun e => P (snd e)) l.
Proof.
  induction l as [|[d1 k1] l IH]; intros Hs.
  - cbn [tinsert filter snd]. destruct (P k); reflexivity.
  - inversion Hs as [|? ? Hs' Hall]; subst. cbn [tinsert].
    destruct (Z.leb_spec d1 d) as [Hle|Hlt].
    + cbn [filter snd]. rewrite (IH Hs'). destruct (P k1) eqn:E1, (P k) eqn:E; try reflexivity.
      cbn [tinsert]. destruct (Z.leb_spec d1 d); [reflexivity|lia].
    + cbn [filter snd]. destruct (P k) eqn:E; [|reflexivity].
      symmetry. apply tinsert_head.
      assert (Hall' : Forall (fun e => (d < fst e)%Z) ((d1, k1) :: l)).
      { constructor; [cbn [fst]; lia|]. eapply Forall_impl; [|exact Hall]. intros a Ha; unfold tle in Ha; cbn [fst] in Ha; lia. }
      apply Forall_forall. intros e He. rewrite Forall_forall in Hall'. apply Hall'.
      change (In e (filter (fun e => P (snd e)) ((d1, k1) :: l))) in He. apply filter_In in He. tauto.
Qed.
Lemma tsort_filter (P : key -> bool) E :
  filter (fun e => P (snd e)) (tsort E) = tsort (filter (fun e => P (fst e)) E).
Proof.
  induction E as [|e E IH] using rev_ind; [reflexivity|].
  rewrite tsort_snoc, filter_tinsert by apply tsort_sorted. rewrite filter_app. cbn [filter].
  destruct (P (fst e)); [rewrite tsort_snoc, IH; reflexivity|rewrite app_nil_r; exact IH].
Qed.
Lemma tsort_premove k E : tremove k (tsort E) = tsort (premove k E).
Proof. unfold tremove, premove. apply (tsort_filter (fun x => negb (key_eqb x k))). Qed.
Lemma tsort_nil E : tsort E = [] -> E = [].
Proof.
  destruct E as [|e E] using rev_ind; [reflexivity|]. rewrite tsort_snoc. intros H. exfalso.
  assert (Hin : In (c_deadline (snd e), fst e) (tinsert (c_deadline (snd e)) (fst e) (tsort E))) by (apply tinsert_In; left; reflexivity).
  rewrite H in Hin. exact Hin.
Qed.

(* ---------- misc ---------- *)
Lemma filter_true {A} (l : list A) : filter (fun _ => true) l = l.
Proof. induction l as [|x l IH]; cbn; [reflexivity|f_equal; exact IH]. Qed.
Lemma last_opt_In l k : last_opt l = Some k -> In k l.
Proof.
  induction l as [|x l IH]; cbn [last_opt]; [discriminate|]. destruct l as [|y l].
  - intros [= ->]; left; reflexivity.
  - intros H; right; apply IH; exact H.
Qed.
Lemma last_opt_None l : last_opt l = None -> l = [].
Proof.
  induction l as [|x l IH]; [reflexivity|]. cbn [last_opt]. destruct l as [|y l]; [discriminate|].
  intros H. apply IH in H. discriminate.
Qed.
