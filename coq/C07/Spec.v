(* C07/C08 specifications (definitions only, no proofs).
   1. astate / a_step : the abstract LRU cache - an entry list in store order plus a recency list;
      every derived index of the implementation model (trigger index, timeout index, counters) is gone.
      Eviction: while the cap is reached, drop the first-stored entry among those with the earliest deadline
      if that deadline has passed, else the tail of the recency list.
   2. mspec / m_step : the map specification of C07: key -> latest store, with rise/remove/clear; a store that
      cannot be carried out leaves the key unbound.
   3. Inv : mirror consistency of the four indexes and the counters of the implementation model. *)
From Coq Require Import NArith ZArith List Bool.
From CppcmsV Require Import C07.Defs.
Import ListNotations.
Local Open Scope N_scope.

(* ------------------------------------------------------------------------------------------ *)
(* 1. abstract LRU cache                                                                        *)
(* ------------------------------------------------------------------------------------------ *)
Record astate := mkA {
  a_ent : list (key * container);   (* live entries, in store order (oldest first) *)
  a_lru : list key;                 (* recency: most recently stored or hit first *)
  a_gen : N;
  a_lim : N
}.

Definition abs (s : state) : astate := mkA (primary s) (lru s) (gen s) (limit s).

Definition a_delete (k : key) (a : astate) : astate :=
  mkA (premove k (a_ent a)) (kremove k (a_lru a)) (a_gen a) (a_lim a).

(* entries sorted by deadline, equal deadlines in store order *)
Definition tsort (E : list (key * container)) : list (Z * key) :=
  fold_left (fun acc e => tinsert (c_deadline (snd e)) (fst e) acc) E [].

Definition a_victim (now : Z) (a : astate) : option key :=
  match tsort (a_ent a) with
  | (d, k) :: _ => if (d <? now)%Z then Some k else last_opt (a_lru a)
  | [] => last_opt (a_lru a)
  end.

Definition a_size (a : astate) : N := N.of_nat (length (a_ent a)).

Fixpoint a_evict (fuel : nat) (now : Z) (nem : list bool) (a : astate) : astate :=
  let pressure := match nem with b :: _ => b | [] => false end in
  if (0 <? a_size a) && (pressure || ((a_lim a <=? a_size a) && (0 <? a_lim a))) then
    match fuel with
    | O => a
    | S f => match a_victim now a with
             | Some k => a_evict f now (tl nem) (a_delete k a)
             | None => a
             end
    end
  else a.

Definition a_clear (a : astate) : astate := mkA [] [] (a_gen a) (a_lim a).

Definition a_store (now : Z) (k : key) (v : list N) (tin : list key) (d : Z) (g : option N)
                   (f : fault) (nem : list bool) (a : astate) : astate :=
  match f with
  | FDropBefore => a_delete k a
  | FDropAfterDelete => a_delete k a
  | FClear b => mkA [] [] (if b then bump g (a_gen a) else a_gen a) (a_lim a)
  | FNone =>
      let a1 := a_delete k a in
      let a2 := a_evict (S (length (a_ent a1))) now nem a1 in
      let c := mkC v (store_trigs k tin) d (match g with Some x => x | None => a_gen a end) in
      mkA (a_ent a2 ++ [(k, c)]) (k :: a_lru a2) (bump g (a_gen a)) (a_lim a)
  end.

Definition a_fetch (now : Z) (k : key) (a : astate) : astate * out :=
  match pfind k (a_ent a) with
  | None => (a, OMiss)
  | Some c =>
      if (c_deadline c <? now)%Z then (a, OMiss)
      else (mkA (a_ent a) (k :: kremove k (a_lru a)) (a_gen a) (a_lim a),
            OHit (c_data c) (c_trigs c) (c_deadline c) (c_gen c))
  end.

Definition has_trig (t : key) (e : key * container) : bool := kmem t (c_trigs (snd e)).

(* rise: every entry that carries the trigger goes, the others stay in order *)
Definition a_rise (t : key) (a : astate) : astate :=
  let E' := filter (fun e => negb (has_trig t e)) (a_ent a) in
  mkA E' (filter (fun k => match pfind k E' with Some _ => true | None => false end) (a_lru a)) (a_gen a) (a_lim a).

Definition a_step (now : Z) (o : op) (a : astate) : Z * astate * out :=
  match o with
  | Store k v tin d g f nem => (now, a_store now k v tin d g f nem a, ONone)
  | Fetch k => let (a', r) := a_fetch now k a in (now, a', r)
  | Rise t => (now, a_rise t a, ONone)
  | Remove k => (now, a_delete k a, ONone)
  | Clear => (now, a_clear a, ONone)
  | Tick n => (n, a, ONone)
  end.

Fixpoint sum_trigs (E : list (key * container)) : nat :=
  match E with
  | [] => O
  | e :: r => (length (c_trigs (snd e)) + sum_trigs r)%nat
  end.

Definition a_stats (a : astate) : N * N := (N.of_nat (length (a_ent a)), N.of_nat (sum_trigs (a_ent a))).

Fixpoint a_run (now : Z) (ops : list op) (a : astate) : Z * astate * list answer :=
  match ops with
  | [] => (now, a, [])
  | o :: r =>
      let '(now1, a1, x) := a_step now o a in
      let '(now2, a2, l) := a_run now1 r a1 in
      (now2, a2, (x, a_stats a1) :: l)
  end.

Definition a_init (lim : N) : astate := mkA [] [] 0 lim.

(* ------------------------------------------------------------------------------------------ *)
(* 2. the map specification of C07                                                              *)
(* ------------------------------------------------------------------------------------------ *)
Definition mspec := key -> option container.
Definition m_empty : mspec := fun _ => None.
Definition m_upd (M : mspec) (k : key) (v : option container) : mspec :=
  fun k' => if key_eqb k' k then v else M k'.
Definition m_rise (t : key) (M : mspec) : mspec :=
  fun k' => match M k' with
            | Some c => if kmem t (c_trigs c) then None else Some c
            | None => None
            end.
Definition m_fetch (now : Z) (k : key) (M : mspec) : out :=
  match M k with
  | Some c => if (c_deadline c <? now)%Z then OMiss else OHit (c_data c) (c_trigs c) (c_deadline c) (c_gen c)
  | None => OMiss
  end.

(* the generation counter is part of the specification state; a store that the allocator lets through
   (FNone) or aborts late (FClear true) consumes a number when no explicit generation is given *)
Definition m_gen (g : option N) (f : fault) (cur : N) : N :=
  match f with
  | FNone => bump g cur
  | FClear true => bump g cur
  | _ => cur
  end.

(* what a store call leaves in the specification map.  A store that goes through binds the key to the new
   entry.  A store that cannot be carried out must not leave older data behind: when the value cannot be
   copied (FDropBefore) or the size test fires (FDropAfterDelete) the key is unbound - every later fetch of
   it misses until the next store that goes through; when the allocator fails while the entry is being
   linked (FClear) the whole map is dropped. *)
Definition m_store (M : mspec) (k : key) (c : container) (f : fault) : mspec :=
  match f with
  | FNone => m_upd M k (Some c)
  | FDropBefore => m_upd M k None
  | FDropAfterDelete => m_upd M k None
  | FClear _ => m_empty
  end.

Definition m_step (now : Z) (o : op) (Mg : mspec * N) : Z * (mspec * N) :=
  let (M, cur) := Mg in
  match o with
  | Store k v tin d g f _ =>
      (now, (m_store M k (mkC v (store_trigs k tin) d (match g with Some x => x | None => cur end)) f, m_gen g f cur))
  | Fetch _ => (now, Mg)
  | Rise t => (now, (m_rise t M, cur))
  | Remove k => (now, (m_upd M k None, cur))
  | Clear => (now, (m_empty, cur))
  | Tick n => (n, Mg)
  end.

Fixpoint m_run (now : Z) (ops : list op) (Mg : mspec * N) : Z * (mspec * N) :=
  match ops with
  | [] => (now, Mg)
  | o :: r => let (now1, Mg1) := m_step now o Mg in m_run now1 r Mg1
  end.

(* hypotheses on histories *)
(* the store went through *)
Definition store_ok (f : fault) : bool := match f with FNone => true | _ => false end.
Definition op_no_fault (o : op) : Prop :=
  match o with Store _ _ _ _ _ f nem => f = FNone /\ nem = [] | _ => True end.

(* ------------------------------------------------------------------------------------------ *)
(* 3. mirror consistency of the implementation model                                            *)
(* ------------------------------------------------------------------------------------------ *)
Definition ne (l : list key) : option (list key) := match l with [] => None | _ => Some l end.
(* the entry keys linked under trigger t, most recently stored first *)
Definition trig_keys (t : key) (E : list (key * container)) : list key :=
  rev (map fst (filter (has_trig t) E)).

Record Inv (s : state) : Prop := mkInv {
  inv_keys : NoDup (map fst (primary s));
  inv_timeout : timeout s = tsort (primary s);
  inv_trnames : NoDup (map fst (triggers s));
  inv_trig : forall t, tfind t (triggers s) = ne (trig_keys t (primary s));
  inv_lru_nodup : NoDup (lru s);
  inv_lru : forall k, In k (lru s) <-> In k (map fst (primary s));
  inv_size : size s = N.of_nat (length (primary s));
  inv_tcount : tcount s = N.of_nat (sum_trigs (primary s));
  inv_wf : forall k c, In (k, c) (primary s) -> NoDup (c_trigs c) /\ In k (c_trigs c);
  inv_err : err s = false
}.
