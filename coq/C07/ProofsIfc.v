(* C07: cache_interface / triggers_recorder model (Ifc.v): every interface operation is one operation of the cache
   back end (so all base theorems apply to interface histories), an attached recorder receives exactly the names
   handed to add_trigger while it was attached, the page trigger set holds every name added since the last reset,
   and a stored page is invalidated by raising any of them. *)
From CppcmsV Require Import Base.Tac C07.Defs C07.Spec C07.Util C07.ProofsInv C07.MapSpec C07.ProofsSpec C07.Ifc.
Local Open Scope N_scope.

(* ---------- add_trigger ---------- *)
Lemma i_add_all_spec ts : forall st,
  i_add_all ts st = mkI (i_cache st) (rev ts ++ i_page st) (map (app (rev ts)) (i_recs st)) (i_gz st).
Proof.
  induction ts as [|t ts IH]; intros st; cbn [i_add_all fold_left rev app].
  - destruct st as [c p r g]; cbn [i_cache i_page i_recs i_gz]. rewrite map_id. reflexivity.
  - change (fold_left (fun st t => i_add t st) ts (i_add t st)) with (i_add_all ts (i_add t st)).
    rewrite IH. unfold i_add; cbn [i_cache i_page i_recs i_gz]. rewrite <- app_assoc. cbn [app]. f_equal.
    rewrite map_map. apply map_ext. intros l. rewrite <- app_assoc. reflexivity.
Qed.

Lemma fetch_out_cases now k s : (exists v trs d g, snd (fetch now k s) = OHit v trs d g) \/ snd (fetch now k s) = OMiss.
Proof.
  unfold fetch. destruct (pfind k (primary s)) as [c|]; [|right; reflexivity].
  destruct (c_deadline c <? now)%Z; [right; reflexivity|left; cbn [snd]; eauto].
Qed.

(* ---------- every interface step is one step of the cache back end ---------- *)
Lemma i_step_base now o st :
  fst (fst (i_step now o st)) = fst (fst (step now (i_base_op now o st) (i_cache st))) /\
  i_cache (snd (fst (i_step now o st))) = snd (fst (step now (i_base_op now o st) (i_cache st))).
Proof.
  destruct o as [k v trigs secs notr|k notr|t|t| | |n| | |k gz|k data secs| |k trigs secs notr]; cbn [i_step i_base_op step fst snd]; try (split; reflexivity).
  - destruct notr; cbn [fst snd i_set_cache i_cache]; [split; reflexivity|].
    rewrite i_add_all_spec. cbn [i_add i_cache]. split; reflexivity.
  - destruct (fetch now k (i_cache st)) as [c' r]. destruct r; cbn [fst snd]; [|split; reflexivity|split; reflexivity].
    destruct notr; [split; reflexivity|]. rewrite i_add_all_spec. split; reflexivity.
  - destruct (i_recs st); split; reflexivity.
  - destruct (fetch now (page_key gz k) (i_cache st)) as [c' r]. destruct r; split; reflexivity.
  - destruct notr; cbn [fst snd i_set_cache i_cache]; [split; reflexivity|].
    rewrite i_add_all_spec. cbn [i_add i_cache]. split; reflexivity.
Qed.

Lemma i_step_inv now o st : Inv (i_cache st) -> Inv (i_cache (snd (fst (i_step now o st)))).
Proof. intros I. rewrite (proj2 (i_step_base now o st)). apply step_ref; exact I. Qed.

(* the projection of an interface history to the history of the cache back end *)
Fixpoint i_project (now : Z) (ops : list iop) (st : istate) : list op :=
  match ops with
  | [] => []
  | o :: r => i_base_op now o st :: i_project (fst (fst (i_step now o st))) r (snd (fst (i_step now o st)))
  end.

Lemma i_run_cons now o r st :
  i_run now (o :: r) st =
  (fst (fst (i_run (fst (fst (i_step now o st))) r (snd (fst (i_step now o st))))),
   snd (fst (i_run (fst (fst (i_step now o st))) r (snd (fst (i_step now o st))))),
   (snd (i_step now o st), stats (i_cache (snd (fst (i_step now o st))))) ::
     snd (i_run (fst (fst (i_step now o st))) r (snd (fst (i_step now o st))))).
Proof.
  cbn [i_run]. destruct (i_step now o st) as [[now1 st1] a]. cbn [fst snd].
  destruct (i_run now1 r st1) as [[now2 st2] l]. reflexivity.
Qed.
Lemma run_cons now o r s :
  run now (o :: r) s =
  (fst (fst (run (fst (fst (step now o s))) r (snd (fst (step now o s))))),
   snd (fst (run (fst (fst (step now o s))) r (snd (fst (step now o s))))),
   (snd (step now o s), stats (snd (fst (step now o s)))) :: snd (run (fst (fst (step now o s))) r (snd (fst (step now o s))))).
Proof.
  cbn [run]. destruct (step now o s) as [[now1 s1] a]. cbn [fst snd].
  destruct (run now1 r s1) as [[now2 s2] l]. reflexivity.
Qed.

(* clock, final cache state and the stats after every operation of an interface run are those of the projected run *)
Lemma i_run_project ops : forall now st,
  fst (fst (i_run now ops st)) = fst (fst (run now (i_project now ops st) (i_cache st))) /\
  i_cache (snd (fst (i_run now ops st))) = snd (fst (run now (i_project now ops st) (i_cache st))) /\
  map snd (snd (i_run now ops st)) = map snd (snd (run now (i_project now ops st) (i_cache st))).
Proof.
  induction ops as [|o r IH]; intros now st; [repeat split|].
  rewrite i_run_cons. cbn [i_project]. rewrite run_cons. cbn [fst snd map].
  destruct (i_step_base now o st) as [E1 E2]. rewrite <- E1, <- E2.
  destruct (IH (fst (fst (i_step now o st))) (snd (fst (i_step now o st)))) as (H1 & H2 & H3).
  repeat split; [exact H1|exact H2|rewrite H3; reflexivity].
Qed.

(* an interface hit returns the value of the hit of the back end, a miss is a miss *)
Lemma i_step_out_fetch now k notr st :
  snd (i_step now (IFetch k notr) st) = match snd (fetch now k (i_cache st)) with OHit v _ _ _ => IHit v | _ => IMiss end.
Proof.
  cbn [i_step]. destruct (fetch now k (i_cache st)) as [c' r]. destruct r; reflexivity.
Qed.
Lemma i_step_out_fetch_page now k gz st :
  snd (i_step now (IFetchPage k gz) st) = match snd (fetch now (page_key gz k) (i_cache st)) with OHit v _ _ _ => IHit v | _ => IMiss end.
Proof.
  cbn [i_step]. destruct (fetch now (page_key gz k) (i_cache st)) as [c' r]. destruct r; reflexivity.
Qed.

(* ---------- what a step does to the page set and to the recorders ---------- *)
Definition plain (o : iop) : bool :=
  match o with IAttach | IDetach | INewRequest => false | _ => true end.

Lemma i_step_recs now o st : plain o = true ->
  i_recs (snd (fst (i_step now o st))) = map (app (i_added now o st)) (i_recs st).
Proof.
  intros Hp.
  destruct o as [k v trigs secs notr|k notr|t|t| | |n| | |k gz|k data secs| |k trigs secs notr]; cbn [plain] in Hp; try discriminate;
    cbn [i_step i_added fst snd i_recs i_set_cache i_add]; try (rewrite map_id; reflexivity).
  - destruct notr; cbn [i_recs i_set_cache]; [rewrite map_id; reflexivity|].
    rewrite i_add_all_spec. cbn [i_add i_recs]. rewrite map_map. apply map_ext. intros l. reflexivity.
  - destruct (fetch now k (i_cache st)) as [c' r]. cbn [snd].
    destruct r as [v trs d g| |]; cbn [fst snd i_recs i_set_cache]; [|destruct notr; rewrite map_id; reflexivity..].
    destruct notr; [cbn [i_recs i_set_cache]; rewrite map_id; reflexivity|]. rewrite i_add_all_spec. reflexivity.
  - reflexivity.
  - destruct (fetch now (page_key gz k) (i_cache st)) as [c' r]. destruct r; cbn [fst snd i_recs i_set_cache]; rewrite map_id; reflexivity.
  - reflexivity.
  - destruct notr; cbn [i_recs i_set_cache]; [rewrite map_id; reflexivity|].
    rewrite i_add_all_spec. cbn [i_add i_recs]. rewrite map_map. apply map_ext. intros l. reflexivity.
Qed.

Lemma i_step_page now o st : is_reset o = false ->
  i_page (snd (fst (i_step now o st))) = i_added now o st ++ i_page st.
Proof.
  intros Hp.
  destruct o as [k v trigs secs notr|k notr|t|t| | |n| | |k gz|k data secs| |k trigs secs notr]; cbn [is_reset] in Hp; try discriminate;
    cbn [i_step i_added fst snd i_page i_set_cache i_add app]; try reflexivity.
  - destruct notr; cbn [i_page i_set_cache]; [reflexivity|].
    rewrite i_add_all_spec. cbn [i_add i_page]. reflexivity.
  - destruct (fetch now k (i_cache st)) as [c' r]. cbn [snd].
    destruct r as [v trs d g| |]; cbn [fst snd i_page i_set_cache]; [|destruct notr; reflexivity..].
    destruct notr; [reflexivity|]. rewrite i_add_all_spec. reflexivity.
  - destruct (i_recs st); reflexivity.
  - destruct (fetch now (page_key gz k) (i_cache st)) as [c' r]. destruct r; reflexivity.
  - destruct notr; cbn [i_page i_set_cache]; [reflexivity|].
    rewrite i_add_all_spec. cbn [i_add i_page]. reflexivity.
Qed.

(* the page trigger set holds every name added since the last reset *)
Lemma page_collects_l ops : forall now st, forallb (fun o => negb (is_reset o)) ops = true ->
  i_page (snd (fst (i_run now ops st))) = i_log now ops st ++ i_page st.
Proof.
  induction ops as [|o r IH]; intros now st Hall; [reflexivity|].
  cbn [forallb] in Hall. apply andb_true_iff in Hall. destruct Hall as [H1 H2].
  rewrite i_run_cons. cbn [fst snd i_log]. rewrite IH by exact H2.
  rewrite i_step_page by (destruct (is_reset o); [discriminate|reflexivity]). rewrite app_assoc. reflexivity.
Qed.

(* recorders that were attached before ops started and are not detached by ops receive exactly i_log *)
Lemma skipn_map_app {A} (f : A -> A) n (l : list A) : skipn n (map f l) = map f (skipn n l).
Proof. revert l; induction n as [|n IH]; intros [|x l]; cbn [skipn map]; auto. Qed.

Lemma recs_frame ops : forall now st d, depth_ok d ops -> (d <= length (i_recs st))%nat ->
  exists fresh, length fresh = depth_after d ops /\
    i_recs (snd (fst (i_run now ops st))) = fresh ++ map (app (i_log now ops st)) (skipn d (i_recs st)).
Proof.
  induction ops as [|o r IH]; intros now st d Hd Hlen.
  - exists (firstn d (i_recs st)). split; [cbn [depth_after]; rewrite firstn_length; lia|].
    cbn [i_run fst snd i_log]. rewrite map_id. symmetry; apply firstn_skipn.
  - rewrite i_run_cons. cbn [fst snd i_log].
    destruct (plain o) eqn:Ep.
    + assert (Hd' : depth_ok d r) by (destruct o; cbn [plain] in Ep; try discriminate; exact Hd).
      assert (Ha : depth_after d (o :: r) = depth_after d r) by (destruct o; cbn [plain] in Ep; try discriminate; reflexivity).
      destruct (IH (fst (fst (i_step now o st))) (snd (fst (i_step now o st))) d Hd') as (fresh & Hf & Hr).
      { rewrite i_step_recs by exact Ep. rewrite map_length. exact Hlen. }
      exists fresh. split; [rewrite Ha; exact Hf|]. rewrite Hr. f_equal.
      rewrite i_step_recs by exact Ep. rewrite skipn_map_app, map_map. apply map_ext. intros l. rewrite app_assoc. reflexivity.
    + destruct o; cbn [plain] in Ep; try discriminate; cbn [depth_ok depth_after] in *.
      * (* attach *)
        destruct (IH (fst (fst (i_step now IAttach st))) (snd (fst (i_step now IAttach st))) (S d) Hd) as (fresh & Hf & Hr).
        { cbn [i_step fst snd i_recs length]. lia. }
        exists fresh. split; [exact Hf|]. rewrite Hr. cbn [i_step fst snd i_recs skipn i_added]. rewrite app_nil_r. reflexivity.
      * (* detach *)
        destruct d as [|d']; [contradiction|].
        destruct (i_recs st) as [|x rest] eqn:Er; [cbn [length] in Hlen; lia|].
        assert (Es : i_recs (snd (fst (i_step now IDetach st))) = rest) by (cbn [i_step]; rewrite Er; reflexivity).
        destruct (IH (fst (fst (i_step now IDetach st))) (snd (fst (i_step now IDetach st))) d' Hd) as (fresh & Hf & Hr).
        { rewrite Es. cbn [length] in Hlen. lia. }
        exists fresh. split; [exact Hf|]. rewrite Hr, Es. cbn [skipn i_added]. rewrite app_nil_r. reflexivity.
      * contradiction.
Qed.

(* a recorder returns exactly the names handed to add_trigger between its attach and its detach *)
Theorem recorder_collects_l now st ops :
  depth_ok 0 ops -> depth_after 0 ops = O ->
  let st1 := snd (fst (i_step now IAttach st)) in
  let r := i_run now ops st1 in
  snd (i_step (fst (fst r)) IDetach (snd (fst r))) = IRec (i_log now ops st1).
Proof.
  intros Hd Ha st1 r.
  destruct (recs_frame ops now st1 0 Hd) as (fresh & Hf & Hr); [lia|].
  rewrite Ha in Hf. destruct fresh; [|discriminate]. cbn [app skipn] in Hr. fold r in Hr.
  cbn [i_step]. rewrite Hr. unfold st1. cbn [i_step fst snd i_recs map]. rewrite app_nil_r. reflexivity.
Qed.

(* ---------- a stored entry is invalidated by raising any of its triggers ---------- *)
Lemma store_then_rise_misses now now' k v tin d g s t : Inv s -> In t (k :: tin) ->
  snd (fetch now' k (rise t (store now k v tin d g FNone [] s))) = OMiss.
Proof.
  intros I Ht.
  destruct (store_ref now k v tin d g FNone [] s I) as [I1 E1].
  destruct (rise_ref t (store now k v tin d g FNone [] s) I1) as [I2 E2].
  unfold fetch.
  change (primary (rise t (store now k v tin d g FNone [] s))) with (a_ent (abs (rise t (store now k v tin d g FNone [] s)))).
  rewrite E2. unfold a_rise; cbn [a_ent].
  rewrite pfind_filter by (exact (inv_keys _ I1)).
  change (primary (store now k v tin d g FNone [] s)) with (a_ent (abs (store now k v tin d g FNone [] s))).
  rewrite E1. unfold a_store; cbn [a_ent]. rewrite pfind_app, a_store_nokey. cbn [pfind]. rewrite key_eqb_refl.
  unfold has_trig; cbn [snd c_trigs].
  assert (Hk : kmem t (store_trigs k tin) = true).
  { apply kmem_In. apply store_trigs_In. destruct Ht as [<-|Ht]; [left; reflexivity|right; exact Ht]. }
  rewrite Hk. reflexivity.
Qed.

(* the headline: whatever was recorded while the page was built (ops: no reset), the stored page is gone after
   raising any recorded name, the names already in the page set before, or the page key *)
Theorem page_invalidated_by_recorded_trigger_l now st ops k data secs t gz' :
  Inv (i_cache st) -> forallb (fun o => negb (is_reset o)) ops = true ->
  let r := i_run now ops st in
  let now1 := fst (fst r) in
  In t (k :: i_log now ops st ++ i_page st) ->
  let st2 := snd (fst (i_step now1 (IStorePage k data secs) (snd (fst r)))) in
  let st3 := snd (fst (i_step now1 (IRise t) st2)) in
  gz' = i_gz (snd (fst r)) ->
  snd (i_step now1 (IFetchPage k gz') st3) = IMiss.
Proof.
  intros I Hops r now1 Ht st2 st3 Hgz.
  rewrite i_step_out_fetch_page. unfold st3, st2. cbn [i_step fst snd i_set_cache i_cache i_add i_page i_gz].
  rewrite Hgz.
  assert (I1 : Inv (i_cache (snd (fst r)))).
  { unfold r. destruct (i_run_project ops now st) as (_ & H2 & _). rewrite H2.
    apply (run_ref (i_project now ops st) now (i_cache st) I). }
  rewrite store_then_rise_misses; [reflexivity|exact I1|].
  unfold r. rewrite page_collects_l by exact Hops.
  destruct Ht as [<-|Ht]; [right; left; reflexivity|right; right; exact Ht].
Qed.

(* a frame stored through the interface carries the given triggers and its key; raising any makes it miss *)
Theorem frame_invalidated_by_trigger_l now st k v trigs secs notr t notr' :
  Inv (i_cache st) -> In t (k :: trigs) ->
  let st2 := snd (fst (i_step now (IStore k v trigs secs notr) st)) in
  let st3 := snd (fst (i_step now (IRise t) st2)) in
  snd (i_step now (IFetch k notr') st3) = IMiss.
Proof.
  intros I Ht st2 st3. rewrite i_step_out_fetch. unfold st3, st2.
  cbn [i_step fst snd i_set_cache i_cache].
  destruct notr; cbn [i_cache i_set_cache].
  - rewrite store_then_rise_misses; [reflexivity|exact I|exact Ht].
  - rewrite i_add_all_spec. cbn [i_add i_cache]. rewrite store_then_rise_misses; [reflexivity|exact I|exact Ht].
Qed.

(* a frame whose value cannot be copied into the shared segment: whatever was cached under the key before, the next
   fetch through the interface misses; its triggers were still handed to add_trigger (i_added, recorder_collects) *)
Theorem failed_frame_store_misses_l now st k trigs secs notr notr' :
  Inv (i_cache st) ->
  let st2 := snd (fst (i_step now (IStoreFail k trigs secs notr) st)) in
  snd (i_step now (IFetch k notr') st2) = IMiss.
Proof.
  intros I st2. rewrite i_step_out_fetch. unfold st2. cbn [i_step fst snd i_set_cache i_cache].
  assert (H : forall s, Inv s -> snd (fetch now k (store now k [] trigs (deadtime now secs) None FDropBefore [] s)) = OMiss).
  { intros s Is. unfold store, fetch. destruct (delete_node_ref k s Is) as [_ E].
    change (primary (delete_node k s)) with (a_ent (abs (delete_node k s))). rewrite E. unfold a_delete; cbn [a_ent].
    rewrite pfind_premove, key_eqb_refl. reflexivity. }
  destruct notr; cbn [i_cache i_set_cache].
  - rewrite H by exact I. reflexivity.
  - rewrite i_add_all_spec. cbn [i_add i_cache]. rewrite H by exact I. reflexivity.
Qed.
