(* C15: executable model of cppcms::util::escape / urlencode / urldecode (src/util.cpp) and
   cppcms::b64url (src/base64.cpp).  Bytes are N (< 256 by hypothesis), strings are list N.
   No proofs here: this file must keep compiling (and extracting) when a proof breaks. *)
From Coq Require Import NArith List Bool.
Import ListNotations.
Local Open Scope N_scope.

(* ---------- HTML escape ---------- *)
Definition esc1 (c : N) : list N :=
  if c =? 60 then [38;108;116;59]            (* <  -> &lt;   *)
  else if c =? 62 then [38;103;116;59]       (* >  -> &gt;   *)
  else if c =? 38 then [38;97;109;112;59]    (* &  -> &amp;  *)
  else if c =? 34 then [38;113;117;111;116;59] (* double quote -> quot entity *)
  else if c =? 39 then [38;35;51;57;59]      (* single quote -> numeric entity 39 *)
  else [c].
Definition escape (s : list N) : list N := flat_map esc1 s.

(* streaming variant: escape(begin,end,streambuf): the sink accepts `room` bytes and then fails;
   an entity is written with one sputn, which for the sinks used (std::stringbuf, cppcms buffers,
   our bounded test sink) is all-or-prefix; the function reports failure (-1) as soon as a put is
   short.  Result: (bytes that reached the sink, ok flag). *)
Fixpoint escape_stream (room : nat) (s : list N) : list N * bool :=
  match s with
  | [] => ([], true)
  | c :: r =>
      let e := esc1 c in
      if Nat.leb (length e) room then
        let (o, ok) := escape_stream (room - length e) r in (e ++ o, ok)
      else (firstn room e, false)
  end.

Fixpoint starts (p s : list N) : bool :=
  match p, s with
  | [], _ => true
  | x :: p', y :: s' => (x =? y) && starts p' s'
  | _ :: _, [] => false
  end.

(* text after an ampersand -> (character, number of bytes to skip) *)
Definition entity_at (r : list N) : option (N * nat) :=
  if starts [108;116;59] r then Some (60, 3%nat)
  else if starts [103;116;59] r then Some (62, 3%nat)
  else if starts [97;109;112;59] r then Some (38, 4%nat)
  else if starts [113;117;111;116;59] r then Some (34, 5%nat)
  else if starts [35;51;57;59] r then Some (39, 4%nat)
  else None.

(* specification-side inverse (what a browser does with the five entities) *)
Fixpoint unescape_aux (skip : nat) (s : list N) : list N :=
  match s with
  | [] => []
  | c :: r =>
      match skip with
      | S k => unescape_aux k r
      | O => if c =? 38 then
               match entity_at r with
               | Some (ch, n) => ch :: unescape_aux n r
               | None => c :: unescape_aux 0 r
               end
             else c :: unescape_aux 0 r
      end
  end.
Definition unescape := unescape_aux 0.

Fixpoint amps_ok (s : list N) : bool :=
  match s with
  | [] => true
  | c :: r => (if c =? 38 then match entity_at r with Some _ => true | None => false end else true)
              && amps_ok r
  end.
Definition markup_free (c : N) : bool :=
  negb ((c =? 60) || (c =? 62) || (c =? 34) || (c =? 39)).

(* ---------- URL encoding ---------- *)
Definition unreserved (c : N) : bool :=
  ((97 <=? c) && (c <=? 122)) || ((65 <=? c) && (c <=? 90)) || ((48 <=? c) && (c <=? 57))
  || (c =? 45) || (c =? 95) || (c =? 46) || (c =? 126).
Definition hexdig (n : N) : N := if n <? 10 then 48 + n else 87 + n.
Definition urlenc1 (c : N) : list N :=
  if unreserved c then [c] else [37; hexdig (c / 16); hexdig (c mod 16)].
Definition urlencode (s : list N) : list N := flat_map urlenc1 s.

Definition xdigit (c : N) : bool :=
  ((48 <=? c) && (c <=? 57)) || ((97 <=? c) && (c <=? 102)) || ((65 <=? c) && (c <=? 70)).
Definition hexval (c : N) : N :=
  if c <=? 57 then c - 48 else if c <=? 70 then c - 55 else c - 87.

Fixpoint urldecode (s : list N) : list N :=
  match s with
  | [] => []
  | c :: r =>
      if c =? 43 then 32 :: urldecode r
      else if c =? 37 then
        match r with
        | h1 :: h2 :: r2 =>
            if xdigit h1 && xdigit h2 then (hexval h1 * 16 + hexval h2) :: urldecode r2
            else urldecode r
        | _ => urldecode r
        end
      else c :: urldecode r
  end.

Definition urlenc_alphabet (c : N) : bool :=
  unreserved c || (c =? 37).

(* ---------- base64url ---------- *)
Definition alphabet : list N :=
  [65;66;67;68;69;70;71;72;73;74;75;76;77;78;79;80;81;82;83;84;85;86;87;88;89;90;
   97;98;99;100;101;102;103;104;105;106;107;108;109;110;111;112;113;114;115;116;117;118;119;120;121;122;
   48;49;50;51;52;53;54;55;56;57;45;95].
Definition enc6 (i : N) : N := nth (N.to_nat i) alphabet 0.
Definition dec6 (c : N) : N :=
  if (65 <=? c) && (c <=? 90) then c - 65
  else if (97 <=? c) && (c <=? 122) then 26 + c - 97
  else if (48 <=? c) && (c <=? 57) then 52 + c - 48
  else if c =? 45 then 62
  else if c =? 95 then 63
  else 0.

Definition benc3 (a b c : N) : list N :=
  [enc6 (a / 4); enc6 ((a mod 4) * 16 + b / 16); enc6 ((b mod 16) * 4 + c / 64); enc6 (c mod 64)].
Definition benc2 (a b : N) : list N :=
  [enc6 (a / 4); enc6 ((a mod 4) * 16 + b / 16); enc6 ((b mod 16) * 4)].
Definition benc1 (a : N) : list N :=
  [enc6 (a / 4); enc6 ((a mod 4) * 16)].

Fixpoint b64encode (s : list N) : list N :=
  match s with
  | a :: b :: c :: r => benc3 a b c ++ b64encode r
  | [a; b] => benc2 a b
  | [a] => benc1 a
  | [] => []
  end.

(* bdecode: the three output bytes computed from four 6-bit values (unsigned char truncation explicit) *)
Definition bdec_o0 (i0 i1 : N) : N := (i0 * 4) mod 256 + i1 / 16.
Definition bdec_o1 (i1 i2 : N) : N := (i1 * 16) mod 256 + i2 / 4.
Definition bdec_o2 (i2 i3 : N) : N := (i2 mod 4) * 64 + i3.

Fixpoint b64decode (s : list N) : list N :=
  match s with
  | a :: b :: c :: d :: r =>
      [bdec_o0 (dec6 a) (dec6 b); bdec_o1 (dec6 b) (dec6 c); bdec_o2 (dec6 c) (dec6 d)] ++ b64decode r
  | [a; b; c] => [bdec_o0 (dec6 a) (dec6 b); bdec_o1 (dec6 b) (dec6 c)]
  | [a; b] => [bdec_o0 (dec6 a) (dec6 b)]
  | [a] => (* len%4==1: bdecode(...,1) falls into the last branch and writes three bytes *)
      [bdec_o0 (dec6 a) 0; 0; 0]
  | [] => []
  end.

Definition encoded_size (n : N) : N :=
  match n mod 3 with 1 => n / 3 * 4 + 2 | 2 => n / 3 * 4 + 3 | _ => n / 3 * 4 end.
(* None = -1 (invalid) *)
Definition decoded_size (n : N) : option N :=
  match n mod 4 with
  | 1 => None | 2 => Some (n / 4 * 3 + 1) | 3 => Some (n / 4 * 3 + 2) | _ => Some (n / 4 * 3) end.

(* std::string wrappers *)
Definition encode_str (s : list N) : list N := b64encode s.
Definition decode_str (input : list N) : option (list N) :=
  match decoded_size (N.of_nat (length input)) with
  | None => None
  | Some _ => Some (b64decode input)
  end.

Definition b64_alphabet_ok (c : N) : bool :=
  ((65 <=? c) && (c <=? 90)) || ((97 <=? c) && (c <=? 122)) || ((48 <=? c) && (c <=? 57))
  || (c =? 45) || (c =? 95).
