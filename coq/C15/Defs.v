(* C15: executable model of cppcms::util::escape / urlencode / urldecode (src/util.cpp) and
   cppcms::b64url (src/base64.cpp).  Bytes are N (< 256 by hypothesis), strings are list N.
   No proofs here: this file must keep compiling (and extracting) when a proof breaks. *)
From Coq Require Import NArith List Bool.
Import ListNotations.
Local Open Scope N_scope.

(* ---------- HTML escape ---------- *)
Definition esc1 (c : N) : list N :=
  if c =? 60 then [38;108;116;59]            (* <  -> &lt;   *)
  else if c =? 62 then [38;103;116;59]       (* >  -> &gt;   *)
  else if c =? 38 then [38;97;109;112;59]    (* &  -> &amp;  *)
  else if c =? 34 then [38;113;117;111;116;59] (* double quote -> quot entity *)
  else if c =? 39 then [38;35;51;57;59]      (* single quote -> numeric entity 39 *)
  else [c].
Definition escape (s : list N) : list N := flat_map esc1 s.

(* streaming variant: escape(begin,end,streambuf): the sink accepts `room` bytes and then fails;
   an entity is written with one sputn, which for the sinks used (std::stringbuf, cppcms buffers,
   our bounded test sink) is all-or-prefix; the function reports failure (-1) as soon as a put is
   short.  Result: (bytes that reached the sink, ok flag). *)
Fixpoint escape_stream (room : nat) (s : list N) : list N * bool :=
  match s with
  | [] => ([], true)
  | c :: r =>
      let e := esc1 c in
      if Nat.leb (length e) room then
        let (o, ok) := escape_stream (room - length e) r in (e ++ o, ok)
      else (firstn room e, false)
  end.

Fixpoint starts (p s : list N) : bool :=
  match p, s with
  | [], _ => true
  | x :: p', y :: s' => (x =? y) && starts p' s'
  | _ :: _, [] => false
  end.

(* text after an ampersand -> (character, number of bytes to skip) *)
Definition entity_at (r : list N) : option (N * nat) :=
  if starts [108;116;59] r then Some (60, 3%nat)
  else if starts [103;116;59] r then Some (62, 3%nat)
  else if starts [97;109;112;59] r then Some (38, 4%nat)
  else if starts [113;117;111;116;59] r then Some (34, 5%nat)
  else if starts [35;51;57;59] r then Some (39, 4%nat)
  else None.

(* specification-side inverse (what a browser does with the five entities) *)
Fixpoint unescape_aux (skip : nat) (s : list N) : list N :=
  match s with
  | [] => []
  | c :: r =>
      match skip with
      | S k => unescape_aux k r
      | O => if c =? 38 then
               match entity_at r with
               | Some (ch, n) => ch :: unescape_aux n r
               | None => c :: unescape_aux 0 r
               end
             else c :: unescape_aux 0 r
      end
  end.
Definition unescape := unescape_aux 0.

Fixpoint amps_ok (s : list N) : bool :=
  match s with
  | [] => true
  | c :: r => (if c =? 38 then match entity_at r with Some _ => true | None => false end else true)
              && amps_ok r
  end.
Definition markup_free (c : N) : bool :=
  negb ((c =? 60) || (c =? 62) || (c =? 34) || (c =? 39)).

(* ---------- URL encoding ---------- *)
Definition unreserved (c : N) : bool :=
  ((97 <=? c) && (c <=? 122)) || ((65 <=? c) && (c <=? 90)) || ((48 <=? c) && (c <=? 57))
  || (c =? 45) || (c =? 95) || (c =? 46) || (c =? 126).
Definition hexdig (n : N) : N := if n <? 10 then 48 + n else 87 + n.
Definition urlenc1 (c : N) : list N :=
  if unreserved c then [c] else [37; hexdig (c / 16); hexdig (c mod 16)].
Definition urlencode (s : list N) : list N := flat_map urlenc1 s.

Definition xdigit (c : N) : bool :=
  ((48 <=? c) && (c <=? 57)) || ((97 <=? c) && (c <=? 102)) || ((65 <=? c) && (c <=? 70)).
Definition hexval (c : N) : N :=
  if c <=? 57 then c - 48 else if c <=? 70 then c - 55 else c - 87.

Fixpoint urldecode (s : list N) : list N :=
  match s with
  | [] => []
  | c :: r =>
      if c =? 43 then 32 :: urldecode r
      else if c =? 37 then
        match r with
        | h1 :: h2 :: r2 =>
            if xdigit h1 && xdigit h2 then (hexval h1 * 16 + hexval h2) :: urldecode r2
            else urldecode r
        | _ => urldecode r
        end
      else c :: urldecode r
  end.

Definition urlenc_alphabet (c : N) : bool :=
  unreserved c || (c =? 37).

(* ---------- base64url ---------- *)
Definition alphabet : list N :=
  [65;66;67;68;69;70;71;72;73;74;75;76;77;78;79;80;81;82;83;84;85;86;87;88;89;90;
   97;98;99;100;101;102;103;104;105;106;107;108;109;110;111;112;113;114;115;116;117;118;119;120;121;122;
   48;49;50;51;52;53;54;55;56;57;45;95].
Definition enc6 (i : N) : N := nth (N.to_nat i) alphabet 0.
Definition dec6 (c : N) : N :=
  if (65 <=? c) && (c <=? 90) then c - 65
  else if (97 <=? c) && (c <=? 122) then 26 + c - 97
  else if (48 <=? c) && (c <=? 57) then 52 + c - 48
  else if c =? 45 then 62
  else if c =? 95 then 63
  else 0.

Definition benc3 (a b c : N) : list N :=
  [enc6 (a / 4); enc6 ((a mod 4) * 16 + b / 16); enc6 ((b mod 16) * 4 + c / 64); enc6 (c mod 64)].
Definition benc2 (a b : N) : list N :=
  [enc6 (a / 4); enc6 ((a mod 4) * 16 + b / 16); enc6 ((b mod 16) * 4)].
Definition benc1 (a : N) : list N :=
  [enc6 (a / 4); enc6 ((a mod 4) * 16)].

Fixpoint b64encode (s : list N) : list N :=
  match s with
  | a :: b :: c :: r => benc3 a b c ++ b64encode r
  | [a; b] => benc2 a b
  | [a] => benc1 a
  | [] => []
  end.

(* bdecode: the three output bytes computed from four 6-bit values (unsigned char truncation explicit) *)
Definition bdec_o0 (i0 i1 : N) : N := (i0 * 4) mod 256 + i1 / 16.
Definition bdec_o1 (i1 i2 : N) : N := (i1 * 16) mod 256 + i2 / 4.
Definition bdec_o2 (i2 i3 : N) : N := (i2 mod 4) * 64 + i3.

Fixpoint b64decode (s : list N) : list N :=
  match s with
  | a :: b :: c :: d :: r =>
      [bdec_o0 (dec6 a) (dec6 b); bdec_o1 (dec6 b) (dec6 c); bdec_o2 (dec6 c) (dec6 d)] ++ b64decode r
  | [a; b; c] => [bdec_o0 (dec6 a) (dec6 b); bdec_o1 (dec6 b) (dec6 c)]
  | [a; b] => [bdec_o0 (dec6 a) (dec6 b)]
  | [a] => (* len%4==1: bdecode(...,1) falls into the last branch and writes three bytes *)
      [bdec_o0 (dec6 a) 0; 0; 0]
  | [] => []
  end.

Definition encoded_size (n : N) : N :=
  match n mod 3 with 1 => n / 3 * 4 + 2 | 2 => n / 3 * 4 + 3 | _ => n / 3 * 4 end.
(* None = -1 (invalid) *)
Definition decoded_size (n : N) : option N :=
  match n mod 4 with
  | 1 => None | 2 => Some (n / 4 * 3 + 1) | 3 => Some (n / 4 * 3 + 2) | _ => Some (n / 4 * 3) end.

(* std::string wrappers *)
Definition encode_str (s : list N) : list N := b64encode s.
Definition decode_str (input : list N) : option (list N) :=
  match decoded_size (N.of_nat (length input)) with
  | None => None
  | Some _ => Some (b64decode input)
  end.

Definition b64_alphabet_ok (c : N) : bool :=
  ((65 <=? c) && (c <=? 90)) || ((97 <=? c) && (c <=? 122)) || ((48 <=? c) && (c <=? 57))
  || (c =? 45) || (c =? 95).

(* ---------- base64url: canonical encodings ----------
   decode() never looks at whether a byte is in the alphabet (encode_8_to_6 maps every other byte to 0, the
   value of the letter A) and never checks the unused low bits of the last symbol of a 2- or 3-symbol tail.
   canonical = alphabet only, length mod 4 <> 1, unused bits of the last symbol zero. *)
Definition last_sym_ok (s : list N) : bool :=
  match N.of_nat (length s) mod 4 with
  | 2 => dec6 (last s 0) mod 16 =? 0
  | 3 => dec6 (last s 0) mod 4 =? 0
  | _ => true
  end.
Definition b64_canonical (s : list N) : bool :=
  forallb b64_alphabet_ok s && negb (N.of_nat (length s) mod 4 =? 1) && last_sym_ok s.

(* ---------- template filters: util::filterbuf<Filter,128> (cppcms/steal_buf.h) ----------
   The filter object replaces the stream buffer of the output stream by a filterbuf with a 128-byte put
   area, lets the value stream itself (any number of write()/put() calls = pieces), and releases.
   std::streambuf::xsputn copies into the put area and calls overflow(c) with the next byte when it is full;
   filterbuf::overflow converts the whole put area into the real sink (convert = F), empties it and stores c;
   release() converts what is left.  State: (bytes that reached the real sink, content of the put area). *)
Definition fb_cap : nat := 128.
Section Filterbuf.
  Variable F : list N -> list N.
  Definition fb_putc (st : list N * list N) (c : N) : list N * list N :=
    let (out, buf) := st in
    if Nat.ltb (length buf) fb_cap then (out, buf ++ [c]) else (out ++ F buf, [c]).
  Definition fb_write (st : list N * list N) (piece : list N) : list N * list N := fold_left fb_putc piece st.
  Definition fb_release (st : list N * list N) : list N := let (out, buf) := st in out ++ F buf.
  Definition fb_run (pieces : list (list N)) : list N := fb_release (fold_left fb_write pieces ([], [])).
End Filterbuf.
Definition filter_escape (pieces : list (list N)) : list N := fb_run escape pieces.
Definition filter_urlencode (pieces : list (list N)) : list N := fb_run urlencode pieces.
(* base64_urlencode records the whole value in a growing steal_buffer and encodes it at the end
   (it has to: the block codec is not a homomorphism for concatenation) *)
Definition filter_base64 (pieces : list (list N)) : list N := b64encode (concat pieces).

(* ---------- form widgets: the context a value slot is rendered in (src/form.cpp) ----------
   every value/id slot of an attribute is written as  value=" escape(v) "  (always the double quote), every
   text slot follows a > that closed the opening tag. *)
Inductive slot_ctx := AttrDq | ElemText.
Definition slot_open (k : slot_ctx) : list N := match k with AttrDq => [61; 34] | ElemText => [62] end.
Definition slot_close (k : slot_ctx) : list N := match k with AttrDq => [34] | ElemText => [60] end.
Definition slot_end (k : slot_ctx) : N := match k with AttrDq => 34 | ElemText => 60 end.
Definition render_slot (k : slot_ctx) (v : list N) : list N := slot_open k ++ escape v ++ slot_close k.
(* what an HTML tokenizer does with such a slot: the value runs up to the first terminator byte *)
Fixpoint take_until (d : N) (s : list N) : list N * list N :=
  match s with
  | [] => ([], [])
  | c :: r => if c =? d then ([], s) else let (a, b) := take_until d r in (c :: a, b)
  end.
(* kind numbers = position in FORM_KINDS of checks/C15.py *)
Definition widget_ctx (kind : N) : slot_ctx :=
  match kind with
  | 0 | 1 | 3 | 7 | 8 | 9 | 12 | 15 => AttrDq      (* text value (2x), hidden value, checkbox id, submit value, select/multi/radio id *)
  | _ => ElemText                                   (* textarea value, message, help, error message, option texts *)
  end.

(* ---------- the same filter buffer in front of a sink that accepts `room` bytes and then fails ----------
   convert() into the bounded sink writes everything, or what still fits (then the sink is full) and reports
   failure; filterbuf::write then sets failbit on the stream and does NOT empty the put area; every later
   write()/put() of the value is blocked by the stream's sentry; release() converts the put area once more. *)
Section FilterbufSink.
  Variable F : list N -> list N.
  Variable room : nat.
  Definition fbs_conv (sink chunk : list N) : list N * bool :=
    let o := F chunk in
    if Nat.leb (length sink + length o) room then (sink ++ o, true) else (firstn room (sink ++ o), false).
  (* state: (bytes in the sink, put area, failbit) *)
  Definition fbs_putc (st : list N * list N * bool) (c : N) : list N * list N * bool :=
    match st with
    | (sink, buf, failed) =>
        if failed then st
        else if Nat.ltb (length buf) fb_cap then (sink, buf ++ [c], false)
        else let (sink', ok) := fbs_conv sink buf in
             if ok then (sink', [c], false) else (sink', buf, true)
    end.
  Definition fbs_write (st : list N * list N * bool) (piece : list N) := fold_left fbs_putc piece st.
  (* release(): when the stream has failed the put area (still holding what could not be delivered) is NOT converted
     again (repaired in 4925ae6) and -1 is returned; otherwise the rest is converted *)
  Definition fbs_release (st : list N * list N * bool) : list N * bool :=
    match st with
    | (sink, buf, failed) => if failed then (sink, false) else fbs_conv sink buf
    end.
  Definition fbs_run (pieces : list (list N)) : list N * bool :=
    fbs_release (fold_left fbs_write pieces ([], [], false)).
  (* the same when the stream has ALREADY failed before the filter: steal() keeps the error state across the
     re-seating of the buffer (repaired in 80bcd05), so the sentry blocks every write of the value *)
  Definition fbs_run_failed (pieces : list (list N)) : list N * bool :=
    fbs_release (fold_left fbs_write pieces ([], [], true)).
End FilterbufSink.
Definition filter_escape_sink (room : nat) (pieces : list (list N)) := fbs_run escape room pieces.
(* util::urlencode(b,e,streambuf&) writes byte by byte through a std::ostreambuf_iterator, which stops writing at the
   first refused byte and remembers the failure; the iterator that did the writing is handed back by urlencode_impl
   (repaired in dd45f86: before, failed() was asked of an untouched copy and the call always returned 0).
   So the sink gets the first `room` bytes and the call reports failure iff something did not fit. *)
Definition urlencode_stream (room : nat) (s : list N) : list N * bool :=
  let o := urlencode s in (firstn room o, Nat.leb (length o) room).
Definition filter_urlencode_sink (room : nat) (pieces : list (list N)) : list N * bool := fbs_run urlencode room pieces.
(* base64_urlencode: whole value recorded, then written block by block; a short write stops the stream *)
Definition filter_base64_sink (room : nat) (pieces : list (list N)) : list N * bool :=
  let o := b64encode (concat pieces) in (firstn room o, Nat.leb (length o) room).

(* ---------- form widgets: the rendering skeleton (src/form.cpp) of the single-slot widgets ----------
   widgets as the harness sets them up: name "n", no id, no message/help/error, valid, enabled, no extra attributes.
   x = as_xhtml, t = as_table (else as_p).  e = the text written into the value slot (the code writes escape(value)). *)
From Coq Require Import String Ascii.
Fixpoint s2b (s : string) : list N :=
  match s with EmptyString => [] | String a r => N_of_ascii a :: s2b r end.

(* writers: a piece of rendering code is a function that prepends what it writes to what is written after it
   (out << a << b  is  a >> b) *)
Definition W := list N -> list N.
Definition lit (s : string) : W := fun k => s2b s ++ k.
Definition raw (l : list N) : W := fun k => l ++ k.
Definition nop : W := fun k => k.
Definition wseq (a b : W) : W := fun k => a (b k).
Infix ">>" := wseq (at level 61, right associativity).
Definition when (c : bool) (a : W) : W := if c then a else nop.
Fixpoint wall (A : Type) (f : A -> W) (l : list A) : W :=
  match l with [] => nop | a :: r => f a >> wall A f r end.

(* base_widget::render; msg / err / help = the escaped text of that slot when the widget has one *)
Definition base_render_l (lbl t : bool) (msg err help : option (list N)) (first second : W) : W :=
  (if t then lit "<tr><th>" else lit "<p>") >>
  (match msg with
   | Some m => (if lbl then lit "<label for=""i"">" >> raw m >> lit "</label>" else raw m) >> when (negb t) (lit "&nbsp;")
   | None => when t (lit "&nbsp;") end) >>
  when t (lit "</th><td>") >>
  (match err with Some m => lit "<span class=""cppcms_form_error"">" >> raw m >> lit "</span> "
                | None => when t (lit "&nbsp;") end) >>
  lit "<span class=""cppcms_form_input"">" >> first >> second >> lit "</span>" >>
  (match help with Some m => lit "<span class=""cppcms_form_help"">" >> raw m >> lit "</span>" | None => nop end) >>
  (if t then lit "</td></tr>" else lit "</p>") >> raw [10].
Definition base_render_g := base_render_l false.      (* the widget has no id: the message is written without a label *)
Definition base_render (t : bool) (first second : W) : W := base_render_g t None None None first second.
(* base_widget::render_attributes with name n, and what text::render_attributes adds (nothing) *)
Definition w_attrs : W := lit "name=""n"" ".
(* base_html_input::render_input, first and second part *)
Definition html_input_first (type : string) (value_part : W) : W :=
  lit "<input type=""" >> lit type >> lit """ " >> w_attrs >> value_part.
Definition html_input_second (x : bool) : W := if x then lit " />" else lit " >".
(* text::render_value (also hidden), checkbox::render_value (unchecked) / submit::render_value *)
Definition text_value_part (e : list N) : W := lit " value=""" >> raw e >> lit """".
Definition ident_value_part (e : list N) : W := lit "value=""" >> raw e >> lit """ ".
(* textarea::render_input *)
Definition textarea_first : W := lit "<textarea " >> w_attrs.
Definition textarea_second (e : list N) : W := lit ">" >> raw e >> lit "</textarea>".
(* boolean attribute: selected="selected" in XHTML, selected in HTML *)
Definition bool_attr (x : bool) (name : string) : W :=
  if x then lit name >> lit "=""" >> lit name >> lit """ " else lit name >> lit " ".
(* select::render_input / select_multiple::render_input; an element = (escaped id, escaped text, selected) *)
Definition option_el (x : bool) (el : list N * list N * bool) : W :=
  match el with
  | (id, txt, sel) => lit "<option value=""" >> raw id >> lit """ " >> when sel (bool_attr x "selected") >>
                      lit ">" >> raw txt >> lit "</option>" >> raw [10]
  end.
Definition select_first : W := lit "<select " >> w_attrs.
Definition select_multi_first (x : bool) : W :=
  (if x then lit "<select multiple=""multiple"" " else lit "<select multiple ") >> w_attrs.
Definition select_second (x : bool) (els : list (list N * list N * bool)) : W :=
  lit " >" >> raw [10] >> wall _ (option_el x) els >> lit "</select>".
(* radio::render_input (vertical) *)
Definition radio_el (x : bool) (el : list N * list N * bool) : W :=
  match el with
  | (id, txt, sel) => lit "<input type=""radio"" value=""" >> raw id >> lit """ " >> w_attrs >>
                      when sel (bool_attr x "checked") >> (if x then lit "/> " else lit "> ") >>
                      raw txt >> (if x then lit "<br/>" else lit "<br>") >> raw [10]
  end.
Definition radio_first : W := lit "<div class=""cppcms_radio"" ".
Definition radio_second (x : bool) (els : list (list N * list N * bool)) : W :=
  lit " >" >> raw [10] >> wall _ (radio_el x) els >> lit "</div>".
Definition text_unset_first : W := html_input_first "text" nop.
(* the same for a widget with id i: render_attributes writes the id before the name *)
Definition text_unset_first_id : W := lit "<input type=""text"" id=""i"" " >> w_attrs.

(* the 19 slots as the harness sets the widgets up (FORM_KINDS of checks/C15.py; the fixed ids/texts are the ones
   the harness passes, including the ids that select_multiple generates when add(text, bool) is chosen) *)
Definition render_w (kind : N) (x t : bool) (e : list N) : option W :=
  match kind with
  | 0 => Some (base_render t (html_input_first "text" (text_value_part e)) (html_input_second x))
  | 1 => Some (html_input_first "text" (text_value_part e))                  (* render_input alone: first part only *)
  | 2 => Some (base_render t textarea_first (textarea_second e))
  | 3 => Some (html_input_first "hidden" (text_value_part e) >> html_input_second x)   (* hidden::render: no frame *)
  | 4 => Some (base_render_g t (Some e) None None text_unset_first (html_input_second x))
  | 5 => Some (base_render_g t None None (Some e) text_unset_first (html_input_second x))
  | 6 => Some (base_render_g t None (Some e) None text_unset_first (html_input_second x))
  | 7 => Some (base_render t (html_input_first "checkbox" (ident_value_part e)) (html_input_second x))
  | 8 => Some (base_render t (html_input_first "submit" (ident_value_part e)) (html_input_second x))
  | 9 => Some (base_render t select_first (select_second x [(e, s2b "shown", false); (s2b "o2", s2b "other", false)]))
  | 10 => Some (base_render t select_first (select_second x [(s2b "id1", e, true); (s2b "o2", s2b "other", false)]))
  | 11 => Some (base_render t select_first (select_second x [(s2b "id1", e, false)]))
  | 12 => Some (base_render t (select_multi_first x) (select_second x [(e, s2b "shown", true); (s2b "1", s2b "other", true)]))
  | 13 => Some (base_render t (select_multi_first x) (select_second x [(s2b "0", e, true); (s2b "o2", s2b "z", true)]))
  | 14 => Some (base_render t (select_multi_first x) (select_second x [(s2b "0", e, true)]))
  | 15 => Some (base_render t radio_first (radio_second x [(e, s2b "shown", false); (s2b "o2", s2b "other", false)]))
  | 16 => Some (base_render t radio_first (radio_second x [(s2b "id1", e, false); (s2b "o2", s2b "other", true)]))
  | 17 => Some (base_render t radio_first (radio_second x [(s2b "id1", e, false)]))
  | 18 => Some (base_render_l true t (Some e) None None text_unset_first_id (html_input_second x))
  | _ => None
  end.
Definition render_b (kind : N) (x t : bool) (e : list N) : option (list N) :=
  match render_w kind x t e with Some w => Some (w []) | None => None end.
(* mode of the harness: bit 0 = as_xhtml, bit 1 = as_table *)
Definition render_full (kind mode : N) (v : list N) : option (list N) :=
  render_b kind (N.odd mode) (N.odd (mode / 2)) (escape v).
Definition render_supported (kind : N) : bool := kind <? 19.

(* position of the value slot: where the renderings of two different slot texts first differ *)
Fixpoint first_diff (a b : list N) : nat :=
  match a, b with
  | x :: a', y :: b' => if x =? y then S (first_diff a' b') else O
  | _, _ => O
  end.
Definition render_or_nil (o : option (list N)) : list N := match o with Some h => h | None => [] end.
Definition slot_pos (kind : N) (x t : bool) : nat :=
  first_diff (render_or_nil (render_b kind x t [])) (render_or_nil (render_b kind x t [0])).
Fixpoint ends_with (p s : list N) : bool :=
  match s with
  | [] => match p with [] => true | _ => false end
  | _ :: s' => if Nat.eqb (List.length s) (List.length p) then starts p s else ends_with p s'
  end.

(* ---------- the error state of the OUTPUT STREAM after a filter ----------
   filterbuf::steal/release and steal_buffer::steal/release re-seat the stream buffer with std::basic_ios::rdbuf(sb),
   which clears the error state; since 80bcd05 they save rdstate() before and set it again afterwards.  So after a
   filter the stream is good exactly when it was good before and no conversion into the sink failed (filterbuf::write
   sets failbit; release() also returns -1).  base64_urlencode writes to the stream after the release of its
   steal_buffer: a short write there sets badbit in the stream itself. *)
Definition filter_escape_stream_ok (room : nat) (pieces : list (list N)) : bool := snd (filter_escape_sink room pieces).
Definition filter_urlencode_stream_ok (room : nat) (pieces : list (list N)) : bool := snd (filter_urlencode_sink room pieces).
Definition filter_base64_stream_ok (room : nat) (pieces : list (list N)) : bool := snd (filter_base64_sink room pieces).
(* a filter applied to a stream that had already failed (the result does not depend on the room of the sink: Props.v);
   base64_urlencode: nothing reaches the steal_buffer, the encoding of the empty string is written (nothing) *)
Definition filter_on_failed_stream (F : list N -> list N) (v : list N) : list N * bool := fbs_run_failed F 0 [v].
Definition filter_base64_on_failed_stream (v : list N) : list N * bool := (b64encode [], false).

(* ---------- sinks whose failure need not be permanent ----------
   A sink is an accept-function: acc idx len req = how many bytes of the request it takes (capped at the length of the
   request), where idx = number of calls made so far (one call = one sputn / one sputc, refused ones included), len = bytes
   in the sink so far.  A call is refused when fewer bytes than requested are taken (sputn returns a short count, sputc EOF). *)
Section GenSink.
  Variable acc : nat -> nat -> list N -> nat.
  (* a sequence of write requests, made until the first one is refused: (calls made, sink content, all accepted) *)
  Fixpoint calls_gs (idx : nat) (sink : list N) (reqs : list (list N)) : nat * list N * bool :=
    match reqs with
    | [] => (idx, sink, true)
    | q :: r =>
        let k := Nat.min (acc idx (List.length sink) q) (List.length q) in
        if Nat.eqb k (List.length q) then calls_gs (S idx) (sink ++ q) r
        else (S idx, sink ++ firstn k q, false)
    end.
  (* util::escape(b,e,streambuf&): one request per input byte (the entity with one sputn, any other byte with sputc),
     return -1 at the first refused request.  util::urlencode(b,e,streambuf&): every output byte is one sputc through an
     ostreambuf_iterator, which stops writing after the first refused byte. *)
  Definition escape_gs (s : list N) : list N * bool :=
    match calls_gs 0 [] (map esc1 s) with (_, sink, ok) => (sink, ok) end.
  Definition urlencode_gs (s : list N) : list N * bool :=
    match calls_gs 0 [] (map (fun b => [b]) (urlencode s)) with (_, sink, ok) => (sink, ok) end.

  (* filterbuf<_,128> in front of such a sink; R chunk = the requests convert() makes for a chunk.
     state: (calls made, sink, put area, failbit).  After a failed flush the put area is not emptied, every later write of
     the value is blocked by the failed stream, and release() leaves the sink alone. *)
  Variable R : list N -> list (list N).
  Definition fbg_putc (st : nat * list N * list N * bool) (c : N) : nat * list N * list N * bool :=
    match st with
    | (idx, sink, buf, failed) =>
        if failed then st
        else if Nat.ltb (List.length buf) fb_cap then (idx, sink, buf ++ [c], false)
        else match calls_gs idx sink (R buf) with
             | (idx', sink', true) => (idx', sink', [c], false)
             | (idx', sink', false) => (idx', sink', buf, true)
             end
    end.
  Definition fbg_write (st : nat * list N * list N * bool) (piece : list N) := fold_left fbg_putc piece st.
  (* (sink, stream good afterwards, release() returned 0): a failed stream is left alone (repaired in 4925ae6: before,
     the put area was converted a second time) *)
  Definition fbg_release (st : nat * list N * list N * bool) : list N * bool * bool :=
    match st with
    | (idx, sink, buf, failed) =>
        if failed then (sink, false, false)
        else match calls_gs idx sink (R buf) with (_, sink', ok) => (sink', ok, ok) end
    end.
  Definition fbg_run (pieces : list (list N)) : list N * bool * bool :=
    fbg_release (fold_left fbg_write pieces (0%nat, [], [], false)).
End GenSink.
Definition R_escape (chunk : list N) : list (list N) := map esc1 chunk.
Definition R_urlencode (chunk : list N) : list (list N) := map (fun b => [b]) (urlencode chunk).
(* base64_urlencode: the recorded value is encoded and written with one ostream::write per 4-symbol block (the tail with
   2 or 3); a short write sets badbit and the stream drops the rest *)
Fixpoint chunks4 (fuel : nat) (l : list N) : list (list N) :=
  match fuel with
  | O => []
  | S f => match l with [] => [] | _ => firstn 4 l :: chunks4 f (skipn 4 l) end
  end.
Definition filter_base64_gs (acc : nat -> nat -> list N -> nat) (pieces : list (list N)) : list N * bool * bool :=
  let o := b64encode (List.concat pieces) in
  match calls_gs acc 0 [] (chunks4 (List.length o) o) with (_, sink, ok) => (sink, ok, ok) end.

(* the sinks of the harness: B room (accepts room bytes in total, writes prefixes), A budget (all-or-nothing per call
   within a byte budget: a call that does not fit is refused, later smaller ones are accepted), K k (call number k is refused
   once), T (every odd-numbered call is refused), P k m (call number k takes only its first m bytes) *)
Inductive sink_spec := SBounded (room : nat) | SAllOrNothing (budget : nat) | SKthFails (k : nat) | SAlternate
                     | SPartial (k m : nat).
Definition acc_of (sp : sink_spec) (idx len : nat) (req : list N) : nat :=
  match sp with
  | SBounded room => room - len
  | SAllOrNothing budget => if Nat.leb (len + List.length req) budget then List.length req else O
  | SKthFails k => if Nat.eqb idx k then O else List.length req
  | SAlternate => if Nat.odd idx then O else List.length req
  | SPartial k m => if Nat.eqb idx k then m else List.length req
  end.
