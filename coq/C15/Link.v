(* C15: the definitions regenerated from /repo's current source (coq/gen/Gen_util.v, Gen_b64.v) are
   the model's leaf functions.  Byte-indexed facts are finite sweeps (256 points, vm_compute) lifted
   by sweep256; the size formulas are proved for all sizes below 2^31 (the int return type). *)
From CppcmsV Require Import Base.Tac Base.CSem Base.CSemFacts Base.Sweep C15.Defs gen.Gen_util gen.Gen_b64.
Local Open Scope N_scope.

Definition zs2ns (l : list Z) : list N := map Z.to_N l.

Lemma link_escape_step b : b < 256 -> zs2ns (g_escape_step (Z.of_N b)) = esc1 b.
Proof.
  intros H. apply leqb_eq.
  apply (sweep256 (fun b => leqb (zs2ns (g_escape_step (Z.of_N b))) (esc1 b))); [vm_compute; reflexivity|exact H].
Qed.

Lemma link_urlencode_step b : b < 256 -> zs2ns (g_urlencode_step (Z.of_N b)) = urlenc1 b.
Proof.
  intros H. apply leqb_eq.
  apply (sweep256 (fun b => leqb (zs2ns (g_urlencode_step (Z.of_N b))) (urlenc1 b))); [vm_compute; reflexivity|exact H].
Qed.

(* xdigit takes a (signed) char *)
Lemma link_xdigit b : b < 256 -> g_xdigit (wraps 8 (Z.of_N b)) = xdigit b.
Proof.
  intros H. apply eqb_prop.
  apply (sweep256 (fun b => eqb (g_xdigit (wraps 8 (Z.of_N b))) (xdigit b))); [vm_compute; reflexivity|exact H].
Qed.

Lemma link_dec6 b : b < 256 -> Z.to_N (g_b64_dec6 (Z.of_N b)) = dec6 b.
Proof.
  intros H. apply N.eqb_eq.
  apply (sweep256 (fun b => Z.to_N (g_b64_dec6 (Z.of_N b)) =? dec6 b)); [vm_compute; reflexivity|exact H].
Qed.

Lemma link_alphabet : zs2ns g_b64_alphabet = alphabet ++ [0].
Proof. vm_compute. reflexivity. Qed.

Lemma link_encoded_size n : n < 2 ^ 30 ->
  g_b64_encoded_size (Z.of_N n) = Z.of_N (encoded_size n).
Proof.
  intros H. unfold g_b64_encoded_size, encoded_size.
  assert (0 <= Z.of_N n < 2 ^ 30)%Z as Hz by lia.
  rewrite Z.rem_mod_nonneg, Z.quot_div_nonneg by lia.
  change (2 ^ 30)%Z with 1073741824%Z in Hz.
  pose proof (N.mod_lt n 3 ltac:(lia)) as M.
  replace (Z.of_N n mod 3)%Z with (Z.of_N (n mod 3)) by lia.
  replace (Z.of_N n / 3)%Z with (Z.of_N (n / 3)) by lia.
  assert (0 <= Z.of_N (n / 3) * 3 < 1073741824)%Z as Hq by lia.
  generalize dependent (n / 3). intros q Hq.
  unwrap. destruct (n mod 3) as [|[[p|p|]|[p|p|]|]]; try lia; cbn [Z.eqb Z.of_N Pos.eqb]; unwrap; lia.
Qed.

Lemma link_decoded_size n : n < 2 ^ 30 ->
  g_b64_decoded_size (Z.of_N n) = match decoded_size n with Some d => Z.of_N d | None => (-1)%Z end.
Proof.
  intros H. unfold g_b64_decoded_size, decoded_size.
  assert (0 <= Z.of_N n < 2 ^ 30)%Z as Hz by lia.
  rewrite Z.rem_mod_nonneg, Z.quot_div_nonneg by lia.
  change (2 ^ 30)%Z with 1073741824%Z in Hz.
  pose proof (N.mod_lt n 4 ltac:(lia)) as M.
  replace (Z.of_N n mod 4)%Z with (Z.of_N (n mod 4)) by lia.
  replace (Z.of_N n / 4)%Z with (Z.of_N (n / 4)) by lia.
  assert (0 <= Z.of_N (n / 4) * 4 < 1073741824)%Z as Hq by lia.
  generalize dependent (n / 4). intros q Hq.
  unwrap. destruct (n mod 4) as [|[[p|p|]|[p|p|]|]]; try lia; cbn [Z.eqb Z.of_N Pos.eqb]; unwrap; lia.
Qed.
