(* C15: template filters (filterbuf<Filter,128>) stream = whole, and confinement of an escaped value
   inside the slot a form widget renders it in. *)
From CppcmsV Require Import Base.Tac Base.CSem Base.Sweep C15.Defs C15.Proofs.
Local Open Scope N_scope.

(* ------------------------------------------------------------------ A. filterbuf *)
Lemma additive_nil (F : list N -> list N) :
  (forall a b, F (a ++ b) = F a ++ F b) -> F [] = [].
Proof.
  intros H. pose proof (H [] []) as E. cbn [app] in E.
  apply (f_equal (@length N)) in E. rewrite app_length in E.
  destruct (F []) as [|x l]; [reflexivity|]. cbn [length] in E. lia.
Qed.

Lemma fb_putc_release (F : list N -> list N) :
  (forall a b, F (a ++ b) = F a ++ F b) ->
  forall st c, fb_release F (fb_putc F st c) = fb_release F st ++ F [c].
Proof.
  intros H [out buf] c. unfold fb_putc, fb_release.
  destruct (Nat.ltb (length buf) fb_cap).
  - rewrite H, app_assoc. reflexivity.
  - reflexivity.
Qed.

Lemma fb_write_release (F : list N -> list N) :
  (forall a b, F (a ++ b) = F a ++ F b) ->
  forall piece st, fb_release F (fb_write F st piece) = fb_release F st ++ F piece.
Proof.
  intros H piece. unfold fb_write. induction piece as [|c r IH]; intros st.
  - cbn [fold_left]. rewrite (additive_nil F H), app_nil_r. reflexivity.
  - cbn [fold_left]. rewrite IH, fb_putc_release by exact H.
    rewrite <- app_assoc, <- H. reflexivity.
Qed.

Lemma fb_pieces_release (F : list N -> list N) :
  (forall a b, F (a ++ b) = F a ++ F b) ->
  forall pieces st,
    fb_release F (fold_left (fb_write F) pieces st) = fb_release F st ++ F (concat pieces).
Proof.
  intros H pieces. induction pieces as [|p ps IH]; intros st.
  - cbn [fold_left concat]. rewrite (additive_nil F H), app_nil_r. reflexivity.
  - cbn [fold_left concat]. rewrite IH, fb_write_release by exact H.
    rewrite <- app_assoc, <- H. reflexivity.
Qed.

Lemma fb_run_additive (F : list N -> list N) :
  (forall a b, F (a ++ b) = F a ++ F b) -> forall pieces, fb_run F pieces = F (concat pieces).
Proof.
  intros H pieces. unfold fb_run. rewrite fb_pieces_release by exact H.
  unfold fb_release. rewrite (additive_nil F H). reflexivity.
Qed.

(* the put area never holds more than fb_cap bytes *)
Lemma fb_cap_pos : (1 <= fb_cap)%nat.
Proof. unfold fb_cap. lia. Qed.

Lemma fb_putc_bounded F st c :
  (length (snd st) <= fb_cap)%nat -> (length (snd (fb_putc F st c)) <= fb_cap)%nat.
Proof.
  destruct st as [out buf]. unfold fb_putc. cbn [snd]. intros Hb.
  destruct (Nat.ltb_spec (length buf) fb_cap) as [L|L]; cbn [snd].
  - rewrite app_length. cbn [length]. lia.
  - cbn [length]. exact fb_cap_pos.
Qed.

Lemma fb_write_bounded F piece : forall st,
  (length (snd st) <= fb_cap)%nat -> (length (snd (fb_write F st piece)) <= fb_cap)%nat.
Proof.
  unfold fb_write. induction piece as [|c r IH]; intros st Hb; cbn [fold_left].
  - exact Hb.
  - apply IH. apply fb_putc_bounded. exact Hb.
Qed.

Lemma fb_pieces_bounded F pieces : forall st,
  (length (snd st) <= fb_cap)%nat ->
  (length (snd (fold_left (fb_write F) pieces st)) <= fb_cap)%nat.
Proof.
  induction pieces as [|p ps IH]; intros st Hb; cbn [fold_left].
  - exact Hb.
  - apply IH. apply fb_write_bounded. exact Hb.
Qed.

Lemma fb_buf_bounded F pieces : (length (snd (fold_left (fb_write F) pieces ([], []))) <= fb_cap)%nat.
Proof. apply fb_pieces_bounded. cbn [snd length]. lia. Qed.

Lemma filter_escape_whole pieces : filter_escape pieces = escape (concat pieces).
Proof. unfold filter_escape. apply fb_run_additive. exact escape_app. Qed.

Lemma filter_urlencode_whole pieces : filter_urlencode pieces = urlencode (concat pieces).
Proof. unfold filter_urlencode. apply fb_run_additive. exact urlencode_app. Qed.

Lemma filter_base64_whole pieces : filter_base64 pieces = b64encode (concat pieces).
Proof. reflexivity. Qed.

(* why the base64 filter has to buffer the whole value *)
Lemma b64encode_not_additive : b64encode ([1] ++ [2]) <> b64encode [1] ++ b64encode [2].
Proof. vm_compute. discriminate. Qed.

Lemma filter_escape_neutral pieces :
  forallb markup_free (filter_escape pieces) = true /\ unescape (filter_escape pieces) = concat pieces.
Proof.
  rewrite filter_escape_whole. split; [apply escape_markup_free|apply unescape_escape].
Qed.

(* ------------------------------------------------------------------ B. slots *)
Lemma escape_no_byte d s : (d = 34 \/ d = 39 \/ d = 60 \/ d = 62) -> ~ In d (escape s).
Proof.
  intros Hd Hin.
  pose proof (escape_markup_free s) as M. rewrite forallb_forall in M.
  specialize (M d Hin). destruct Hd as [-> | [-> | [-> | ->]]]; vm_compute in M; discriminate.
Qed.

Lemma take_until_absent d a tail : ~ In d a -> take_until d (a ++ d :: tail) = (a, d :: tail).
Proof.
  induction a as [|c a IH]; intros Hn.
  - cbn [app take_until]. rewrite N.eqb_refl. reflexivity.
  - cbn [app take_until].
    destruct (N.eqb_spec c d) as [E|E]; [exfalso; apply Hn; left; exact E|].
    rewrite IH; [reflexivity|]. intros Hin. apply Hn. right. exact Hin.
Qed.

Lemma slot_close_end k : slot_close k = [slot_end k].
Proof. destruct k; reflexivity. Qed.

Lemma slot_end_cases k : slot_end k = 34 \/ slot_end k = 39 \/ slot_end k = 60 \/ slot_end k = 62.
Proof. destruct k; cbn [slot_end]; auto. Qed.

Lemma slot_confined k v tail :
  take_until (slot_end k) (escape v ++ slot_close k ++ tail) = (escape v, slot_close k ++ tail).
Proof.
  rewrite slot_close_end. cbn [app].
  apply take_until_absent. apply escape_no_byte. apply slot_end_cases.
Qed.

Lemma slot_value_recovered k v tail :
  unescape (fst (take_until (slot_end k) (escape v ++ slot_close k ++ tail))) = v.
Proof. rewrite slot_confined. cbn [fst]. apply unescape_escape. Qed.

Lemma render_slot_shape k v : render_slot k v = slot_open k ++ escape v ++ [slot_end k].
Proof. unfold render_slot. rewrite slot_close_end. reflexivity. Qed.

(* single-quoted attribute context (not used by the widgets) *)
Lemma squote_attr_confined v tail : take_until 39 (escape v ++ 39 :: tail) = (escape v, 39 :: tail).
Proof. apply take_until_absent. apply escape_no_byte. auto. Qed.

(* limit of escape: a value with a space survives unchanged, so an UNQUOTED attribute context would not
   confine it; the widgets never use that context *)
Lemma escape_unquoted_attr_not_confined : escape [97; 32; 111; 110; 120; 61; 49] = [97; 32; 111; 110; 120; 61; 49].
Proof. vm_compute. reflexivity. Qed.

Lemma widget_ctx_total kind : widget_ctx kind = AttrDq \/ widget_ctx kind = ElemText.
Proof. destruct (widget_ctx kind); auto. Qed.
