(* C15 -- HTML escaping neutralises all markup; URL and base64url codecs are exact inverses.
   This file holds only the property theorems, each closed by `exact <lemma>`; the proofs are in
   Proofs.v (model) and Link.v (generated-from-source leaf functions = model leaf functions). *)
From CppcmsV Require Import Base.Tac Base.CSem Base.Sweep C15.Defs C15.Proofs C15.Link gen.Gen_util gen.Gen_b64.
Local Open Scope N_scope.

(* 1. escape: no < > dquote squote in the output; every ampersand opens one of the five entities;
      un-escaping gives the original; escaping commutes with concatenation, hence every chunked
      or streamed path produces the same bytes as the string path *)
Theorem escape_no_markup : forall s, forallb markup_free (escape s) = true.
Proof. exact escape_markup_free. Qed.
Print Assumptions escape_no_markup.
Theorem escape_ampersands_are_entities : forall s, amps_ok (escape s) = true.
Proof. exact escape_amps_ok. Qed.
Print Assumptions escape_ampersands_are_entities.
Theorem unescape_escape_id : forall s, unescape (escape s) = s.
Proof. exact unescape_escape. Qed.
Print Assumptions unescape_escape_id.
Theorem escape_chunking_independent : forall chunks, escape (concat chunks) = concat (map escape chunks).
Proof. exact escape_concat. Qed.
Print Assumptions escape_chunking_independent.
Theorem escape_failing_sink_prefix : forall room s,
  exists rest, escape s = fst (escape_stream room s) ++ rest /\
               (snd (escape_stream room s) = true -> rest = []).
Proof. exact escape_stream_prefix. Qed.
Print Assumptions escape_failing_sink_prefix.
Example escape_nonvacuous : escape [60;97;38;39;34;62] <> [60;97;38;39;34;62] /\ unescape (escape [60;97;38;39;34;62]) = [60;97;38;39;34;62].
Proof. split; [vm_compute; discriminate|reflexivity]. Qed.

(* 2. urlencode / urldecode *)
Theorem urlencode_only_unreserved_and_percent : forall s, bytes_ok s -> forallb urlenc_alphabet (urlencode s) = true.
Proof. exact urlencode_alphabet. Qed.
Print Assumptions urlencode_only_unreserved_and_percent.
Theorem urldecode_inverts_urlencode : forall s, bytes_ok s -> urldecode (urlencode s) = s.
Proof. exact urldecode_urlencode. Qed.
Print Assumptions urldecode_inverts_urlencode.
Theorem urldecode_total_and_short : forall s, (length (urldecode s) <= length s)%nat.
Proof. exact urldecode_length. Qed.
Print Assumptions urldecode_total_and_short.

(* 3. base64url *)
Theorem b64_url_safe_alphabet : forall s, bytes_ok s -> forallb b64_alphabet_ok (b64encode s) = true.
Proof. exact b64_alphabet. Qed.
Print Assumptions b64_url_safe_alphabet.
Theorem b64_decode_inverts_encode : forall s, bytes_ok s -> b64decode (b64encode s) = s.
Proof. exact b64_decode_encode. Qed.
Print Assumptions b64_decode_inverts_encode.
Theorem b64_string_api_roundtrip : forall s, bytes_ok s -> decode_str (encode_str s) = Some s.
Proof. exact decode_str_encode_str. Qed.
Print Assumptions b64_string_api_roundtrip.
Theorem b64_encoded_size_exact : forall s, N.of_nat (length (b64encode s)) = encoded_size (N.of_nat (length s)).
Proof. exact encoded_size_exact. Qed.
Print Assumptions b64_encoded_size_exact.
Theorem b64_decoded_size_exact : forall s,
  match decoded_size (N.of_nat (length s)) with
  | Some d => N.of_nat (length (b64decode s)) = d
  | None => N.of_nat (length s) mod 4 = 1
  end.
Proof. exact decoded_size_exact. Qed.
Print Assumptions b64_decoded_size_exact.
Example b64_nonvacuous : b64encode [255;254;253;0] = [95;95;55;57;65;65] /\ decode_str [95;95;55;57;65;65] = Some [255;254;253;0].
Proof. split; vm_compute; reflexivity. Qed.

(* 4. tie: the functions regenerated from the current source are the model's leaf functions *)
Theorem tie_escape_switch : forall b, b < 256 -> zs2ns (g_escape_step (Z.of_N b)) = esc1 b.
Proof. exact link_escape_step. Qed.
Theorem tie_urlencode_body : forall b, b < 256 -> zs2ns (g_urlencode_step (Z.of_N b)) = urlenc1 b.
Proof. exact link_urlencode_step. Qed.
Theorem tie_xdigit : forall b, b < 256 -> g_xdigit (wraps 8 (Z.of_N b)) = xdigit b.
Proof. exact link_xdigit. Qed.
Theorem tie_b64_dec6 : forall b, b < 256 -> Z.to_N (g_b64_dec6 (Z.of_N b)) = dec6 b.
Proof. exact link_dec6. Qed.
Theorem tie_b64_alphabet : zs2ns g_b64_alphabet = alphabet ++ [0].
Proof. exact link_alphabet. Qed.
Theorem tie_b64_encoded_size : forall n, n < 2 ^ 30 -> g_b64_encoded_size (Z.of_N n) = Z.of_N (encoded_size n).
Proof. exact link_encoded_size. Qed.
Theorem tie_b64_decoded_size : forall n, n < 2 ^ 30 ->
  g_b64_decoded_size (Z.of_N n) = match decoded_size n with Some d => Z.of_N d | None => (-1)%Z end.
Proof. exact link_decoded_size. Qed.
Print Assumptions tie_b64_decoded_size.
