(* C15 -- HTML escaping neutralises all markup; URL and base64url codecs are exact inverses.
   This file holds only the property theorems, each closed by `exact <lemma>`; the proofs are in
   Proofs.v (model) and Link.v (generated-from-source leaf functions = model leaf functions). *)
From CppcmsV Require Import Base.Tac Base.CSem Base.Sweep C15.Defs C15.Proofs C15.ProofsUrl C15.ProofsB64 C15.ProofsFilter C15.ProofsSink C15.ProofsGSink C15.ProofsForm
  C15.Link C15.LinkLoops gen.Gen_util gen.Gen_b64 gen.Gen_c15x.
Local Open Scope N_scope.

(* 1. escape: no < > dquote squote in the output; every ampersand opens one of the five entities;
      un-escaping gives the original; escaping commutes with concatenation, hence every chunked
      or streamed path produces the same bytes as the string path *)
Theorem escape_no_markup : forall s, forallb markup_free (escape s) = true.
Proof. exact escape_markup_free. Qed.
Print Assumptions escape_no_markup.
Theorem escape_ampersands_are_entities : forall s, amps_ok (escape s) = true.
Proof. exact escape_amps_ok. Qed.
Print Assumptions escape_ampersands_are_entities.
Theorem unescape_escape_id : forall s, unescape (escape s) = s.
Proof. exact unescape_escape. Qed.
Print Assumptions unescape_escape_id.
Theorem escape_chunking_independent : forall chunks, escape (concat chunks) = concat (map escape chunks).
Proof. exact escape_concat. Qed.
Print Assumptions escape_chunking_independent.
Theorem escape_failing_sink_prefix : forall room s,
  exists rest, escape s = fst (escape_stream room s) ++ rest /\
               (snd (escape_stream room s) = true -> rest = []).
Proof. exact escape_stream_prefix. Qed.
Print Assumptions escape_failing_sink_prefix.
Example escape_nonvacuous : escape [60;97;38;39;34;62] <> [60;97;38;39;34;62] /\ unescape (escape [60;97;38;39;34;62]) = [60;97;38;39;34;62].
Proof. split; [vm_compute; discriminate|reflexivity]. Qed.

(* 2. urlencode / urldecode *)
Theorem urlencode_only_unreserved_and_percent : forall s, bytes_ok s -> forallb urlenc_alphabet (urlencode s) = true.
Proof. exact urlencode_alphabet. Qed.
Print Assumptions urlencode_only_unreserved_and_percent.
Theorem urldecode_inverts_urlencode : forall s, bytes_ok s -> urldecode (urlencode s) = s.
Proof. exact urldecode_urlencode. Qed.
Print Assumptions urldecode_inverts_urlencode.
Theorem urldecode_total_and_short : forall s, (length (urldecode s) <= length s)%nat.
Proof. exact urldecode_length. Qed.
Print Assumptions urldecode_total_and_short.

(* 3. base64url *)
Theorem b64_url_safe_alphabet : forall s, bytes_ok s -> forallb b64_alphabet_ok (b64encode s) = true.
Proof. exact b64_alphabet. Qed.
Print Assumptions b64_url_safe_alphabet.
Theorem b64_decode_inverts_encode : forall s, bytes_ok s -> b64decode (b64encode s) = s.
Proof. exact b64_decode_encode. Qed.
Print Assumptions b64_decode_inverts_encode.
Theorem b64_string_api_roundtrip : forall s, bytes_ok s -> decode_str (encode_str s) = Some s.
Proof. exact decode_str_encode_str. Qed.
Print Assumptions b64_string_api_roundtrip.
Theorem b64_encoded_size_exact : forall s, N.of_nat (length (b64encode s)) = encoded_size (N.of_nat (length s)).
Proof. exact encoded_size_exact. Qed.
Print Assumptions b64_encoded_size_exact.
Theorem b64_decoded_size_exact : forall s,
  match decoded_size (N.of_nat (length s)) with
  | Some d => N.of_nat (length (b64decode s)) = d
  | None => N.of_nat (length s) mod 4 = 1
  end.
Proof. exact decoded_size_exact. Qed.
Print Assumptions b64_decoded_size_exact.
Example b64_nonvacuous : b64encode [255;254;253;0] = [95;95;55;57;65;65] /\ decode_str [95;95;55;57;65;65] = Some [255;254;253;0].
Proof. split; vm_compute; reflexivity. Qed.

(* 4. tie: the functions regenerated from the current source are the model's leaf functions *)
Theorem tie_escape_switch : forall b, b < 256 -> zs2ns (g_escape_step (Z.of_N b)) = esc1 b.
Proof. exact link_escape_step. Qed.
Theorem tie_urlencode_body : forall b, b < 256 -> zs2ns (g_urlencode_step (Z.of_N b)) = urlenc1 b.
Proof. exact link_urlencode_step. Qed.
Theorem tie_xdigit : forall b, b < 256 -> g_xdigit (wraps 8 (Z.of_N b)) = xdigit b.
Proof. exact link_xdigit. Qed.
Theorem tie_b64_dec6 : forall b, b < 256 -> Z.to_N (g_b64_dec6 (Z.of_N b)) = dec6 b.
Proof. exact link_dec6. Qed.
Theorem tie_b64_alphabet : zs2ns g_b64_alphabet = alphabet ++ [0].
Proof. exact link_alphabet. Qed.
Theorem tie_b64_encoded_size : forall n, n < 2 ^ 30 -> g_b64_encoded_size (Z.of_N n) = Z.of_N (encoded_size n).
Proof. exact link_encoded_size. Qed.
Theorem tie_b64_decoded_size : forall n, n < 2 ^ 30 ->
  g_b64_decoded_size (Z.of_N n) = match decoded_size n with Some d => Z.of_N d | None => (-1)%Z end.
Proof. exact link_decoded_size. Qed.
Print Assumptions tie_b64_decoded_size.

(* 5. tie of the LOOPS: the loop bodies regenerated from the current source, iterated by the loop skeletons of
      LinkLoops.v, are the model functions for ALL byte strings (the hand model of these loops is no longer trusted;
      what is trusted is the skeleton = how the body is iterated, and the textual pre-processor of checks/C15.py) *)
Theorem tie_escape_string_loop : forall s, bytes_ok s -> g_loop g_escape_step s = escape s.
Proof. exact link_escape_loop. Qed.
Theorem tie_escape_streambuf_loop : forall s, bytes_ok s -> g_loop gx_escape_sb_step s = escape s.
Proof. exact link_escape_sb_loop. Qed.
Theorem tie_urlencode_loop : forall s, bytes_ok s -> g_loop g_urlencode_step s = urlencode s.
Proof. exact link_urlencode_loop. Qed.
Theorem tie_urldecode_loop : forall s, bytes_ok s -> g_urldecode s = urldecode s.
Proof. exact link_urldecode_loop. Qed.
Print Assumptions tie_urldecode_loop.
Theorem tie_b64_encode_loop : forall s, bytes_ok s -> g_b64encode s = b64encode s.
Proof. exact link_b64encode_loop. Qed.
Theorem tie_b64_decode_loop : forall s, bytes_ok s -> g_b64decode s = b64decode s.
Proof. exact link_b64decode_loop. Qed.
Print Assumptions tie_b64_decode_loop.
Theorem tie_b64_bencode_blocks : forall a b c, a < 256 -> b < 256 -> c < 256 ->
  zs2ns (g_benc_block (Z.of_N a) (Z.of_N b) (Z.of_N c) 3) = benc3 a b c /\
  (forall x, zs2ns (g_benc_block (Z.of_N a) (Z.of_N b) x 2) = benc2 a b) /\
  (forall x y, zs2ns (g_benc_block (Z.of_N a) x y 1) = benc1 a).
Proof. intros a b c Ha Hb Hc. split; [apply link_benc_block3; assumption|]. split; intros; [apply link_benc_block2|apply link_benc_block1]; assumption. Qed.
Example tie_loops_nonvacuous :
  g_urldecode [37;52;49;43;37;37;55;65] = [65;32;122] /\ g_b64encode [255;254;253;0] = [95;95;55;57;65;65] /\
  g_b64decode [95;95;55;57;65;65] = [255;254;253;0] /\ g_loop gx_escape_sb_step [60;97] = [38;108;116;59;97].
Proof. vm_compute. repeat split. Qed.

(* 6. template filters: a value streamed in any pieces through the 128-byte filter buffer = the filter of the whole *)
Theorem filterbuf_streaming_equals_whole : forall F : list N -> list N,
  (forall a b, F (a ++ b) = F a ++ F b) -> forall pieces, fb_run F pieces = F (concat pieces).
Proof. exact fb_run_additive. Qed.
Print Assumptions filterbuf_streaming_equals_whole.
Theorem filterbuf_put_area_bounded : forall F pieces, (length (snd (fold_left (fb_write F) pieces ([], []))) <= fb_cap)%nat.
Proof. exact fb_buf_bounded. Qed.
Theorem filter_escape_streaming : forall pieces, filter_escape pieces = escape (concat pieces).
Proof. exact filter_escape_whole. Qed.
Theorem filter_urlencode_streaming : forall pieces, filter_urlencode pieces = urlencode (concat pieces).
Proof. exact filter_urlencode_whole. Qed.
Theorem filter_base64_streaming : forall pieces, filter_base64 pieces = b64encode (concat pieces).
Proof. exact filter_base64_whole. Qed.
Theorem filter_escape_neutralises : forall pieces,
  forallb markup_free (filter_escape pieces) = true /\ unescape (filter_escape pieces) = concat pieces.
Proof. exact filter_escape_neutral. Qed.
Print Assumptions filter_escape_neutralises.
(* the block codec is not additive: this is why base64_urlencode must record the whole value first *)
Theorem b64encode_is_not_additive : b64encode ([1] ++ [2]) <> b64encode [1] ++ b64encode [2].
Proof. exact b64encode_not_additive. Qed.
Example filter_nonvacuous :
  filter_escape [[60]; repeat 97 130; [38; 62]] = escape ([60] ++ repeat 97 130 ++ [38; 62]) /\
  fst (fold_left (fb_write escape) [[60]; repeat 97 130] ([], [])) <> [].
Proof. split; [vm_compute; reflexivity|vm_compute; discriminate]. Qed.

(* 7. urldecode on arbitrary (also malformed) input: exactly what the code does, and composition with urlencode *)
Theorem urldecode_exact_behaviour :
  urldecode [] = [] /\
  (forall r, urldecode (43 :: r) = 32 :: urldecode r) /\
  (forall h1 h2 r, xdigit h1 && xdigit h2 = true ->
                   urldecode (37 :: h1 :: h2 :: r) = (hexval h1 * 16 + hexval h2) :: urldecode r) /\
  (forall h1 h2 r, xdigit h1 && xdigit h2 = false -> urldecode (37 :: h1 :: h2 :: r) = urldecode (h1 :: h2 :: r)) /\
  (forall h, urldecode [37; h] = urldecode [h]) /\
  urldecode [37] = [] /\
  (forall c r, c <> 43 -> c <> 37 -> urldecode (c :: r) = c :: urldecode r).
Proof. exact urldecode_exact. Qed.
Print Assumptions urldecode_exact_behaviour.
Theorem urldecode_output_is_bytes : forall s, bytes_ok s -> bytes_ok (urldecode s).
Proof. exact urldecode_bytes_ok. Qed.
Theorem urldecode_reencode_is_stable : forall s, bytes_ok s -> urldecode (urlencode (urldecode s)) = urldecode s.
Proof. exact urldecode_reencode_stable. Qed.
Theorem urlencode_image_is_fixed_points : forall x, bytes_ok x ->
  (urlencode (urldecode x) = x <-> exists s, bytes_ok s /\ x = urlencode s).
Proof. exact urlencode_image_iff. Qed.
Theorem urlencode_never_emits_plus : forall s, bytes_ok s -> ~ In 43 (urlencode s).
Proof. exact urlencode_no_plus. Qed.
Print Assumptions urlencode_never_emits_plus.
Example urldecode_lenient_nonvacuous :
  urldecode [43] = [32] /\ urlencode [32] = [37; 50; 48] /\ urldecode [37; 50; 48] = [32] /\
  urldecode [37] = [] /\ urldecode [37; 65] = [65] /\ urldecode [37; 65; 71] = [65; 71] /\
  urldecode [37; 37; 52; 49] = [65] /\
  urldecode [37; 52; 97] = [74] /\ urldecode [37; 52; 65] = [74] /\ urlencode [74] = [74].
Proof. exact urldecode_lenient_examples. Qed.

(* 8. base64url canonical form: the decoder accepts more than the encoder produces; exactly the canonical strings
      (alphabet only, length mod 4 <> 1, unused low bits of the last symbol zero) are encodings *)
Theorem b64_encode_yields_canonical : forall s, bytes_ok s -> b64_canonical (b64encode s) = true.
Proof. exact b64_encode_canonical. Qed.
Theorem b64_canonical_reencodes : forall s, b64_canonical s = true -> b64encode (b64decode s) = s.
Proof. exact b64_canonical_roundtrip. Qed.
Theorem b64_decode_injective_on_canonical_strings : forall s1 s2,
  b64_canonical s1 = true -> b64_canonical s2 = true -> b64decode s1 = b64decode s2 -> s1 = s2.
Proof. exact b64_decode_injective_on_canonical. Qed.
Theorem b64_accepted_is_encoding_iff_canonical : forall s b,
  decode_str s = Some b -> (b64encode b = s <-> b64_canonical s = true).
Proof. exact decode_str_canonical. Qed.
Print Assumptions b64_accepted_is_encoding_iff_canonical.
Theorem b64_decode_output_is_bytes : forall s, bytes_ok (b64decode s).
Proof. exact b64decode_bytes_ok. Qed.
(* full-strength statement "decode s = Some b -> encode b = s" is REFUTED by the faithful model (and replayed on the
   implementation: corpus/C15/regress.case): stray bits in the last symbol and bytes outside the alphabet are accepted *)
Theorem b64_decode_injective_refuted : exists s1 s2 b,
  s1 <> s2 /\ forallb b64_alphabet_ok s1 = true /\ forallb b64_alphabet_ok s2 = true /\
  decode_str s1 = Some b /\ decode_str s2 = Some b.
Proof. exact b64_decode_not_injective. Qed.
Theorem b64_decode_accepts_noncanonical :
  (decode_str [81;82] = Some [65] /\ decode_str [81;81] = Some [65] /\ b64encode [65] = [81;81]) /\
  (decode_str [81;61;43;47] = decode_str [81;65;65;65] /\ b64_alphabet_ok 61 = false).
Proof. split; [exact b64_decode_accepts_stray_bits|exact b64_decode_accepts_non_alphabet]. Qed.
Print Assumptions b64_decode_accepts_noncanonical.

(* 8b. how many bytes the pointer variant of decode writes, for every input length: decoded_size for the valid lengths,
       and n/4*3 + 3 for the length decoded_size reports as invalid (the one-symbol tail writes three bytes: a caller must
       not call the pointer variant when decoded_size is negative; the std::string variant does not) *)
Theorem b64_pointer_decode_write_count : forall s,
  N.of_nat (length (b64decode s)) = decode_write_count (N.of_nat (length s)).
Proof. exact b64decode_length. Qed.
Theorem b64_write_count_is_decoded_size : forall n d, decoded_size n = Some d -> decode_write_count n = d.
Proof. exact decode_write_count_valid. Qed.
Theorem b64_string_decode_rejects_exactly : forall s, decode_str s = None <-> N.of_nat (length s) mod 4 = 1.
Proof. exact decode_str_rejects_exactly. Qed.
Print Assumptions b64_string_decode_rejects_exactly.

(* 9. a rendered value can never terminate the context it is rendered in (double-quoted attribute / element text) *)
Theorem escaped_value_has_no_terminator : forall d s, (d = 34 \/ d = 39 \/ d = 60 \/ d = 62) -> ~ In d (escape s).
Proof. exact escape_no_byte. Qed.
Theorem widget_slot_confined : forall k v tail,
  take_until (slot_end k) (escape v ++ slot_close k ++ tail) = (escape v, slot_close k ++ tail).
Proof. exact slot_confined. Qed.
Theorem widget_slot_value_recovered : forall k v tail,
  unescape (fst (take_until (slot_end k) (escape v ++ slot_close k ++ tail))) = v.
Proof. exact slot_value_recovered. Qed.
Print Assumptions widget_slot_value_recovered.
Theorem single_quoted_attribute_confined : forall v tail, take_until 39 (escape v ++ 39 :: tail) = (escape v, 39 :: tail).
Proof. exact squote_attr_confined. Qed.
(* limit of the escape function: in an UNQUOTED attribute a value with a space is not confined (the widgets never
   render a value unquoted: widget_ctx, tied by the context bytes the harness reports) *)
Theorem unquoted_attribute_not_confined : escape [97; 32; 111; 110; 120; 61; 49] = [97; 32; 111; 110; 120; 61; 49].
Proof. exact escape_unquoted_attr_not_confined. Qed.
Example slot_nonvacuous :
  take_until 34 (tl (tl (render_slot AttrDq [34; 32; 111; 110; 120; 61; 34])) ++ [32; 47; 62])
  = (escape [34; 32; 111; 110; 120; 61; 34], [34; 32; 47; 62]) /\ escape [34] <> [34].
Proof. split; [vm_compute; reflexivity|vm_compute; discriminate]. Qed.

(* 10. failing / short-writing sinks: a sink that accepts `room` bytes receives exactly the first `room` bytes of the
       whole result, and success is reported exactly when everything fitted - for util::escape(begin,end,streambuf&)
       and for the template filters with a value streamed in any pieces *)
Theorem escape_failing_sink_exact : forall room s,
  escape_stream room s = (firstn room (escape s), Nat.leb (length (escape s)) room).
Proof. exact escape_stream_exact. Qed.
Theorem filterbuf_failing_sink_exact : forall (F : list N -> list N) (room : nat),
  (forall a b, F (a ++ b) = F a ++ F b) -> forall pieces,
  fbs_run F room pieces = (firstn room (F (concat pieces)), Nat.leb (length (F (concat pieces))) room).
Proof. exact fbs_run_additive. Qed.
Print Assumptions filterbuf_failing_sink_exact.
Theorem filter_escape_failing_sink : forall room pieces,
  filter_escape_sink room pieces = (firstn room (escape (concat pieces)), Nat.leb (length (escape (concat pieces))) room).
Proof. exact filter_escape_sink_exact. Qed.
Theorem filter_urlencode_failing_sink : forall room pieces,
  filter_urlencode_sink room pieces = (firstn room (urlencode (concat pieces)), Nat.leb (length (urlencode (concat pieces))) room).
Proof. exact filter_urlencode_sink_exact. Qed.
(* util::urlencode(b,e,streambuf&): the sink gets the first room bytes and the call reports success exactly when the
   whole encoding reached the sink (repaired in /repo dd45f86; before, the statement was refuted) *)
Theorem urlencode_streambuf_reports_failure : forall room s,
  urlencode_stream room s = (firstn room (urlencode s), Nat.leb (length (urlencode s)) room) /\
  (snd (urlencode_stream room s) = true <-> fst (urlencode_stream room s) = urlencode s).
Proof. exact urlencode_stream_reports. Qed.
(* after a template filter the stream is in good state exactly when the whole filtered value fitted into the sink
   (repaired in /repo 80bcd05: the error state survives the re-seating of the stream buffer) *)
Theorem filter_stream_state_reports_failure : forall room pieces,
  filter_escape_stream_ok room pieces = Nat.leb (length (escape (concat pieces))) room /\
  filter_urlencode_stream_ok room pieces = Nat.leb (length (urlencode (concat pieces))) room /\
  filter_base64_stream_ok room pieces = Nat.leb (length (b64encode (concat pieces))) room.
Proof. exact filter_stream_ok_exact. Qed.
(* a filter applied to a stream that has already failed writes nothing, whatever the value, its pieces and the sink,
   and leaves the stream failed (same repair) *)
Theorem filter_on_failed_stream_writes_nothing : forall (F : list N -> list N) (room : nat),
  (forall a b, F (a ++ b) = F a ++ F b) -> forall pieces, fbs_run_failed F room pieces = ([], false).
Proof. exact fbs_run_failed_nothing. Qed.
Theorem filters_on_failed_stream_write_nothing : forall v,
  filter_on_failed_stream escape v = ([], false) /\ filter_on_failed_stream urlencode v = ([], false) /\
  filter_base64_on_failed_stream v = ([], false).
Proof. exact filter_on_failed_stream_nothing. Qed.
Print Assumptions filters_on_failed_stream_write_nothing.
(* the witnesses of the former refutations, now with the correct results (also replayed on the implementation:
   corpus/C15/regress.case, docs/C15_finding_1.case, docs/C15_finding_2.case) *)
Example repaired_witnesses_regression :
  urlencode_stream 0 [97] = ([], false) /\
  filter_escape_sink 0 [[60]] = ([], false) /\ filter_escape_stream_ok 0 [[60]] = false /\
  filter_urlencode_sink 2 [[32]] = ([37; 50], false) /\ filter_urlencode_stream_ok 2 [[32]] = false /\
  filter_on_failed_stream escape [60; 97; 62] = ([], false).
Proof. vm_compute. repeat split. Qed.
Theorem filter_escape_failing_sink_prefix : forall room pieces, exists rest,
  escape (concat pieces) = fst (filter_escape_sink room pieces) ++ rest /\
  (snd (filter_escape_sink room pieces) = true -> rest = []).
Proof. exact filter_sink_prefix. Qed.
Print Assumptions filter_escape_failing_sink_prefix.
Example failing_sink_nonvacuous :
  filter_escape_sink 5 [[60]; [97; 62]] = ([38; 108; 116; 59; 97], false) /\ filter_escape_sink 9 [[60]; [97; 62]] = (escape [60; 97; 62], true).
Proof. split; vm_compute; reflexivity. Qed.

(* 11. the rendering skeleton of all 19 value slots of src/form.cpp as the harness sets the widgets up (text: value, input
       part alone, message without and with a label, help, error message; textarea; hidden; checkbox; submit; select / select_multiple / radio: id,
       text, translated text), both doctypes, as_p and as_table: the HTML is  pre ++ escape v ++ post  with pre/post
       independent of the value; the slot is in the context widget_ctx says (inside a tag right after the equals sign and the
       opening double quote and followed by the closing one, or outside any tag); in an attribute a tokenizer at the slot reads exactly escape v up to
       the closing quote; in element text no tag can begin or end inside the value; un-escaping gives v; and the
       number of markup delimiters in the whole rendering does not depend on the value *)
Theorem widget_rendering_confines_value : forall kind mode v h, render_full kind mode v = Some h ->
  exists pre post, h = pre ++ escape v ++ post /\
    (forall v', render_full kind mode v' = Some (pre ++ escape v' ++ post)) /\
    slot_context_ok (widget_ctx kind) pre post = true /\
    match widget_ctx kind with
    | AttrDq => take_until 34 (escape v ++ post) = (escape v, post) /\
                unescape (fst (take_until 34 (escape v ++ post))) = v
    | ElemText => ~ In 60 (escape v) /\ ~ In 62 (escape v) /\ unescape (escape v) = v
    end.
Proof. exact render_full_confined. Qed.
Print Assumptions widget_rendering_confines_value.
Theorem widget_rendering_defined_for_all_slots : forall kind mode v, kind < 19 -> render_full kind mode v <> None.
Proof.
  intros kind mode v H. unfold render_full.
  rewrite (render_b_split kind _ _ _ (proj2 (N.ltb_lt kind 19) H)). discriminate.
Qed.
Theorem widget_markup_independent_of_value : forall kind mode v v' h h' d, (d = 34 \/ d = 39 \/ d = 60 \/ d = 62) ->
  render_full kind mode v = Some h -> render_full kind mode v' = Some h' ->
  count_occ N.eq_dec h d = count_occ N.eq_dec h' d.
Proof. exact render_full_markup_count. Qed.
Print Assumptions widget_markup_independent_of_value.
Example widget_rendering_nonvacuous :
  render_full 0 1 [34; 62] <> None /\ render_full 16 2 [60] <> render_full 16 2 [] /\ render_supported 17 = true.
Proof. split; [vm_compute; discriminate|split; [vm_compute; discriminate|reflexivity]]. Qed.

(* 12. sinks whose failure is NOT permanent: acc is an ARBITRARY accept-function of (call index, bytes in the sink so far,
       request).  For util::escape(b,e,streambuf&), util::urlencode(b,e,streambuf&) and the template filters: success
       reported -> the sink holds exactly the whole converted text; failure reported -> the sink holds the requests
       accepted before the first refused one (and the accepted part of that one), nothing after it. *)
Theorem write_calls_success : forall acc reqs idx sink i' s',
  calls_gs acc idx sink reqs = (i', s', true) -> s' = sink ++ concat reqs /\ i' = (idx + length reqs)%nat.
Proof. exact calls_gs_ok. Qed.
Theorem write_calls_stop_at_first_refusal : forall acc reqs idx sink i' s',
  calls_gs acc idx sink reqs = (i', s', false) ->
  exists pre q post k, reqs = pre ++ q :: post /\ (k < length q)%nat /\ s' = sink ++ concat pre ++ firstn k q /\
                       i' = (idx + length pre + 1)%nat.
Proof. exact calls_gs_fail. Qed.
Print Assumptions write_calls_stop_at_first_refusal.
Theorem escape_any_sink_success_is_whole : forall acc s o, escape_gs acc s = (o, true) -> o = escape s.
Proof. exact escape_gs_ok. Qed.
Theorem escape_any_sink_failure_is_call_prefix : forall acc s o, escape_gs acc s = (o, false) ->
  exists done c rest k, s = done ++ c :: rest /\ (k < length (esc1 c))%nat /\ o = escape done ++ firstn k (esc1 c).
Proof. exact escape_gs_fail. Qed.
Theorem escape_any_sink_prefix : forall acc s, exists rest,
  escape s = fst (escape_gs acc s) ++ rest /\ (snd (escape_gs acc s) = true -> rest = []) /\
  (snd (escape_gs acc s) = false -> rest <> []).
Proof. exact escape_gs_prefix. Qed.
Theorem urlencode_any_sink_success_is_whole : forall acc s o, urlencode_gs acc s = (o, true) -> o = urlencode s.
Proof. exact urlencode_gs_ok. Qed.
Theorem urlencode_any_sink_failure_is_strict_prefix : forall acc s o, urlencode_gs acc s = (o, false) ->
  exists j, (j < length (urlencode s))%nat /\ o = firstn j (urlencode s).
Proof. exact urlencode_gs_fail. Qed.
Print Assumptions urlencode_any_sink_failure_is_strict_prefix.
(* the permanent sink of groups 1 and 10 is the instance acc = room - len *)
Theorem bounded_sink_is_an_instance : forall room s, escape_gs (acc_of (SBounded room)) s = escape_stream room s.
Proof. exact escape_gs_bounded. Qed.
(* template filters, value in any pieces, any sink, any additive request function R (escape, urlencode) *)
Theorem filter_any_sink_success_is_whole : forall acc (R : list N -> list (list N)),
  (forall a b, R (a ++ b) = R a ++ R b) ->
  forall pieces sink rel, fbg_run acc R pieces = (sink, true, rel) -> sink = concat (R (concat pieces)).
Proof. exact fbg_run_ok. Qed.
Theorem filter_escape_any_sink_success : forall acc pieces sink rel,
  fbg_run acc R_escape pieces = (sink, true, rel) -> sink = escape (concat pieces).
Proof. exact filter_escape_gs_ok. Qed.
Theorem filter_urlencode_any_sink_success : forall acc pieces sink rel,
  fbg_run acc R_urlencode pieces = (sink, true, rel) -> sink = urlencode (concat pieces).
Proof. exact filter_urlencode_gs_ok. Qed.
(* failure through a filter: the sink holds EXACTLY the requests accepted before the first refused one (and the accepted part
   of that one), nothing after it, and release() reports the failure - for values of any length, in any pieces, any sink
   (since /repo 4925ae6; before, release() converted the put area a second time and the statement was refuted) *)
Theorem filter_any_sink_failure_is_call_prefix : forall acc (R : list N -> list (list N)),
  (forall a b, R (a ++ b) = R a ++ R b) ->
  forall pieces sink rel, fbg_run acc R pieces = (sink, false, rel) ->
  call_prefix (R (concat pieces)) sink /\ rel = false.
Proof. exact fbg_run_fail. Qed.
Print Assumptions filter_any_sink_failure_is_call_prefix.
Theorem filter_escape_any_sink_failure : forall acc pieces sink rel, fbg_run acc R_escape pieces = (sink, false, rel) ->
  exists done c rest k, concat pieces = done ++ c :: rest /\ (k < length (esc1 c))%nat /\
                        sink = escape done ++ firstn k (esc1 c).
Proof. exact filter_escape_gs_fail. Qed.
Theorem filter_any_sink_status_flags_agree : forall acc R pieces sink st rel, fbg_run acc R pieces = (sink, st, rel) -> st = rel.
Proof. exact fbg_run_flags. Qed.
(* the witness of the former refutation, now with the correct result (also corpus/C15/regress.case, docs/C15_finding_3.case):
   140 bytes into a sink that refuses call number 100 once: exactly the first 100 bytes, failure, release() says -1 *)
Example filter_no_redelivery_regression :
  fbg_run (acc_of (SKthFails 100)) R_escape [map (fun n => N.of_nat n + 65) (seq 0 140)]
  = (map (fun n => N.of_nat n + 65) (seq 0 100), false, false).
Proof. exact filter_gs_no_redelivery_example. Qed.
(* the input of the second-round seeded change: ab<c into an all-or-nothing sink with room for 3 bytes: the entity is
   refused, escape stops and reports failure (a version that goes on delivers abc and reports success) *)
Example nonpermanent_sink_nonvacuous : escape_gs (acc_of (SAllOrNothing 3)) [97;98;60;99] = ([97;98], false).
Proof. exact escape_gs_all_or_nothing_example. Qed.
