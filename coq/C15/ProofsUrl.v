(* C15 step 3: what urldecode does on EVERY shape of input (also malformed), and how it composes with urlencode *)
From CppcmsV Require Import Base.Tac Base.CSem Base.Sweep C15.Defs C15.Proofs.
Local Open Scope N_scope.

Lemma urldecode_exact :
  urldecode [] = [] /\
  (forall r, urldecode (43 :: r) = 32 :: urldecode r) /\
  (forall h1 h2 r, xdigit h1 && xdigit h2 = true ->
                   urldecode (37 :: h1 :: h2 :: r) = (hexval h1 * 16 + hexval h2) :: urldecode r) /\
  (forall h1 h2 r, xdigit h1 && xdigit h2 = false -> urldecode (37 :: h1 :: h2 :: r) = urldecode (h1 :: h2 :: r)) /\
  (forall h, urldecode [37; h] = urldecode [h]) /\
  urldecode [37] = [] /\
  (forall c r, c <> 43 -> c <> 37 -> urldecode (c :: r) = c :: urldecode r).
Proof.
  split; [reflexivity|]. split; [reflexivity|].
  split; [intros h1 h2 r X; cbn [urldecode]; change (37 =? 43) with false; change (37 =? 37) with true; cbv iota; rewrite X; reflexivity|].
  split; [intros h1 h2 r X; cbn [urldecode]; change (37 =? 43) with false; change (37 =? 37) with true; cbv iota; rewrite X; reflexivity|].
  split; [reflexivity|]. split; [reflexivity|].
  intros c r H1 H2. cbn [urldecode]. apply N.eqb_neq in H1, H2. rewrite H1, H2. reflexivity.
Qed.

Lemma hexval_xdigit_lt16 h : h < 256 -> xdigit h = true -> hexval h < 16.
Proof.
  intros H X.
  pose proof (sweep256 (fun h => implb (xdigit h) (hexval h <? 16)) ltac:(vm_compute; reflexivity) h H) as P.
  cbv beta in P. rewrite X in P. cbn [implb] in P. apply N.ltb_lt. exact P.
Qed.

Lemma urldecode_bytes_ok_aux n : forall s, (length s <= n)%nat -> bytes_ok s -> bytes_ok (urldecode s).
Proof.
  induction n as [|n IH]; intros s Hl Hs.
  - destruct s; [constructor|cbn [length] in Hl; lia].
  - destruct s as [|c r]; [constructor|].
    apply bytes_ok_cons in Hs. destruct Hs as [Hc Hr]. cbn [length] in Hl. cbn [urldecode].
    destruct (c =? 43); [apply bytes_ok_cons; split; [lia|apply IH; [lia|exact Hr]]|].
    destruct (c =? 37).
    + destruct r as [|h1 [|h2 r2]].
      * constructor.
      * apply IH; [cbn [length] in *; lia|exact Hr].
      * destruct (xdigit h1 && xdigit h2) eqn:X.
        -- apply bytes_ok_cons in Hr. destruct Hr as [H1 Hr]. apply bytes_ok_cons in Hr. destruct Hr as [H2 Hr2].
           apply andb_true_iff in X. destruct X as [X1 X2].
           pose proof (hexval_xdigit_lt16 h1 H1 X1). pose proof (hexval_xdigit_lt16 h2 H2 X2).
           apply bytes_ok_cons; split; [lia|apply IH; [cbn [length] in *; lia|exact Hr2]].
        -- apply IH; [cbn [length] in *; lia|exact Hr].
    + apply bytes_ok_cons; split; [exact Hc|apply IH; [lia|exact Hr]].
Qed.
Lemma urldecode_bytes_ok s : bytes_ok s -> bytes_ok (urldecode s).
Proof. apply (urldecode_bytes_ok_aux (length s)). lia. Qed.

(* outside the image of urlencode the decoder is lenient, but re-encoding what it returned is stable *)
Lemma urldecode_reencode_stable s : bytes_ok s -> urldecode (urlencode (urldecode s)) = urldecode s.
Proof. intros H. apply urldecode_urlencode. apply urldecode_bytes_ok. exact H. Qed.

(* the image of urlencode = the fixed points of  urlencode o urldecode  (canonical encodings) *)
Lemma urlencode_image_iff x : bytes_ok x ->
  (urlencode (urldecode x) = x <-> exists s, bytes_ok s /\ x = urlencode s).
Proof.
  intros Hx. split.
  - intros E. exists (urldecode x). split; [apply urldecode_bytes_ok; exact Hx|symmetry; exact E].
  - intros [s [Hs ->]]. rewrite urldecode_urlencode by exact Hs. reflexivity.
Qed.

(* the encoder never produces a plus sign (space becomes %20), the decoder maps it to a space: two spellings *)
Lemma urlencode_no_plus s : bytes_ok s -> ~ In 43 (urlencode s).
Proof.
  intros Hs Hin. pose proof (urlencode_alphabet s Hs) as A.
  rewrite forallb_forall in A. specialize (A 43 Hin). vm_compute in A. discriminate.
Qed.
Lemma urldecode_lenient_examples :
  urldecode [43] = [32] /\ urlencode [32] = [37; 50; 48] /\ urldecode [37; 50; 48] = [32] /\   (* + and %20 *)
  urldecode [37] = [] /\ urldecode [37; 65] = [65] /\ urldecode [37; 65; 71] = [65; 71] /\       (* % , %A , %AG : the percent sign is dropped *)
  urldecode [37; 37; 52; 49] = [65] /\                                                         (* %%41 *)
  urldecode [37; 52; 97] = [74] /\ urldecode [37; 52; 65] = [74] /\ urlencode [74] = [74].       (* %4a, %4A, J *)
Proof. vm_compute. repeat split. Qed.
