From CppcmsV Require Import Base.Tac Base.CSem Base.Sweep C15.Defs.
Local Open Scope N_scope.

(* ------------------------------------------------------------------ escape *)
Lemma esc1_cases c :
  (c = 60 /\ esc1 c = [38;108;116;59]) \/ (c = 62 /\ esc1 c = [38;103;116;59]) \/
  (c = 38 /\ esc1 c = [38;97;109;112;59]) \/ (c = 34 /\ esc1 c = [38;113;117;111;116;59]) \/
  (c = 39 /\ esc1 c = [38;35;51;57;59]) \/
  (c <> 60 /\ c <> 62 /\ c <> 38 /\ c <> 34 /\ c <> 39 /\ esc1 c = [c]).
Proof.
  unfold esc1.
  destruct (N.eqb_spec c 60); [left; split; [assumption|reflexivity]|].
  destruct (N.eqb_spec c 62); [right; left; split; [assumption|reflexivity]|].
  destruct (N.eqb_spec c 38); [do 2 right; left; split; [assumption|reflexivity]|].
  destruct (N.eqb_spec c 34); [do 3 right; left; split; [assumption|reflexivity]|].
  destruct (N.eqb_spec c 39); [do 4 right; left; split; [assumption|reflexivity]|].
  do 5 right. repeat split; assumption.
Qed.

Lemma escape_app a b : escape (a ++ b) = escape a ++ escape b.
Proof. unfold escape. apply flat_map_app. Qed.

Lemma escape_concat chunks : escape (concat chunks) = concat (map escape chunks).
Proof.
  induction chunks as [|c cs IH]; simpl; [reflexivity|].
  rewrite escape_app, IH. reflexivity.
Qed.

Lemma escape_markup_free s : forallb markup_free (escape s) = true.
Proof.
  induction s as [|c s IH]; [reflexivity|].
  change (escape (c :: s)) with (esc1 c ++ escape s).
  rewrite forallb_app, IH, andb_true_r.
  destruct (esc1_cases c) as [[-> ->]|[[-> ->]|[[-> ->]|[[-> ->]|[[-> ->]|(H1&H2&H3&H4&H5&->)]]]]];
    try reflexivity.
  cbn [forallb]. rewrite andb_true_r. unfold markup_free.
  rewrite <- N.eqb_neq in *. rewrite H1, H2, H4, H5. reflexivity.
Qed.

Lemma unescape_step c t : unescape_aux 0 (esc1 c ++ t) = c :: unescape_aux 0 t.
Proof.
  destruct (esc1_cases c) as [[-> ->]|[[-> ->]|[[-> ->]|[[-> ->]|[[-> ->]|(H1&H2&H3&H4&H5&->)]]]]];
    try reflexivity.
  cbn [app unescape_aux]. rewrite <- N.eqb_neq in H3. rewrite H3. reflexivity.
Qed.

Lemma unescape_escape s : unescape (escape s) = s.
Proof.
  unfold unescape. induction s as [|c s IH]; [reflexivity|].
  change (escape (c :: s)) with (esc1 c ++ escape s).
  rewrite unescape_step, IH. reflexivity.
Qed.

Lemma amps_step c t : amps_ok (esc1 c ++ t) = amps_ok t.
Proof.
  destruct (esc1_cases c) as [[-> ->]|[[-> ->]|[[-> ->]|[[-> ->]|[[-> ->]|(H1&H2&H3&H4&H5&->)]]]]];
    try reflexivity.
  cbn [app amps_ok]. rewrite <- N.eqb_neq in H3. rewrite H3. reflexivity.
Qed.

Lemma escape_amps_ok s : amps_ok (escape s) = true.
Proof.
  induction s as [|c s IH]; [reflexivity|].
  change (escape (c :: s)) with (esc1 c ++ escape s).
  rewrite amps_step. exact IH.
Qed.

(* streaming: whatever the sink accepted is a prefix of the whole result, and success means all *)
Lemma escape_stream_prefix room s :
  exists rest, escape s = fst (escape_stream room s) ++ rest /\
               (snd (escape_stream room s) = true -> rest = []).
Proof.
  revert room. induction s as [|c s IH]; intros room.
  - exists []. split; reflexivity.
  - cbn [escape_stream]. change (escape (c :: s)) with (esc1 c ++ escape s).
    destruct (Nat.leb (length (esc1 c)) room) eqn:E.
    + destruct (IH (room - length (esc1 c))%nat) as [rest [H1 H2]].
      destruct (escape_stream (room - length (esc1 c)) s) as [o ok]. cbn [fst snd] in *.
      exists rest. split; [|exact H2]. rewrite H1, app_assoc. reflexivity.
    + cbn [fst snd]. exists (skipn room (esc1 c) ++ escape s). split; [|discriminate].
      rewrite app_assoc, firstn_skipn. reflexivity.
Qed.

(* ------------------------------------------------------------------ urlencode *)
Lemma hexdig_xdigit n : n < 16 -> xdigit (hexdig n) = true /\ hexval (hexdig n) = n.
Proof.
  intros H.
  assert (forallb (fun n => xdigit (hexdig n) && (hexval (hexdig n) =? n)) (N_seq 16) = true) as S
    by (vm_compute; reflexivity).
  pose proof (sweep_N 16 _ S n H) as P. cbv beta in P.
  apply andb_true_iff in P. destruct P as [P1 P2]. apply N.eqb_eq in P2. auto.
Qed.

Lemma hexdig_alphabet n : n < 16 -> urlenc_alphabet (hexdig n) = true.
Proof.
  intros H.
  assert (forallb (fun n => urlenc_alphabet (hexdig n)) (N_seq 16) = true) as S by (vm_compute; reflexivity).
  exact (sweep_N 16 _ S n H).
Qed.

Lemma unreserved_not_special c : unreserved c = true -> (c =? 43) = false /\ (c =? 37) = false.
Proof.
  unfold unreserved. intros H.
  destruct (N.eqb_spec c 43) as [->|]; [vm_compute in H; discriminate|].
  destruct (N.eqb_spec c 37) as [->|]; [vm_compute in H; discriminate|]. auto.
Qed.

Lemma urldecode_step c t : c < 256 -> urldecode (urlenc1 c ++ t) = c :: urldecode t.
Proof.
  intros Hc. unfold urlenc1. destruct (unreserved c) eqn:U.
  - cbn [app urldecode]. destruct (unreserved_not_special c U) as [-> ->]. reflexivity.
  - assert (c / 16 < 16) as H1 by (apply N.div_lt_upper_bound; lia).
    assert (c mod 16 < 16) as H2 by (apply N.mod_lt; lia).
    destruct (hexdig_xdigit _ H1) as [X1 V1]. destruct (hexdig_xdigit _ H2) as [X2 V2].
    cbn [app urldecode]. change (37 =? 43) with false. change (37 =? 37) with true. cbv iota.
    rewrite X1, X2, V1, V2. cbn [andb]. f_equal.
    pose proof (N.div_mod c 16). lia.
Qed.

Lemma urldecode_urlencode s : bytes_ok s -> urldecode (urlencode s) = s.
Proof.
  induction s as [|c s IH]; intros H; [reflexivity|].
  apply bytes_ok_cons in H. destruct H as [Hc Hs].
  change (urlencode (c :: s)) with (urlenc1 c ++ urlencode s).
  rewrite urldecode_step by exact Hc. rewrite IH by exact Hs. reflexivity.
Qed.

Lemma urlencode_alphabet s : bytes_ok s -> forallb urlenc_alphabet (urlencode s) = true.
Proof.
  induction s as [|c s IH]; intros H; [reflexivity|].
  apply bytes_ok_cons in H. destruct H as [Hc Hs].
  change (urlencode (c :: s)) with (urlenc1 c ++ urlencode s).
  rewrite forallb_app, (IH Hs), andb_true_r. unfold urlenc1.
  destruct (unreserved c) eqn:U.
  - cbn [forallb]. unfold urlenc_alphabet. rewrite U. reflexivity.
  - assert (c / 16 < 16) as H1 by (apply N.div_lt_upper_bound; lia).
    assert (c mod 16 < 16) as H2 by (apply N.mod_lt; lia).
    cbn [forallb]. rewrite (hexdig_alphabet _ H1), (hexdig_alphabet _ H2). reflexivity.
Qed.

Lemma urlencode_app a b : urlencode (a ++ b) = urlencode a ++ urlencode b.
Proof. unfold urlencode. apply flat_map_app. Qed.

(* decoding is total and never longer than its input *)
Lemma urldecode_length_aux n : forall s, (length s <= n)%nat -> (length (urldecode s) <= length s)%nat.
Proof.
  induction n as [|n IH]; intros s H.
  - destruct s; [simpl; lia|simpl in H; lia].
  - destruct s as [|c r]; [simpl; lia|].
    cbn [urldecode]. cbn [length] in H.
    destruct (c =? 43); [cbn [length]; specialize (IH r); lia|].
    destruct (c =? 37).
    + destruct r as [|h1 [|h2 r2]].
      * simpl. lia.
      * specialize (IH [h1]). cbn [length] in *. lia.
      * destruct (xdigit h1 && xdigit h2).
        -- cbn [length] in *. specialize (IH r2). lia.
        -- specialize (IH (h1 :: h2 :: r2)). cbn [length] in *. lia.
    + cbn [length]. specialize (IH r). lia.
Qed.
Lemma urldecode_length s : (length (urldecode s) <= length s)%nat.
Proof. apply (urldecode_length_aux (length s)). lia. Qed.

(* ------------------------------------------------------------------ base64url *)
Lemma dec6_enc6 i : i < 64 -> dec6 (enc6 i) = i /\ b64_alphabet_ok (enc6 i) = true.
Proof.
  intros H.
  assert (forallb (fun i => (dec6 (enc6 i) =? i) && b64_alphabet_ok (enc6 i)) (N_seq 64) = true) as S
    by (vm_compute; reflexivity).
  pose proof (sweep_N 64 _ S i H) as P. cbv beta in P.
  apply andb_true_iff in P. destruct P as [P1 P2]. apply N.eqb_eq in P1. auto.
Qed.

Ltac six_bit :=
  match goal with
  | |- ?e < 64 => lia
  end.

Lemma bdec_benc3 a b c : a < 256 -> b < 256 -> c < 256 ->
  b64decode (benc3 a b c) = [a; b; c].
Proof.
  intros Ha Hb Hc. unfold benc3. cbn [b64decode app].
  assert (a / 4 < 64) as A0 by lia.
  assert (a mod 4 * 16 + b / 16 < 64) as A1 by lia.
  assert (b mod 16 * 4 + c / 64 < 64) as A2 by lia.
  assert (c mod 64 < 64) as A3 by lia.
  rewrite (proj1 (dec6_enc6 _ A0)), (proj1 (dec6_enc6 _ A1)), (proj1 (dec6_enc6 _ A2)), (proj1 (dec6_enc6 _ A3)).
  unfold bdec_o0, bdec_o1, bdec_o2.
  f_equal; [lia|]. f_equal; [lia|]. f_equal. lia.
Qed.

Lemma b64decode_block a b c d t :
  b64decode (a :: b :: c :: d :: t) =
  [bdec_o0 (dec6 a) (dec6 b); bdec_o1 (dec6 b) (dec6 c); bdec_o2 (dec6 c) (dec6 d)] ++ b64decode t.
Proof. reflexivity. Qed.

Lemma b64decode_benc3_app a b c t : a < 256 -> b < 256 -> c < 256 ->
  b64decode (benc3 a b c ++ t) = a :: b :: c :: b64decode t.
Proof.
  intros Ha Hb Hc. pose proof (bdec_benc3 a b c Ha Hb Hc) as H.
  unfold benc3 in *. cbn [app]. rewrite b64decode_block.
  cbn [b64decode app] in H. injection H as H0 H1 H2. rewrite H0, H1, H2. reflexivity.
Qed.

Lemma b64_decode_encode_aux n : forall s, (length s <= n)%nat -> bytes_ok s -> b64decode (b64encode s) = s.
Proof.
  induction n as [|n IH]; intros s Hl Hs.
  - destruct s; [reflexivity|simpl in Hl; lia].
  - destruct s as [|a [|b [|c r]]].
    + reflexivity.
    + apply bytes_ok_cons in Hs. destruct Hs as [Ha _].
      cbn [b64encode]. unfold benc1. cbn [b64decode].
      assert (a / 4 < 64) as A0 by lia. assert (a mod 4 * 16 < 64) as A1 by lia.
      rewrite (proj1 (dec6_enc6 _ A0)), (proj1 (dec6_enc6 _ A1)). unfold bdec_o0. f_equal. lia.
    + apply bytes_ok_cons in Hs. destruct Hs as [Ha Hs]. apply bytes_ok_cons in Hs. destruct Hs as [Hb _].
      cbn [b64encode]. unfold benc2. cbn [b64decode].
      assert (a / 4 < 64) as A0 by lia. assert (a mod 4 * 16 + b / 16 < 64) as A1 by lia.
      assert (b mod 16 * 4 < 64) as A2 by lia.
      rewrite (proj1 (dec6_enc6 _ A0)), (proj1 (dec6_enc6 _ A1)), (proj1 (dec6_enc6 _ A2)).
      unfold bdec_o0, bdec_o1. f_equal; [lia|]. f_equal. lia.
    + apply bytes_ok_cons in Hs. destruct Hs as [Ha Hs]. apply bytes_ok_cons in Hs. destruct Hs as [Hb Hs].
      apply bytes_ok_cons in Hs. destruct Hs as [Hc Hr].
      change (b64encode (a :: b :: c :: r)) with (benc3 a b c ++ b64encode r).
      rewrite b64decode_benc3_app by assumption.
      rewrite IH; [reflexivity| cbn [length] in Hl; lia | exact Hr].
Qed.

Lemma b64_decode_encode s : bytes_ok s -> b64decode (b64encode s) = s.
Proof. apply (b64_decode_encode_aux (length s)). lia. Qed.

Lemma b64_alphabet_aux n : forall s, (length s <= n)%nat -> bytes_ok s -> forallb b64_alphabet_ok (b64encode s) = true.
Proof.
  induction n as [|n IH]; intros s Hl Hs.
  - destruct s; [reflexivity|simpl in Hl; lia].
  - destruct s as [|a [|b [|c r]]].
    + reflexivity.
    + apply bytes_ok_cons in Hs. destruct Hs as [Ha _].
      cbn [b64encode]. unfold benc1. cbn [forallb].
      assert (a / 4 < 64) as A0 by lia. assert (a mod 4 * 16 < 64) as A1 by lia.
      rewrite (proj2 (dec6_enc6 _ A0)), (proj2 (dec6_enc6 _ A1)). reflexivity.
    + apply bytes_ok_cons in Hs. destruct Hs as [Ha Hs]. apply bytes_ok_cons in Hs. destruct Hs as [Hb _].
      cbn [b64encode]. unfold benc2. cbn [forallb].
      assert (a / 4 < 64) as A0 by lia. assert (a mod 4 * 16 + b / 16 < 64) as A1 by lia.
      assert (b mod 16 * 4 < 64) as A2 by lia.
      rewrite (proj2 (dec6_enc6 _ A0)), (proj2 (dec6_enc6 _ A1)), (proj2 (dec6_enc6 _ A2)). reflexivity.
    + apply bytes_ok_cons in Hs. destruct Hs as [Ha Hs]. apply bytes_ok_cons in Hs. destruct Hs as [Hb Hs].
      apply bytes_ok_cons in Hs. destruct Hs as [Hc Hr].
      change (b64encode (a :: b :: c :: r)) with (benc3 a b c ++ b64encode r).
      rewrite forallb_app. rewrite IH; [| cbn [length] in Hl; lia | exact Hr].
      unfold benc3. cbn [forallb].
      assert (a / 4 < 64) as A0 by lia.
      assert (a mod 4 * 16 + b / 16 < 64) as A1 by lia.
      assert (b mod 16 * 4 + c / 64 < 64) as A2 by lia.
      assert (c mod 64 < 64) as A3 by lia.
      rewrite (proj2 (dec6_enc6 _ A0)), (proj2 (dec6_enc6 _ A1)), (proj2 (dec6_enc6 _ A2)), (proj2 (dec6_enc6 _ A3)).
      reflexivity.
Qed.
Lemma b64_alphabet s : bytes_ok s -> forallb b64_alphabet_ok (b64encode s) = true.
Proof. apply (b64_alphabet_aux (length s)). lia. Qed.

(* exact sizes *)
Lemma encoded_size_aux n : forall s, (length s <= n)%nat ->
  N.of_nat (length (b64encode s)) = encoded_size (N.of_nat (length s)).
Proof.
  induction n as [|n IH]; intros s Hl.
  - destruct s; [reflexivity|simpl in Hl; lia].
  - destruct s as [|a [|b [|c r]]]; try reflexivity.
    change (b64encode (a :: b :: c :: r)) with (benc3 a b c ++ b64encode r).
    rewrite app_length. unfold benc3. cbn [length] in *.
    rewrite Nat2N.inj_add, IH by lia.
    replace (N.of_nat (S (S (S (length r))))) with (N.of_nat (length r) + 3) by lia.
    set (m := N.of_nat (length r)). unfold encoded_size.
    replace ((m + 3) mod 3) with (m mod 3) by (rewrite <- (N.mod_add m 1 3) by lia; f_equal; lia).
    replace ((m + 3) / 3) with (m / 3 + 1) by (rewrite <- (N.div_add m 1 3) by lia; f_equal; lia).
    generalize (m / 3); intros q. change (N.of_nat 4) with 4.
    destruct (m mod 3) as [|[[p|p|]|[p|p|]|]]; lia.
Qed.
Lemma encoded_size_exact s : N.of_nat (length (b64encode s)) = encoded_size (N.of_nat (length s)).
Proof. apply (encoded_size_aux (length s)). lia. Qed.

Lemma decoded_size_aux n : forall s, (length s <= n)%nat ->
  match decoded_size (N.of_nat (length s)) with
  | Some d => N.of_nat (length (b64decode s)) = d
  | None => N.of_nat (length s) mod 4 = 1
  end.
Proof.
  induction n as [|n IH]; intros s Hl.
  - destruct s; [reflexivity|simpl in Hl; lia].
  - destruct s as [|a [|b [|c [|d r]]]]; try reflexivity.
    rewrite b64decode_block, app_length. cbn [length] in *.
    specialize (IH r ltac:(lia)).
    replace (N.of_nat (S (S (S (S (length r)))))) with (N.of_nat (length r) + 4) by lia.
    set (m := N.of_nat (length r)) in *. unfold decoded_size in *.
    replace ((m + 4) mod 4) with (m mod 4) by (rewrite <- (N.mod_add m 1 4) by lia; f_equal; lia).
    replace ((m + 4) / 4) with (m / 4 + 1) by (rewrite <- (N.div_add m 1 4) by lia; f_equal; lia).
    change (N.of_nat (length [bdec_o0 (dec6 a) (dec6 b); bdec_o1 (dec6 b) (dec6 c); bdec_o2 (dec6 c) (dec6 d)])) with 3.
    rewrite ?Nat2N.inj_add. change (N.of_nat 3) with 3.
    revert IH. generalize (m / 4); intros q. generalize (N.of_nat (length (b64decode r))); intros z.
    destruct (m mod 4) as [|[[p|p|]|[p|p|]|]] eqn:E; intros IH; try lia.
Qed.
Lemma decoded_size_exact s :
  match decoded_size (N.of_nat (length s)) with
  | Some d => N.of_nat (length (b64decode s)) = d
  | None => N.of_nat (length s) mod 4 = 1
  end.
Proof. apply (decoded_size_aux (length s)). lia. Qed.

(* the encoder never produces a length the decoder calls invalid *)
Lemma encoded_size_valid n : decoded_size (encoded_size n) <> None.
Proof.
  unfold decoded_size, encoded_size.
  pose proof (N.mod_lt n 3 ltac:(lia)) as H3.
  destruct (n mod 3) as [|[[p|p|]|[p|p|]|]] eqn:E3; try lia.
  - replace ((n / 3 * 4) mod 4) with 0 by (symmetry; apply N.mod_mul; lia). discriminate.
  - replace ((n / 3 * 4 + 3) mod 4) with 3 by (rewrite N.add_comm, N.mod_add by lia; reflexivity). discriminate.
  - replace ((n / 3 * 4 + 2) mod 4) with 2 by (rewrite N.add_comm, N.mod_add by lia; reflexivity). discriminate.
Qed.

Lemma decode_str_encode_str s : bytes_ok s -> decode_str (encode_str s) = Some s.
Proof.
  intros H. unfold decode_str, encode_str.
  rewrite encoded_size_exact.
  destruct (decoded_size (encoded_size (N.of_nat (length s)))) eqn:E.
  - rewrite b64_decode_encode by exact H. reflexivity.
  - exfalso. exact (encoded_size_valid _ E).
Qed.
