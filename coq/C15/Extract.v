Require Extraction.
Require Import ExtrOcamlBasic.
From Coq Require Import NArith ZArith List.
From CppcmsV Require Import C15.Defs.
Definition keep_types : (N * Z * nat) := (0%N, 0%Z, 0%nat).
Extraction "c15m.ml" keep_types escape escape_stream unescape amps_ok markup_free urlencode urldecode urlenc_alphabet
  b64encode b64decode encoded_size decoded_size encode_str decode_str b64_alphabet_ok.
