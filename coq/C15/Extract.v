Require Extraction.
Require Import ExtrOcamlBasic.
Require Import ExtrOcamlString.  (* Coq string literals of the widget skeleton -> char list; avoids a type named string in the extracted module *)
From Coq Require Import NArith ZArith List.
From CppcmsV Require Import C15.Defs.
Definition keep_types : (N * Z * nat) := (0%N, 0%Z, 0%nat).
Extraction "c15m.ml" keep_types escape escape_stream unescape amps_ok markup_free urlencode urldecode urlenc_alphabet
  b64encode b64decode encoded_size decoded_size encode_str decode_str b64_alphabet_ok
  b64_canonical filter_escape filter_urlencode filter_base64 widget_ctx render_slot take_until
  filter_escape_sink filter_urlencode_sink filter_base64_sink render_full render_supported
  filter_escape_stream_ok filter_urlencode_stream_ok filter_base64_stream_ok filter_on_failed_stream filter_base64_on_failed_stream urlencode_stream
  escape_gs urlencode_gs fbg_run R_escape R_urlencode filter_base64_gs acc_of.
